(** C11 tie -- semantics of the statement language of Registrars/Syntax.v and the obligations
    that connect the hook implementations REGENERATED from
    nextline/plugin/plugins/registrars/*.py (Gen/RegistrarsFuns.v, translate/registrars_funs.py)
    to the hand-written model Registrars/Model.v.

    Shape of every obligation: for ALL model states [s] and ALL events,
        interpreting the regenerated body on [load s]  =  Some (load s', map enc_pub pubs)
    where (s', pubs) is what the model's function returns.  [load] / [enc_pub] are the (total)
    encodings of the model's state / publication types into Python values; a change of the
    source that changes a tracked expression, branch, attribute update, topic key or the order
    of publications changes the regenerated body, and the lemma about that hook no longer
    checks.

    Conventions of the encoding (they are what Events/Grammar.v abstracts):
      * an event carries only the fields the model's event has: trace_no, prompt_no,
        frame_object_id, command, prompt_text/text, and the components of the abstract payloads
        [pl] = (thread_no, task_no) and [info] = (event, file_name, line_no) as [VFld f z];
        run_no / trace_call_no / time stamps of an event are absent, so a hook that READ one
        of them would be stuck (= broken obligation);
      * a field of a dataclass built from the components of one payload must get the component
        of the same name (thread_no=event.thread_no ...), otherwise the value is not in the
        image of [enc_value];
      * `is` / `is not` are defined only against None / True / False; on numbers they are
        stuck (identity of ints is not a function of their value: seeded C11-3);
      * a list and a tuple are different values ([VList] / [VTup]): the published and stored
        active set is a tuple, `list.remove` needs a list, `tuple + list` is stuck;
      * set.pop() takes the first element of the list that represents the set (as the model:
        the keys are distinct topics), dict.popitem() the last inserted item. *)
From NL Require Import Events.Grammar Registrars.Model Registrars.Syntax Gen.RegistrarsFuns Gen.HookOrder Registrars.Order.
From NL Require Registrars.NoRaise.
Local Open Scope string_scope.
Local Open Scope list_scope.
Local Open Scope Z_scope.

(** ------------------------------------------------------------------ stores *)

Inductive cont := CVal (v : val) | CDict (d : list (Z * val)) | CSet (s : list val).
Notation store := (list (string * cont)).
Notation locals := (list (string * val)).
Notation gstore := (list (string * store)).

(** what a hook hands to the broker (keys and values as Python values) *)
Inductive gpub := GPub (k v : val) | GEnd (k : val) | GRaise (who : Z).

Fixpoint lookup {A} (l : list (string * A)) (x : string) : option A :=
  match l with
  | [] => None
  | (y, a) :: r => if String.eqb x y then Some a else lookup r x
  end.

(** replace in place (the name is known to be there: every use is guarded by a [lookup]) *)
Fixpoint st_set {A} (l : list (string * A)) (x : string) (a : A) : list (string * A) :=
  match l with
  | [] => []
  | (y, b) :: r => if String.eqb x y then (y, a) :: r else (y, b) :: st_set r x a
  end.

Inductive res (A : Type) := Ok (a : A) | Exc (x : exn) | Stuck.
Arguments Ok {A}. Arguments Exc {A}. Arguments Stuck {A}.
Definition bind {A B} (r : res A) (f : A -> res B) : res B :=
  match r with Ok a => f a | Exc x => Exc x | Stuck => Stuck end.

(** ------------------------------------------------------------------ values *)

(** a == b; None = not modelled (instances, payload components, bool against int, a literal
    against a formatted key with that prefix) *)
Definition veq (a b : val) : option bool :=
  match a, b with
  | VFld _ _, _ | _, VFld _ _ | VRec _ _, _ | _, VRec _ _ => None
  | VBool _, VInt _ | VInt _, VBool _ => None
  | VNone, VNone => Some true
  | VBool x, VBool y => Some (Bool.eqb x y)
  | VInt x, VInt y => Some (x =? y)
  | VStr x, VStr y => Some (String.eqb x y)
  | VKey p x, VKey q y => if String.eqb p q then Some (x =? y) else None
  | VStr s, VKey p _ | VKey p _, VStr s => if String.prefix p s then None else Some false
  | VTup x, VTup y => Some (zlist_eqb x y)
  | VList x, VList y => Some (zlist_eqb x y)
  | _, _ => Some false
  end.

(** a is b; determined by the values only when one side is None / True / False *)
Definition vis (a b : val) : option bool :=
  match a, b with
  | VNone, VNone => Some true
  | VNone, _ | _, VNone => Some false
  | VBool x, VBool y => Some (Bool.eqb x y)
  | VBool _, _ | _, VBool _ => Some false
  | _, _ => None
  end.

Definition truthy (v : val) : option bool :=
  match v with
  | VNone => Some false
  | VBool b => Some b
  | VInt z => Some (negb (z =? 0))
  | VStr s => Some (negb (String.eqb s ""))
  | VTup l | VList l => Some (match l with [] => false | _ => true end)
  | VRec _ _ | VKey _ _ => Some true
  | VFld _ _ => None
  end.

Fixpoint smem (v : val) (s : list val) : option bool :=
  match s with
  | [] => Some false
  | x :: r => match veq v x with Some true => Some true | Some false => smem v r | None => None end
  end.

Definition sfilter (v : val) (s : list val) : list val :=
  filter (fun x => negb (match veq x v with Some b => b | None => false end)) s.

Definition popitem {A} (d : list (Z * A)) : option ((Z * A) * list (Z * A)) :=
  match rev d with [] => None | kv :: r => Some (kv, rev r) end.

Definition nonempty {A} (l : list A) : bool := match l with [] => false | _ => true end.

(** dataclasses.replace: every named field must exist *)
Fixpoint set_field (fs : list (string * val)) (f : string) (v : val) : option (list (string * val)) :=
  match fs with
  | [] => None
  | (g, w) :: r => if String.eqb f g then Some ((g, v) :: r)
                   else match set_field r f v with Some r' => Some ((g, w) :: r') | None => None end
  end.
Fixpoint set_fields (fs upd : list (string * val)) : option (list (string * val)) :=
  match upd with
  | [] => Some fs
  | (f, v) :: r => match set_field fs f v with Some fs' => set_fields fs' r | None => None end
  end.

(** ------------------------------------------------------------------ expressions *)

Section Sem.
Variable rn : Z.        (* context.run_arg.run_no *)

Fixpoint eval (st : store) (lo : locals) (e : expr) {struct e} : res val :=
  let fields := fix go (l : list (string * expr)) : res (list (string * val)) :=
    match l with
    | [] => Ok []
    | (n, e') :: r => bind (eval st lo e') (fun v => bind (go r) (fun r' => Ok ((n, v) :: r')))
    end in
  match e with
  | EConst v => Ok v
  | EVar x => match lookup lo x with Some v => Ok v | None => Stuck end
  | EGetAttr e' f =>
      bind (eval st lo e') (fun v =>
        match v with VRec _ fs => match lookup fs f with Some x => Ok x | None => Stuck end | _ => Stuck end)
  | ERunNo => Ok (VInt rn)
  | ESelf a => match lookup st a with Some (CVal v) => Ok v | _ => Stuck end
  | ETuple1 e' => bind (eval st lo e') (fun v => match v with VInt z => Ok (VTup [z]) | _ => Stuck end)
  | EConcat a b =>
      bind (eval st lo a) (fun x => bind (eval st lo b) (fun y =>
        match x, y with
        | VTup l, VTup l' => Ok (VTup (l ++ l'))
        | VList l, VList l' => Ok (VList (l ++ l'))
        | _, _ => Stuck                               (* tuple + list: TypeError, not modelled *)
        end))
  | EListOf e' => bind (eval st lo e') (fun v => match v with VTup l | VList l => Ok (VList l) | _ => Stuck end)
  | ETupleOf e' => bind (eval st lo e') (fun v => match v with VTup l | VList l => Ok (VTup l) | _ => Stuck end)
  | EEq a b =>
      bind (eval st lo a) (fun x => bind (eval st lo b) (fun y =>
        match veq x y with Some c => Ok (VBool c) | None => Stuck end))
  | ENe a b =>
      bind (eval st lo a) (fun x => bind (eval st lo b) (fun y =>
        match veq x y with Some c => Ok (VBool (negb c)) | None => Stuck end))
  | EIs a b =>
      bind (eval st lo a) (fun x => bind (eval st lo b) (fun y =>
        match vis x y with Some c => Ok (VBool c) | None => Stuck end))
  | EIsNot a b =>
      bind (eval st lo a) (fun x => bind (eval st lo b) (fun y =>
        match vis x y with Some c => Ok (VBool (negb c)) | None => Stuck end))
  | ENot e' => bind (eval st lo e') (fun v => match truthy v with Some c => Ok (VBool (negb c)) | None => Stuck end)
  | ENonEmpty a =>
      match lookup st a with
      | Some (CDict d) => Ok (VBool (nonempty d))
      | Some (CSet s) => Ok (VBool (nonempty s))
      | _ => Stuck
      end
  | EIn e' a =>
      bind (eval st lo e') (fun v =>
        match lookup st a with
        | Some (CSet s) => match smem v s with Some c => Ok (VBool c) | None => Stuck end
        | Some (CDict d) => match v with
                            | VInt k => Ok (VBool (match dget d k with Some _ => true | None => false end))
                            | _ => Stuck
                            end
        | _ => Stuck
        end)
  | EDictGet a k d =>
      bind (eval st lo k) (fun kv => bind (eval st lo d) (fun dv =>
        match lookup st a, kv with
        | Some (CDict m), VInt z => Ok (match dget m z with Some v => v | None => dv end)
        | _, _ => Stuck
        end))
  | EDictIdx a k =>
      bind (eval st lo k) (fun kv =>
        match lookup st a, kv with
        | Some (CDict m), VInt z => match dget m z with Some v => Ok v | None => Exc KeyError end
        | _, _ => Stuck
        end)
  | EFKey p e' => bind (eval st lo e') (fun v => match v with VInt z => Ok (VKey p z) | _ => Stuck end)
  | EFilter x src c =>
      bind (eval st lo src) (fun v =>
        match v with
        | VTup l | VList l =>
          bind ((fix go (l : list Z) : res (list Z) :=
                   match l with
                   | [] => Ok []
                   | z :: r =>
                     bind (eval st ((x, VInt z) :: lo) c) (fun b =>
                       match truthy b with
                       | Some keep => bind (go r) (fun r' => Ok (if keep then z :: r' else r'))
                       | None => Stuck
                       end)
                   end) l) (fun l' => Ok (VList l'))
        | _ => Stuck
        end)
  | ELen e' => bind (eval st lo e') (fun v => match v with VTup l | VList l => Ok (VInt (Z.of_nat (length l))) | _ => Stuck end)
  | ENew c fs => bind (fields fs) (fun l => Ok (VRec c l))
  | EReplace e' fs =>
      bind (eval st lo e') (fun v => bind (fields fs) (fun l =>
        match v with
        | VRec c old => match set_fields old l with Some new => Ok (VRec c new) | None => Stuck end
        | _ => Stuck
        end))
  end.

(** ------------------------------------------------------------------ statements *)

Record cfg := mkCfg { c_st : store; c_lo : locals; c_out : list gpub }.
Inductive outcome := ONormal | OReturn | ORaise (x : exn).
Notation sres := (option (outcome * cfg)).      (* None = stuck *)

Definition set_lo (c : cfg) (x : string) (v : val) : cfg := mkCfg (c_st c) ((x, v) :: c_lo c) (c_out c).
Definition set_st (c : cfg) (a : string) (k : cont) : cfg := mkCfg (st_set (c_st c) a k) (c_lo c) (c_out c).
Definition emit (c : cfg) (p : gpub) : cfg := mkCfg (c_st c) (c_lo c) (c_out c ++ [p]).
Definition bind_opt (x : option string) (v : val) (c : cfg) : cfg :=
  match x with Some n => set_lo c n v | None => c end.

Definition with_val (r : res val) (c : cfg) (k : val -> sres) : sres :=
  match r with Ok v => k v | Exc x => Some (ORaise x, c) | Stuck => None end.
Definition with_opt (r : option (res val)) (c : cfg) (k : option val -> sres) : sres :=
  match r with None => k None | Some r' => with_val r' c (fun v => k (Some v)) end.

Definition exn_eqb (a b : exn) : bool :=
  match a, b with
  | KeyError, KeyError | ValueError, ValueError | AssertionError, AssertionError => true
  | _, _ => false
  end.

Fixpoint while_ (n : nat) (cond : cfg -> res val) (body : cfg -> sres) (c : cfg) : sres :=
  match n with
  | O => None                                     (* out of fuel *)
  | S n' =>
    match cond c with
    | Ok v =>
      match truthy v with
      | Some true => match body c with Some (ONormal, c') => while_ n' cond body c' | r => r end
      | Some false => Some (ONormal, c)
      | None => None
      end
    | Exc x => Some (ORaise x, c)
    | Stuck => None
    end
  end.

Fixpoint exec (fuel : nat) (s : stmt) (c : cfg) {struct s} : sres :=
  let ev := eval (c_st c) (c_lo c) in
  match s with
  | SSkip => Some (ONormal, c)
  | SSeq a b => match exec fuel a c with Some (ONormal, c') => exec fuel b c' | r => r end
  | SAssign x e => with_val (ev e) c (fun v => Some (ONormal, set_lo c x v))
  | SSetSelf a e =>
      with_val (ev e) c (fun v =>
        match lookup (c_st c) a with Some (CVal _) => Some (ONormal, set_st c a (CVal v)) | _ => None end)
  | SDictSet a k v =>
      with_val (ev k) c (fun kv => with_val (ev v) c (fun vv =>
        match lookup (c_st c) a, kv with
        | Some (CDict d), VInt z => Some (ONormal, set_st c a (CDict (dset d z vv)))
        | _, _ => None
        end))
  | SDictPop x a k d =>
      with_val (ev k) c (fun kv => with_opt (option_map ev d) c (fun dv =>
        match lookup (c_st c) a, kv with
        | Some (CDict m), VInt z =>
          match dget m z with
          | Some v => Some (ONormal, bind_opt x v (set_st c a (CDict (ddel m z))))
          | None => match dv with
                    | Some w => Some (ONormal, bind_opt x w c)
                    | None => Some (ORaise KeyError, c)
                    end
          end
        | _, _ => None
        end))
  | SPopItem xk xv a =>
      match lookup (c_st c) a with
      | Some (CDict m) =>
        match popitem m with
        | Some ((k, v), m') => Some (ONormal, set_lo (set_lo (set_st c a (CDict m')) xk (VInt k)) xv v)
        | None => Some (ORaise KeyError, c)
        end
      | _ => None
      end
  | SSetPop x a =>
      match lookup (c_st c) a with
      | Some (CSet (v :: r)) => Some (ONormal, set_lo (set_st c a (CSet r)) x v)
      | Some (CSet []) => Some (ORaise KeyError, c)
      | _ => None
      end
  | SClear a =>
      match lookup (c_st c) a with
      | Some (CDict _) => Some (ONormal, set_st c a (CDict []))
      | Some (CSet _) => Some (ONormal, set_st c a (CSet []))
      | _ => None
      end
  | SSetAdd a e =>
      with_val (ev e) c (fun v =>
        match lookup (c_st c) a with
        | Some (CSet s) =>
          match smem v s with
          | Some true => Some (ONormal, c)
          | Some false => Some (ONormal, set_st c a (CSet (s ++ [v])))
          | None => None
          end
        | _ => None
        end)
  | SSetRemove a e =>
      with_val (ev e) c (fun v =>
        match lookup (c_st c) a with
        | Some (CSet s) =>
          match smem v s with
          | Some true => Some (ONormal, set_st c a (CSet (sfilter v s)))
          | Some false => Some (ORaise KeyError, c)
          | None => None
          end
        | _ => None
        end)
  | SSetDiscard a e =>
      with_val (ev e) c (fun v =>
        match lookup (c_st c) a with
        | Some (CSet s) =>
          match smem v s with
          | Some _ => Some (ONormal, set_st c a (CSet (sfilter v s)))
          | None => None
          end
        | _ => None
        end)
  | SListRemove x e =>
      with_val (ev e) c (fun v =>
        match lookup (c_lo c) x, v with
        | Some (VList l), VInt z =>
          if existsb (Z.eqb z) l then Some (ONormal, set_lo c x (VList (remove_first l z)))
          else Some (ORaise ValueError, c)
        | _, _ => None
        end)
  | SPublish k v =>
      with_val (ev k) c (fun kv => with_val (ev v) c (fun vv => Some (ONormal, emit c (GPub kv vv))))
  | SEnd k => with_val (ev k) c (fun kv => Some (ONormal, emit c (GEnd kv)))
  | SIf cnd a b =>
      with_val (ev cnd) c (fun v =>
        match truthy v with Some true => exec fuel a c | Some false => exec fuel b c | None => None end)
  | SWhile cnd b => while_ fuel (fun c' => eval (c_st c') (c_lo c') cnd) (exec fuel b) c
  | STry b x h =>
      match exec fuel b c with
      | Some (ORaise y, c') => if exn_eqb x y then exec fuel h c' else Some (ORaise y, c')
      | r => r
      end
  | SAssert cnd =>
      with_val (ev cnd) c (fun v =>
        match truthy v with
        | Some true => Some (ONormal, c)
        | Some false => Some (ORaise AssertionError, c)
        | None => None
        end)
  | SReturn => Some (OReturn, c)
  end.

(** ------------------------------------------------------------------ hooks *)

Definition csize (k : cont) : nat :=
  match k with CVal _ => 0 | CDict d => length d | CSet s => length s end.
(** a loop of a registrar drains one of its containers: more iterations than there are items
    in the store is "out of fuel" (stuck) *)
Definition fuel_of (st : store) : nat := S (fold_right (fun ac n => csize (snd ac) + n)%nat 0%nat st).

Fixpoint bind_params (ps : list string) (args : locals) : option locals :=
  match ps with
  | [] => Some []
  | p :: r => match lookup args p, bind_params r args with
              | Some v, Some l => Some ((p, v) :: l)
              | _, _ => None
              end
  end.

(** one hook implementation on the state of its registrar: pluggy passes the arguments by
    name; an exception ends the implementation ([GRaise who] stands for it, the state is the
    one reached when it was raised) *)
Definition run_hook (who : Z) (h : hookimpl) (args : locals) (st : store) : option (store * list gpub) :=
  match bind_params (h_params h) args with
  | None => None
  | Some lo =>
    match exec (fuel_of st) (h_body h) (mkCfg st lo []) with
    | Some (ORaise _, c) => Some (c_st c, c_out c ++ [GRaise who])
    | Some (_, c) => Some (c_st c, c_out c)
    | None => None
    end
  end.

Definition find_reg (c : string) : option registrar := find (fun g => String.eqb (g_name g) c) registrars.
Definition find_hook (g : registrar) (h : string) : option hookimpl :=
  find (fun x => String.eqb (h_name x) h) (g_hooks g).

Fixpoint index_of (c : string) (l : list string) (n : Z) : Z :=
  match l with
  | [] => 0
  | x :: r => if String.eqb c x then n else index_of c r (n + 1)
  end.
(** position of the class in the registration order (1-based): the [who] of Model.Raise *)
Definition who_of (c : string) : Z := index_of c plugin_order 1.

Definition run_class (c h : string) (args : locals) (st : store) : option (store * list gpub) :=
  match find_reg c with
  | None => None
  | Some g =>
    match find_hook g h with
    | None => Some (st, [])
    | Some hi => run_hook (who_of c) hi args st
    end
  end.

(** the implementations of hook [h] of the classes [cs], one after the other (none of them
    suspends: Model.v header), each on its own registrar's state *)
Fixpoint run_classes (cs : list string) (h : string) (args : locals) (G : gstore) : option (gstore * list gpub) :=
  match cs with
  | [] => Some (G, [])
  | c :: r =>
    match lookup G c with
    | None => None
    | Some st =>
      match run_class c h args st with
      | None => None
      | Some (st', p) =>
        match run_classes r h args (st_set G c st') with
        | None => None
        | Some (G', q) => Some (G', p ++ q)
        end
      end
    end
  end.

(** `await ahook.h(...)`: the implementations in pluggy's call order, from the generated
    registration table (Gen/HookOrder.v through Registrars/Order.v) *)
Definition call_hook (h : string) (args : locals) (G : gstore) : option (gstore * list gpub) :=
  run_classes (call_order h) h args G.

End Sem.

(** ------------------------------------------------------------------ encodings of the model's types *)

Definition event_class (e : event) : string :=
  match e with
  | StartTrace _ _ _ => "OnStartTrace" | EndTrace _ _ => "OnEndTrace"
  | StartTraceCall _ _ _ _ _ => "OnStartTraceCall" | EndTraceCall _ _ _ => "OnEndTraceCall"
  | StartCmdloop _ _ _ => "OnStartCmdloop" | EndCmdloop _ _ _ => "OnEndCmdloop"
  | StartPrompt _ _ _ _ _ => "OnStartPrompt" | EndPrompt _ _ _ _ _ => "OnEndPrompt"
  | WriteStdout _ _ _ => "OnWriteStdout"
  end.

(** the stored OnStartTraceCall of trace [t]: Model's (fid, info) *)
Definition enc_call (t : Z) (c : Z * Z) : val :=
  VRec "OnStartTraceCall" [("trace_no", VInt t); ("file_name", VFld "file_name" (snd c)); ("line_no", VFld "line_no" (snd c));
                           ("frame_object_id", VInt (fst c)); ("event", VFld "event" (snd c))].

Definition enc_event (e : event) : val :=
  match e with
  | StartTrace _ t pl => VRec "OnStartTrace" [("trace_no", VInt t); ("thread_no", VFld "thread_no" pl); ("task_no", VFld "task_no" pl)]
  | EndTrace _ t => VRec "OnEndTrace" [("trace_no", VInt t)]
  | StartTraceCall _ t _ fid info => enc_call t (fid, info)
  | EndTraceCall _ t _ => VRec "OnEndTraceCall" [("trace_no", VInt t)]
  | StartCmdloop _ t _ => VRec "OnStartCmdloop" [("trace_no", VInt t)]
  | EndCmdloop _ t _ => VRec "OnEndCmdloop" [("trace_no", VInt t)]
  | StartPrompt _ t _ p txt => VRec "OnStartPrompt" [("trace_no", VInt t); ("prompt_no", VInt p); ("prompt_text", VInt txt)]
  | EndPrompt _ t _ p cmd => VRec "OnEndPrompt" [("trace_no", VInt t); ("prompt_no", VInt p); ("command", VInt cmd)]
  | WriteStdout _ t txt => VRec "OnWriteStdout" [("trace_no", VInt t); ("text", VInt txt)]
  end.

Definition enc_topic (k : topic) : val :=
  match k with
  | TTraceNos => VStr "trace_nos" | TTraceInfo => VStr "trace_info" | TPromptInfo => VStr "prompt_info"
  | TPromptInfoFor t => VKey "prompt_info_" t | TPromptNotice => VStr "prompt_notice"
  | TRunInfo => VStr "run_info" | TStdout => VStr "stdout"
  end.

Definition enc_optz (o : option Z) : val := match o with Some z => VInt z | None => VNone end.
Definition enc_optfld (f : string) (o : option Z) : val := match o with Some z => VFld f z | None => VNone end.

Definition enc_trace_info (r t pl : Z) (running : bool) : val :=
  VRec "TraceInfo" [("run_no", VInt r); ("state", VStr (if running then "running" else "finished")); ("trace_no", VInt t);
                    ("thread_no", VFld "thread_no" pl); ("task_no", VFld "task_no" pl)].

Definition enc_pinfo (i : pinfo) : val :=
  VRec "PromptInfo" [("run_no", VInt (pi_run i)); ("trace_no", VInt (pi_trace i)); ("prompt_no", VInt (pi_no i));
                     ("open", VBool (pi_open i)); ("event", enc_optfld "event" (pi_info i));
                     ("file_name", enc_optfld "file_name" (pi_info i)); ("line_no", enc_optfld "line_no" (pi_info i));
                     ("stdout", enc_optz (pi_txt i)); ("command", enc_optz (pi_cmd i)); ("trace_call_end", VBool (pi_tce i))].

Definition ri_state (z : Z) : string :=
  if z =? 0 then "initialized" else if z =? 1 then "running" else if z =? 2 then "finished" else "(not a state of the model)".

Definition enc_value (v : value) : val :=
  match v with
  | VNos l => VTup l
  | VTraceInfo r t pl running => enc_trace_info r t pl running
  | VPromptInfo i => enc_pinfo i
  | VNotice r t p txt info =>
      VRec "PromptNotice" [("run_no", VInt r); ("trace_no", VInt t); ("prompt_no", VInt p); ("prompt_text", VInt txt);
                           ("event", VFld "event" info); ("file_name", VFld "file_name" info); ("line_no", VFld "line_no" info)]
  | VRunInfo r s => VRec "RunInfo" [("run_no", VInt r); ("state", VStr (ri_state s))]
  | VStdout r t txt => VRec "StdoutInfo" [("run_no", VInt r); ("trace_no", VInt t); ("text", VInt txt)]
  end.

Definition enc_pub (p : publication) : gpub :=
  match p with
  | Pub k v => GPub (enc_topic k) (enc_value v)
  | EndT k => GEnd (enc_topic k)
  | Raise w => GRaise w
  end.

(** ---- the registrars' states *)

Definition mapkv {A B} (f : Z -> A -> B) (d : list (Z * A)) : list (Z * B) :=
  map (fun kv => (fst kv, f (fst kv) (snd kv))) d.

Definition load_tn (l : list Z) : store := [("_trace_nos", CVal (VTup l))].

(** TraceInfoRegistrar._trace_info_map[t] is the TraceInfo published as 'running' for t *)
Definition load_ti (m : timap) : store :=
  [("_trace_info_map", CDict (mapkv (fun t v => enc_trace_info (fst v) t (snd v) true) m))].

Definition load_pi (s : PI) : store :=
  [("_last_prompt_frame_map", CDict (mapkv (fun _ f => VInt f) (pi_frame s)));
   ("_trace_call_map", CDict (mapkv enc_call (pi_call s)));
   ("_prompt_info_map", CDict (mapkv (fun _ i => enc_pinfo i) (pi_prompt s)));
   ("_keys", CSet (map (VKey "prompt_info_") (pi_keys s)))].

Definition load_pn (m : pnmap) : store := [("_trace_call_map", CDict (mapkv enc_call m))].

(** RunInfoRegistrar._run_info: the model keeps the state only; the stored run_no is the one
    of the run's context (on_initialize_run stored it) *)
Definition load_ri (rn : Z) (s : option Z) : store :=
  [("_run_info", CVal (match s with Some z => enc_value (VRunInfo rn z) | None => VNone end))].

Definition loadR (rn : Z) (s : R) : gstore :=
  [("StdoutRegistrar", []); ("PromptNoticeRegistrar", load_pn (r_pn s)); ("PromptInfoRegistrar", load_pi (r_pi s));
   ("TraceInfoRegistrar", load_ti (r_ti s)); ("TraceNumbersRegistrar", load_tn (r_tn s));
   ("RunInfoRegistrar", load_ri rn (r_ri s)); ("RunNoRegistrar", []); ("StateNameRegistrar", []); ("ScriptRegistrar", [])].

(** PIN: the encoded state has exactly the classes (registration order) and the tracked
    attributes (with their kinds) that the translator found in the source *)
Definition kind_of (k : cont) : kind := match k with CVal _ => KVal | CDict _ => KDict | CSet _ => KSet end.
Lemma loadR_shape : forall rn s,
  map (fun cs => (fst cs, map (fun ak => (fst ak, kind_of (snd ak))) (snd cs))) (loadR rn s) =
  map (fun g => (g_name g, g_attrs g)) registrars.
Proof. intros. reflexivity. Qed.

(** PIN (two regenerated tables agree): the dispatch table is the one of Gen/HookOrder.v (tied to
    the model in Registrars/Order.v) *)
Lemma dispatch_same : funs_dispatch = on_event_dispatch.
Proof. reflexivity. Qed.

(** `await ahook.on_event_in_process(context, event)`: OnEvent looks the class up in its
    `match` and awaits that hook (an unknown class is logged and dropped) *)
Definition run_event (rn : Z) (G : gstore) (e : event) : option (gstore * list gpub) :=
  match lookup funs_dispatch (event_class e) with
  | None => Some (G, [])
  | Some h => call_hook rn h [("event", enc_event e)] G
  end.

(** ------------------------------------------------------------------ container lemmas *)

Lemma dget_mapkv : forall A B (f : Z -> A -> B) d k, dget (mapkv f d) k = option_map (f k) (dget d k).
Proof.
  induction d as [|[k' v] r IH]; intros; simpl; auto.
  destruct (k =? k') eqn:E; auto. apply Z.eqb_eq in E. subst. reflexivity.
Qed.

Lemma dset_mapkv : forall A B (f : Z -> A -> B) d k v, dset (mapkv f d) k (f k v) = mapkv f (dset d k v).
Proof.
  induction d as [|[k' v'] r IH]; intros; simpl; auto.
  destruct (k =? k') eqn:E; simpl; auto. unfold mapkv in *. rewrite IH. reflexivity.
Qed.

Lemma ddel_mapkv : forall A B (f : Z -> A -> B) d k, ddel (mapkv f d) k = mapkv f (ddel d k).
Proof.
  induction d as [|[k' v'] r IH]; intros; simpl; auto.
  unfold ddel, mapkv in *. simpl. destruct (k' =? k); simpl; rewrite IH; reflexivity.
Qed.

Lemma popitem_snoc : forall A (d : list (Z * A)) kv, popitem (d ++ [kv]) = Some (kv, d).
Proof. intros. unfold popitem. rewrite rev_app_distr. simpl. rewrite rev_involutive. reflexivity. Qed.

Lemma mapkv_app : forall A B (f : Z -> A -> B) a b, mapkv f (a ++ b) = mapkv f a ++ mapkv f b.
Proof. intros. unfold mapkv. apply map_app. Qed.

Lemma smem_keys : forall p k s, smem (VKey p k) (map (VKey p) s) = Some (existsb (Z.eqb k) s).
Proof.
  induction s as [|x r IH]; simpl; auto.
  rewrite String.eqb_refl. destruct (k =? x); auto.
Qed.

Lemma sfilter_keys : forall p k s, sfilter (VKey p k) (map (VKey p) s) = map (VKey p) (sdel s k).
Proof.
  induction s as [|x r IH]; simpl; auto.
  unfold sfilter, sdel in *. simpl. rewrite String.eqb_refl. destruct (x =? k); simpl; rewrite IH; reflexivity.
Qed.

(** ------------------------------------------------------------------ the obligations, hook by hook *)

Arguments sfilter : simpl never.
Arguments mapkv : simpl never.
Arguments ddel : simpl never.
Arguments dget : simpl never.
Arguments dset : simpl never.
Arguments sadd : simpl never.
Arguments sdel : simpl never.
Arguments popitem : simpl never.
Arguments fuel_of : simpl never.

Ltac fin := cbn; unfold load_pi, load_ti, load_pn, load_tn, load_ri, sadd; cbn;
  rewrite <- ?ddel_mapkv, <- ?dset_mapkv, ?map_app; reflexivity.

Notation ev e := [("event", enc_event e)].
(** [tied f rn c h args st (s', pubs)]: the regenerated implementation of hook [h] by class [c],
    run on the encoded state [st], ends in the encoding of the model's result *)
Definition tied {S} (load : S -> store) (rn : Z) (c h : string) (args : locals) (s : S) (m : S * list publication) : Prop :=
  run_class rn c h args (load s) = Some (load (fst m), map enc_pub (snd m)).

(** ---- TraceNumbersRegistrar *)

Lemma tie_tn_init : forall rn l, run_class rn "TraceNumbersRegistrar" "on_initialize_run" [] (load_tn l) = Some (load_tn [], []).
Proof. reflexivity. Qed.

Lemma tie_tn_start : forall rn l r t pl,
  tied load_tn rn "TraceNumbersRegistrar" "on_start_trace" (ev (StartTrace r t pl)) l (tn_start l t).
Proof. reflexivity. Qed.

Lemma tie_tn_end : forall rn l r t,
  tied load_tn rn "TraceNumbersRegistrar" "on_end_trace" (ev (EndTrace r t)) l (tn_end l t).
Proof. intros. unfold tied, tn_end. cbn. destruct (existsb (Z.eqb t) l); reflexivity. Qed.

Lemma tie_tn_end_run : forall rn l a,
  tied load_tn rn "TraceNumbersRegistrar" "on_end_run" a l (tn_end_run l).
Proof. reflexivity. Qed.

(** ---- TraceInfoRegistrar *)

Lemma tie_ti_init : forall rn m, run_class rn "TraceInfoRegistrar" "on_initialize_run" [] (load_ti m) = Some (load_ti [], []).
Proof. reflexivity. Qed.

Lemma tie_ti_start : forall rn m r t pl,
  tied load_ti rn "TraceInfoRegistrar" "on_start_trace" (ev (StartTrace r t pl)) m (ti_start rn m t pl).
Proof. intros. unfold tied. fin. Qed.

Lemma tie_ti_end : forall rn m r t,
  tied load_ti rn "TraceInfoRegistrar" "on_end_trace" (ev (EndTrace r t)) m (ti_end m t).
Proof.
  intros. unfold tied, ti_end. cbn. rewrite dget_mapkv.
  destruct (dget m t) as [[rn' pl]|]; fin.
Qed.

(** ---- PromptInfoRegistrar *)

Lemma tie_pi_init : forall rn s,
  run_class rn "PromptInfoRegistrar" "on_initialize_run" [] (load_pi s) = Some (load_pi pi_empty, []).
Proof. reflexivity. Qed.

Lemma tie_pi_start_trace : forall rn s r t pl,
  tied load_pi rn "PromptInfoRegistrar" "on_start_trace" (ev (StartTrace r t pl)) s (pi_start_trace rn s t).
Proof.
  intros. destruct s as [fr ca pr ks]. unfold tied. cbn. rewrite smem_keys.
  destruct (existsb (Z.eqb t) ks) eqn:E; unfold sadd; cbn; rewrite E; fin.
Qed.

Lemma tie_pi_end_trace : forall rn s r t,
  tied load_pi rn "PromptInfoRegistrar" "on_end_trace" (ev (EndTrace r t)) s (pi_end_trace s t).
Proof.
  intros. destruct s as [fr ca pr ks]. unfold tied, pi_end_trace. cbn. rewrite smem_keys.
  destruct (existsb (Z.eqb t) ks) eqn:E; cbn. 2: reflexivity.
  rewrite sfilter_keys. reflexivity.
Qed.

Lemma tie_pi_start_call : forall rn s r t c fid info,
  tied load_pi rn "PromptInfoRegistrar" "on_start_trace_call" (ev (StartTraceCall r t c fid info)) s (pi_start_call s t fid info).
Proof. intros. destruct s as [fr ca pr ks]. unfold tied. fin. Qed.

Lemma tie_pi_end_call : forall rn s r t c,
  tied load_pi rn "PromptInfoRegistrar" "on_end_trace_call" (ev (EndTraceCall r t c)) s (pi_end_call rn s t).
Proof.
  intros. destruct s as [fr ca pr ks]. unfold tied, pi_end_call. cbn. rewrite dget_mapkv.
  destruct (dget ca t) as [[fid info]|]; cbn. 2: reflexivity.
  rewrite dget_mapkv. destruct (dget fr t) as [f|]; cbn.
  - destruct (fid =? f); cbn. 2: fin.
    rewrite smem_keys. unfold sadd. destruct (existsb (Z.eqb t) ks); fin.
  - fin.
Qed.

Lemma tie_pi_start_prompt : forall rn s r t c p txt,
  tied load_pi rn "PromptInfoRegistrar" "on_start_prompt" (ev (StartPrompt r t c p txt)) s (pi_start_prompt rn s t p txt).
Proof.
  intros. destruct s as [fr ca pr ks]. unfold tied, pi_start_prompt. cbn. rewrite dget_mapkv.
  destruct (dget ca t) as [[fid info]|]; cbn. 2: reflexivity.
  rewrite smem_keys. unfold sadd. destruct (existsb (Z.eqb t) ks); fin.
Qed.

Lemma tie_pi_end_prompt : forall rn s r t c p cmd,
  tied load_pi rn "PromptInfoRegistrar" "on_end_prompt" (ev (EndPrompt r t c p cmd)) s (pi_end_prompt s t p cmd).
Proof.
  intros. destruct s as [fr ca pr ks]. unfold tied, pi_end_prompt. cbn. rewrite dget_mapkv.
  destruct (dget pr p) as [i|]; cbn. 2: reflexivity.
  rewrite smem_keys. unfold sadd. destruct (existsb (Z.eqb t) ks); fin.
Qed.

(** ---- PromptNoticeRegistrar *)

Lemma tie_pn_init : forall rn m,
  run_class rn "PromptNoticeRegistrar" "on_initialize_run" [] (load_pn m) = Some (load_pn [], []).
Proof. reflexivity. Qed.

Lemma tie_pn_start_call : forall rn m r t c fid info,
  tied load_pn rn "PromptNoticeRegistrar" "on_start_trace_call" (ev (StartTraceCall r t c fid info)) m (pn_start_call m t fid info).
Proof. intros. unfold tied. fin. Qed.

Lemma ddel_absent : forall A (d : list (Z * A)) k, dget d k = None -> ddel d k = d.
Proof.
  induction d as [|[k' v] r IH]; intros; auto.
  unfold dget in H; fold (@dget A) in H. unfold ddel in *. simpl.
  rewrite (Z.eqb_sym k' k). destruct (k =? k'); [discriminate|]. simpl. rewrite IH; auto.
Qed.

Lemma tie_pn_end_call : forall rn m r t c,
  tied load_pn rn "PromptNoticeRegistrar" "on_end_trace_call" (ev (EndTraceCall r t c)) m (pn_end_call m t).
Proof.
  intros. unfold tied, pn_end_call. cbn. rewrite dget_mapkv.
  destruct (dget m t) eqn:E; cbn.
  - fin.
  - rewrite ddel_absent; auto.
Qed.

Lemma tie_pn_start_prompt : forall rn m r t c p txt,
  tied load_pn rn "PromptNoticeRegistrar" "on_start_prompt" (ev (StartPrompt r t c p txt)) m (pn_start_prompt rn m t p txt).
Proof.
  intros. unfold tied, pn_start_prompt. cbn. rewrite dget_mapkv.
  destruct (dget m t) as [[fid info]|]; reflexivity.
Qed.

Lemma tie_pn_end_run : forall rn m a,
  tied load_pn rn "PromptNoticeRegistrar" "on_end_run" a m (pn_end_run m).
Proof. reflexivity. Qed.

(** ---- StdoutRegistrar (no state) *)

Lemma tie_so_write : forall rn r t txt,
  run_class rn "StdoutRegistrar" "on_write_stdout" (ev (WriteStdout r t txt)) [] = Some ([], map enc_pub (so_write rn t txt)).
Proof. reflexivity. Qed.

(** ---- RunInfoRegistrar.  The OnStartRun / OnEndRun events carry nothing the model keeps *)

Definition run_event_arg (cls : string) : locals := [("event", VRec cls [])].

Lemma tie_ri_init : forall rn s,
  run_class rn "RunInfoRegistrar" "on_initialize_run" [] (load_ri rn s) =
  Some (load_ri rn (fst (ri_init rn)), map enc_pub (snd (ri_init rn))).
Proof. intros. destruct s; reflexivity. Qed.

Lemma tie_ri_start_run : forall rn s,
  tied (load_ri rn) rn "RunInfoRegistrar" "on_start_run" (run_event_arg "OnStartRun") s (ri_start_run rn s).
Proof. intros. destruct s; reflexivity. Qed.

Lemma tie_ri_end_run : forall rn s,
  tied (load_ri rn) rn "RunInfoRegistrar" "on_end_run" (run_event_arg "OnEndRun") s (ri_end_run rn s).
Proof. intros. destruct s; reflexivity. Qed.

(** ---- RunNoRegistrar, StateNameRegistrar, ScriptRegistrar: topics outside the model *)

Lemma tie_run_no : forall rn,
  run_class rn "RunNoRegistrar" "on_initialize_run" [] [] = Some ([], [GPub (VStr "run_no") (VInt rn)]).
Proof. reflexivity. Qed.

Lemma tie_state_name : forall rn v,
  run_class rn "StateNameRegistrar" "on_change_state" [("state_name", v)] [] = Some ([], [GPub (VStr "state_name") v]).
Proof. reflexivity. Qed.

Lemma tie_script : forall rn v w,
  run_class rn "ScriptRegistrar" "on_change_script" [("script", v); ("filename", w)] [] =
  Some ([], [GPub (VStr "statement") v; GPub (VStr "script_file_name") w]).
Proof. reflexivity. Qed.

(** ---- the two draining loops of on_end_run *)

Lemma while_step : forall n cond body c v c',
  cond c = Ok v -> truthy v = Some true -> body c = Some (ONormal, c') ->
  while_ (S n) cond body c = while_ n cond body c'.
Proof. intros. simpl. rewrite H, H0, H1. reflexivity. Qed.

Lemma while_stop : forall n cond body c v,
  cond c = Ok v -> truthy v = Some false -> while_ (S n) cond body c = Some (ONormal, c).
Proof. intros. simpl. rewrite H, H0. reflexivity. Qed.

Lemma mapkv_one : forall A B (f : Z -> A -> B) k v, mapkv f [(k, v)] = [(k, f k v)].
Proof. reflexivity. Qed.

(** `while self._trace_info_map: _, info = self._trace_info_map.popitem(); publish(finished)` *)
Lemma tie_ti_end_run : forall rn m a,
  tied load_ti rn "TraceInfoRegistrar" "on_end_run" a m (ti_end_run m).
Proof.
  intros. unfold tied, ti_end_run. cbn.
  match goal with |- context [while_ ?n ?c ?b _] => set (C := c); set (B := b) end.
  assert (L : forall k (m : timap) lo out, (length m < k)%nat ->
      exists lo', while_ k C B (mkCfg (load_ti m) lo out) =
        Some (ONormal, mkCfg (load_ti []) lo'
          (out ++ map enc_pub (map (fun kv => Pub TTraceInfo (VTraceInfo (fst (snd kv)) (fst kv) (snd (snd kv)) false)) (rev m))))).
  { induction k as [|k IH]; intros m0 lo out Hk; [lia|].
    destruct (rev m0) as [|[t [r pl]] tl] eqn:Er;
      apply (f_equal (@rev _)) in Er; rewrite rev_involutive in Er; cbn in Er; subst m0.
    - exists lo. erewrite (while_stop _ _ _ _ (VBool false)); [ | reflexivity | reflexivity].
      cbn. rewrite app_nil_r. reflexivity.
    - assert (Hl : (length (rev tl) < k)%nat) by (rewrite app_length in Hk; cbn in Hk; lia).
      assert (Hc : C (mkCfg (load_ti (rev tl ++ [(t, (r, pl))])) lo out) = Ok (VBool true)).
      { unfold C. cbn. rewrite mapkv_app, mapkv_one. destruct (mapkv _ (rev tl)); reflexivity. }
      eassert (Hb : B (mkCfg (load_ti (rev tl ++ [(t, (r, pl))])) lo out) = Some (ONormal, _)).
      { unfold B. cbn. rewrite mapkv_app, mapkv_one, popitem_snoc. cbn. unfold emit, set_lo, set_st. cbn. reflexivity. }
      rewrite (while_step _ _ _ _ _ _ Hc eq_refl Hb).
      match goal with |- context [while_ k C B (mkCfg _ ?l ?o)] => destruct (IH (rev tl) l o Hl) as [lo' E] end.
      exists lo'. unfold load_ti in E |- *. rewrite E.
      rewrite ?rev_app_distr, ?rev_involutive. cbn. rewrite <- app_assoc. reflexivity. }
  match goal with |- context [while_ ?n C B ?cf] =>
    destruct (L n m [] []) as [lo' E];
    [ | change (mkCfg (load_ti m) [] []) with cf in E; rewrite E ] end.
  { unfold fuel_of, load_ti, mapkv. cbn. rewrite map_length. lia. }
  cbn. reflexivity.
Qed.

(** `while self._keys: key = self._keys.pop(); await context.pubsub.end(key)` *)
Lemma tie_pi_end_run : forall rn s a,
  tied load_pi rn "PromptInfoRegistrar" "on_end_run" a s (pi_end_run s).
Proof.
  intros. destruct s as [fr ca pr ks]. unfold tied, pi_end_run. cbn.
  match goal with |- context [while_ ?n ?c ?b _] => set (C := c); set (B := b) end.
  assert (L : forall k ks lo out, (length ks < k)%nat ->
      exists lo', while_ k C B (mkCfg (load_pi (mkPI fr ca pr ks)) lo out) =
        Some (ONormal, mkCfg (load_pi (mkPI fr ca pr [])) lo'
          (out ++ map enc_pub (map (fun t => EndT (TPromptInfoFor t)) ks)))).
  { induction k as [|k IH]; intros ks0 lo out Hk; [lia|].
    destruct ks0 as [|t tl].
    - exists lo. erewrite (while_stop _ _ _ _ (VBool false)); [ | reflexivity | reflexivity].
      cbn. rewrite app_nil_r. reflexivity.
    - assert (Hl : (length tl < k)%nat) by (cbn in Hk; lia).
      assert (Hc : C (mkCfg (load_pi (mkPI fr ca pr (t :: tl))) lo out) = Ok (VBool true)) by reflexivity.
      eassert (Hb : B (mkCfg (load_pi (mkPI fr ca pr (t :: tl))) lo out) = Some (ONormal, _)).
      { unfold B. cbn. unfold emit, set_lo, set_st. cbn. reflexivity. }
      rewrite (while_step _ _ _ _ _ _ Hc eq_refl Hb).
      match goal with |- context [while_ k C B (mkCfg _ ?l ?o)] => destruct (IH tl l o Hl) as [lo' E] end.
      exists lo'. unfold load_pi in E |- *. cbn in E |- *. rewrite E.
      rewrite <- app_assoc. reflexivity. }
  match goal with |- context [while_ ?n C B ?cf] =>
    destruct (L n ks [] []) as [lo' E];
    [ | change (mkCfg (load_pi (mkPI fr ca pr ks)) [] []) with cf in E; rewrite E ] end.
  { unfold fuel_of, load_pi. cbn. rewrite map_length. lia. }
  cbn. reflexivity.
Qed.

(** ------------------------------------------------------------------ one lemma per registrar *)

Definition tie_TraceNumbersRegistrar := (tie_tn_init, tie_tn_start, tie_tn_end, tie_tn_end_run).
Definition tie_TraceInfoRegistrar := (tie_ti_init, tie_ti_start, tie_ti_end, tie_ti_end_run).
Definition tie_PromptInfoRegistrar :=
  (tie_pi_init, tie_pi_start_trace, tie_pi_end_trace, tie_pi_start_call, tie_pi_end_call, tie_pi_start_prompt,
   tie_pi_end_prompt, tie_pi_end_run).
Definition tie_PromptNoticeRegistrar := (tie_pn_init, tie_pn_start_call, tie_pn_end_call, tie_pn_start_prompt, tie_pn_end_run).
Definition tie_RunInfoRegistrar := (tie_ri_init, tie_ri_start_run, tie_ri_end_run).
Definition tie_StdoutRegistrar := tie_so_write.
Definition tie_other_registrars := (tie_run_no, tie_state_name, tie_script).

(** ------------------------------------------------------------------ composition: the hooks as a run calls them

    The model's [on_event] / [on_initialize_run] / [on_start_run] / [on_end_run] compose the
    registrars in a hard-wired order; here the order is COMPUTED from the regenerated tables:
    the dispatch of OnEvent ([funs_dispatch] = Gen/HookOrder.on_event_dispatch) and pluggy's
    call order [call_order h] (Registrars/Order.v over Gen/HookOrder.v). *)

Arguments run_class : simpl never.
Arguments load_tn : simpl never.
Arguments load_ti : simpl never.
Arguments load_pi : simpl never.
Arguments load_pn : simpl never.
Arguments load_ri : simpl never.
Arguments enc_event : simpl never.
Arguments run_event_arg : simpl never.

Ltac use H := let X := fresh in pose proof H as X; unfold tied in X; rewrite X; clear X; cbn.

Ltac done := repeat (cbn; rewrite ?app_nil_r, ?map_app); reflexivity.

Theorem tie_on_event : forall rn s e,
  run_event rn (loadR rn s) e = Some (loadR rn (fst (on_event rn s e)), map enc_pub (snd (on_event rn s e))).
Proof.
  intros. destruct s as [tn ti pi pn ri]. destruct e; unfold run_event; cbn.
  - use (tie_tn_start rn tn r t pl). use (tie_ti_start rn ti r t pl). use (tie_pi_start_trace rn pi r t pl). done.
  - use (tie_tn_end rn tn r t). use (tie_ti_end rn ti r t). use (tie_pi_end_trace rn pi r t).
    destruct (tn_end tn t), (ti_end ti t), (pi_end_trace pi t). done.
  - use (tie_pi_start_call rn pi r t c fid info). use (tie_pn_start_call rn pn r t c fid info). done.
  - use (tie_pi_end_call rn pi r t c). use (tie_pn_end_call rn pn r t c).
    destruct (pi_end_call rn pi t). done.
  - reflexivity.
  - reflexivity.
  - use (tie_pi_start_prompt rn pi r t c p txt). use (tie_pn_start_prompt rn pn r t c p txt).
    destruct (pi_start_prompt rn pi t p txt), (pn_start_prompt rn pn t p txt). done.
  - use (tie_pi_end_prompt rn pi r t c p cmd).
    destruct (pi_end_prompt pi t p cmd). done.
  - use (tie_so_write rn r t txt). done.
Qed.

Notation start_run_arg := (run_event_arg "OnStartRun").
Notation end_run_arg := (run_event_arg "OnEndRun").

Theorem tie_on_initialize_run : forall rn s,
  call_hook rn "on_initialize_run" [] (loadR rn s) =
  Some (loadR rn (fst (on_initialize_run rn s)), GPub (VStr "run_no") (VInt rn) :: map enc_pub (snd (on_initialize_run rn s))).
Proof.
  intros. destruct s as [tn ti pi pn ri]. unfold call_hook. cbn.
  rewrite tie_run_no. cbn. rewrite tie_ri_init. cbn. rewrite tie_tn_init. cbn. rewrite tie_ti_init. cbn.
  rewrite tie_pi_init. cbn. rewrite tie_pn_init. done.
Qed.

Theorem tie_on_start_run : forall rn s,
  call_hook rn "on_start_run" start_run_arg (loadR rn s) =
  Some (loadR rn (fst (on_start_run rn s)), map enc_pub (snd (on_start_run rn s))).
Proof.
  intros. destruct s as [tn ti pi pn ri]. unfold call_hook. cbn.
  use (tie_ri_start_run rn ri). unfold on_start_run. cbn. destruct (ri_start_run rn ri). done.
Qed.

Theorem tie_on_end_run : forall rn s,
  call_hook rn "on_end_run" end_run_arg (loadR rn s) =
  Some (loadR rn (fst (on_end_run rn s)), map enc_pub (snd (on_end_run rn s))).
Proof.
  intros. destruct s as [tn ti pi pn ri]. unfold call_hook. cbn.
  use (tie_ri_end_run rn ri). use (tie_tn_end_run rn tn end_run_arg). use (tie_ti_end_run rn ti end_run_arg).
  use (tie_pi_end_run rn pi end_run_arg). use (tie_pn_end_run rn pn end_run_arg).
  unfold on_end_run. cbn. destruct (ri_end_run rn ri). done.
Qed.

(** ---- a whole run *)

Fixpoint run_events (rn : Z) (G : gstore) (es : list event) : option (gstore * list gpub) :=
  match es with
  | [] => Some (G, [])
  | e :: r =>
    match run_event rn G e with
    | None => None
    | Some (G1, p) => match run_events rn G1 r with None => None | Some (G2, q) => Some (G2, p ++ q) end
    end
  end.

Lemma tie_feed : forall rn es s,
  run_events rn (loadR rn s) es = Some (loadR rn (fst (feed rn s es)), map enc_pub (snd (feed rn s es))).
Proof.
  induction es as [|e r IH]; intros; [reflexivity|].
  simpl. rewrite tie_on_event. destruct (on_event rn s e) as [s1 p]. simpl. rewrite IH.
  destruct (feed rn s1 r) as [s2 q]. simpl. rewrite map_app. reflexivity.
Qed.

(** on_initialize_run, on_start_run, the (possibly truncated: kill) stream, on_end_run, from
    the registrars as constructed *)
Definition run_whole (rn : Z) (es : list event) : option (gstore * list gpub) :=
  match call_hook rn "on_initialize_run" [] (loadR rn R0) with
  | None => None
  | Some (G1, p1) =>
    match call_hook rn "on_start_run" start_run_arg G1 with
    | None => None
    | Some (G2, p2) =>
      match run_events rn G2 es with
      | None => None
      | Some (G3, p3) =>
        match call_hook rn "on_end_run" end_run_arg G3 with
        | None => None
        | Some (G4, p4) => Some (G4, p1 ++ p2 ++ p3 ++ p4)
        end
      end
    end
  end.

Theorem tie_whole_run : forall rn es,
  run_whole rn es =
  Some (loadR rn (fst (on_end_run rn (state_events rn es))),
        GPub (VStr "run_no") (VInt rn) :: map enc_pub (pubs_run rn es)).
Proof.
  intros. unfold run_whole, pubs_run, pubs_events, pubs_end, state_events, R1.
  rewrite tie_on_initialize_run. destruct (on_initialize_run rn R0) as [s1 p1]. cbn [fst snd].
  rewrite tie_on_start_run. destruct (on_start_run rn s1) as [s2 p2]. cbn [fst snd].
  rewrite tie_feed. destruct (feed rn s2 es) as [s3 p3]. cbn [fst snd].
  rewrite tie_on_end_run. destruct (on_end_run rn s3) as [s4 p4]. cbn [fst snd].
  rewrite !map_app. cbn [app]. rewrite <- !app_assoc. reflexivity.
Qed.

(** ---- transfer: what a subscriber of topic [k] is sent, read off the interpreted run, is the
    encoding of the model's [on_topic k]; hence every theorem of Props/C11.v about
    [on_topic k (pubs_run r es)] / [pubs_events] speaks about the regenerated hook bodies *)

Definition key_is (k : topic) (v : val) : bool :=
  match veq (enc_topic k) v with Some b => b | None => false end.

Fixpoint g_on_topic (k : topic) (ps : list gpub) : list (option val) :=
  match ps with
  | [] => []
  | GPub k' v :: r => if key_is k k' then Some v :: g_on_topic k r else g_on_topic k r
  | GEnd k' :: r => if key_is k k' then None :: g_on_topic k r else g_on_topic k r
  | GRaise _ :: r => g_on_topic k r
  end.

Lemma key_is_topic : forall k k', key_is k (enc_topic k') = topic_eqb k k'.
Proof. destruct k, k'; reflexivity. Qed.

Lemma g_on_topic_enc : forall k ps, g_on_topic k (map enc_pub ps) = map (option_map enc_value) (on_topic k ps).
Proof.
  induction ps as [|[k' v|k'|w] r IH]; simpl; auto; rewrite key_is_topic; destruct (topic_eqb k k'); simpl; rewrite IH; auto.
Qed.

Corollary tie_whole_run_topics : forall rn es,
  exists G ps, run_whole rn es = Some (G, ps) /\
    forall k, g_on_topic k ps = map (option_map enc_value) (on_topic k (pubs_run rn es)).
Proof.
  intros. eexists. eexists. split; [apply tie_whole_run|].
  intro k. generalize (pubs_run rn es). intro ps. cbn [g_on_topic].
  replace (key_is k (VStr "run_no")) with false by (destruct k; reflexivity).
  apply g_on_topic_enc.
Qed.

(** ------------------------------------------------------------------ the relay dies at the first exception

    [run_events] / [run_whole] above (like Model.feed / pubs_run) go on after a hook
    implementation raised.  The code does not: the exception leaves
    `ahook.on_event_in_process`, the relay task `_monitor` ends with it, the remaining events
    are not dispatched and `_on_end_run` is not awaited (`await task` re-raises in the
    `finally` of relay_events).  Within the event that raised, every implementation of the hook
    still runs (`gather` does not cancel the others and none of them suspends).
    [run_events_stop] / [run_whole_stop] are the drivers with that behaviour; the last component
    says whether the run was cut short by an exception. *)

Definition graised (ps : list gpub) : bool :=
  existsb (fun p => match p with GRaise _ => true | _ => false end) ps.

Fixpoint run_events_stop (rn : Z) (G : gstore) (es : list event) : option (gstore * list gpub * bool) :=
  match es with
  | [] => Some (G, [], false)
  | e :: r =>
    match run_event rn G e with
    | None => None
    | Some (G1, p) =>
      if graised p then Some (G1, p, true)
      else match run_events_stop rn G1 r with
           | None => None
           | Some (G2, q, b) => Some (G2, p ++ q, b)
           end
    end
  end.

(** the same on the model's functions *)
Fixpoint feed_stop (rn : Z) (s : R) (es : list event) : R * list publication * bool :=
  match es with
  | [] => (s, [], false)
  | e :: r =>
    let '(s1, p) := on_event rn s e in
    if raised p then (s1, p, true)
    else let '(s2, q, b) := feed_stop rn s1 r in (s2, p ++ q, b)
  end.

Lemma graised_enc : forall ps, graised (map enc_pub ps) = raised ps.
Proof. induction ps as [|[k v|k|w] r IH]; simpl; auto. Qed.

Theorem tie_feed_stop : forall rn es s,
  run_events_stop rn (loadR rn s) es =
  Some (loadR rn (fst (fst (feed_stop rn s es))), map enc_pub (snd (fst (feed_stop rn s es))), snd (feed_stop rn s es)).
Proof.
  induction es as [|e r IH]; intros; [reflexivity|].
  simpl. rewrite tie_on_event. destruct (on_event rn s e) as [s1 p]. cbn [fst snd]. rewrite graised_enc.
  destruct (raised p); [reflexivity|]. rewrite IH. destruct (feed_stop rn s1 r) as [[s2 q] b]. cbn [fst snd].
  rewrite map_app. reflexivity.
Qed.

Lemma feed_stop_no_raise : forall rn es s,
  raised (snd (feed rn s es)) = false -> feed_stop rn s es = (fst (feed rn s es), snd (feed rn s es), false).
Proof.
  induction es as [|e r IH]; intros s H; [reflexivity|].
  simpl in *. destruct (on_event rn s e) as [s1 p]. destruct (feed rn s1 r) as [s2 q] eqn:E. simpl in H.
  unfold raised in H. rewrite existsb_app in H. apply orb_false_iff in H. destruct H as [H1 H2].
  unfold raised. rewrite H1. rewrite IH; rewrite E; auto.
Qed.

Definition run_whole_stop (rn : Z) (es : list event) : option (gstore * list gpub * bool) :=
  match call_hook rn "on_initialize_run" [] (loadR rn R0) with
  | None => None
  | Some (G1, p1) =>
    if graised p1 then Some (G1, p1, true) else
    match call_hook rn "on_start_run" start_run_arg G1 with
    | None => None
    | Some (G2, p2) =>
      if graised p2 then Some (G2, p1 ++ p2, true) else
      match run_events_stop rn G2 es with
      | None => None
      | Some (G3, p3, true) => Some (G3, p1 ++ p2 ++ p3, true)          (* relay dead: no on_end_run *)
      | Some (G3, p3, false) =>
        match call_hook rn "on_end_run" end_run_arg G3 with
        | None => None
        | Some (G4, p4) => Some (G4, p1 ++ p2 ++ p3 ++ p4, graised p4)
        end
      end
    end
  end.

(** for a stream accepted by C09's prefix recogniser (a well-formed stream cut anywhere) nothing
    raises (Registrars/NoRaise.v), so the faithful driver never stops early and is the model's
    [pubs_run]: the theorems of Props/C11.v are about the run the code really performs *)
Theorem tie_whole_run_stop : forall rn es, wf_prefix rn es = true ->
  run_whole_stop rn es =
  Some (loadR rn (fst (on_end_run rn (state_events rn es))),
        GPub (VStr "run_no") (VInt rn) :: map enc_pub (pubs_run rn es), false).
Proof.
  intros rn es Hwf. pose proof (NoRaise.no_raise _ _ Hwf) as Hn.
  unfold run_whole_stop. unfold pubs_run, pubs_events, pubs_end, state_events, R1 in *.
  rewrite tie_on_initialize_run. destruct (on_initialize_run rn R0) as [s1 p1]. cbn [fst snd] in *.
  rewrite tie_on_start_run. destruct (on_start_run rn s1) as [s2 p2]. cbn [fst snd] in *.
  rewrite tie_feed_stop.
  rewrite !NoRaise.raised_app in Hn.
  apply orb_false_iff in Hn. destruct Hn as [Hn H4].
  apply orb_false_iff in Hn. destruct Hn as [H1 Hn].
  apply orb_false_iff in Hn. destruct Hn as [H2 H3].
  rewrite (feed_stop_no_raise rn es s2) by assumption.
  destruct (feed rn s2 es) as [s3 p3]. cbn [fst snd] in *.
  cbn [graised existsb map enc_pub]. rewrite graised_enc.
  rewrite H1.
  rewrite graised_enc, H2.
  rewrite tie_on_end_run. destruct (on_end_run rn s3) as [s4 p4]. cbn [fst snd] in *.
  rewrite graised_enc. rewrite !map_app. cbn [app].
  rewrite H4.
  rewrite <- !app_assoc. reflexivity.
Qed.

(** a stream the grammar rejects (OnStartPrompt outside a trace call): PromptInfoRegistrar and
    PromptNoticeRegistrar raise KeyError, the relay dies, prompt_notice is never ended *)
Example run_stops_at_raise :
  option_map (fun x => (snd x, g_on_topic TPromptNotice (snd (fst x))))
    (run_whole_stop 1 [StartTrace 1 1 10; StartPrompt 1 1 1 1 3; EndTrace 1 1]) = Some (true, []).
Proof. vm_compute. reflexivity. Qed.

(** ------------------------------------------------------------------ what is NOT translated (a pin)

    PIN: the text (`ast.unparse`) of every position of a hook implementation that the translator
    left out: asserts that do not mention self (on the context and on time stamps: ASSUMED to
    hold), statements that bind locals used only for untracked dataclass fields, and the values
    given for the untracked fields (time stamps; script / result / exception of RunInfo).  An
    edit of any of them -- a new assert on time stamps, a call put into one of these values --
    changes [Gen.RegistrarsFuns.untranslated] and breaks this equation. *)
Example untranslated_pinned :
  untranslated =
  [("StdoutRegistrar.on_write_stdout", ["assert context.run_arg"; "StdoutInfo: written_at=event.written_at"]);
   ("PromptNoticeRegistrar.on_start_prompt", ["assert context.run_arg"; "PromptNotice: started_at=event.started_at"]);
   ("PromptInfoRegistrar.on_start_trace", ["assert context.run_arg"]);
   ("PromptInfoRegistrar.on_end_trace_call", ["assert context.run_arg"]);
   ("PromptInfoRegistrar.on_start_prompt", ["assert context.run_arg"; "PromptInfo: started_at=event.started_at"]);
   ("PromptInfoRegistrar.on_end_prompt", ["replace: ended_at=event.ended_at"]);
   ("TraceInfoRegistrar.on_end_run", ["replace: ended_at=datetime.datetime.utcnow()"]);
   ("TraceInfoRegistrar.on_start_trace", ["assert context.run_arg"; "TraceInfo: started_at=event.started_at"]);
   ("TraceInfoRegistrar.on_end_trace", ["replace: ended_at=event.ended_at"]);
   ("RunInfoRegistrar.on_initialize_run", ["assert context.run_arg"; "if isinstance(context.run_arg.statement, str): script = context.run_arg.statement else: script = None"; "RunInfo: script=script"]);
   ("RunInfoRegistrar.on_start_run", ["assert event.started_at.tzinfo is timezone.utc"; "started_at = event.started_at.replace(tzinfo=None)"; "replace: started_at=started_at"]);
   ("RunInfoRegistrar.on_end_run", ["assert event.ended_at.tzinfo is timezone.utc"; "ended_at = event.ended_at.replace(tzinfo=None)"; "replace: ended_at=ended_at"; "replace: exception=event.raised"; "replace: result=event.returned"]);
   ("RunNoRegistrar.on_initialize_run", ["assert context.run_arg"])].
Proof. reflexivity. Qed.
