(** C11 tie -- the statement language into which translate/registrars_funs.py translates the
    hook implementations of nextline/plugin/plugins/registrars/*.py (Gen/RegistrarsFuns.v).
    Types only (stdlib only); the semantics is Registrars/Tie.v.

    A registrar is a class with TRACKED ATTRIBUTES (assigned in __init__): a plain value
    (tuple of trace numbers, Optional[RunInfo]), a dict keyed by a trace / prompt number, or a
    set of topic keys.  Locks and loggers are not tracked (`async with self._lock:` is its
    body).  A hook implementation is a [stmt] over these attributes, its parameters and its
    local variables. *)
From Coq Require Export String List ZArith Bool.
Export ListNotations.

(** Python values that occur in the registrars *)
Inductive val :=
| VNone
| VBool (b : bool)
| VInt (z : Z)
| VStr (s : string)                         (* a string literal *)
| VFld (f : string) (z : Z)                 (* the component [f] of the abstract payload [z] of an event
                                               (Events/Grammar.v: pl = (thread_no, task_no),
                                               info = (event, file_name, line_no)) *)
| VKey (prefix : string) (z : Z)            (* f"{prefix}{z}" *)
| VTup (l : list Z)                         (* tuple of numbers (immutable) *)
| VList (l : list Z)                        (* list of numbers (a fresh local list; never stored, never aliased) *)
| VRec (cls : string) (fs : list (string * val)).   (* dataclass instance: tracked fields, definition order *)

Inductive exn := KeyError | ValueError | AssertionError.

Inductive kind := KVal | KDict | KSet.

Inductive expr :=
| EConst (v : val)
| EVar (x : string)                         (* parameter / local variable *)
| EGetAttr (e : expr) (f : string)          (* e.f  on a dataclass instance *)
| ERunNo                                    (* context.run_arg.run_no *)
| ESelf (a : string)                        (* self.a   (value attribute) *)
| ETuple1 (e : expr)                        (* (e,) *)
| EConcat (a b : expr)                      (* tuple + tuple *)
| EListOf (e : expr)                        (* list(e) *)
| ETupleOf (e : expr)                       (* tuple(e) *)
| EEq (a b : expr)                          (* a == b *)
| ENe (a b : expr)                          (* a != b *)
| EIs (a b : expr)                          (* a is b      (identity) *)
| EIsNot (a b : expr)                       (* a is not b  (identity) *)
| ENot (e : expr)
| ENonEmpty (a : string)                    (* truth value of the container self.a *)
| EIn (e : expr) (a : string)               (* e in self.a *)
| EDictGet (a : string) (k d : expr)        (* self.a.get(k, d);  .get(k) has d = None *)
| EDictIdx (a : string) (k : expr)          (* self.a[k]   -- KeyError *)
| EFKey (prefix : string) (e : expr)        (* f"{prefix}{e}" *)
| EFilter (x : string) (src c : expr)       (* [x for x in src if c]; as a generator only directly inside tuple() / list() *)
| ELen (e : expr)                           (* len(e) *)
| ENew (cls : string) (fs : list (string * expr))     (* Cls(f=e, ...), defaults filled in *)
| EReplace (e : expr) (fs : list (string * expr)).    (* dataclasses.replace(e, f=e', ...) *)

Inductive stmt :=
| SSkip
| SSeq (a b : stmt)
| SAssign (x : string) (e : expr)                         (* x = e *)
| SSetSelf (a : string) (e : expr)                        (* self.a = e *)
| SDictSet (a : string) (k v : expr)                      (* self.a[k] = v *)
| SDictPop (x : option string) (a : string) (k : expr) (d : option expr)
                                                          (* [x =] self.a.pop(k[, d])  -- KeyError without d *)
| SPopItem (xk xv : string) (a : string)                  (* xk, xv = self.a.popitem()  (last inserted) *)
| SSetPop (x : string) (a : string)                       (* x = self.a.pop()   on a set *)
| SClear (a : string)                                     (* self.a.clear() / self.a = {} *)
| SSetAdd (a : string) (e : expr)                         (* self.a.add(e) *)
| SSetRemove (a : string) (e : expr)                      (* self.a.remove(e)  -- KeyError *)
| SSetDiscard (a : string) (e : expr)                     (* self.a.discard(e) *)
| SListRemove (x : string) (e : expr)                     (* x.remove(e) on a local list: first occurrence, ValueError *)
| SPublish (k v : expr)                                   (* await context.pubsub.publish(k, v) *)
| SEnd (k : expr)                                         (* await context.pubsub.end(k) *)
| SIf (c : expr) (a b : stmt)
| SWhile (c : expr) (b : stmt)
| STry (b : stmt) (x : exn) (h : stmt)                    (* try: b  except x: h *)
| SAssert (c : expr)
| SReturn.

Fixpoint seq (l : list stmt) : stmt :=
  match l with
  | [] => SSkip
  | s :: r => SSeq s (seq r)
  end.

(** one hook implementation: the parameters it declares (other than self and context) and its body *)
Record hookimpl := mkHook { h_name : string; h_params : list string; h_body : stmt }.

(** one registrar class *)
Record registrar := mkReg { g_name : string; g_attrs : list (string * kind); g_hooks : list hookimpl }.
