(** C11 -- executable model of the main-process registrars
    (nextline/plugin/plugins/registrars/*.py) driven by the OnEvent dispatcher
    (plugins/session/monitor.py).  Definitions only; proofs in Registrars/Proofs.v.

    A registrar method is a function  state -> event -> state * list publication.
    A publication is what the method hands to the broker: `pubsub.publish(key, value)`
    or `pubsub.end(key)`; [Raise] records that the method raised (KeyError).

    Concurrency: apluggy's `ahook.x(...)` is `asyncio.gather` over the hook
    implementations.  No implementation suspends (an `async with` on a free lock
    and `PubSub.publish/end` complete without yielding -- C08's atomicity check,
    re-checked by harness/props/c11.py), so each implementation runs to completion
    when its task is first stepped, in the order in which pluggy created the
    coroutines (last registered first, Gen/HookOrder.v).  The registrars publish
    on pairwise disjoint topics (checked in Registrars/Order.v from the generated
    table), so the per-topic publication sequences do not depend on that order. *)
From NL Require Import Events.Grammar.
Open Scope Z_scope.

Inductive topic :=
| TTraceNos | TTraceInfo | TPromptInfo | TPromptInfoFor (t : Z) | TPromptNotice | TRunInfo | TStdout.

(** stored / published PromptInfo (run_no, trace_no, prompt_no, open, (event, file_name,
    line_no), stdout, command, trace_call_end); timestamps are dropped *)
Record pinfo := mkPinfo {
  pi_run : Z; pi_trace : Z; pi_no : Z; pi_open : bool;
  pi_info : option Z; pi_txt : option Z; pi_cmd : option Z; pi_tce : bool }.

Inductive value :=
| VNos (l : list Z)                               (* tuple of trace numbers *)
| VTraceInfo (r t pl : Z) (running : bool)        (* TraceInfo: state 'running' / 'finished' *)
| VPromptInfo (i : pinfo)
| VNotice (r t p txt info : Z)                    (* PromptNotice *)
| VRunInfo (r : Z) (state : Z)                    (* 0 initialized, 1 running, 2 finished *)
| VStdout (r t txt : Z).

Inductive publication := Pub (k : topic) (v : value) | EndT (k : topic) | Raise (who : Z).

(** ---- Python containers ---- *)

(** dict: association list in insertion order, keys unique *)
Fixpoint dget {A} (d : list (Z * A)) (k : Z) : option A :=
  match d with
  | [] => None
  | (k', v) :: r => if k =? k' then Some v else dget r k
  end.

(** d[k] = v *)
Fixpoint dset {A} (d : list (Z * A)) (k : Z) (v : A) : list (Z * A) :=
  match d with
  | [] => [(k, v)]
  | (k', v') :: r => if k =? k' then (k, v) :: r else (k', v') :: dset r k v
  end.

(** d.pop(k, None) / del d[k] *)
Definition ddel {A} (d : list (Z * A)) (k : Z) : list (Z * A) :=
  filter (fun kv => negb (fst kv =? k)) d.

(** set.add *)
Definition sadd (s : list Z) (k : Z) : list Z :=
  if existsb (Z.eqb k) s then s else s ++ [k].

Definition sdel (s : list Z) (k : Z) : list Z := filter (fun x => negb (x =? k)) s.

(** list.remove(x): first occurrence *)
Fixpoint remove_first (l : list Z) (x : Z) : list Z :=
  match l with
  | [] => []
  | y :: r => if x =? y then r else y :: remove_first r x
  end.

(** ---- TraceNumbersRegistrar (trace_nos.py) ---- *)

Definition tn_start (s : list Z) (t : Z) : list Z * list publication :=
  let s' := s ++ [t] in (s', [Pub TTraceNos (VNos s')]).

Definition tn_end (s : list Z) (t : Z) : list Z * list publication :=
  if existsb (Z.eqb t) s                       (* nosl.remove raises ValueError -> return *)
  then let s' := remove_first s t in (s', [Pub TTraceNos (VNos s')])
  else (s, []).

Definition tn_end_run (s : list Z) : list Z * list publication := ([], [Pub TTraceNos (VNos [])]).

(** ---- TraceInfoRegistrar (trace_info.py): _trace_info_map : trace_no -> (run_no, pl) ---- *)

Notation timap := (list (Z * (Z * Z))).

Definition ti_start (rn : Z) (m : timap) (t pl : Z) : timap * list publication :=
  (dset m t (rn, pl), [Pub TTraceInfo (VTraceInfo rn t pl true)]).

Definition ti_end (m : timap) (t : Z) : timap * list publication :=
  match dget m t with
  | None => (m, [])                            (* on_end_run() might have already been called *)
  | Some (rn, pl) => (ddel m t, [Pub TTraceInfo (VTraceInfo rn t pl false)])
  end.

(** `while map: _, info = map.popitem(); publish(finished)`: last inserted first *)
Definition ti_end_run (m : timap) : timap * list publication :=
  ([], map (fun kv => Pub TTraceInfo (VTraceInfo (fst (snd kv)) (fst kv) (snd (snd kv)) false)) (rev m)).

(** ---- PromptInfoRegistrar (prompt_info.py) ---- *)

Record PI := mkPI {
  pi_frame : list (Z * Z);            (* _last_prompt_frame_map : trace_no -> frame_object_id *)
  pi_call : list (Z * (Z * Z));       (* _trace_call_map : trace_no -> OnStartTraceCall (fid, info) *)
  pi_prompt : list (Z * pinfo);       (* _prompt_info_map : prompt_no -> PromptInfo *)
  pi_keys : list Z                    (* _keys : n stands for the topic 'prompt_info_<n>' *)
}.

Definition pi_empty : PI := mkPI [] [] [] [].

Definition pi_start_trace (rn : Z) (s : PI) (t : Z) : PI * list publication :=
  let i := mkPinfo rn t (-1) false None None None false in
  (mkPI (pi_frame s) (pi_call s) (pi_prompt s) (sadd (pi_keys s) t),
   [Pub (TPromptInfoFor t) (VPromptInfo i)]).

Definition pi_end_trace (s : PI) (t : Z) : PI * list publication :=
  if existsb (Z.eqb t) (pi_keys s)
  then (mkPI (pi_frame s) (pi_call s) (pi_prompt s) (sdel (pi_keys s) t), [EndT (TPromptInfoFor t)])
  else (s, []).

Definition pi_start_call (s : PI) (t fid info : Z) : PI * list publication :=
  (mkPI (pi_frame s) (dset (pi_call s) t (fid, info)) (pi_prompt s) (pi_keys s), []).

Definition pi_end_call (rn : Z) (s : PI) (t : Z) : PI * list publication :=
  match dget (pi_call s) t with
  | None => (s, [])                                         (* warning 'No start event' *)
  | Some (fid, info) =>
    let s1 := mkPI (pi_frame s) (ddel (pi_call s) t) (pi_prompt s) (pi_keys s) in
    match dget (pi_frame s) t with
    | Some f =>
      if fid =? f then
        let i := mkPinfo rn t (-1) false (Some info) None None true in
        (mkPI (pi_frame s1) (pi_call s1) (pi_prompt s1) (sadd (pi_keys s1) t),
         [Pub TPromptInfo (VPromptInfo i); Pub (TPromptInfoFor t) (VPromptInfo i)])
      else (s1, [])
    | None => (s1, [])
    end
  end.

Definition pi_start_prompt (rn : Z) (s : PI) (t p txt : Z) : PI * list publication :=
  match dget (pi_call s) t with
  | None => (s, [Raise 3])                                  (* KeyError *)
  | Some (fid, info) =>
    let i := mkPinfo rn t p true (Some info) (Some txt) None false in
    (mkPI (dset (pi_frame s) t fid) (pi_call s) (dset (pi_prompt s) p i) (sadd (pi_keys s) t),
     [Pub TPromptInfo (VPromptInfo i); Pub (TPromptInfoFor t) (VPromptInfo i)])
  end.

Definition pi_end_prompt (s : PI) (t p cmd : Z) : PI * list publication :=
  match dget (pi_prompt s) p with
  | None => (s, [Raise 3])                                  (* KeyError from pop *)
  | Some i =>
    let i' := mkPinfo (pi_run i) (pi_trace i) (pi_no i) false (pi_info i) (pi_txt i) (Some cmd) (pi_tce i) in
    (mkPI (pi_frame s) (pi_call s) (ddel (pi_prompt s) p) (sadd (pi_keys s) t),
     [Pub TPromptInfo (VPromptInfo i'); Pub (TPromptInfoFor t) (VPromptInfo i')])
  end.

(** `while self._keys: key = self._keys.pop(); end(key)` -- set.pop order is arbitrary;
    the keys are distinct topics, so per-topic sequences do not depend on it *)
Definition pi_end_run (s : PI) : PI * list publication :=
  (mkPI (pi_frame s) (pi_call s) (pi_prompt s) [], map (fun t => EndT (TPromptInfoFor t)) (pi_keys s)).

(** ---- PromptNoticeRegistrar (prompt_notice.py): _trace_call_map ---- *)

Notation pnmap := (list (Z * (Z * Z))).

Definition pn_start_call (m : pnmap) (t fid info : Z) : pnmap * list publication :=
  (dset m t (fid, info), []).
Definition pn_end_call (m : pnmap) (t : Z) : pnmap * list publication := (ddel m t, []).
Definition pn_start_prompt (rn : Z) (m : pnmap) (t p txt : Z) : pnmap * list publication :=
  match dget m t with
  | None => (m, [Raise 2])
  | Some (_, info) => (m, [Pub TPromptNotice (VNotice rn t p txt info)])
  end.
Definition pn_end_run (m : pnmap) : pnmap * list publication := (m, [EndT TPromptNotice]).

(** ---- StdoutRegistrar, RunInfoRegistrar ---- *)

Definition so_write (rn t txt : Z) : list publication := [Pub TStdout (VStdout rn t txt)].

Definition ri_init (rn : Z) : option Z * list publication := (Some 0, [Pub TRunInfo (VRunInfo rn 0)]).
Definition ri_start_run (rn : Z) (s : option Z) : option Z * list publication :=
  match s with Some _ => (Some 1, [Pub TRunInfo (VRunInfo rn 1)]) | None => (s, [Raise 6]) end.
Definition ri_end_run (rn : Z) (s : option Z) : option Z * list publication :=
  match s with Some _ => (None, [Pub TRunInfo (VRunInfo rn 2)]) | None => (s, [Raise 6]) end.

(** ---- all registrars ---- *)

Record R := mkR {
  r_tn : list Z;          (* TraceNumbersRegistrar._trace_nos *)
  r_ti : timap;           (* TraceInfoRegistrar._trace_info_map *)
  r_pi : PI;              (* PromptInfoRegistrar *)
  r_pn : pnmap;           (* PromptNoticeRegistrar._trace_call_map *)
  r_ri : option Z         (* RunInfoRegistrar._run_info (state only) *)
}.

Definition R0 : R := mkR [] [] pi_empty [] None.

(** OnEvent.on_event_in_process: dispatch on the event class; implementations in pluggy
    call order (RunInfo, TraceNumbers, TraceInfo, PromptInfo, PromptNotice, Stdout).
    [rn] is context.run_arg.run_no. *)
Definition on_event (rn : Z) (s : R) (e : event) : R * list publication :=
  match e with
  | StartTrace _ t pl =>
    let '(tn, p1) := tn_start (r_tn s) t in
    let '(ti, p2) := ti_start rn (r_ti s) t pl in
    let '(pi, p3) := pi_start_trace rn (r_pi s) t in
    (mkR tn ti pi (r_pn s) (r_ri s), p1 ++ p2 ++ p3)
  | EndTrace _ t =>
    let '(tn, p1) := tn_end (r_tn s) t in
    let '(ti, p2) := ti_end (r_ti s) t in
    let '(pi, p3) := pi_end_trace (r_pi s) t in
    (mkR tn ti pi (r_pn s) (r_ri s), p1 ++ p2 ++ p3)
  | StartTraceCall _ t _ fid info =>
    let '(pi, p1) := pi_start_call (r_pi s) t fid info in
    let '(pn, p2) := pn_start_call (r_pn s) t fid info in
    (mkR (r_tn s) (r_ti s) pi pn (r_ri s), p1 ++ p2)
  | EndTraceCall _ t _ =>
    let '(pi, p1) := pi_end_call rn (r_pi s) t in
    let '(pn, p2) := pn_end_call (r_pn s) t in
    (mkR (r_tn s) (r_ti s) pi pn (r_ri s), p1 ++ p2)
  | StartCmdloop _ _ _ | EndCmdloop _ _ _ => (s, [])          (* no implementation *)
  | StartPrompt _ t _ p txt =>
    let '(pi, p1) := pi_start_prompt rn (r_pi s) t p txt in
    let '(pn, p2) := pn_start_prompt rn (r_pn s) t p txt in
    (mkR (r_tn s) (r_ti s) pi pn (r_ri s), p1 ++ p2)
  | EndPrompt _ t _ p cmd =>
    let '(pi, p1) := pi_end_prompt (r_pi s) t p cmd in
    (mkR (r_tn s) (r_ti s) pi (r_pn s) (r_ri s), p1)
  | WriteStdout _ t txt => (s, so_write rn t txt)
  end.

(** the hook on_initialize_run *)
Definition on_initialize_run (rn : Z) (s : R) : R * list publication :=
  let '(ri, p) := ri_init rn in
  (mkR [] [] pi_empty [] ri, p).

(** the hook on_start_run (RunInfoRegistrar only; in a real run it is concurrent with the first
    events, which only matters for the topic run_info) *)
Definition on_start_run (rn : Z) (s : R) : R * list publication :=
  let '(ri, p) := ri_start_run rn (r_ri s) in
  (mkR (r_tn s) (r_ti s) (r_pi s) (r_pn s) ri, p).

(** the hook on_end_run *)
Definition on_end_run (rn : Z) (s : R) : R * list publication :=
  let '(ri, p0) := ri_end_run rn (r_ri s) in
  let '(tn, p1) := tn_end_run (r_tn s) in
  let '(ti, p2) := ti_end_run (r_ti s) in
  let '(pi, p3) := pi_end_run (r_pi s) in
  let '(pn, p4) := pn_end_run (r_pn s) in
  (mkR tn ti pi pn ri, p0 ++ p1 ++ p2 ++ p3 ++ p4).

Fixpoint feed (rn : Z) (s : R) (es : list event) : R * list publication :=
  match es with
  | [] => (s, [])
  | e :: r => let '(s1, p) := on_event rn s e in let '(s2, q) := feed rn s1 r in (s2, p ++ q)
  end.

(** publications of the run up to (excluding) on_end_run *)
Definition R1 (rn : Z) : R := fst (on_start_run rn (fst (on_initialize_run rn R0))).

Definition pubs_events (rn : Z) (es : list event) : list publication :=
  snd (on_initialize_run rn R0) ++ snd (on_start_run rn (fst (on_initialize_run rn R0)))
  ++ snd (feed rn (R1 rn) es).

Definition state_events (rn : Z) (es : list event) : R := fst (feed rn (R1 rn) es).

(** publications of on_end_run after the (possibly truncated) stream [es] *)
Definition pubs_end (rn : Z) (es : list event) : list publication :=
  snd (on_end_run rn (state_events rn es)).

(** the whole run *)
Definition pubs_run (rn : Z) (es : list event) : list publication :=
  pubs_events rn es ++ pubs_end rn es.

(** ---- projections used by the theorems and by the correspondence ---- *)

Definition topic_eqb (a b : topic) : bool :=
  match a, b with
  | TTraceNos, TTraceNos | TTraceInfo, TTraceInfo | TPromptInfo, TPromptInfo
  | TPromptNotice, TPromptNotice | TRunInfo, TRunInfo | TStdout, TStdout => true
  | TPromptInfoFor x, TPromptInfoFor y => x =? y
  | _, _ => false
  end.

(** what the broker receives for topic k: Some v = publish, None = end *)
Fixpoint on_topic (k : topic) (ps : list publication) : list (option value) :=
  match ps with
  | [] => []
  | Pub k' v :: r => if topic_eqb k k' then Some v :: on_topic k r else on_topic k r
  | EndT k' :: r => if topic_eqb k k' then None :: on_topic k r else on_topic k r
  | Raise _ :: r => on_topic k r
  end.

Definition raised (ps : list publication) : bool :=
  existsb (fun p => match p with Raise _ => true | _ => false end) ps.

(** ---- decidable equality of observations, for the correspondence check ---- *)

Definition optz_eqb (a b : option Z) : bool :=
  match a, b with Some x, Some y => x =? y | None, None => true | _, _ => false end.

Fixpoint zlist_eqb (a b : list Z) : bool :=
  match a, b with
  | [], [] => true
  | x :: a, y :: b => (x =? y) && zlist_eqb a b
  | _, _ => false
  end.

Definition pinfo_eqb (a b : pinfo) : bool :=
  (pi_run a =? pi_run b) && (pi_trace a =? pi_trace b) && (pi_no a =? pi_no b) &&
  Bool.eqb (pi_open a) (pi_open b) && optz_eqb (pi_info a) (pi_info b) &&
  optz_eqb (pi_txt a) (pi_txt b) && optz_eqb (pi_cmd a) (pi_cmd b) && Bool.eqb (pi_tce a) (pi_tce b).

Definition value_eqb (a b : value) : bool :=
  match a, b with
  | VNos x, VNos y => zlist_eqb x y
  | VTraceInfo r t pl s, VTraceInfo r' t' pl' s' => (r =? r') && (t =? t') && (pl =? pl') && Bool.eqb s s'
  | VPromptInfo x, VPromptInfo y => pinfo_eqb x y
  | VNotice r t p x i, VNotice r' t' p' x' i' => (r =? r') && (t =? t') && (p =? p') && (x =? x') && (i =? i')
  | VRunInfo r s, VRunInfo r' s' => (r =? r') && (s =? s')
  | VStdout r t x, VStdout r' t' x' => (r =? r') && (t =? t') && (x =? x')
  | _, _ => false
  end.

Fixpoint obs_eqb (a b : list (option value)) : bool :=
  match a, b with
  | [], [] => true
  | Some x :: a, Some y :: b => value_eqb x y && obs_eqb a b
  | None :: a, None :: b => obs_eqb a b
  | _, _ => false
  end.

(** one correspondence case: context run number, the (truncated) stream, and what the real
    broker received per topic during the whole run (initialize, events, end) + whether a
    hook implementation raised *)
Definition case_ok (c : Z * list event * list (topic * list (option value)) * bool) : bool :=
  let '(rn, es, obs, rs) := c in
  let ps := pubs_run rn es in
  Bool.eqb (raised ps) rs &&
  forallb (fun ko => obs_eqb (on_topic (fst ko) ps) (snd ko)) obs.

Fixpoint reg_bad_from (n : nat) (cases : list (Z * list event * list (topic * list (option value)) * bool)) : list nat :=
  match cases with
  | [] => []
  | c :: r => if case_ok c then reg_bad_from (S n) r else n :: reg_bad_from (S n) r
  end.
