(** C11 -- a well-formed stream, cut anywhere, makes no hook implementation of a registrar raise.

    [Raise] is recorded by Registrars/Model.v at: `self._trace_call_map[trace_no]` of
    PromptInfoRegistrar / PromptNoticeRegistrar.on_start_prompt (KeyError when the trace has
    no open trace call), `self._prompt_info_map.pop(prompt_no)` of on_end_prompt (KeyError when
    the prompt is not open) and the asserts of RunInfoRegistrar.  The grammar (C09) puts every
    OnStartPrompt inside a trace call of its trace and every OnEndPrompt after its
    OnStartPrompt: the invariants [call_invariant] / [prompt_invariant] of Registrars/Proofs.v
    say the maps then hold the keys.

    This matters because in the code a raising hook kills the relay task (`_monitor`): the
    remaining events are not relayed and `on_end_run` is not awaited.  The model (and the
    theorems of Props/C11.v, which read publications per topic) go on after a [Raise]; by the
    theorem below that continuation is never taken for a stream accepted by [wf_prefix]. *)
From NL Require Import Events.Grammar Events.GrammarProofs Registrars.Model Registrars.Proofs.
Open Scope Z_scope.

Lemma raised_app a b : raised (a ++ b) = raised a || raised b.
Proof. apply existsb_app. Qed.

Lemma raised_app_l a b : raised (a ++ b) = false -> raised a = false.
Proof. rewrite raised_app. intros H. apply orb_false_iff in H. tauto. Qed.

(** the only events that can make an implementation raise, and when they do not *)
Lemma on_event_no_raise rn s e :
  (forall r t c p txt, e = StartPrompt r t c p txt ->
     dget (pi_call (r_pi s)) t <> None /\ dget (r_pn s) t <> None) ->
  (forall r t c p cmd, e = EndPrompt r t c p cmd -> dget (pi_prompt (r_pi s)) p <> None) ->
  raised (snd (on_event rn s e)) = false.
Proof.
  intros Hsp Hep. destruct e; simpl.
  - reflexivity.
  - unfold tn_end, ti_end, pi_end_trace.
    destruct (existsb (Z.eqb t) (r_tn s)); destruct (dget (r_ti s) t) as [[? ?]|];
      destruct (existsb (Z.eqb t) (pi_keys (r_pi s))); reflexivity.
  - reflexivity.
  - unfold pi_end_call, pn_end_call. destruct (dget (pi_call (r_pi s)) t) as [[fid info]|]; simpl; auto.
    destruct (dget (pi_frame (r_pi s)) t) as [f|]; simpl; auto. destruct (fid =? f); reflexivity.
  - reflexivity.
  - reflexivity.
  - destruct (Hsp _ _ _ _ _ eq_refl) as [H1 H2]. unfold pi_start_prompt, pn_start_prompt.
    destruct (dget (pi_call (r_pi s)) t) as [[fid info]|]; [|congruence].
    destruct (dget (r_pn s) t) as [[? ?]|]; [|congruence]. reflexivity.
  - pose proof (Hep _ _ _ _ _ eq_refl) as H. unfold pi_end_prompt.
    destruct (dget (pi_prompt (r_pi s)) p); [|congruence]. reflexivity.
  - reflexivity.
Qed.

Lemma on_event_ri rn s e : r_ri (fst (on_event rn s e)) = r_ri s.
Proof.
  destruct e; simpl;
    repeat match goal with |- context [let '(_, _) := ?x in _] => destruct x end; reflexivity.
Qed.

Lemma state_events_ri rn : forall es, r_ri (state_events rn es) = Some 1.
Proof.
  induction es as [|e es IH] using rev_ind; [reflexivity|].
  rewrite state_events_snoc, on_event_ri. assumption.
Qed.

Theorem events_no_raise r es : wf_prefix r es = true -> raised (pubs_events r es) = false.
Proof.
  intros Hwf. destruct (wfp_ind r (fun es _ => raised (pubs_events r es) = false)) with (es := es) as (g & _ & H); auto.
  clear es Hwf. intros es e g g1 Hwf Hwf' Hg Hs IH.
  rewrite pubs_events_snoc, raised_app, IH. simpl.
  destruct (gstep_phase _ _ _ _ Hs) as (Hp & _ & _).
  destruct (call_invariant _ _ Hwf') as (g' & Hg' & Hc). rewrite Hg in Hg'. injection Hg' as <-.
  destruct (prompt_invariant _ _ Hwf') as (g' & Hg' & Hq). rewrite Hg in Hg'. injection Hg' as <-.
  apply on_event_no_raise.
  - intros r0 t c p txt ->. cbn [ev_trace] in Hp. apply pcore_sp in Hp.
    specialize (Hc t). rewrite Hp in Hc. destruct Hc as (_ & H1 & H2). rewrite H1, H2. split; discriminate.
  - intros r0 t c p cmd ->. cbn [ev_trace] in Hp. apply pcore_ep_full in Hp. destruct Hp as [Hp _].
    destruct (Hq _ _ _ Hp) as (_ & _ & H). rewrite H. discriminate.
Qed.

(** the whole run, on_end_run included *)
Theorem no_raise r es : wf_prefix r es = true -> raised (pubs_run r es) = false.
Proof.
  intros Hwf. unfold pubs_run. rewrite raised_app, (events_no_raise _ _ Hwf). simpl.
  unfold pubs_end, on_end_run. rewrite state_events_ri. simpl.
  destruct (ti_end_run (r_ti (state_events r es))) as [ti p2] eqn:E2. unfold ti_end_run in E2. injection E2 as <- <-.
  destruct (pi_end_run (r_pi (state_events r es))) as [pi p3] eqn:E3. unfold pi_end_run in E3. injection E3 as <- <-.
  simpl. rewrite !raised_app. unfold raised. rewrite ?existsb_app. simpl.
  rewrite orb_false_r. apply orb_false_iff. split.
  - induction (rev (r_ti (state_events r es))); simpl; auto.
  - induction (pi_keys (r_pi (state_events r es))); simpl; auto.
Qed.

(** every prefix of the relay: what has been handed to the broker when event number n has been
    dispatched contains no Raise either (wf_prefix is prefix closed) *)
Corollary no_raise_prefix r a b : wf_prefix r (a ++ b) = true -> raised (pubs_events r a) = false.
Proof. intros H. apply events_no_raise. eapply wf_prefix_app; eauto. Qed.
