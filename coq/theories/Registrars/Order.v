(** Tie between the generated table Gen/HookOrder.v (registration order, hook
    implementations, topics, dispatch -- regenerated from /repo on every check) and the
    composition hard-wired in Registrars/Model.v.  Every fact is closed by computation, so
    a change of the source that affects it breaks this file. *)
From Coq Require Import String List Bool.
From NL Require Import Gen.HookOrder.
Import ListNotations.
Open Scope string_scope.

Definition implements (h : string) (c : string) : bool :=
  match find (fun ci => String.eqb (fst ci) c) hook_impls with
  | Some (_, hs) => existsb (String.eqb h) hs
  | None => false
  end.

(** pluggy calls the implementations of a hook last-registered-first *)
Definition call_order (h : string) : list string := rev (filter (implements h) plugin_order).

(** Which registrars implement each hook (the model composes exactly these).  The order in
    which `gather` starts them is not observable on any single topic (topics_disjoint below),
    so only the SET is tied to the model; a pure re-ordering of hook.register calls keeps
    these facts true. *)
Definition same_set (a b : list string) : bool :=
  forallb (fun x => existsb (String.eqb x) b) a && forallb (fun x => existsb (String.eqb x) a) b
  && Nat.eqb (length a) (length b).
Example order_on_start_trace :
  same_set (call_order "on_start_trace") ["TraceNumbersRegistrar"; "TraceInfoRegistrar"; "PromptInfoRegistrar"] = true.
Proof. reflexivity. Qed.
Example order_on_end_trace :
  same_set (call_order "on_end_trace") ["TraceNumbersRegistrar"; "TraceInfoRegistrar"; "PromptInfoRegistrar"] = true.
Proof. reflexivity. Qed.
Example order_on_start_trace_call :
  same_set (call_order "on_start_trace_call") ["PromptInfoRegistrar"; "PromptNoticeRegistrar"] = true.
Proof. reflexivity. Qed.
Example order_on_end_trace_call :
  same_set (call_order "on_end_trace_call") ["PromptInfoRegistrar"; "PromptNoticeRegistrar"] = true.
Proof. reflexivity. Qed.
Example order_on_start_prompt :
  same_set (call_order "on_start_prompt") ["PromptInfoRegistrar"; "PromptNoticeRegistrar"] = true.
Proof. reflexivity. Qed.
Example order_on_end_prompt : same_set (call_order "on_end_prompt") ["PromptInfoRegistrar"] = true.
Proof. reflexivity. Qed.
Example order_on_cmdloop : same_set (call_order "on_start_cmdloop") [] = true /\ same_set (call_order "on_end_cmdloop") [] = true.
Proof. split; reflexivity. Qed.
Example order_on_write_stdout : same_set (call_order "on_write_stdout") ["StdoutRegistrar"] = true.
Proof. reflexivity. Qed.
Example order_on_start_run : same_set (call_order "on_start_run") ["RunInfoRegistrar"] = true.
Proof. reflexivity. Qed.
Example order_on_initialize_run :
  same_set (call_order "on_initialize_run") ["RunNoRegistrar"; "RunInfoRegistrar"; "TraceNumbersRegistrar"; "TraceInfoRegistrar"; "PromptInfoRegistrar"; "PromptNoticeRegistrar"] = true.
Proof. reflexivity. Qed.
Example order_on_end_run :
  same_set (call_order "on_end_run") ["RunInfoRegistrar"; "TraceNumbersRegistrar"; "TraceInfoRegistrar"; "PromptInfoRegistrar"; "PromptNoticeRegistrar"] = true.
Proof. reflexivity. Qed.

(** only the OnEvent plugin implements on_event_in_process, and it dispatches as the model does *)
Example only_onevent_relays : same_set (call_order "on_event_in_process") ["OnEvent"] = true.
Proof. reflexivity. Qed.
Example dispatch_table :
  on_event_dispatch =
  [("OnStartTrace", "on_start_trace"); ("OnEndTrace", "on_end_trace");
   ("OnStartTraceCall", "on_start_trace_call"); ("OnEndTraceCall", "on_end_trace_call");
   ("OnStartCmdloop", "on_start_cmdloop"); ("OnEndCmdloop", "on_end_cmdloop");
   ("OnStartPrompt", "on_start_prompt"); ("OnEndPrompt", "on_end_prompt");
   ("OnWriteStdout", "on_write_stdout")].
Proof. reflexivity. Qed.

(** the registrars publish on pairwise disjoint topics: the concurrency of `gather` cannot be
    observed on any single topic ("prompt_info_*" are the per-trace topics, distinct from
    "prompt_info") *)
Fixpoint all_distinct (l : list string) : bool :=
  match l with
  | [] => true
  | x :: r => negb (existsb (String.eqb x) r) && all_distinct r
  end.

Example topics_disjoint : all_distinct (flat_map snd topics_of) = true.
Proof. reflexivity. Qed.

Example topics_of_model :
  map (fun c => find (fun ct => String.eqb (fst ct) c) topics_of)
      ["TraceNumbersRegistrar"; "TraceInfoRegistrar"; "PromptInfoRegistrar"; "PromptNoticeRegistrar"; "StdoutRegistrar"; "RunInfoRegistrar"] =
  [Some ("TraceNumbersRegistrar", ["trace_nos"]); Some ("TraceInfoRegistrar", ["trace_info"]);
   Some ("PromptInfoRegistrar", ["prompt_info_*"; "prompt_info"]); Some ("PromptNoticeRegistrar", ["prompt_notice"]);
   Some ("StdoutRegistrar", ["stdout"]); Some ("RunInfoRegistrar", ["run_info"])].
Proof. reflexivity. Qed.
