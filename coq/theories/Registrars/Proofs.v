(** Proofs about Registrars/Model.v for every stream accepted by C09's prefix recogniser. *)
From NL Require Import Events.Grammar Events.GrammarProofs Registrars.Model.
Open Scope Z_scope.

(** ------------------------------------------------------------------ functions of the history *)

Definition is_end_of (t : Z) (e : event) : bool :=
  match e with EndTrace _ t' => t' =? t | _ => false end.

(** trace t has ended in es *)
Definition ended (t : Z) (es : list event) : bool := existsb (is_end_of t) es.

(** started and not yet ended, in start order *)
Definition active (es : list event) : list Z :=
  filter (fun t => negb (ended t es)) (trace_starts es).

(** payload of the start event of trace t *)
Fixpoint pl_of (t : Z) (es : list event) : Z :=
  match es with
  | [] => 0
  | StartTrace _ t' pl :: r => if t' =? t then pl else pl_of t r
  | _ :: r => pl_of t r
  end.

(** (frame id, info) of the trace call numbered c *)
Fixpoint call_payload (es : list event) (c : Z) : Z * Z :=
  match es with
  | [] => (0, 0)
  | StartTraceCall _ _ c' fid info :: r => if c' =? c then (fid, info) else call_payload r c
  | _ :: r => call_payload r c
  end.

(** the last tuple published on trace_nos ([] before the first publication) *)
Definition last_nos (ps : list publication) : list Z :=
  match last (on_topic TTraceNos ps) None with Some (VNos l) => l | _ => [] end.

(** ------------------------------------------------------------------ machinery *)

Definition ph (g : gstate) (t : Z) : phase := t_ph (lookup g t).

Definition live (p : phase) : bool := match p with PNone | PDone => false | _ => true end.

Lemma feed_app rn : forall a s b,
  feed rn s (a ++ b) =
  let '(s1, p) := feed rn s a in let '(s2, q) := feed rn s1 b in (s2, p ++ q).
Proof.
  induction a as [|e a IH]; intros s b; simpl.
  - destruct (feed rn s b). reflexivity.
  - destruct (on_event rn s e) as [s1 p]. rewrite IH.
    destruct (feed rn s1 a) as [s2 q]. destruct (feed rn s2 b) as [s3 q']. rewrite app_assoc. reflexivity.
Qed.

Lemma state_events_snoc rn es e :
  state_events rn (es ++ [e]) = fst (on_event rn (state_events rn es) e).
Proof.
  unfold state_events. rewrite feed_app. destruct (feed rn (R1 rn) es) as [s1 p]. simpl.
  destruct (on_event rn s1 e). reflexivity.
Qed.

Lemma pubs_events_snoc rn es e :
  pubs_events rn (es ++ [e]) = pubs_events rn es ++ snd (on_event rn (state_events rn es) e).
Proof.
  unfold pubs_events, state_events. rewrite feed_app. destruct (feed rn (R1 rn) es) as [s1 p]. simpl.
  destruct (on_event rn s1 e). simpl. rewrite app_nil_r. reflexivity.
Qed.

Lemma on_topic_app k : forall a b, on_topic k (a ++ b) = on_topic k a ++ on_topic k b.
Proof.
  induction a as [|p a IH]; intros b; simpl; auto.
  destruct p; try destruct (topic_eqb k k0); simpl; rewrite IH; reflexivity.
Qed.

Lemma gstep_phase r g e g1 : gstep r g e = Some g1 ->
  pcore (ph g (ev_trace e)) e = Some (ph g1 (ev_trace e)) /\ ev_run e = r /\
  (forall t', t' <> ev_trace e -> lookup g1 t' = lookup g t').
Proof.
  intros H. destruct (gstep_inv _ _ _ _ H) as (s1 & Hs & ->).
  pose proof (tstep_ph _ _ _ _ _ Hs) as Hp. pose proof (pstep_nums _ _ _ _ _ Hp) as Hn.
  rewrite pstep_core in Hp by assumption. unfold ph. rewrite lookup_update_same.
  split; [assumption|]. split; [apply Hn|]. intros t' Hne. apply lookup_update_other. assumption.
Qed.

Lemma grun_snoc r es e g : grun r [] es = Some g -> grun r [] (es ++ [e]) = gstep r g e.
Proof. intros H. rewrite grun_app, H. simpl. destruct (gstep r g e); reflexivity. Qed.

Lemma wfp_ind r (P : list event -> gstate -> Prop) :
  P [] [] ->
  (forall es e g g1, wf_prefix r (es ++ [e]) = true -> wf_prefix r es = true ->
     grun r [] es = Some g -> gstep r g e = Some g1 -> P es g -> P (es ++ [e]) g1) ->
  forall es, wf_prefix r es = true -> exists g, grun r [] es = Some g /\ P es g.
Proof.
  intros H0 Hstep es. induction es as [|e es IH] using rev_ind; intros Hwf.
  - exists []. auto.
  - pose proof (wf_prefix_app _ _ _ Hwf) as Hwf'. destruct (IH Hwf') as (g & Hg & HP).
    pose proof Hwf as Hwf2. apply wf_prefix_unfold in Hwf2. destruct Hwf2 as [(g1 & Hg1) _].
    rewrite (grun_snoc _ _ _ _ Hg) in Hg1. exists g1. split.
    + rewrite (grun_snoc _ _ _ _ Hg). assumption.
    + eapply Hstep; eauto.
Qed.

Lemma wfp_grun r es : wf_prefix r es = true -> exists g, grun r [] es = Some g.
Proof. intros H. apply wf_prefix_unfold in H. tauto. Qed.

Lemma ph_none_proj r es g t : grun r [] es = Some g -> ph g t = PNone -> proj t es = [].
Proof.
  intros Hg Hp. pose proof (grun_proj _ _ _ _ Hg t) as H. simpl in H. apply trun_ph in H. simpl in H.
  unfold ph in Hp. rewrite Hp in H. apply prun_to_none in H. tauto.
Qed.

Lemma ended_proj t : forall es, proj t es = [] -> ended t es = false.
Proof.
  induction es as [|e es IH]; simpl; auto. intros H.
  destruct (ev_trace e =? t) eqn:E; [discriminate|]. rewrite IH by assumption.
  destruct e; simpl in *; try reflexivity. rewrite E. reflexivity.
Qed.

Lemma in_trace_starts_proj t : forall es, proj t es = [] -> ~ In t (trace_starts es).
Proof.
  induction es as [|e es IH]; [simpl; auto|]. rewrite proj_cons, trace_starts_cons. intros H.
  destruct (ev_trace e =? t) eqn:E; [discriminate|].
  destruct e; auto. simpl in *. intros [-> | Hin]; [rewrite Z.eqb_refl in E; discriminate | apply IH; auto].
Qed.

Lemma ended_app t a b : ended t (a ++ b) = ended t a || ended t b.
Proof. apply existsb_app. Qed.

Lemma wfp_nodup_traces r es : wf_prefix r es = true -> NoDup (trace_starts es).
Proof. intros H. destruct (wfp_grun _ _ H) as (g & Hg). apply (grun_trace_starts _ _ _ _ Hg). Qed.

Lemma NoDup_filter {A} (f : A -> bool) l : NoDup l -> NoDup (filter f l).
Proof.
  induction 1; simpl; [constructor|]. destruct (f x); auto. constructor; auto.
  intros Hin. apply filter_In in Hin. tauto.
Qed.

Lemma remove_first_filter : forall l t, NoDup l -> remove_first l t = filter (fun x => negb (t =? x)) l.
Proof.
  induction l as [|y l IH]; intros t Hnd; simpl; auto. inv Hnd.
  destruct (t =? y) eqn:E; simpl.
  - apply Z.eqb_eq in E. subst. symmetry. clear IH H2. induction l as [|z l IHl]; simpl; auto.
    destruct (y =? z) eqn:Ez; simpl.
    + apply Z.eqb_eq in Ez. subst. exfalso. apply H1. left. reflexivity.
    + f_equal. apply IHl. intros Hin. apply H1. right. assumption.
  - f_equal. apply IH. assumption.
Qed.

(** ------------------------------------------------------------------ per-registrar views of on_event *)

Ltac destruct_lets :=
  repeat match goal with
  | |- context [let '(_, _) := ?x in _] => destruct x eqn:?
  end.

Lemma on_event_tn rn s e :
  r_tn (fst (on_event rn s e)) =
    match e with
    | StartTrace _ t _ => r_tn s ++ [t]
    | EndTrace _ t => fst (tn_end (r_tn s) t)
    | _ => r_tn s
    end /\
  on_topic TTraceNos (snd (on_event rn s e)) =
    match e with
    | StartTrace _ t _ => [Some (VNos (r_tn s ++ [t]))]
    | EndTrace _ t => on_topic TTraceNos (snd (tn_end (r_tn s) t))
    | _ => []
    end.
Proof.
  destruct e; simpl.
  - unfold ti_start, pi_start_trace. simpl. auto.
  - unfold ti_end, pi_end_trace. destruct (tn_end (r_tn s) t) as [tn p1]. simpl.
    destruct (dget (r_ti s) t) as [[? ?]|]; destruct (existsb (Z.eqb t) (pi_keys (r_pi s))); simpl;
      rewrite ?on_topic_app; simpl; rewrite ?app_nil_r; auto.
  - auto.
  - unfold pi_end_call, pn_end_call. destruct (dget (pi_call (r_pi s)) t) as [[fid info]|]; simpl; auto.
    destruct (dget (pi_frame (r_pi s)) t) as [f|]; simpl; auto. destruct (fid =? f); simpl; auto.
  - auto.
  - auto.
  - unfold pi_start_prompt, pn_start_prompt.
    destruct (dget (pi_call (r_pi s)) t) as [[fid info]|]; destruct (dget (r_pn s) t) as [[? ?]|]; simpl; auto.
  - unfold pi_end_prompt. destruct (dget (pi_prompt (r_pi s)) p); simpl; auto.
  - auto.
Qed.

(** ------------------------------------------------------------------ C11_active_set *)

Lemma last_nos_state rn : forall es, last_nos (pubs_events rn es) = r_tn (state_events rn es).
Proof.
  intros es. induction es as [|e es IH] using rev_ind.
  - reflexivity.
  - rewrite pubs_events_snoc, state_events_snoc. destruct (on_event_tn rn (state_events rn es) e) as [H1 H2].
    rewrite H1. unfold last_nos in *. rewrite on_topic_app, H2.
    destruct e; rewrite ?app_nil_r; auto.
    + rewrite last_last. reflexivity.
    + unfold tn_end. destruct (existsb (Z.eqb t) (r_tn (state_events rn es))); simpl.
      * rewrite last_last. reflexivity.
      * rewrite app_nil_r. assumption.
Qed.

Lemma active_snoc_other es e :
  (forall t, is_end_of t e = false) -> trace_starts [e] = [] -> active (es ++ [e]) = active es.
Proof.
  intros He Hs. unfold active. rewrite trace_starts_app, Hs, app_nil_r.
  apply filter_ext. intros t. rewrite ended_app. simpl. rewrite He. rewrite !orb_false_r. reflexivity.
Qed.

Lemma state_tn r : forall es, wf_prefix r es = true -> r_tn (state_events r es) = active es.
Proof.
  intros es Hwf.
  destruct (wfp_ind r (fun es _ => r_tn (state_events r es) = active es)) with (es := es) as (g & _ & H); auto.
  clear es Hwf. intros es e g g1 Hwf Hwf' Hg Hs IH.
  rewrite state_events_snoc. destruct (on_event_tn r (state_events r es) e) as [H1 _]. rewrite H1, IH.
  destruct (gstep_phase _ _ _ _ Hs) as (Hp & _ & _).
  destruct e; try (symmetry; apply active_snoc_other; [intros; reflexivity | reflexivity]).
  - (* StartTrace *)
    simpl in Hp. assert (Hn : ph g t = PNone) by (destruct (ph g t) as [| |?|? []|? ?|?|]; simpl in Hp; try discriminate; reflexivity).
    pose proof (ended_proj _ _ (ph_none_proj _ _ _ _ Hg Hn)) as He.
    unfold active. rewrite trace_starts_app. simpl. rewrite filter_app. simpl.
    rewrite ended_app, He. simpl. f_equal. apply filter_ext. intros x. rewrite ended_app. simpl. rewrite orb_false_r. reflexivity.
  - (* EndTrace *)
    pose proof (NoDup_filter (fun t => negb (ended t es)) _ (wfp_nodup_traces _ _ Hwf')) as Hnd. fold (active es) in Hnd.
    unfold tn_end. rewrite (remove_first_filter _ t Hnd).
    assert (Heq : filter (fun x => negb (t =? x)) (active es) = active (es ++ [EndTrace r0 t])).
    { unfold active. rewrite trace_starts_app. simpl. rewrite app_nil_r.
      induction (trace_starts es) as [|y l IHl]; simpl; auto.
      rewrite ended_app. simpl. rewrite orb_false_r.
      destruct (ended y es); simpl.
      - apply IHl.
      - destruct (t =? y) eqn:E; simpl; rewrite ?IHl; reflexivity. }
    destruct (existsb (Z.eqb t) (active es)) eqn:Ex; simpl; auto.
    rewrite <- Heq. symmetry. clear - Ex.
    induction (active es) as [|y l IHl]; simpl in *; auto.
    apply orb_false_iff in Ex. destruct Ex as [E1 E2]. rewrite E1. simpl. f_equal. apply IHl. assumption.
Qed.

Theorem active_set r es : wf_prefix r es = true -> last_nos (pubs_events r es) = active es.
Proof. intros H. rewrite last_nos_state. apply state_tn. assumption. Qed.

(** ------------------------------------------------------------------ dict / set lemmas *)

Lemma dget_dset_same {A} : forall (d : list (Z * A)) k v, dget (dset d k v) k = Some v.
Proof.
  induction d as [|[k' v'] d IH]; intros k v; simpl.
  - rewrite Z.eqb_refl. reflexivity.
  - destruct (k =? k') eqn:E; simpl; rewrite ?Z.eqb_refl, ?E; auto.
Qed.

Lemma dget_dset_other {A} : forall (d : list (Z * A)) k k' v, k' <> k -> dget (dset d k v) k' = dget d k'.
Proof.
  induction d as [|[k1 v1] d IH]; intros k k' v Hne; simpl.
  - apply Z.eqb_neq in Hne. rewrite Hne. reflexivity.
  - destruct (k =? k1) eqn:E; simpl.
    + apply Z.eqb_eq in E. subst. apply Z.eqb_neq in Hne. rewrite Hne. reflexivity.
    + destruct (k' =? k1); auto.
Qed.

Lemma dget_ddel_same {A} : forall (d : list (Z * A)) k, dget (ddel d k) k = None.
Proof.
  induction d as [|[k1 v1] d IH]; intros k; simpl; auto.
  destruct (k1 =? k) eqn:E; simpl; auto. rewrite Z.eqb_sym, E. apply IH.
Qed.

Lemma dget_ddel_other {A} : forall (d : list (Z * A)) k k', k' <> k -> dget (ddel d k) k' = dget d k'.
Proof.
  induction d as [|[k1 v1] d IH]; intros k k' Hne; simpl; auto.
  destruct (k1 =? k) eqn:E; simpl.
  - apply Z.eqb_eq in E. subst. apply Z.eqb_neq in Hne. rewrite Hne. apply IH. apply Z.eqb_neq. assumption.
  - destruct (k' =? k1); auto.
Qed.

Lemma dset_keys {A} : forall (d : list (Z * A)) k v,
  map fst (dset d k v) = if existsb (Z.eqb k) (map fst d) then map fst d else map fst d ++ [k].
Proof.
  induction d as [|[k1 v1] d IH]; intros k v; simpl; auto.
  destruct (k =? k1) eqn:E; simpl.
  - apply Z.eqb_eq in E. subst. reflexivity.
  - rewrite IH. destruct (existsb (Z.eqb k) (map fst d)); reflexivity.
Qed.

Lemma existsb_eqb_In k l : existsb (Z.eqb k) l = true <-> In k l.
Proof.
  rewrite existsb_exists. split.
  - intros (x & Hx & E). apply Z.eqb_eq in E. subst. assumption.
  - intros H. exists k. split; auto. apply Z.eqb_refl.
Qed.

Lemma NoDup_snoc {A} (l : list A) x : NoDup l -> ~ In x l -> NoDup (l ++ [x]).
Proof.
  induction 1; simpl; intros Hx.
  - constructor; auto. constructor.
  - constructor.
    + intros Hin. apply in_app_or in Hin. destruct Hin as [Hin | [-> | []]]; tauto.
    + apply IHNoDup. tauto.
Qed.

Lemma dset_nodup {A} (d : list (Z * A)) k v : NoDup (map fst d) -> NoDup (map fst (dset d k v)).
Proof.
  intros H. rewrite dset_keys. destruct (existsb (Z.eqb k) (map fst d)) eqn:E; auto.
  apply NoDup_snoc; auto. intros Hin. apply existsb_eqb_In in Hin. congruence.
Qed.

Lemma ddel_nodup {A} (d : list (Z * A)) k : NoDup (map fst d) -> NoDup (map fst (ddel d k)).
Proof.
  unfold ddel. induction d as [|[k1 v1] d IH]; simpl; intros H; auto. inv H.
  destruct (k1 =? k); simpl; auto. constructor; auto.
  intros Hin. apply H2. apply in_map_iff in Hin. destruct Hin as (x & Hx & Hin). apply filter_In in Hin.
  apply in_map_iff. exists x. tauto.
Qed.

Lemma sadd_existsb s k t : existsb (Z.eqb t) (sadd s k) = (t =? k) || existsb (Z.eqb t) s.
Proof.
  unfold sadd. destruct (existsb (Z.eqb k) s) eqn:E.
  - destruct (t =? k) eqn:Et; simpl; auto. apply Z.eqb_eq in Et. subst. assumption.
  - rewrite existsb_app. simpl. rewrite orb_false_r. apply orb_comm.
Qed.

Lemma sadd_present s k : existsb (Z.eqb k) s = true -> sadd s k = s.
Proof. unfold sadd. intros ->. reflexivity. Qed.

Lemma sdel_existsb s k t : existsb (Z.eqb t) (sdel s k) = negb (t =? k) && existsb (Z.eqb t) s.
Proof.
  unfold sdel. induction s as [|x s IH]; simpl.
  - rewrite andb_false_r. reflexivity.
  - destruct (x =? k) eqn:E; simpl; rewrite IH.
    + apply Z.eqb_eq in E. subst. destruct (t =? k); simpl; auto.
    + destruct (t =? x) eqn:Et; simpl; auto. apply Z.eqb_eq in Et. subst. rewrite E. reflexivity.
Qed.

Lemma sadd_nodup s k : NoDup s -> NoDup (sadd s k).
Proof.
  unfold sadd. intros H. destruct (existsb (Z.eqb k) s) eqn:E; auto.
  apply NoDup_snoc; auto. intros Hin. apply existsb_eqb_In in Hin. congruence.
Qed.

Lemma sdel_nodup s k : NoDup s -> NoDup (sdel s k).
Proof. apply NoDup_filter. Qed.

(** ------------------------------------------------------------------ phases *)

Definition is_trace_boundary (e : event) : bool :=
  match e with StartTrace _ _ _ | EndTrace _ _ => true | _ => false end.

Lemma pcore_inner p e p' : pcore p e = Some p' -> is_trace_boundary e = false -> live p = true /\ live p' = true.
Proof.
  destruct p as [| |?|? []|? ?|?|], e; simpl; intros H Hb; try discriminate; crush_eqs; auto.
Qed.

Lemma pcore_start p r t pl p' : pcore p (StartTrace r t pl) = Some p' -> p = PNone /\ p' = PIdle.
Proof. destruct p as [| |?|? []|? ?|?|]; simpl; intros H; try discriminate. inv H. auto. Qed.

Lemma pcore_end p r t p' : pcore p (EndTrace r t) = Some p' -> p = PIdle /\ p' = PDone.
Proof. destruct p as [| |?|? []|? ?|?|]; simpl; intros H; try discriminate. inv H. auto. Qed.

Lemma pl_of_app_in t : forall es l, In t (trace_starts es) -> pl_of t (es ++ l) = pl_of t es.
Proof.
  induction es as [|e es IH]; intros l H; [destruct H|].
  rewrite trace_starts_cons in H. simpl.
  destruct e; auto. destruct (t0 =? t) eqn:E; auto. apply IH. destruct H as [-> | H]; auto.
  rewrite Z.eqb_refl in E. discriminate.
Qed.

Lemma pl_of_app_notin t : forall es l, ~ In t (trace_starts es) -> pl_of t (es ++ l) = pl_of t l.
Proof.
  induction es as [|e es IH]; intros l H; auto.
  rewrite trace_starts_cons in H. simpl.
  destruct e; auto. destruct (t0 =? t) eqn:E.
  - apply Z.eqb_eq in E. subst. exfalso. apply H. left. reflexivity.
  - apply IH. intros Hin. apply H. right. assumption.
Qed.

(** a trace with a state has started (and conversely) *)
Lemma started_iff r es : wf_prefix r es = true ->
  exists g, grun r [] es = Some g /\ forall t, ph g t <> PNone <-> In t (trace_starts es).
Proof.
  intros Hwf. apply (wfp_ind r (fun es g => forall t, ph g t <> PNone <-> In t (trace_starts es))); auto.
  - intros t. simpl. split; [intros H; exfalso; apply H; reflexivity | intros []].
  - clear es Hwf. intros es e g g1 Hwf Hwf' Hg Hs IH t.
    destruct (gstep_phase _ _ _ _ Hs) as (Hp & _ & Ho).
    rewrite trace_starts_app, in_app_iff.
    destruct (Z.eq_dec t (ev_trace e)) as [-> | Hne].
    + split.
      * intros _. destruct e; try (left; apply IH; apply pcore_inner in Hp; [|reflexivity]; destruct Hp as [Hl _];
          intros E; rewrite E in Hl; discriminate).
        -- right. simpl. auto.
        -- left. apply IH. apply pcore_end in Hp. destruct Hp as [-> _]. discriminate.
      * intros _. eapply pcore_not_none; eauto.
    + unfold ph in *. rewrite (Ho t Hne), IH. split; auto. intros [H | H]; auto.
      destruct e; simpl in H; try contradiction. destruct H as [<- | []]. exfalso. apply Hne. reflexivity.
Qed.

(** ------------------------------------------------------------------ C11_trace_info_once *)

Definition about (t : Z) (x : option value) : bool :=
  match x with Some (VTraceInfo _ t' _ _) => t' =? t | _ => false end.

Definition ti_expected (r t pl : Z) (p : phase) : list (option value) :=
  match p with
  | PNone => []
  | PDone => [Some (VTraceInfo r t pl true); Some (VTraceInfo r t pl false)]
  | _ => [Some (VTraceInfo r t pl true)]
  end.

Lemma on_event_ti rn s e :
  r_ti (fst (on_event rn s e)) =
    match e with
    | StartTrace _ t pl => dset (r_ti s) t (rn, pl)
    | EndTrace _ t => fst (ti_end (r_ti s) t)
    | _ => r_ti s
    end /\
  on_topic TTraceInfo (snd (on_event rn s e)) =
    match e with
    | StartTrace _ t pl => [Some (VTraceInfo rn t pl true)]
    | EndTrace _ t => on_topic TTraceInfo (snd (ti_end (r_ti s) t))
    | _ => []
    end.
Proof.
  destruct e; simpl.
  - unfold pi_start_trace. simpl. auto.
  - unfold tn_end, pi_end_trace. destruct (ti_end (r_ti s) t) as [ti p2]. simpl.
    destruct (existsb (Z.eqb t) (r_tn s)); destruct (existsb (Z.eqb t) (pi_keys (r_pi s))); simpl;
      rewrite ?on_topic_app; simpl; rewrite ?app_nil_r; auto.
  - auto.
  - unfold pi_end_call, pn_end_call. destruct (dget (pi_call (r_pi s)) t) as [[fid info]|]; simpl; auto.
    destruct (dget (pi_frame (r_pi s)) t) as [f|]; simpl; auto. destruct (fid =? f); simpl; auto.
  - auto.
  - auto.
  - unfold pi_start_prompt, pn_start_prompt.
    destruct (dget (pi_call (r_pi s)) t) as [[fid info]|]; destruct (dget (r_pn s) t) as [[? ?]|]; simpl; auto.
  - unfold pi_end_prompt. destruct (dget (pi_prompt (r_pi s)) p); simpl; auto.
  - auto.
Qed.

Definition ti_inv (r : Z) (es : list event) (g : gstate) : Prop :=
  NoDup (map fst (r_ti (state_events r es))) /\
  forall t,
    dget (r_ti (state_events r es)) t = (if live (ph g t) then Some (r, pl_of t es) else None) /\
    filter (about t) (on_topic TTraceInfo (pubs_events r es)) = ti_expected r t (pl_of t es) (ph g t).

Lemma ti_invariant r es : wf_prefix r es = true -> exists g, grun r [] es = Some g /\ ti_inv r es g.
Proof.
  intros Hwf. apply (wfp_ind r (ti_inv r)); auto.
  - split; [constructor | intros t; split; reflexivity].
  - clear es Hwf. intros es e g g1 Hwf Hwf' Hg Hs [Hnd IH].
    destruct (gstep_phase _ _ _ _ Hs) as (Hp & Hr & Ho).
    destruct (started_iff _ _ Hwf') as (g' & Hg' & Hst). rewrite Hg in Hg'. injection Hg' as <-.
    destruct (on_event_ti r (state_events r es) e) as [H1 H2].
    unfold ti_inv. rewrite state_events_snoc, pubs_events_snoc, on_topic_app, H1, H2. clear H1 H2.
    split.
    + destruct e; auto; [apply dset_nodup; assumption|].
      unfold ti_end. destruct (dget (r_ti (state_events r es)) t) as [[? ?]|]; simpl; auto. apply ddel_nodup. assumption.
    + intros t. destruct (IH t) as [Hd Hf]. rewrite filter_app, Hf.
      destruct (Z.eq_dec t (ev_trace e)) as [-> | Hne].
      * (* the trace of the event *)
        destruct (is_trace_boundary e) eqn:Eb.
        -- destruct e; try discriminate; simpl in *.
           ++ apply pcore_start in Hp. destruct Hp as [Hp0 Hp1]. rewrite Hp0, Hp1. simpl.
              assert (Hni : ~ In t (trace_starts es)) by (intros Hin; apply Hst in Hin; contradiction).
              rewrite (pl_of_app_notin _ _ _ Hni). simpl. rewrite !Z.eqb_refl. subst r0.
              split; [apply dget_dset_same | reflexivity].
           ++ apply pcore_end in Hp. destruct Hp as [Hp0 Hp1]. rewrite Hp0 in *. rewrite Hp1. simpl in *.
              assert (Hi : In t (trace_starts es)) by (apply Hst; rewrite Hp0; discriminate).
              rewrite (pl_of_app_in _ _ _ Hi). unfold ti_end. rewrite Hd. simpl. rewrite Z.eqb_refl.
              split; [apply dget_ddel_same | reflexivity].
        -- destruct (pcore_inner _ _ _ Hp Eb) as [Hl Hl1].
           assert (Hi : In (ev_trace e) (trace_starts es)) by (apply Hst; intros E; rewrite E in Hl; discriminate).
           rewrite (pl_of_app_in _ _ _ Hi). rewrite Hl in Hd. rewrite Hl1.
           assert (Hx : ti_expected r (ev_trace e) (pl_of (ev_trace e) es) (ph g1 (ev_trace e)) =
                        ti_expected r (ev_trace e) (pl_of (ev_trace e) es) (ph g (ev_trace e))).
           { destruct (ph g (ev_trace e)), (ph g1 (ev_trace e)); simpl in *; try discriminate; reflexivity. }
           rewrite Hx. destruct e; try discriminate; simpl; rewrite app_nil_r; auto.
      * (* another trace *)
        assert (Hph : ph g1 t = ph g t) by (unfold ph; rewrite (Ho t Hne); reflexivity). rewrite Hph.
        assert (Hpl : live (ph g t) = true \/ ph g t = PDone -> pl_of t (es ++ [e]) = pl_of t es).
        { intros Hl. apply pl_of_app_in. apply Hst. destruct Hl as [Hl | Hl]; intros E; rewrite E in Hl; discriminate. }
        assert (Hnet : forall x, x = ev_trace e -> (x =? t) = false) by (intros x ->; apply Z.eqb_neq; auto).
        assert (Hfil : filter (about t)
                 match e with
                 | StartTrace _ t0 pl => [Some (VTraceInfo r t0 pl true)]
                 | EndTrace _ t0 => on_topic TTraceInfo (snd (ti_end (r_ti (state_events r es)) t0))
                 | _ => []
                 end = []).
        { destruct e; simpl; auto.
          - rewrite (Hnet t0); auto.
          - unfold ti_end. destruct (dget (r_ti (state_events r es)) t0) as [[? ?]|]; simpl; auto. rewrite (Hnet t0); auto. }
        rewrite Hfil, app_nil_r. split.
        -- assert (Hdg : dget match e with
                     | StartTrace _ t0 pl => dset (r_ti (state_events r es)) t0 (r, pl)
                     | EndTrace _ t0 => fst (ti_end (r_ti (state_events r es)) t0)
                     | _ => r_ti (state_events r es)
                     end t = dget (r_ti (state_events r es)) t).
           { destruct e; auto.
             - simpl in Hne. apply dget_dset_other. assumption.
             - simpl in Hne. unfold ti_end. destruct (dget (r_ti (state_events r es)) t0) as [[? ?]|]; simpl; auto.
               apply dget_ddel_other. assumption. }
           rewrite Hdg, Hd. destruct (live (ph g t)) eqn:El; auto. rewrite Hpl; auto.
        -- destruct (ph g t) eqn:Ep; simpl; auto; rewrite Hpl; auto.
Qed.

Lemma on_end_run_ti rn s :
  on_topic TTraceInfo (snd (on_end_run rn s)) = on_topic TTraceInfo (snd (ti_end_run (r_ti s))).
Proof.
  unfold on_end_run, ri_end_run, tn_end_run, pi_end_run, pn_end_run.
  destruct (r_ri s); simpl; rewrite !on_topic_app; simpl.
  all: assert (H : on_topic TTraceInfo (map (fun t : Z => EndT (TPromptInfoFor t)) (pi_keys (r_pi s))) = [])
         by (induction (pi_keys (r_pi s)); simpl; auto).
  all: rewrite H, app_nil_r; reflexivity.
Qed.

Lemma ti_end_run_about t : forall (m : list (Z * (Z * Z))), NoDup (map fst m) ->
  filter (about t) (on_topic TTraceInfo (map (fun kv => Pub TTraceInfo (VTraceInfo (fst (snd kv)) (fst kv) (snd (snd kv)) false)) m)) =
  match dget m t with Some (rn, pl) => [Some (VTraceInfo rn t pl false)] | None => [] end.
Proof.
  induction m as [|[k [rn pl]] m IH]; simpl; intros Hnd; auto. inv Hnd.
  rewrite (Z.eqb_sym t k). destruct (k =? t) eqn:E.
  - apply Z.eqb_eq in E. subst. rewrite IH by assumption.
    assert (Hn : dget m t = None).
    { clear - H1. induction m as [|[k v] m IHm]; simpl in *; auto. destruct (t =? k) eqn:E.
      - apply Z.eqb_eq in E. subst. exfalso. apply H1. left. reflexivity.
      - apply IHm. intros Hin. apply H1. right. assumption. }
    rewrite Hn. reflexivity.
  - apply IH. assumption.
Qed.

Lemma dget_rev {A} : forall (m : list (Z * A)) t, NoDup (map fst m) -> dget (rev m) t = dget m t.
Proof.
  induction m as [|[k v] m IH]; intros t Hnd; simpl; auto. inv Hnd.
  assert (Happ : forall (a b : list (Z * A)), dget (a ++ b) t = match dget a t with Some x => Some x | None => dget b t end).
  { induction a as [|[k1 v1] a IHa]; intros b; simpl; auto. destruct (t =? k1); auto. }
  rewrite Happ, IH by assumption. simpl. destruct (t =? k) eqn:E.
  - apply Z.eqb_eq in E. subst.
    assert (Hn : dget m k = None).
    { clear - H1. induction m as [|[k1 v1] m IHm]; simpl in *; auto. destruct (k =? k1) eqn:E.
      - apply Z.eqb_eq in E. subst. exfalso. apply H1. left. reflexivity.
      - apply IHm. intros Hin. apply H1. right. assumption. }
    rewrite Hn. reflexivity.
  - destruct (dget m t); reflexivity.
Qed.

Theorem trace_info_once r es : wf_prefix r es = true ->
  forall t,
    filter (about t) (on_topic TTraceInfo (pubs_run r es)) =
    if in_dec Z.eq_dec t (trace_starts es)
    then [Some (VTraceInfo r t (pl_of t es) true); Some (VTraceInfo r t (pl_of t es) false)]
    else [].
Proof.
  intros Hwf t. destruct (ti_invariant _ _ Hwf) as (g & Hg & Hnd & Hinv).
  destruct (started_iff _ _ Hwf) as (g' & Hg' & Hst). rewrite Hg in Hg'. injection Hg' as <-.
  destruct (Hinv t) as [Hd Hf].
  unfold pubs_run, pubs_end. rewrite on_topic_app, filter_app, Hf, on_end_run_ti. unfold ti_end_run. simpl snd.
  rewrite ti_end_run_about by (rewrite map_rev; apply NoDup_rev; assumption).
  rewrite dget_rev by assumption. rewrite Hd.
  destruct (in_dec Z.eq_dec t (trace_starts es)) as [Hin | Hnin].
  - apply Hst in Hin. destruct (ph g t); simpl; try reflexivity. exfalso. apply Hin. reflexivity.
  - destruct (ph g t) eqn:Ep; simpl; try reflexivity; exfalso; apply Hnin, Hst; rewrite Ep; discriminate.
Qed.

(** ------------------------------------------------------------------ per-trace prompt topics: C11_closed_out *)

Arguments pubs_events : simpl never.
Arguments state_events : simpl never.

Lemma on_event_for_other rn s e t : t <> ev_trace e ->
  on_topic (TPromptInfoFor t) (snd (on_event rn s e)) = [].
Proof.
  intros Hne. apply Z.eqb_neq in Hne.
  destruct e; simpl in *.
  - rewrite Hne. reflexivity.
  - unfold tn_end, ti_end, pi_end_trace.
    destruct (existsb (Z.eqb t0) (r_tn s)); destruct (dget (r_ti s) t0) as [[? ?]|];
      destruct (existsb (Z.eqb t0) (pi_keys (r_pi s))); simpl; rewrite ?Hne; reflexivity.
  - reflexivity.
  - unfold pi_end_call, pn_end_call. destruct (dget (pi_call (r_pi s)) t0) as [[fid info]|]; simpl; auto.
    destruct (dget (pi_frame (r_pi s)) t0) as [f|]; simpl; auto. destruct (fid =? f); simpl; rewrite ?Hne; auto.
  - reflexivity.
  - reflexivity.
  - unfold pi_start_prompt, pn_start_prompt.
    destruct (dget (pi_call (r_pi s)) t0) as [[fid info]|]; destruct (dget (r_pn s) t0) as [[? ?]|]; simpl; rewrite ?Hne; auto.
  - unfold pi_end_prompt. destruct (dget (pi_prompt (r_pi s)) p); simpl; rewrite ?Hne; auto.
  - reflexivity.
Qed.

Lemma on_event_for_inner rn s e t : is_trace_boundary e = false ->
  (exists vs, on_topic (TPromptInfoFor t) (snd (on_event rn s e)) = map Some vs) /\
  (pi_keys (r_pi (fst (on_event rn s e))) = pi_keys (r_pi s) \/
   pi_keys (r_pi (fst (on_event rn s e))) = sadd (pi_keys (r_pi s)) (ev_trace e)).
Proof.
  intros Hb. destruct e; try discriminate; simpl.
  - split; [exists []; reflexivity | auto].
  - unfold pi_end_call, pn_end_call. destruct (dget (pi_call (r_pi s)) t0) as [[fid info]|]; simpl.
    2:{ split; [exists []; reflexivity | auto]. }
    destruct (dget (pi_frame (r_pi s)) t0) as [f|]; simpl.
    2:{ split; [exists []; reflexivity | auto]. }
    destruct (fid =? f); simpl.
    + split; auto. destruct (t =? t0); eexists; [instantiate (1 := [_]) | instantiate (1 := [])]; reflexivity.
    + split; [exists []; reflexivity | auto].
  - split; [exists []; reflexivity | auto].
  - split; [exists []; reflexivity | auto].
  - unfold pi_start_prompt, pn_start_prompt.
    destruct (dget (pi_call (r_pi s)) t0) as [[fid info]|]; destruct (dget (r_pn s) t0) as [[? ?]|]; simpl;
      (split; [|auto]).
    all: try (exists []; reflexivity).
    all: destruct (t =? t0); eexists; [instantiate (1 := [_]) | instantiate (1 := [])]; reflexivity.
  - unfold pi_end_prompt. destruct (dget (pi_prompt (r_pi s)) p); simpl; (split; [|auto]).
    + destruct (t =? t0); eexists; [instantiate (1 := [_]) | instantiate (1 := [])]; reflexivity.
    + exists []. reflexivity.
  - split; [exists []; reflexivity | auto].
Qed.

Lemma on_event_for_start rn s r0 t0 pl t :
  pi_keys (r_pi (fst (on_event rn s (StartTrace r0 t0 pl)))) = sadd (pi_keys (r_pi s)) t0 /\
  on_topic (TPromptInfoFor t) (snd (on_event rn s (StartTrace r0 t0 pl))) =
    if t =? t0 then [Some (VPromptInfo (mkPinfo rn t0 (-1) false None None None false))] else [].
Proof. simpl. split; auto; destruct (t =? t0); reflexivity. Qed.

Lemma on_event_for_end rn s r0 t0 t :
  pi_keys (r_pi (fst (on_event rn s (EndTrace r0 t0)))) =
    (if existsb (Z.eqb t0) (pi_keys (r_pi s)) then sdel (pi_keys (r_pi s)) t0 else pi_keys (r_pi s)) /\
  on_topic (TPromptInfoFor t) (snd (on_event rn s (EndTrace r0 t0))) =
    if (t =? t0) && existsb (Z.eqb t0) (pi_keys (r_pi s)) then [None] else [].
Proof.
  simpl. unfold tn_end, ti_end, pi_end_trace.
  destruct (existsb (Z.eqb t0) (r_tn s)); destruct (dget (r_ti s) t0) as [[? ?]|];
    destruct (existsb (Z.eqb t0) (pi_keys (r_pi s))); simpl; split; auto;
    destruct (t =? t0); reflexivity.
Qed.

Definition for_shape (p : phase) (l : list (option value)) : Prop :=
  match p with
  | PNone => l = []
  | PDone => exists vs, l = map Some vs ++ [None]
  | _ => exists vs, l = map Some vs
  end.

Definition keys_inv (r : Z) (es : list event) (g : gstate) : Prop :=
  NoDup (pi_keys (r_pi (state_events r es))) /\
  forall t,
    existsb (Z.eqb t) (pi_keys (r_pi (state_events r es))) = live (ph g t) /\
    for_shape (ph g t) (on_topic (TPromptInfoFor t) (pubs_events r es)).

Lemma for_shape_live_app p p' l vs :
  live p = true -> live p' = true -> for_shape p l -> for_shape p' (l ++ map Some vs).
Proof.
  intros H1 H2 Hs.
  assert (exists vs0, l = map Some vs0) as [vs0 ->] by (destruct p; simpl in *; try discriminate; assumption).
  rewrite <- map_app. destruct p'; simpl in *; try discriminate; eauto.
Qed.

Lemma keys_invariant r es : wf_prefix r es = true -> exists g, grun r [] es = Some g /\ keys_inv r es g.
Proof.
  intros Hwf. apply (wfp_ind r (keys_inv r)); auto.
  - split; [constructor | intros t; split; reflexivity].
  - clear es Hwf. intros es e g g1 Hwf Hwf' Hg Hs [Hnd IH].
    destruct (gstep_phase _ _ _ _ Hs) as (Hp & Hr & Ho).
    unfold keys_inv. rewrite state_events_snoc, pubs_events_snoc.
    set (s := state_events r es) in *.
    split.
    + destruct (is_trace_boundary e) eqn:Eb.
      * destruct e; try discriminate.
        -- rewrite (proj1 (on_event_for_start r s r0 t pl 0)). apply sadd_nodup. assumption.
        -- rewrite (proj1 (on_event_for_end r s r0 t 0)). destruct (existsb (Z.eqb t) (pi_keys (r_pi s))); auto.
           apply sdel_nodup. assumption.
      * destruct (on_event_for_inner r s e 0 Eb) as [_ [-> | ->]]; auto. apply sadd_nodup. assumption.
    + intros t. destruct (IH t) as [Hk Hsh]. rewrite on_topic_app.
      destruct (Z.eq_dec t (ev_trace e)) as [-> | Hne].
      * destruct (is_trace_boundary e) eqn:Eb.
        -- destruct e; try discriminate; cbn [ev_trace] in *.
           ++ apply pcore_start in Hp. destruct Hp as [Hp0 Hp1].
              destruct (on_event_for_start r s r0 t pl t) as [-> ->]. rewrite Hp1. rewrite Hp0 in Hsh. unfold for_shape in Hsh.
              rewrite sadd_existsb, Z.eqb_refl, Hsh. cbn [orb live for_shape app]. split; auto. eexists [_]. reflexivity.
           ++ apply pcore_end in Hp. destruct Hp as [Hp0 Hp1].
              destruct (on_event_for_end r s r0 t t) as [-> ->]. rewrite Hp1. rewrite Hp0 in Hsh, Hk. unfold for_shape in Hsh. simpl in Hk.
              rewrite Hk, Z.eqb_refl. cbn [andb]. rewrite sdel_existsb, Z.eqb_refl. cbn [negb andb live for_shape]. split; auto.
              destruct Hsh as [vs ->]. eauto.
        -- destruct (pcore_inner _ _ _ Hp Eb) as [Hl Hl1].
           destruct (on_event_for_inner r s e (ev_trace e) Eb) as [[vs ->] Hkeys]. rewrite Hl in Hk. rewrite Hl1. split.
           ++ destruct Hkeys as [-> | ->]; auto. rewrite sadd_present; auto.
           ++ apply (for_shape_live_app (ph g (ev_trace e))); assumption.
      * assert (Hph : ph g1 t = ph g t) by (unfold ph; rewrite (Ho t Hne); reflexivity). rewrite Hph.
        rewrite on_event_for_other by assumption. rewrite app_nil_r. split; auto. rewrite <- Hk.
        apply Z.eqb_neq in Hne.
        destruct (is_trace_boundary e) eqn:Eb.
        -- destruct e; try discriminate; simpl in Hne.
           ++ rewrite (proj1 (on_event_for_start r s r0 t0 pl 0)), sadd_existsb, Hne. reflexivity.
           ++ rewrite (proj1 (on_event_for_end r s r0 t0 0)). destruct (existsb (Z.eqb t0) (pi_keys (r_pi s))); auto.
              rewrite sdel_existsb, Hne. reflexivity.
        -- destruct (on_event_for_inner r s e 0 Eb) as [_ [-> | ->]]; auto. rewrite sadd_existsb, Hne. reflexivity.
Qed.

Lemma on_end_run_for rn s t : NoDup (pi_keys (r_pi s)) ->
  on_topic (TPromptInfoFor t) (snd (on_end_run rn s)) =
  if existsb (Z.eqb t) (pi_keys (r_pi s)) then [None] else [].
Proof.
  intros Hnd. unfold on_end_run, ri_end_run, tn_end_run, ti_end_run, pi_end_run, pn_end_run.
  assert (H1 : on_topic (TPromptInfoFor t)
     (map (fun kv : Z * (Z * Z) => Pub TTraceInfo (VTraceInfo (fst (snd kv)) (fst kv) (snd (snd kv)) false)) (rev (r_ti s))) = [])
    by (induction (rev (r_ti s)); simpl; auto).
  assert (H2 : on_topic (TPromptInfoFor t) (map (fun t0 : Z => EndT (TPromptInfoFor t0)) (pi_keys (r_pi s))) =
               if existsb (Z.eqb t) (pi_keys (r_pi s)) then [None] else []).
  { induction (pi_keys (r_pi s)) as [|k l IHl]; simpl; auto. inv Hnd.
    destruct (t =? k) eqn:E; simpl.
    - rewrite IHl by assumption. apply Z.eqb_eq in E. subst.
      destruct (existsb (Z.eqb k) l) eqn:Ex; auto. apply existsb_eqb_In in Ex. contradiction.
    - apply IHl. assumption. }
  destruct (r_ri s); simpl; rewrite !on_topic_app, H1, H2; simpl; rewrite app_nil_r; reflexivity.
Qed.

(** after on_end_run on any truncated stream, the per-trace prompt topic of every started
    trace has been ended, exactly once, and nothing was published on it afterwards *)
Theorem prompt_topic_closed r es : wf_prefix r es = true ->
  forall t, In t (trace_starts es) ->
  exists vs, on_topic (TPromptInfoFor t) (pubs_run r es) = map Some vs ++ [None].
Proof.
  intros Hwf t Hin. destruct (keys_invariant _ _ Hwf) as (g & Hg & Hnd & Hinv).
  destruct (started_iff _ _ Hwf) as (g' & Hg' & Hst). rewrite Hg in Hg'. injection Hg' as <-.
  destruct (Hinv t) as [Hk Hsh]. apply Hst in Hin.
  unfold pubs_run, pubs_end. rewrite on_topic_app, on_end_run_for by assumption. rewrite Hk.
  destruct (ph g t) eqn:Ep; unfold for_shape in Hsh; cbn [live]; try (exfalso; apply Hin; reflexivity);
    destruct Hsh as [vs ->]; exists vs; rewrite ?app_nil_r; reflexivity.
Qed.

Lemma on_event_notice_some rn s e : exists vs, on_topic TPromptNotice (snd (on_event rn s e)) = map Some vs.
Proof.
  destruct e; simpl; try (exists []; reflexivity).
  - unfold tn_end, ti_end, pi_end_trace.
    destruct (existsb (Z.eqb t) (r_tn s)); destruct (dget (r_ti s) t) as [[? ?]|];
      destruct (existsb (Z.eqb t) (pi_keys (r_pi s))); simpl; exists []; reflexivity.
  - unfold pi_end_call, pn_end_call. destruct (dget (pi_call (r_pi s)) t) as [[fid info]|]; simpl; [|exists []; reflexivity].
    destruct (dget (pi_frame (r_pi s)) t) as [f|]; simpl; [|exists []; reflexivity]. destruct (fid =? f); simpl; exists []; reflexivity.
  - unfold pi_start_prompt, pn_start_prompt.
    destruct (dget (pi_call (r_pi s)) t) as [[fid info]|]; destruct (dget (r_pn s) t) as [[? ?]|]; simpl;
      try (exists []; reflexivity); eexists [_]; reflexivity.
  - unfold pi_end_prompt. destruct (dget (pi_prompt (r_pi s)) p); simpl; exists []; reflexivity.
Qed.

Theorem notice_topic_closed r es :
  exists vs, on_topic TPromptNotice (pubs_run r es) = map Some vs ++ [None].
Proof.
  assert (He : exists vs, on_topic TPromptNotice (pubs_events r es) = map Some vs).
  { induction es as [|e es IH] using rev_ind.
    - exists []. reflexivity.
    - destruct IH as [vs IH]. rewrite pubs_events_snoc, on_topic_app, IH.
      destruct (on_event_notice_some r (state_events r es) e) as [vs' ->]. rewrite <- map_app. eauto. }
  destruct He as [vs He]. exists vs. unfold pubs_run, pubs_end. rewrite on_topic_app, He. f_equal.
  unfold on_end_run, ri_end_run, tn_end_run, ti_end_run, pi_end_run, pn_end_run.
  assert (H1 : forall m : list (Z * (Z * Z)), on_topic TPromptNotice
     (map (fun kv : Z * (Z * Z) => Pub TTraceInfo (VTraceInfo (fst (snd kv)) (fst kv) (snd (snd kv)) false)) m) = [])
    by (induction m; simpl; auto).
  assert (H2 : forall l, on_topic TPromptNotice (map (fun t0 : Z => EndT (TPromptInfoFor t0)) l) = [])
    by (induction l; simpl; auto).
  destruct (r_ri (state_events r es)); simpl; rewrite !on_topic_app, H1, H2; reflexivity.
Qed.

Theorem active_set_closed r es : last_nos (pubs_run r es) = [].
Proof.
  unfold last_nos, pubs_run, pubs_end. rewrite on_topic_app.
  unfold on_end_run, ri_end_run, tn_end_run, ti_end_run, pi_end_run, pn_end_run.
  assert (H1 : forall m : list (Z * (Z * Z)), on_topic TTraceNos
     (map (fun kv : Z * (Z * Z) => Pub TTraceInfo (VTraceInfo (fst (snd kv)) (fst kv) (snd (snd kv)) false)) m) = [])
    by (induction m; simpl; auto).
  assert (H2 : forall l, on_topic TTraceNos (map (fun t0 : Z => EndT (TPromptInfoFor t0)) l) = [])
    by (induction l; simpl; auto).
  destruct (r_ri (state_events r es)); simpl; rewrite !on_topic_app, H1, H2; simpl; rewrite last_last; reflexivity.
Qed.

(** ------------------------------------------------------------------ link to the pub/sub model (C08) *)

From NL Require PubSub.Model PubSub.Main.

Module PS := NL.PubSub.Model.

(** what the broker does to the topic's PubSubItem for one publication *)
Definition to_op (x : option value) : PS.op := match x with Some _ => PS.Publish 0 | None => PS.Close end.

Definition forget (o : PS.op) : PS.op := match o with PS.Publish _ => PS.Publish 0 | o => o end.

Definition is_publisher_op (o : PS.op) : bool :=
  match o with PS.Publish _ | PS.Close | PS.Clear => true | _ => false end.

Lemma step_closed_mono it o : PS.i_closed it = true -> PS.i_closed (fst (PS.step it o)) = true.
Proof.
  intros H. destruct o; simpl; rewrite ?H; simpl; auto.
  - destruct (nth_error (PS.i_subs it) s); simpl; auto. destruct (PS.next_sub it s0). simpl. assumption.
  - destruct (nth_error (PS.i_subs it) s); simpl; auto.
Qed.

Lemma step_close_closes it : PS.i_closed (fst (PS.step it PS.Close)) = true.
Proof. simpl. destruct (PS.i_closed it) eqn:E; simpl; auto. Qed.

Lemma run_from_closed : forall ops it,
  PS.i_closed it = true \/ In PS.Close ops -> PS.i_closed (fst (PS.run_from it ops)) = true.
Proof.
  induction ops as [|o ops IH]; intros it H; simpl.
  - destruct H as [H | []]. assumption.
  - destruct (PS.step it o) as [it' x] eqn:E. specialize (IH it').
    destruct (PS.run_from it' ops) as [it'' xs]. simpl in *. apply IH.
    destruct H as [H | [Heq | H]]; auto.
    + left. pose proof (step_closed_mono it o H) as Hm. rewrite E in Hm. exact Hm.
    + left. subst o. pose proof (step_close_closes it) as Hm. rewrite E in Hm. exact Hm.
Qed.

(** any interleaving [ops] of subscriber operations with a publisher sequence that ends the
    topic leaves the topic closed; C08_termination then makes every subscriber terminate *)
Theorem ended_topic_terminates (obs : list (option value)) (ops : list PS.op) :
  (exists vs, obs = map Some vs ++ [None]) ->
  map forget (filter is_publisher_op ops) = map to_op obs ->
  forall s, (s < length (PS.i_subs (PS.run false ops)))%nat ->
  exists n,
    let tail := skipn (length ops) (PS.outs false (ops ++ repeat (PS.Next s) (S n))) in
    last tail PS.OBlocked = PS.OStop /\ ~ In PS.OBlocked tail.
Proof.
  intros [vs ->] Hops s Hs. apply NL.PubSub.Main.model_termination; auto.
  unfold PS.run. apply run_from_closed. right.
  assert (Hin : In PS.Close (map forget (filter is_publisher_op ops))).
  { rewrite Hops, map_app. apply in_or_app. right. left. reflexivity. }
  apply in_map_iff in Hin. destruct Hin as (o & Ho & Hin). apply filter_In in Hin.
  destruct o; simpl in Ho; try discriminate. tauto.
Qed.

(** ------------------------------------------------------------------ the current trace call; C11_notice_bijection *)

Definition cur_call (p : phase) : option Z :=
  match p with PCall c | PLoop c _ | PPrompt c _ | PAfter c => Some c | _ => None end.

Definition is_call_boundary (e : event) : bool :=
  match e with StartTraceCall _ _ _ _ _ | EndTraceCall _ _ _ => true | _ => false end.

Lemma pcore_cur_inner p e p' : pcore p e = Some p' -> is_call_boundary e = false -> cur_call p' = cur_call p.
Proof. destruct p as [| |?|? []|? ?|?|], e; simpl; intros H Hb; try discriminate; crush_eqs; auto. Qed.

Lemma pcore_stc p r t c fid info p' : pcore p (StartTraceCall r t c fid info) = Some p' -> p' = PCall c.
Proof. destruct p as [| |?|? []|? ?|?|]; simpl; intros H; try discriminate. inv H. reflexivity. Qed.

Lemma pcore_etc p r t c p' : pcore p (EndTraceCall r t c) = Some p' -> p' = PIdle.
Proof. destruct p as [| |?|? []|? ?|?|]; simpl; intros H; try discriminate; crush_eqs; reflexivity. Qed.

Lemma pcore_sp p r t c q txt p' : pcore p (StartPrompt r t c q txt) = Some p' -> cur_call p = Some c.
Proof. destruct p as [| |?|? []|? ?|?|]; simpl; intros H; try discriminate; crush_eqs; reflexivity. Qed.

Lemma call_payload_app_in c : forall es l, In c (call_starts es) -> call_payload (es ++ l) c = call_payload es c.
Proof.
  induction es as [|e es IH]; intros l H; [destruct H|].
  rewrite call_starts_cons in H. simpl. destruct e; auto.
  destruct (c0 =? c) eqn:E; auto. apply IH. destruct H as [-> | H]; auto. rewrite Z.eqb_refl in E. discriminate.
Qed.

Lemma call_payload_app_notin c : forall es l, ~ In c (call_starts es) -> call_payload (es ++ l) c = call_payload l c.
Proof.
  induction es as [|e es IH]; intros l H; auto.
  rewrite call_starts_cons in H. simpl. destruct e; auto.
  destruct (c0 =? c) eqn:E.
  - apply Z.eqb_eq in E. subst. exfalso. apply H. left. reflexivity.
  - apply IH. intros Hin. apply H. right. assumption.
Qed.

Lemma on_event_calls rn s e t' :
  dget (pi_call (r_pi (fst (on_event rn s e)))) t' =
    match e with
    | StartTraceCall _ t _ fid info => if t' =? t then Some (fid, info) else dget (pi_call (r_pi s)) t'
    | EndTraceCall _ t _ => if t' =? t then None else dget (pi_call (r_pi s)) t'
    | _ => dget (pi_call (r_pi s)) t'
    end /\
  dget (r_pn (fst (on_event rn s e))) t' =
    match e with
    | StartTraceCall _ t _ fid info => if t' =? t then Some (fid, info) else dget (r_pn s) t'
    | EndTraceCall _ t _ => if t' =? t then None else dget (r_pn s) t'
    | _ => dget (r_pn s) t'
    end.
Proof.
  destruct e; simpl.
  - auto.
  - unfold tn_end, ti_end, pi_end_trace.
    destruct (existsb (Z.eqb t) (r_tn s)); destruct (dget (r_ti s) t) as [[? ?]|];
      destruct (existsb (Z.eqb t) (pi_keys (r_pi s))); simpl; auto.
  - destruct (t' =? t) eqn:E.
    + apply Z.eqb_eq in E. subst. rewrite !dget_dset_same. auto.
    + apply Z.eqb_neq in E. rewrite !dget_dset_other by assumption. auto.
  - unfold pi_end_call, pn_end_call.
    destruct (dget (pi_call (r_pi s)) t) as [[fid info]|] eqn:Ed; simpl.
    + destruct (dget (pi_frame (r_pi s)) t) as [f|]; simpl; [destruct (fid =? f); simpl|].
      all: destruct (t' =? t) eqn:E;
        [apply Z.eqb_eq in E; subst; rewrite !dget_ddel_same; auto
        | apply Z.eqb_neq in E; rewrite !dget_ddel_other by assumption; auto].
    + destruct (t' =? t) eqn:E;
        [apply Z.eqb_eq in E; subst; rewrite !dget_ddel_same; auto
        | apply Z.eqb_neq in E; rewrite !dget_ddel_other by assumption; auto].
  - auto.
  - auto.
  - unfold pi_start_prompt, pn_start_prompt.
    destruct (dget (pi_call (r_pi s)) t) as [[fid info]|]; destruct (dget (r_pn s) t) as [[? ?]|]; simpl; auto.
  - unfold pi_end_prompt. destruct (dget (pi_prompt (r_pi s)) p); simpl; auto.
  - auto.
Qed.

Definition call_inv (r : Z) (es : list event) (g : gstate) : Prop :=
  forall t,
    match cur_call (ph g t) with
    | Some c => In c (call_starts es) /\
                dget (pi_call (r_pi (state_events r es))) t = Some (call_payload es c) /\
                dget (r_pn (state_events r es)) t = Some (call_payload es c)
    | None => dget (pi_call (r_pi (state_events r es))) t = None /\ dget (r_pn (state_events r es)) t = None
    end.

Lemma wfp_nodup_calls r es : wf_prefix r es = true -> NoDup (call_starts es).
Proof. intros H. apply wf_prefix_unfold in H. destruct H as (_ & H & _). apply nodupb_spec. assumption. Qed.

Lemma call_invariant r es : wf_prefix r es = true -> exists g, grun r [] es = Some g /\ call_inv r es g.
Proof.
  intros Hwf. apply (wfp_ind r (call_inv r)); auto.
  - intros t. simpl. auto.
  - clear es Hwf. intros es e g g1 Hwf Hwf' Hg Hs IH t.
    destruct (gstep_phase _ _ _ _ Hs) as (Hp & Hr & Ho).
    rewrite state_events_snoc.
    destruct (on_event_calls r (state_events r es) e t) as [-> ->].
    pose proof (wfp_nodup_calls _ _ Hwf) as Hnd. rewrite call_starts_app in Hnd.
    specialize (IH t).
    assert (Hstable : forall c, cur_call (ph g t) = Some c ->
              In c (call_starts (es ++ [e])) /\ call_payload (es ++ [e]) c = call_payload es c).
    { intros c Hc. rewrite Hc in IH. destruct IH as (Hin & _). split.
      - rewrite call_starts_app. apply in_or_app. auto.
      - apply call_payload_app_in. assumption. }
    destruct (Z.eq_dec t (ev_trace e)) as [-> | Hne].
    + destruct (is_call_boundary e) eqn:Eb.
      * destruct e; try discriminate; cbn [ev_trace] in *; rewrite Z.eqb_refl.
        -- apply pcore_stc in Hp. rewrite Hp. cbn [cur_call].
           assert (Hni : ~ In c (call_starts es)).
           { intros Hin. apply NoDup_remove_2 in Hnd. apply Hnd. rewrite app_nil_r. assumption. }
           rewrite (call_payload_app_notin _ _ _ Hni). simpl. rewrite Z.eqb_refl.
           split; auto. rewrite call_starts_app. apply in_or_app. right. simpl. auto.
        -- apply pcore_etc in Hp. rewrite Hp. cbn [cur_call]. auto.
      * rewrite (pcore_cur_inner _ _ _ Hp Eb).
        assert (Hv : forall A (x y : A), match e with StartTraceCall _ t0 _ _ _ => x | EndTraceCall _ t0 _ => x | _ => y end = y)
          by (intros; destruct e; try discriminate; reflexivity).
        destruct e; try discriminate; cbn [ev_trace] in *; destruct (cur_call (ph g _)) as [cx|] eqn:Ec; auto;
          destruct (Hstable cx ltac:(first [exact Ec | reflexivity])) as [H1 H2]; rewrite H2; tauto.
    + assert (Hph : ph g1 t = ph g t) by (unfold ph; rewrite (Ho t Hne); reflexivity). rewrite Hph.
      apply Z.eqb_neq in Hne.
      assert (Hd1 : match e with
                    | StartTraceCall _ t0 _ fid info => if t =? t0 then Some (fid, info) else dget (pi_call (r_pi (state_events r es))) t
                    | EndTraceCall _ t0 _ => if t =? t0 then None else dget (pi_call (r_pi (state_events r es))) t
                    | _ => dget (pi_call (r_pi (state_events r es))) t
                    end = dget (pi_call (r_pi (state_events r es))) t)
        by (destruct e; auto; simpl in Hne; rewrite Hne; reflexivity).
      assert (Hd2 : match e with
                    | StartTraceCall _ t0 _ fid info => if t =? t0 then Some (fid, info) else dget (r_pn (state_events r es)) t
                    | EndTraceCall _ t0 _ => if t =? t0 then None else dget (r_pn (state_events r es)) t
                    | _ => dget (r_pn (state_events r es)) t
                    end = dget (r_pn (state_events r es)) t)
        by (destruct e; auto; simpl in Hne; rewrite Hne; reflexivity).
      rewrite Hd1, Hd2. destruct (cur_call (ph g t)) as [cx|] eqn:Ec; auto.
      destruct (Hstable cx ltac:(first [exact Ec | reflexivity])) as [H1 H2]. rewrite H2. tauto.
Qed.

(** the notices expected from the history: one per prompt start, in order, carrying the
    location of the trace call that contains the prompt *)
Definition notices (r : Z) (full es : list event) : list (option value) :=
  flat_map (fun e => match e with
                     | StartPrompt _ t c p txt => [Some (VNotice r t p txt (snd (call_payload full c)))]
                     | _ => []
                     end) es.

Lemma on_event_notice rn s e :
  on_topic TPromptNotice (snd (on_event rn s e)) =
  match e with
  | StartPrompt _ t _ p txt =>
      match dget (r_pn s) t with Some (_, info) => [Some (VNotice rn t p txt info)] | None => [] end
  | _ => []
  end.
Proof.
  destruct e; simpl; auto.
  - unfold tn_end, ti_end, pi_end_trace.
    destruct (existsb (Z.eqb t) (r_tn s)); destruct (dget (r_ti s) t) as [[? ?]|];
      destruct (existsb (Z.eqb t) (pi_keys (r_pi s))); simpl; auto.
  - unfold pi_end_call, pn_end_call. destruct (dget (pi_call (r_pi s)) t) as [[fid info]|]; simpl; auto.
    destruct (dget (pi_frame (r_pi s)) t) as [f|]; simpl; auto. destruct (fid =? f); simpl; auto.
  - unfold pi_start_prompt, pn_start_prompt.
    destruct (dget (pi_call (r_pi s)) t) as [[fid info]|]; destruct (dget (r_pn s) t) as [[? ?]|]; simpl; auto.
  - unfold pi_end_prompt. destruct (dget (pi_prompt (r_pi s)) p); simpl; auto.
Qed.

Lemma flat_map_ext_in' {A B} (f g : A -> list B) l : (forall x, In x l -> f x = g x) -> flat_map f l = flat_map g l.
Proof.
  induction l as [|x l IH]; simpl; intros H; auto. rewrite H by auto. rewrite IH; auto.
Qed.

Definition prompt_calls_known (es : list event) : Prop :=
  forall r t c p txt, In (StartPrompt r t c p txt) es -> In c (call_starts es).

Theorem notice_bijection r es : wf_prefix r es = true ->
  on_topic TPromptNotice (pubs_events r es) = notices r es es.
Proof.
  intros Hwf.
  destruct (wfp_ind r (fun es _ => on_topic TPromptNotice (pubs_events r es) = notices r es es /\ prompt_calls_known es))
    with (es := es) as (g & _ & H & _); auto.
  - split; [reflexivity | intros ? ? ? ? ? []].
  - clear es Hwf. intros es e g g1 Hwf Hwf' Hg Hs [IH Hk].
    destruct (gstep_phase _ _ _ _ Hs) as (Hp & Hr & Ho).
    destruct (call_invariant _ _ Hwf') as (g' & Hg' & Hc). rewrite Hg in Hg'. injection Hg' as <-.
    assert (Hk' : prompt_calls_known (es ++ [e])).
    { intros r0 t c p txt Hin. rewrite call_starts_app. apply in_or_app. apply in_app_or in Hin.
      destruct Hin as [Hin | [Heq | []]]; [left; eapply Hk; eauto|]. subst e.
      left. cbn [ev_trace] in Hp. apply pcore_sp in Hp. specialize (Hc t). rewrite Hp in Hc. tauto. }
    split; auto.
    rewrite pubs_events_snoc, on_topic_app, IH, on_event_notice. unfold notices. rewrite flat_map_app. f_equal.
    + apply flat_map_ext_in'. intros x Hx. destruct x; auto.
      rewrite call_payload_app_in; auto. eapply Hk; eauto.
    + simpl. rewrite app_nil_r. destruct e; auto.
      cbn [ev_trace] in Hp. pose proof (pcore_sp _ _ _ _ _ _ _ Hp) as Hcc. specialize (Hc t). rewrite Hcc in Hc.
      destruct Hc as (Hin & _ & ->). rewrite call_payload_app_in by assumption.
      destruct (call_payload es c). reflexivity.
Qed.

Theorem closed_out_prompt_topics r es : wf_prefix r es = true ->
  (forall t, In t (trace_starts es) ->
     exists vs, on_topic (TPromptInfoFor t) (pubs_run r es) = map Some vs ++ [None]) /\
  (exists vs, on_topic TPromptNotice (pubs_run r es) = map Some vs ++ [None]).
Proof. intros H. split; [exact (prompt_topic_closed r es H) | exact (notice_topic_closed r es)]. Qed.

(** ------------------------------------------------------------------ C11_prompt_open_close *)

(** text / trace of the prompt numbered p (its start event) *)
Fixpoint prompt_txt (es : list event) (p : Z) : Z :=
  match es with
  | [] => 0
  | StartPrompt _ _ _ p' txt :: r => if p' =? p then txt else prompt_txt r p
  | _ :: r => prompt_txt r p
  end.

Fixpoint prompt_trace (es : list event) (p : Z) : Z :=
  match es with
  | [] => 0
  | StartPrompt _ t _ p' _ :: r => if p' =? p then t else prompt_trace r p
  | _ :: r => prompt_trace r p
  end.

Lemma prompt_txt_app_in p : forall es l, In p (prompt_starts es) -> prompt_txt (es ++ l) p = prompt_txt es p.
Proof.
  induction es as [|e es IH]; intros l H; [destruct H|].
  rewrite prompt_starts_cons in H. simpl. destruct e; auto.
  destruct (p0 =? p) eqn:E; auto. apply IH. destruct H as [-> | H]; auto. rewrite Z.eqb_refl in E. discriminate.
Qed.

Lemma prompt_txt_app_notin p : forall es l, ~ In p (prompt_starts es) -> prompt_txt (es ++ l) p = prompt_txt l p.
Proof.
  induction es as [|e es IH]; intros l H; auto.
  rewrite prompt_starts_cons in H. simpl. destruct e; auto.
  destruct (p0 =? p) eqn:E.
  - apply Z.eqb_eq in E. subst. exfalso. apply H. left. reflexivity.
  - apply IH. intros Hin. apply H. right. assumption.
Qed.

Lemma prompt_trace_app_in p : forall es l, In p (prompt_starts es) -> prompt_trace (es ++ l) p = prompt_trace es p.
Proof.
  induction es as [|e es IH]; intros l H; [destruct H|].
  rewrite prompt_starts_cons in H. simpl. destruct e; auto.
  destruct (p0 =? p) eqn:E; auto. apply IH. destruct H as [-> | H]; auto. rewrite Z.eqb_refl in E. discriminate.
Qed.

Lemma prompt_trace_app_notin p : forall es l, ~ In p (prompt_starts es) -> prompt_trace (es ++ l) p = prompt_trace l p.
Proof.
  induction es as [|e es IH]; intros l H; auto.
  rewrite prompt_starts_cons in H. simpl. destruct e; auto.
  destruct (p0 =? p) eqn:E.
  - apply Z.eqb_eq in E. subst. exfalso. apply H. left. reflexivity.
  - apply IH. intros Hin. apply H. right. assumption.
Qed.

Lemma pcore_sp_full ph r t c p txt ph' :
  pcore ph (StartPrompt r t c p txt) = Some ph' -> cur_call ph = Some c /\ ph' = PPrompt c p.
Proof. destruct ph as [| |?|? []|? ?|?|]; simpl; intros H; try discriminate; crush_eqs; auto. Qed.

Lemma pcore_ep_full ph r t c p cmd ph' :
  pcore ph (EndPrompt r t c p cmd) = Some ph' -> ph = PPrompt c p /\ ph' = PLoop c true.
Proof. destruct ph as [| |?|? []|? ?|?|]; simpl; intros H; try discriminate; crush_eqs; auto. Qed.

Definition is_start_prompt (e : event) : bool := match e with StartPrompt _ _ _ _ _ => true | _ => false end.

Lemma pcore_to_prompt ph e c q : pcore ph e = Some (PPrompt c q) -> is_start_prompt e = false -> ph = PPrompt c q.
Proof. destruct ph as [| |?|? []|? ?|?|], e; simpl; intros H Hb; try discriminate; crush_eqs; auto. Qed.

Lemma wfp_nodup_prompts r es : wf_prefix r es = true -> NoDup (prompt_starts es).
Proof. intros H. apply wf_prefix_unfold in H. destruct H as (_ & _ & H). apply nodupb_spec. assumption. Qed.

(** the PromptInfo stored / published for an open prompt, and its closed version *)
Definition open_info (r : Z) (full : list event) (t c p : Z) : pinfo :=
  mkPinfo r t p true (Some (snd (call_payload full c))) (Some (prompt_txt full p)) None false.

Definition close_info (i : pinfo) (cmd : Z) : pinfo :=
  mkPinfo (pi_run i) (pi_trace i) (pi_no i) false (pi_info i) (pi_txt i) (Some cmd) (pi_tce i).

Lemma on_event_prompt_map rn s e q :
  dget (pi_prompt (r_pi (fst (on_event rn s e)))) q =
  match e with
  | StartPrompt _ t _ p txt =>
      match dget (pi_call (r_pi s)) t with
      | Some (_, info) => if q =? p then Some (mkPinfo rn t p true (Some info) (Some txt) None false)
                          else dget (pi_prompt (r_pi s)) q
      | None => dget (pi_prompt (r_pi s)) q
      end
  | EndPrompt _ _ _ p _ =>
      match dget (pi_prompt (r_pi s)) p with
      | Some _ => if q =? p then None else dget (pi_prompt (r_pi s)) q
      | None => dget (pi_prompt (r_pi s)) q
      end
  | _ => dget (pi_prompt (r_pi s)) q
  end.
Proof.
  destruct e; simpl; auto.
  - unfold tn_end, ti_end, pi_end_trace.
    destruct (existsb (Z.eqb t) (r_tn s)); destruct (dget (r_ti s) t) as [[? ?]|];
      destruct (existsb (Z.eqb t) (pi_keys (r_pi s))); simpl; auto.
  - unfold pi_end_call, pn_end_call. destruct (dget (pi_call (r_pi s)) t) as [[fid info]|]; simpl; auto.
    destruct (dget (pi_frame (r_pi s)) t) as [f|]; simpl; auto. destruct (fid =? f); simpl; auto.
  - unfold pi_start_prompt, pn_start_prompt.
    destruct (dget (pi_call (r_pi s)) t) as [[fid info]|]; destruct (dget (r_pn s) t) as [[? ?]|]; simpl; auto.
    all: destruct (q =? p) eqn:E;
      [apply Z.eqb_eq in E; subst; apply dget_dset_same | apply Z.eqb_neq in E; apply dget_dset_other; assumption].
  - unfold pi_end_prompt. destruct (dget (pi_prompt (r_pi s)) p) eqn:Ed; simpl; auto.
    destruct (q =? p) eqn:E;
      [apply Z.eqb_eq in E; subst; apply dget_ddel_same | apply Z.eqb_neq in E; apply dget_ddel_other; assumption].
Qed.

Definition prompt_inv (r : Z) (es : list event) (g : gstate) : Prop :=
  forall t c p, ph g t = PPrompt c p ->
    In p (prompt_starts es) /\ prompt_trace es p = t /\
    dget (pi_prompt (r_pi (state_events r es))) p = Some (open_info r es t c p).

Lemma prompt_invariant r es : wf_prefix r es = true -> exists g, grun r [] es = Some g /\ prompt_inv r es g.
Proof.
  intros Hwf. apply (wfp_ind r (prompt_inv r)); auto.
  - intros t c p H. discriminate.
  - clear es Hwf. intros es e g g1 Hwf Hwf' Hg Hs IH t c0 p0 Hph.
    destruct (gstep_phase _ _ _ _ Hs) as (Hp & Hr & Ho).
    destruct (call_invariant _ _ Hwf') as (g' & Hg' & Hc). rewrite Hg in Hg'. injection Hg' as <-.
    pose proof (wfp_nodup_prompts _ _ Hwf) as Hnd. rewrite prompt_starts_app in Hnd.
    rewrite state_events_snoc, on_event_prompt_map.
    (* facts about a prompt that was already open before the event *)
    assert (Hold : forall t, ph g t = PPrompt c0 p0 ->
              In p0 (prompt_starts (es ++ [e])) /\ prompt_trace (es ++ [e]) p0 = t /\
              dget (pi_prompt (r_pi (state_events r es))) p0 = Some (open_info r (es ++ [e]) t c0 p0) /\
              In p0 (prompt_starts es)).
    { intros t' Ht'. destruct (IH _ _ _ Ht') as (Hin & Htr & Hd).
      specialize (Hc t'). rewrite Ht' in Hc. cbn [cur_call] in Hc. destruct Hc as (Hcin & _).
      repeat split; auto.
      - rewrite prompt_starts_app. apply in_or_app. auto.
      - rewrite prompt_trace_app_in; auto.
      - rewrite Hd. unfold open_info. rewrite call_payload_app_in, prompt_txt_app_in; auto. }
    destruct (is_start_prompt e) eqn:Esp.
    + (* a prompt starts *)
      destruct e; try discriminate. cbn [ev_trace] in *.
      destruct (pcore_sp_full _ _ _ _ _ _ _ Hp) as [Hcc Hp1].
      assert (Hni : ~ In p (prompt_starts es)).
      { intros Hin. apply NoDup_remove_2 in Hnd. apply Hnd. rewrite app_nil_r. assumption. }
      pose proof (Hc t0) as Hc0. rewrite Hcc in Hc0. destruct Hc0 as (Hcin & Hdc & _). rewrite Hdc.
      destruct (call_payload es c) as [fid info] eqn:Ecp.
      destruct (Z.eq_dec t t0) as [-> | Hne].
      * rewrite Hp1 in Hph. injection Hph as <- <-. simpl in Hr. rewrite Z.eqb_refl. split; [|split].
        -- rewrite prompt_starts_app. apply in_or_app. right. simpl. auto.
        -- rewrite prompt_trace_app_notin by assumption. simpl. rewrite Z.eqb_refl. reflexivity.
        -- unfold open_info. rewrite call_payload_app_in by assumption. rewrite Ecp.
           rewrite prompt_txt_app_notin by assumption. simpl. rewrite Z.eqb_refl. subst r0. reflexivity.
      * assert (Hph' : ph g t = PPrompt c0 p0) by (unfold ph in *; rewrite <- (Ho t Hne); assumption).
        destruct (Hold _ Hph') as (H1 & H2 & H3 & H4).
        assert (Hpp : (p0 =? p) = false) by (apply Z.eqb_neq; intros ->; contradiction).
        rewrite Hpp. auto.
    + destruct (Z.eq_dec t (ev_trace e)) as [-> | Hne].
      * (* same trace, not a prompt start: the prompt was open before (stdout) *)
        rewrite Hph in Hp. pose proof (pcore_to_prompt _ _ _ _ Hp Esp) as Hph'.
        destruct (Hold _ Hph') as (H1 & H2 & H3 & H4).
        destruct e; try discriminate; auto.
        cbn [ev_trace] in *. apply pcore_ep_full in Hp. destruct Hp as [_ Hp]. discriminate.
      * assert (Hph' : ph g t = PPrompt c0 p0) by (unfold ph in *; rewrite <- (Ho t Hne); assumption).
        destruct (Hold _ Hph') as (H1 & H2 & H3 & H4).
        destruct e; try discriminate; auto.
        (* another trace closes its prompt: a different prompt number *)
        cbn [ev_trace] in *. destruct (pcore_ep_full _ _ _ _ _ _ _ Hp) as [Hq _].
        destruct (IH _ _ _ Hq) as (_ & Htr & Hd). rewrite Hd.
        assert (Hpp : (p0 =? p) = false).
        { apply Z.eqb_neq. intros ->. destruct (IH _ _ _ Hph') as (_ & Htr' & _). congruence. }
        rewrite Hpp. auto.
Qed.

(** a publication that reports on a prompt: a PromptInfo carrying the prompt text (the
    trace_call_end notice and the dummy published at trace start carry none) *)
Definition is_report (x : option value) : bool :=
  match x with
  | Some (VPromptInfo i) => match pi_txt i with Some _ => true | None => false end
  | _ => false
  end.

(** THE expected reports, a function of the history alone: one "open" per prompt start, one
    "closed" per prompt end carrying the command of that end event (and the numbers, location
    and text of the prompt), in stream order; nothing else *)
Definition prompt_reports (r : Z) (full es : list event) : list (option value) :=
  flat_map (fun e => match e with
                     | StartPrompt _ t c p txt =>
                         [Some (VPromptInfo (mkPinfo r t p true (Some (snd (call_payload full c))) (Some txt) None false))]
                     | EndPrompt _ t c p cmd =>
                         [Some (VPromptInfo (mkPinfo r t p false (Some (snd (call_payload full c)))
                                               (Some (prompt_txt full p)) (Some cmd) false))]
                     | _ => []
                     end) es.

Definition report_of (rn : Z) (s : R) (e : event) : list (option value) :=
  match e with
  | StartPrompt _ t _ p txt =>
      match dget (pi_call (r_pi s)) t with
      | Some (_, info) => [Some (VPromptInfo (mkPinfo rn t p true (Some info) (Some txt) None false))]
      | None => []
      end
  | EndPrompt _ _ _ p cmd =>
      match dget (pi_prompt (r_pi s)) p with
      | Some i => filter is_report [Some (VPromptInfo (close_info i cmd))]
      | None => []
      end
  | _ => []
  end.

Lemma on_event_reports rn s e :
  filter is_report (on_topic TPromptInfo (snd (on_event rn s e))) = report_of rn s e.
Proof.
  destruct e; simpl; auto.
  - unfold tn_end, ti_end, pi_end_trace.
    destruct (existsb (Z.eqb t) (r_tn s)); destruct (dget (r_ti s) t) as [[? ?]|];
      destruct (existsb (Z.eqb t) (pi_keys (r_pi s))); simpl; auto.
  - unfold pi_end_call, pn_end_call. destruct (dget (pi_call (r_pi s)) t) as [[fid info]|]; simpl; auto.
    destruct (dget (pi_frame (r_pi s)) t) as [f|]; simpl; auto. destruct (fid =? f); simpl; auto.
  - unfold pi_start_prompt, pn_start_prompt.
    destruct (dget (pi_call (r_pi s)) t) as [[fid info]|]; destruct (dget (r_pn s) t) as [[? ?]|]; simpl; auto.
  - unfold pi_end_prompt. destruct (dget (pi_prompt (r_pi s)) p) as [i|]; simpl; auto.
    all: try (unfold close_info; simpl; destruct (pi_txt i); reflexivity).
Qed.

Lemma on_event_reports_for rn s e t' :
  filter is_report (on_topic (TPromptInfoFor t') (snd (on_event rn s e))) =
  if t' =? ev_trace e then report_of rn s e else [].
Proof.
  destruct (t' =? ev_trace e) eqn:Et.
  2:{ apply Z.eqb_neq in Et. rewrite on_event_for_other by assumption. reflexivity. }
  apply Z.eqb_eq in Et. subst t'.
  destruct e; simpl; rewrite ?Z.eqb_refl; auto.
  - unfold tn_end, ti_end, pi_end_trace.
    destruct (existsb (Z.eqb t) (r_tn s)); destruct (dget (r_ti s) t) as [[? ?]|];
      destruct (existsb (Z.eqb t) (pi_keys (r_pi s))); simpl; rewrite ?Z.eqb_refl; auto.
  - unfold pi_end_call, pn_end_call. destruct (dget (pi_call (r_pi s)) t) as [[fid info]|]; simpl; auto.
    destruct (dget (pi_frame (r_pi s)) t) as [f|]; simpl; auto. destruct (fid =? f); simpl; rewrite ?Z.eqb_refl; auto.
  - unfold pi_start_prompt, pn_start_prompt.
    destruct (dget (pi_call (r_pi s)) t) as [[fid info]|]; destruct (dget (r_pn s) t) as [[? ?]|]; simpl; rewrite ?Z.eqb_refl; auto.
  - unfold pi_end_prompt. destruct (dget (pi_prompt (r_pi s)) p) as [i|]; simpl; rewrite ?Z.eqb_refl; auto.
    all: try (unfold close_info; simpl; destruct (pi_txt i); reflexivity).
Qed.

Definition prompt_events_known (es : list event) : Prop :=
  forall e, In e es ->
    match e with
    | StartPrompt _ _ c p _ | EndPrompt _ _ c p _ => In c (call_starts es) /\ In p (prompt_starts es)
    | _ => True
    end.

Lemma prompt_reports_stable r es l sub :
  prompt_events_known es -> (forall e, In e sub -> In e es) ->
  prompt_reports r (es ++ l) sub = prompt_reports r es sub.
Proof.
  intros Hk Hsub. apply flat_map_ext_in'. intros e He. specialize (Hk e (Hsub e He)).
  destruct e; auto; destruct Hk as [Hc Hp].
  - rewrite call_payload_app_in by assumption. reflexivity.
  - rewrite call_payload_app_in, prompt_txt_app_in by assumption. reflexivity.
Qed.

Lemma proj_app t a b : proj t (a ++ b) = proj t a ++ proj t b.
Proof. unfold proj. apply filter_app. Qed.

Definition reports_inv (r : Z) (es : list event) : Prop :=
  filter is_report (on_topic TPromptInfo (pubs_events r es)) = prompt_reports r es es /\
  (forall t, filter is_report (on_topic (TPromptInfoFor t) (pubs_events r es)) = prompt_reports r es (proj t es)) /\
  prompt_events_known es.

Lemma reports_invariant r es : wf_prefix r es = true -> reports_inv r es.
Proof.
  intros Hwf.
  destruct (wfp_ind r (fun es _ => reports_inv r es)) with (es := es) as (g & _ & H); auto.
  - split; [reflexivity | split; [intros t; reflexivity | intros e []]].
  - clear es Hwf. intros es e g g1 Hwf Hwf' Hg Hs (IH1 & IH2 & Hk).
    destruct (gstep_phase _ _ _ _ Hs) as (Hp & Hr & Ho).
    destruct (call_invariant _ _ Hwf') as (g' & Hg' & Hc). rewrite Hg in Hg'. injection Hg' as <-.
    destruct (prompt_invariant _ _ Hwf') as (g' & Hg' & Hpi). rewrite Hg in Hg'. injection Hg' as <-.
    (* what the event itself contributes *)
    assert (He : report_of r (state_events r es) e = prompt_reports r (es ++ [e]) [e] /\
                 match e with
                 | StartPrompt _ _ c p _ | EndPrompt _ _ c p _ =>
                     In c (call_starts (es ++ [e])) /\ In p (prompt_starts (es ++ [e]))
                 | _ => True
                 end).
    { destruct e; try (split; [reflexivity | exact I]); cbn [ev_trace] in *; simpl in Hr; subst r0.
      - destruct (pcore_sp_full _ _ _ _ _ _ _ Hp) as [Hcc _].
        pose proof (Hc t) as Hc0. rewrite Hcc in Hc0. destruct Hc0 as (Hcin & Hdc & _).
        unfold report_of, prompt_reports. simpl. rewrite Hdc, call_payload_app_in by assumption.
        destruct (call_payload es c). split; [reflexivity|].
        rewrite call_starts_app, prompt_starts_app. split; apply in_or_app; [left; assumption | right; simpl; auto].
      - destruct (pcore_ep_full _ _ _ _ _ _ _ Hp) as [Hq _].
        destruct (Hpi _ _ _ Hq) as (Hpin & _ & Hd).
        pose proof (Hc t) as Hc0. rewrite Hq in Hc0. cbn [cur_call] in Hc0. destruct Hc0 as (Hcin & _).
        unfold report_of, prompt_reports. simpl. rewrite Hd. unfold open_info, close_info. simpl.
        rewrite call_payload_app_in, prompt_txt_app_in by assumption. split; [reflexivity|].
        rewrite call_starts_app, prompt_starts_app. split; apply in_or_app; left; assumption. }
    destruct He as [He Hke].
    assert (Hk' : prompt_events_known (es ++ [e])).
    { intros x Hx. apply in_app_or in Hx. destruct Hx as [Hx | [<- | []]]; [|exact Hke].
      specialize (Hk x Hx). destruct x; auto; destruct Hk as [H1 H2];
        rewrite call_starts_app, prompt_starts_app; split; apply in_or_app; auto. }
    split; [|split; [|exact Hk']].
    + rewrite pubs_events_snoc, on_topic_app, filter_app, IH1, on_event_reports, He.
      unfold prompt_reports at 3. rewrite flat_map_app. fold (prompt_reports r (es ++ [e]) es).
      fold (prompt_reports r (es ++ [e]) [e]).
      rewrite (prompt_reports_stable r es [e] es Hk (fun x H => H)). reflexivity.
    + intros t. rewrite pubs_events_snoc, on_topic_app, filter_app, IH2, on_event_reports_for, proj_app.
      unfold prompt_reports at 2. rewrite flat_map_app. fold (prompt_reports r (es ++ [e]) (proj t es)).
      assert (Hsub : forall x, In x (proj t es) -> In x es)
        by (intros x Hx; unfold proj in Hx; apply filter_In in Hx; tauto).
      rewrite (prompt_reports_stable r es [e] (proj t es) Hk Hsub).
      f_equal. unfold proj. simpl. rewrite (Z.eqb_sym t). destruct (ev_trace e =? t); [exact He | reflexivity].
Qed.

Definition no_pinfo (p : publication) : bool :=
  match p with Pub _ (VPromptInfo _) => false | _ => true end.

Lemma no_reports k : forall ps, forallb no_pinfo ps = true -> filter is_report (on_topic k ps) = [].
Proof.
  induction ps as [|p ps IH]; simpl; auto. intros H. apply andb_true_iff in H. destruct H as [H1 H2].
  destruct p as [k' v|k'|w]; simpl; try destruct (topic_eqb k k'); simpl; auto.
  destruct v; simpl in *; try discriminate; auto.
Qed.

Lemma on_end_run_no_pinfo rn s : forallb no_pinfo (snd (on_end_run rn s)) = true.
Proof.
  unfold on_end_run, ri_end_run, tn_end_run, ti_end_run, pi_end_run, pn_end_run.
  assert (H1 : forall m : list (Z * (Z * Z)), forallb no_pinfo
     (map (fun kv : Z * (Z * Z) => Pub TTraceInfo (VTraceInfo (fst (snd kv)) (fst kv) (snd (snd kv)) false)) m) = true)
    by (induction m; simpl; auto).
  assert (H2 : forall l, forallb no_pinfo (map (fun t0 : Z => EndT (TPromptInfoFor t0)) l) = true)
    by (induction l; simpl; auto).
  destruct (r_ri s); simpl; rewrite !forallb_app, H1, H2; reflexivity.
Qed.

(** C11, prompts: over the whole run -- the events of any truncated stream followed by
    on_end_run -- the prompt reports on prompt_info, and on prompt_info_<t> for the prompts of
    trace t, are exactly [prompt_reports]: open for each prompt start, then closed with the
    command of its end event; a prompt still open at the kill gets no closing report *)
Theorem prompt_open_close r es : wf_prefix r es = true ->
  filter is_report (on_topic TPromptInfo (pubs_run r es)) = prompt_reports r es es /\
  forall t, filter is_report (on_topic (TPromptInfoFor t) (pubs_run r es)) = prompt_reports r es (proj t es).
Proof.
  intros Hwf. destruct (reports_invariant _ _ Hwf) as (H1 & H2 & _).
  unfold pubs_run, pubs_end. split; [|intros t];
    rewrite on_topic_app, filter_app, (no_reports _ _ (on_end_run_no_pinfo r (state_events r es))), app_nil_r; auto.
Qed.
