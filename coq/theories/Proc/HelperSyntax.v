(** Abstract syntax of the helper code around `run_in_process._run` (C17).
    Hand-written; the TERMS of these types are regenerated from the source at every check by
    translate/proc_helpers.py into Gen/ProcHelpers.v, and Proc/HelperInterp.v interprets them.

    Sources: nextline/utils/multiprocessing_logging.py (MultiprocessingLogging, its inner coroutine
    _listen, _initializer) and nextline/utils/run.py (ExitedProcess, RunningProcess.__init__,
    _log_created, _log_exited, _format_time, interrupt, send_signal, terminate, kill, __await__,
    _call_all, _call, run_in_process and its inner coroutine _run, the module-level dict
    _exitcode_to_name).

    The language is a small Python: expressions with effects (calls of KNOWN callables, await,
    walrus, `and`/`or`/`not`, `is`, comparisons, dict `.get` vs `[]`, tuples, f-strings),
    statements (assignment, if, while, for, break/continue, return, bare raise, assert,
    try/except/else/finally, yield, `async with AsyncExitStack()`).  What a known callable DOES
    (the executor, the queue, the OS, logging) is the environment of the interpreter. *)
From Coq Require Import List ZArith Bool String.
Import ListNotations.

Inductive cmpop := CLe | CLt | CGe | CGt | CEq | CNe.

(** exception classes an `except` clause may name *)
Inductive hclass :=
| XcBaseException | XcException | XcBrokenProcessPool | XcCancelledError | XcKeyError
| XcProcessLookupError | XcAttributeError.

(** the callables the helper code calls (recognised by the SHAPE of the call, not by its text) *)
Inductive callee :=
| KNow                 (* datetime.now(timezone.utc) *)
| KFormatTime          (* <dt>.strftime(<literal>) *)
| KGetLogger           (* getLogger() / getLogger(<name>) / logging.getLogger(..) *)
| KLogInfo             (* logger.info(msg) / .debug / .warning ... *)
| KLoggerLevel         (* logger.getEffectiveLevel() *)
| KLoggerHandle        (* logger.handle(record) *)
| KLoggerSetLevel      (* logger.setLevel(level) *)
| KLoggerAddHandler    (* logger.addHandler(handler) *)
| KQueueHandler        (* QueueHandler(queue) *)
| KPartial (target : string)   (* partial(<module-level function>, args...) *)
| KCallVar (x : string)        (* <local variable>(args...) *)
| KSelfMethod (m : string)     (* self.<m>(args...) *)
| KOsKill              (* os.kill(pid, sig) *)
| KProcTerminate       (* <process>.terminate() *)
| KProcKill            (* <process>.kill() *)
| KWrapTraceback       (* _ExceptionWithTraceback(e, tb) *)
| KPickleDumps         (* pickle.dumps(x) *)
| KPickleLoads         (* pickle.loads(x) *)
| KGetContext          (* mp.get_context() *)
| KNewQueue            (* <ctx>.Queue() *)
| KCreateTask (coro : string)  (* asyncio.create_task(<coro>()) *)
| KTaskCancel          (* <task>.cancel() *)
| KNewEvent            (* asyncio.Event() *)
| KEventSet            (* <event>.set() *)
| KEventWait           (* <event>.wait()            -- an awaitable *)
| KNewStack            (* contextlib.AsyncExitStack() *)
| KNewExecutor         (* ProcessPoolExecutor(max_workers=a, mp_context=b, initializer=c): args [a; b; c] *)
| KGetLoop             (* asyncio.get_running_loop() *)
| KSubmit              (* <loop>.run_in_executor(<executor>, <callable>): args [executor; callable] -- a future *)
| KFirstProcess        (* list(<executor>._processes.values())[0] *)
| KShutdownInThread    (* <loop>.run_in_executor(None, <executor>.shutdown)  -- an awaitable *)
| KShutdownSync        (* <executor>.shutdown() called in the event loop thread *)
| KToThreadGet         (* asyncio.to_thread(<queue>.get)       -- an awaitable *)
| KToThreadPut         (* asyncio.to_thread(<queue>.put, v)    -- an awaitable *)
| KEnterLogging        (* <stack>.enter_async_context(MultiprocessingLogging(mp_context=c)): args [stack; c] -- an awaitable *)
| KTaskAwaitIter       (* <task>.__await__() *)
| KRunningProcess.     (* RunningProcess[_T](process=p, task=t): args [p; t] *)

Inductive hexp :=
| ENone
| EBool (b : bool)
| EInt (z : Z)
| EVar (x : string)                 (* local / closure variable *)
| ESelf (a : string)                (* self.<a> *)
| EAttr (e : hexp) (a : string)     (* <e>.<a>: pid, exitcode, name, levelno, __traceback__ *)
| EGlobal (g : string)              (* module-level names: _exitcode_to_name, DEBUG, signal.SIGINT, __name__ *)
| EAnd (a b : hexp)
| EOr (a b : hexp)
| ENot (a : hexp)
| EWalrus (x : string) (e : hexp)   (* (x := e) *)
| EIs (a b : hexp)
| EIsNot (a b : hexp)
| ECmp (c : cmpop) (a b : hexp)
| EGet (d k : hexp)                 (* d.get(k) *)
| EIndex (d k : hexp)               (* d[k] *)
| ETuple (l : list hexp)
| EFmt (l : list hexp)              (* an f-string: its parts are evaluated in order *)
| ECall (f : callee) (args : list hexp)
| EAwait (e : hexp)
| EYieldFrom (e : hexp)
| EExited (fields : list (string * hexp)).   (* ExitedProcess(<field>=<e>, ...) in the order written *)

Inductive target :=
| TVar (x : string)
| TSelf (a : string)
| TPair (a b : string).             (* a, b = ... *)

Inductive hstmt :=
| SSkip
| SSeq (a b : hstmt)
| SExpr (e : hexp)
| SAssign (t : target) (e : hexp)
| SIf (c : hexp) (a b : hstmt)
| SWhile (c : hexp) (body : hstmt)
| SFor (x : string) (it : hexp) (body : hstmt)
| SBreak
| SContinue
| SReturn (e : hexp)
| SRaise                             (* bare `raise` *)
| SAssert (e : hexp)
| STry (body : hstmt) (hs : list handler) (orelse fin : hstmt)
| SYield (e : hexp)
| SAsyncWithStack (x : string) (body : hstmt)   (* async with contextlib.AsyncExitStack() as x: body *)
| SClientBody                        (* the body of a client's `async with MultiprocessingLogging() as initializer:`
                                        (never generated; used by the hand-written client program of HelperTie.v) *)
with handler :=
| Handler (c : hclass) (bind : option string) (body : hstmt).
