(** Executable model of nextline/utils/run.py (run_in_process, RunningProcess,
    ExitedProcess) and of the exit path of multiprocessing_logging.py.
    Definitions only; proofs are in Proc/Proofs.v.

    The control skeleton of the Python code is DATA ([run_prog], [await_prog],
    ... below, hand-transcribed) interpreted by [exec]; Gen/RunSkeleton.v is
    regenerated from the source at every check and Proofs.v proves that the two
    are equal (tie lemmas).

    Everything the executor and the OS do is an ORACLE: the only statement of
    `_run` that can raise is `ret = await future`, and its result ([answer]) is
    an input: the worker's value, the worker's exception, or BrokenProcessPool
    when the process died.  Which answers are possible for which behaviour of
    the worker and which signal ([consistent]) is read from experiments and
    validated on every run by the matrix of harness/props/c17.py. *)
From Coq Require Export List ZArith Bool Arith.
From NL Require Export Gen.RunSkeleton.
Export ListNotations.
Open Scope Z_scope.

(** ---- exceptions `await future` can raise *)
Inductive exn :=
| EBrokenPool            (* concurrent.futures.process.BrokenProcessPool *)
| EWorker (e : Z)        (* the exception the function raised, re-raised in the parent *)
| EPickle                (* the return value could not be pickled (AttributeError/PicklingError/TypeError) *)
| ESysExit (n : Z)       (* SystemExit raised by the function: sent back like any exception *)
| EKeyboardInt.          (* KeyboardInterrupt raised inside the function by SIGINT *)

Definition exn_eqb (a b : exn) : bool :=
  match a, b with
  | EBrokenPool, EBrokenPool | EPickle, EPickle | EKeyboardInt, EKeyboardInt => true
  | EWorker x, EWorker y | ESysExit x, ESysExit y => Z.eqb x y
  | _, _ => false
  end.

(** The function runs inside the wrapper `_call` ([call_prog]): its return value or the
    exception it raised -- of ANY class, BaseException included -- comes back as DATA in the
    result `(ret, exc)` of the executor's future; the future itself raises only for transport
    errors (the result cannot be pickled / rebuilt: the wrapper checks the exception by a
    pickle round trip inside the worker, so that error too arrives through the future) and
    BrokenProcessPool when the process died. *)
Inductive answer :=
| AValue (v : Z)      (* (v, None) *)
| AData (e : exn)     (* (None, e): the exception the function raised *)
| ARaise (e : exn).   (* `await future` raises *)

(** One further fact about the environment matters as soon as the worker LOGS while
    log collection is on (found by the matrix, see harness/props/c17.py; recorded as
    known finding `hang:log-listener-never-ends`):
    [died_in_log_write]: the worker process died (os._exit, SIGTERM, SIGKILL) while its
    feeder thread was inside a write to the log pipe, i.e. holding the queue's
    cross-process write lock (which is then never released).
    (Until commit 5c07918 a second fact mattered: a worker that ended normally with more
    unflushed log records than the pipe holds never exited, because the synchronous
    `with ProcessPoolExecutor` blocked the event loop the log listener needs.  The
    shutdown now runs in a helper thread and the listener keeps reading; the matrix
    keeps such workers as a regression guard.) *)
Record world := mkWorld { collect_logging : bool; ans : answer; died_in_log_write : bool }.

Definition process_died (w : world) : bool :=
  match ans w with ARaise EBrokenPool => true | _ => false end.

(** `except C:` matches ... *)
Definition matches (c : exclass) (e : exn) : bool :=
  match c, e with
  | BrokenProcessPoolC, EBrokenPool => true
  | BrokenProcessPoolC, _ => false
  | BaseExceptionC, _ => true
  end.

(** ---- observable effects, in order *)
Inductive ev :=
| VListenerStarted     (* MultiprocessingLogging: task = create_task(_listen()) *)
| VInitializerWrapped
| VExecutorCreated
| VSubmitted           (* run_in_executor: the worker process is started here *)
| VProcessKnown
| VEventSet
| VFutureAwaited
| VExecutorShutdown    (* executor.shutdown() (wait=True) in a helper thread, awaited: manager thread
                          joined, hence the worker process joined and its exit code set *)
| VListenerSentinel    (* await to_thread(queue.put, None) *)
| VListenerAwaited.    (* await task *)

Definition ev_eqb (a b : ev) : bool :=
  match a, b with
  | VListenerStarted, VListenerStarted | VInitializerWrapped, VInitializerWrapped
  | VExecutorCreated, VExecutorCreated | VSubmitted, VSubmitted | VProcessKnown, VProcessKnown
  | VEventSet, VEventSet | VFutureAwaited, VFutureAwaited | VExecutorShutdown, VExecutorShutdown
  | VListenerSentinel, VListenerSentinel | VListenerAwaited, VListenerAwaited => true
  | _, _ => false
  end.

(** ---- the programs (transcribed; tied to Gen/RunSkeleton.v in Proofs.v) *)

(** run_in_process._run *)
Definition run_prog : stmt :=
  Seq (AsyncWithExitStack
         (Seq (IfCollectLogging (Seq (Do EnterLogging) (Do WrapInitializer)))
         (Seq (Do NewExecutor) (Seq (Do GetLoop)
              (TryFinally
                 (Seq (Do Submit) (Seq (Do GetProcess) (Seq (Do EventSet)
                 (Seq (Do InitRet) (Seq (Do InitExc)
                 (Try (Do AwaitFuture)
                      [(BrokenProcessPoolC, [Pass]); (BaseExceptionC, [StoreExc])]))))))
                 (Do ShutdownInThread))))))
      ReturnRetExc.

(** `_call`, in the worker *)
Definition call_prog : list cstmt := [CReturnValue; CCatchBaseException; CWrapTraceback; CRoundTrip; CReturnException].

Definition outer_prog : list outer :=
  [OInitProcess; ONewEvent; OCreateTask; OAwaitEvent; OAssertProcess; OMakeHandle; OReturnHandle].
Definition init_prog : list init := [IStoreProcess; IStoreTask; INowCreated; IFormat; ILogCreated].
Definition await_prog : list awaitst := [WYieldFromTask; WNowExited; WLogExited; WReturnExited].
Definition interrupt_prog : list mstmt := [MSendSignalSelf SIGINT].
Definition send_signal_prog : list mstmt := [MIfPid [MOsKill]].
Definition terminate_prog : list mstmt := [MProcessTerminate].
Definition kill_prog : list mstmt := [MProcessKill].
Definition logging_prog : list lstmt :=
  [LContext; LNewQueue; LInitializer; LDefListen; LCreateListener; LYield; LPutSentinel; LAwaitListener].
Definition exited_prog : list field := [Freturned; Fraised; Fprocess; Fprocess_created_at; Fprocess_exited_at].

(** ---- MultiprocessingLogging as a context manager: effects before / after its `yield` *)
Definition lev (l : lstmt) : list ev :=
  match l with
  | LCreateListener => [VListenerStarted]
  | LPutSentinel => [VListenerSentinel]
  | LAwaitListener => [VListenerAwaited]
  | _ => []
  end.

Fixpoint before_yield (p : list lstmt) : list lstmt :=
  match p with [] => [] | LYield :: _ => [] | x :: r => x :: before_yield r end.
Fixpoint after_yield (p : list lstmt) : list lstmt :=
  match p with [] => [] | LYield :: r => r | _ :: r => after_yield r end.

Definition logging_enter : list ev := flat_map lev (before_yield logging_prog).
Definition logging_exit : list ev := flat_map lev (after_yield logging_prog).   (* the `finally:` *)

(** ---- interpreter state *)
Record st := mkSt {
  trace : list ev;
  ret : option Z;
  exc : option exn;
  stack : nat;             (* contexts entered on the AsyncExitStack (only MultiprocessingLogging) *)
  cur : option exn         (* the exception bound by `except ... as e` *)
}.

Definition st0 : st := mkSt [] None None 0%nat None.

Definition emit (s : st) (l : list ev) : st := mkSt (trace s ++ l) (ret s) (exc s) (stack s) (cur s).

Inductive hang_stage :=
| HShutdown      (* blocked for ever in the executor's shutdown (cannot happen in this model any more;
                    kept so that such an observation is expressible and disagrees) *)
| HListener.     (* `await task` in MultiprocessingLogging's finally never completes *)

Inductive completion := CNormal | CRaise (e : exn) | CReturn | CHang (h : hang_stage).

Definition do_action (w : world) (a : action) (s : st) : completion * st :=
  match a with
  | EnterLogging => (CNormal, mkSt (trace s ++ logging_enter) (ret s) (exc s) (S (stack s)) (cur s))
  | WrapInitializer => (CNormal, emit s [VInitializerWrapped])
  | NewExecutor => (CNormal, emit s [VExecutorCreated])
  | GetLoop => (CNormal, s)
  | ShutdownInThread =>
      (* `await loop.run_in_executor(None, executor.shutdown)`: shutdown(wait=True) runs in a thread
         of the loop's default executor; the event loop -- hence the log listener -- keeps running,
         so a worker that still has to flush log records can exit.  The manager thread joins the
         worker process: exit code set. *)
      (CNormal, emit s [VExecutorShutdown])
  | Submit => (CNormal, emit s [VSubmitted])
  | GetProcess => (CNormal, emit s [VProcessKnown])
  | EventSet => (CNormal, emit s [VEventSet])
  | InitRet => (CNormal, mkSt (trace s) None (exc s) (stack s) (cur s))
  | InitExc => (CNormal, mkSt (trace s) (ret s) None (stack s) (cur s))
  | AwaitFuture =>
      let s' := emit s [VFutureAwaited] in
      match ans w with
      | AValue v => (CNormal, mkSt (trace s') (Some v) (exc s') (stack s') (cur s'))
      | AData e => (CNormal, mkSt (trace s') (ret s') (Some e) (stack s') (cur s'))
      | ARaise e => (CRaise e, s')
      end
  | StoreExc => (CNormal, mkSt (trace s) (ret s) (cur s) (stack s) (cur s))
  | Pass => (CNormal, s)
  end.

Fixpoint do_actions (w : world) (l : list action) (s : st) : completion * st :=
  match l with
  | [] => (CNormal, s)
  | a :: r => match do_action w a s with
              | (CNormal, s') => do_actions w r s'
              | other => other
              end
  end.

Fixpoint find_handler (hs : list (exclass * list action)) (e : exn) : option (list action) :=
  match hs with
  | [] => None
  | (c, b) :: r => if matches c e then Some b else find_handler r e
  end.

(** the `finally:` of MultiprocessingLogging: `await to_thread(queue.put, None)`, `await task`.
    The sentinel goes through the parent's own feeder thread, which must take the queue's
    write lock: if the worker died holding it, the sentinel never reaches the listener. *)
Fixpoint do_lexit (w : world) (l : list lstmt) (s : st) : completion * st :=
  match l with
  | [] => (CNormal, s)
  | LAwaitListener :: r =>
      if died_in_log_write w then (CHang HListener, s)
      else do_lexit w r (emit s (lev LAwaitListener))
  | x :: r => do_lexit w r (emit s (lev x))
  end.

(** exits of the AsyncExitStack: every entered context runs its `finally:` (LIFO) *)
Fixpoint unwind (w : world) (n : nat) (s : st) : completion * st :=
  match n with
  | O => (CNormal, s)
  | S k => match do_lexit w (after_yield logging_prog) s with
           | (CNormal, s') => unwind w k s'
           | other => other
           end
  end.

Fixpoint exec (w : world) (p : stmt) (s : st) : completion * st :=
  match p with
  | Skip => (CNormal, s)
  | Do a => do_action w a s
  | Seq p1 p2 =>
      match exec w p1 s with
      | (CNormal, s') => exec w p2 s'
      | other => other
      end
  | IfCollectLogging b => if collect_logging w then exec w b s else (CNormal, s)
  | AsyncWithExitStack b =>
      (* __aexit__ unwinds whatever happened in the body and does not swallow *)
      match exec w b (mkSt (trace s) (ret s) (exc s) 0%nat (cur s)) with
      | (CHang h, s') => (CHang h, s')
      | (c, s') =>
          match unwind w (stack s') s' with
          | (CNormal, s'') => (c, mkSt (trace s'') (ret s'') (exc s'') (stack s) (cur s''))
          | other => other
          end
      end
  | TryFinally b f =>
      match exec w b s with
      | (CHang h, s') => (CHang h, s')
      | (c, s') =>
          match exec w f s' with
          | (CNormal, s'') => (c, s'')        (* the finally block ends normally: the body's completion stands *)
          | other => other                    (* raised / returned / stuck inside the finally block *)
          end
      end
  | Try b hs =>
      match exec w b s with
      | (CRaise e, s') =>
          match find_handler hs e with
          | Some body => do_actions w body (mkSt (trace s') (ret s') (exc s') (stack s') (Some e))
          | None => (CRaise e, s')
          end
      | other => other
      end
  | ReturnRetExc => (CReturn, s)
  end.

(** ---- the task `_run()` *)
Inductive task_result :=
| TDone (r : option Z) (e : option exn)     (* `return ret, exc` *)
| TRaised (e : exn)                         (* the coroutine raised *)
| TNoReturn                                 (* fell off the end: `ret, exc = None` would fail *)
| THang (h : hang_stage).                   (* never completes *)

Definition run_trace (w : world) : list ev := trace (snd (exec w run_prog st0)).

Definition run_task (w : world) : task_result :=
  match exec w run_prog st0 with
  | (CReturn, s) => TDone (ret s) (exc s)
  | (CRaise e, _) => TRaised e
  | (CNormal, _) => TNoReturn
  | (CHang h, _) => THang h
  end.

(** ---- run_in_process (outer part): the handle is returned once `event.set()` has
    happened in `_run` before its first wait on the future, with `process` assigned *)
Fixpoint until_await (l : list ev) : list ev :=
  match l with [] => [] | VFutureAwaited :: _ => [] | x :: r => x :: until_await r end.

Fixpoint index_of (x : ev) (l : list ev) : option nat :=
  match l with
  | [] => None
  | y :: r => if ev_eqb x y then Some O else option_map S (index_of x r)
  end.

Inductive start_result :=
| SHandle (created_at : nat)    (* logical time = number of effects so far *)
| SAssertion                    (* `assert process` fails *)
| SNever.                       (* `await event.wait()` never returns *)

Definition start (w : world) : start_result :=
  let pre := until_await (run_trace w) in
  match index_of VEventSet pre with
  | None => SNever
  | Some i =>
      match index_of VProcessKnown pre with
      | Some j => if (j <? i)%nat then SHandle (S i) else SAssertion
      | None => SAssertion
      end
  end.

(** ---- awaiting the handle: RunningProcess.__await__ *)
Record exited := mkExited {
  returned : option Z;
  raised : option exn;
  created_at : nat;
  exited_at : nat
}.

Inductive await_result := Yields (x : exited) | Raises (e : exn) | NoHandle | BadUnpack | Hangs (h : hang_stage).

Definition await_handle (w : world) : await_result :=
  match start w with
  | SHandle c =>
      match run_task w with
      | TDone r e => Yields (mkExited r e c (length (run_trace w)))
      | TRaised e => Raises e
      | TNoReturn => BadUnpack
      | THang h => Hangs h
      end
  | _ => NoHandle
  end.

(** a further await of the same handle (another awaiter, or the same one again), completing
    [late] logical ticks after the first: RunningProcess.__await__ takes the exit time ITSELF,
    after the task result is available ([WNowExited] follows [WYieldFromTask] in [await_prog]);
    a program that returned without taking it would have nothing to put into the result *)
Fixpoint takes_time_after_task (p : list awaitst) (seen_task : bool) : bool :=
  match p with
  | [] => false
  | WYieldFromTask :: r => takes_time_after_task r true
  | WNowExited :: r => if seen_task then true else takes_time_after_task r seen_task
  | WReturnExited :: _ => false
  | _ :: r => takes_time_after_task r seen_task
  end.

Definition await_late (w : world) (late : nat) : await_result :=
  match await_handle w with
  | Yields x =>
      if takes_time_after_task await_prog false
      then Yields (mkExited (returned x) (raised x) (created_at x) (exited_at x + late))
      else BadUnpack
  | r => r
  end.

Definition same_outcome (a b : await_result) : bool :=
  match a, b with
  | Yields x, Yields y =>
      match returned x, returned y with Some u, Some v => Z.eqb u v | None, None => true | _, _ => false end
      && match raised x, raised y with
         | Some e, Some f => exn_eqb e f
         | None, None => true | _, _ => false end
      && Nat.eqb (created_at x) (created_at y) && (exited_at x <=? exited_at y)%nat
  | _, _ => false
  end.

(** ---- cleanup read off the trace *)
Fixpoint count (x : ev) (l : list ev) : nat :=
  match l with [] => O | y :: r => (if ev_eqb x y then 1 else 0) + count x r end.

(** helper tasks / executors still open at the end *)
Definition helpers_left (l : list ev) : nat :=
  (count VListenerStarted l - count VListenerAwaited l) + (count VExecutorCreated l - count VExecutorShutdown l).

(** the worker process has been joined (exit code set) *)
Definition joined (l : list ev) : bool :=
  match index_of VSubmitted l, index_of VExecutorShutdown l with
  | Some i, Some j => (i <? j)%nat
  | _, _ => false
  end.

(** ---- the worker side: behaviours, signals and which answers they allow *)
Inductive sigk := SInt | STerm | SKill.

Inductive behaviour :=
| Ret (v : Z)
| Exn (e : Z)          (* raises an exception of any class (StopIteration, CancelledError, BaseException ... included) *)
| Unpicklable          (* the return value, or the exception raised, cannot be pickled or rebuilt *)
| SysExit (n : Z) | HardExit (n : Z).

Inductive instant :=
| Boot       (* the signal arrives before the function starts (interpreter boot, initializer, queue wait) *)
| Running    (* the function is running and would not finish by itself before the signal *)
| Racing.    (* the signal races the function's own completion *)

Definition scenario := (behaviour * option (sigk * instant))%type.

(** no signal: what the executor's future yields (read from experiments, CPython 3.12:
    an unpicklable return value and SystemExit are both sent back as exceptions) *)
Definition natural (b : behaviour) : answer :=
  match b with
  | Ret v => AValue v
  | Exn e => AData (EWorker e)
  | Unpicklable => ARaise EPickle
  | SysExit n => AData (ESysExit n)
  | HardExit _ => ARaise EBrokenPool
  end.

(** a signal that wins *)
Definition struck (s : sigk) (i : instant) : answer :=
  match s, i with
  | SInt, Running => AData EKeyboardInt      (* KeyboardInterrupt inside the function, caught by the wrapper *)
  | _, _ => ARaise EBrokenPool
  end.

Definition answer_eqb (a b : answer) : bool :=
  match a, b with
  | AValue x, AValue y => Z.eqb x y
  | AData e, AData f | ARaise e, ARaise f => exn_eqb e f
  | _, _ => false
  end.

Definition answers (sc : scenario) : list answer :=
  match sc with
  | (b, None) => [natural b]
  | (b, Some (s, Racing)) => [natural b; struck s Running; ARaise EBrokenPool]
  | (b, Some (s, i)) => [struck s i]
  end.

Definition consistent (sc : scenario) (a : answer) : Prop := In a (answers sc).
Definition consistentb (sc : scenario) (a : answer) : bool := existsb (answer_eqb a) (answers sc).

(** exit code of the worker process where it is determined (None: depends on the instant) *)
Definition signum (s : sigk) : Z := match s with SInt => 2 | STerm => 15 | SKill => 9 end.

Definition exit_code (sc : scenario) (a : answer) : option Z :=
  match sc with
  | (HardExit n, None) => Some (n mod 256)
  | (_, None) => Some 0
  | (_, Some (SInt, Running)) => Some 0          (* the worker survives the KeyboardInterrupt *)
  | (_, Some (SInt, _)) => None
  | (_, Some (s, Racing)) => None
  | (_, Some (s, _)) => Some (- signum s)
  end.

(** ---- interrupt / terminate / kill / send_signal *)
Inductive pstate :=
| PBoot | PRun        (* alive *)
| PZombie             (* exited, not yet waited for *)
| PReaped.            (* waited for: Popen.returncode set, the pid is free *)

Inductive method := MInterrupt | MTerminate | MKill | MSendSignal (s : sigk).

Inductive mres :=
| MDelivered (s : sigk)      (* os.kill succeeded (a zombie accepts and ignores it) *)
| MNoop                      (* Popen._send_signal: returncode is set, nothing sent *)
| MRaisesLookup.             (* os.kill on a reaped pid: ProcessLookupError (or a stranger is hit) *)

Fixpoint do_m (fuel : nat) (sg : sigk) (p : pstate) (l : list mstmt) : mres :=
  match fuel with
  | O => MNoop
  | S fuel' =>
    match l with
    | [] => MNoop
    | MSendSignalSelf SIGINT :: _ => do_m fuel' SInt p send_signal_prog
    | MIfPid body :: _ => do_m fuel' sg p body          (* the pid of a started process is never 0/None *)
    | MOsKill :: _ => match p with PReaped => MRaisesLookup | _ => MDelivered sg end
    | MProcessTerminate :: _ => match p with PReaped => MNoop | _ => MDelivered STerm end
    | MProcessKill :: _ => match p with PReaped => MNoop | _ => MDelivered SKill end
    end
  end.

Definition call (m : method) (p : pstate) : mres :=
  match m with
  | MInterrupt => do_m 4 SInt p interrupt_prog
  | MTerminate => do_m 4 STerm p terminate_prog
  | MKill => do_m 4 SKill p kill_prog
  | MSendSignal s => do_m 4 s p send_signal_prog
  end.

Definition sig_of (m : method) : sigk :=
  match m with MInterrupt => SInt | MTerminate => STerm | MKill => SKill | MSendSignal s => s end.

(** ---- correspondence with the real runs (harness/props/c17.py writes [cases]) *)
Inductive shape := ShValue | ShExn (k : Z) | ShNeither | ShBoth.
(* exception kinds: 1 worker's own, 2 pickling, 3 SystemExit, 4 KeyboardInterrupt, 0 other *)

Definition exn_kind (e : exn) : Z :=
  match e with EWorker _ => 1 | EPickle => 2 | ESysExit _ => 3 | EKeyboardInt => 4 | EBrokenPool => 0 end.

Definition shape_of (x : exited) : shape :=
  match returned x, raised x with
  | Some _, None => ShValue
  | None, Some e => ShExn (exn_kind e)
  | None, None => ShNeither
  | Some _, Some _ => ShBoth
  end.

Definition shape_eqb (a b : shape) : bool :=
  match a, b with
  | ShValue, ShValue | ShNeither, ShNeither | ShBoth, ShBoth => true
  | ShExn x, ShExn y => Z.eqb x y
  | _, _ => false
  end.

Record obs := mkObs {
  o_start_ok : bool;          (* `await run_in_process(...)` returned a handle *)
  o_await_raised : bool;      (* awaiting the handle raised *)
  o_shape : shape;
  o_value : option Z;         (* the value returned, when there is one *)
  o_exit : option Z;          (* process.exitcode *)
  o_reaped : bool;            (* reaped before we asked, not alive *)
  o_times : bool;             (* both times present and created <= exited *)
  o_tasks_left : nat;         (* helper tasks still pending *)
  o_listener : bool;          (* a log listener task was seen while the function ran *)
  o_awaiters : bool;          (* every further awaiter of the same handle (before completion, in the iteration the
                                 task finished, after the process exited, much later) got the same outcome, ordered
                                 times, and none raised (true when there was no further awaiter) *)
  o_hang : Z                  (* 0: the handle was awaited; 1: blocked for ever in the executor's shutdown;
                                 2: idle for ever with the listener task pending; 4: `_run` suspended for ever at `await future`;
                                 3: stuck elsewhere *)
}.

Definition hang_code (h : hang_stage) : Z := match h with HShutdown => 1 | HListener => 2 end.

Definition opt_eqb (a b : option Z) : bool :=
  match a, b with Some x, Some y => Z.eqb x y | None, None => true | _, _ => false end.

(** one case agrees with the model iff SOME world allowed for the scenario makes the
    model produce exactly what was observed.  The logging fact is free only when the worker
    function emits log records and log collection is on. *)
Definition agrees (sc : scenario) (o : obs) (w : world) : bool :=
  match await_handle w with
  | Yields x =>
      Z.eqb (o_hang o) 0
      && o_start_ok o && negb (o_await_raised o)
      && shape_eqb (shape_of x) (o_shape o)
      && match returned x with Some v => opt_eqb (Some v) (o_value o) | None => true end
      && match exit_code sc (ans w) with Some c => opt_eqb (Some c) (o_exit o) | None => match o_exit o with Some _ => true | None => false end end
      && Bool.eqb (joined (run_trace w)) (o_reaped o)
      && Bool.eqb (created_at x <=? exited_at x)%nat (o_times o)
      && Nat.eqb (helpers_left (run_trace w)) (o_tasks_left o)
      && Bool.eqb (0 <? count VListenerStarted (run_trace w))%nat (o_listener o)
      && Bool.eqb (forallb (fun n => same_outcome (await_handle w) (await_late w n)) [0%nat; 1%nat; 2%nat; 50%nat]) (o_awaiters o)
  | Hangs h => o_start_ok o && Z.eqb (o_hang o) (hang_code h)
  | Raises _ => Z.eqb (o_hang o) 0 && o_start_ok o && o_await_raised o
  | NoHandle => negb (o_start_ok o)
  | BadUnpack => Z.eqb (o_hang o) 0 && o_start_ok o && o_await_raised o
  end.

Definition flag_choices (clog logs : bool) : list bool :=
  if clog && logs then [false; true] else [false].

Definition worlds (clog logs : bool) (sc : scenario) : list world :=
  flat_map (fun a => map (fun f => mkWorld clog a f) (flag_choices clog logs)) (answers sc).

(* (collect_logging, the worker function logs, scenario, observation) *)
Definition case := (bool * bool * scenario * obs)%type.

Definition case_ok (c : case) : bool :=
  let '(clog, logs, sc, o) := c in existsb (agrees sc o) (worlds clog logs sc).

Fixpoint bad_from (n : nat) (cases : list case) : list nat :=
  match cases with
  | [] => []
  | c :: r => if case_ok c then bad_from (S n) r else n :: bad_from (S n) r
  end.

(** late requests (after the handle has been awaited: the process is reaped) *)
Definition mres_code (r : mres) : Z := match r with MDelivered _ => 0 | MNoop => 1 | MRaisesLookup => 2 end.
