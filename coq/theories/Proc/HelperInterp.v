(** Interpreter of the helper code of C17 (terms of Proc/HelperSyntax.v, regenerated into
    Gen/ProcHelpers.v).  Definitions only; the obligations are in Proc/HelperTie.v.

    Big-step, total, deterministic given the ENVIRONMENT [env]: what the child does with its log
    queue (records before / after the sentinel, died inside a queue write), how the parent's
    loggers are configured, whether the body of a client `async with` raises (any class, the
    cancellation included), what the executor's future answers, what the user's function and
    initializer do, whether the wrapped exception survives pickle.dumps / pickle.loads, the
    pid / exit code (None, 0, negative, POSITIVE) / OS state of the process, the table
    _exitcode_to_name, the wall clock.

    Concurrency is abstracted where the result does not depend on it: the listener task is the only
    consumer of a FIFO queue, so the sequence of records it handles and whether it ends are a
    function of the total queue content; it is run when it is awaited.  The `_run` task is run
    when the handle is awaited; `await event.wait()` in run_in_process peeks at the prefix of
    `_run` up to its first real wait.

    A generator-based context manager (MultiprocessingLogging) is executed in three modes: [MEnter]
    up to its `yield` (suspension: no `finally` runs), [MResume o] from the `yield` on with the
    outcome of the with-body (None / the exception thrown in), [MRun] otherwise. *)
From Coq Require Import List ZArith Bool String Arith.
From NL Require Import Proc.HelperSyntax Gen.ProcHelpers.
Import ListNotations.
Open Scope string_scope.

(** ---- exceptions *)
Inductive xkind := KdException | KdBaseOnly | KdCancelled | KdKeyboardInt | KdSysExit.

Inductive exn :=
| XUser (k : xkind) (id : Z)   (* raised by user code: the function, the initializer, a with-body, a logging filter;
                                  KdCancelled = asyncio.CancelledError (a cancellation) *)
| XBrokenPool | XPickle | XKeyError | XAssertion | XAttribute | XProcessLookup | XType | XIndex | XRuntime | XName.

Definition is_exception_subclass (e : exn) : bool :=
  match e with
  | XUser KdException _ => true
  | XUser _ _ => false
  | _ => true
  end.

Definition matches (c : hclass) (e : exn) : bool :=
  match c, e with
  | XcBaseException, _ => true
  | XcException, _ => is_exception_subclass e
  | XcBrokenProcessPool, XBrokenPool => true
  | XcCancelledError, XUser KdCancelled _ => true
  | XcKeyError, XKeyError => true
  | XcProcessLookupError, XProcessLookup => true
  | XcAttributeError, XAttribute => true
  | _, _ => false
  end.

(** ---- values *)
Record logrec := mkRec { r_name : Z; r_level : Z; r_id : Z }.

Inductive obj := OProcess | OQueue | OHandler | OExecutor | OLoop | OFuture | OEvent | OStack | OContext | OTraceback.
Inductive awk := AwGet | AwPut | AwShutdown | AwEventWait | AwEnterLogging | AwTaskIter.

Inductive val :=
| VNone
| VBool (b : bool)
| VInt (z : Z)
| VStr (nonempty : bool)
| VTime (t : nat)
| VName (n : Z)                   (* the name of a logger *)
| VLogger (n : option Z)          (* None: the root logger / the module's logger *)
| VExn (e : exn)
| VWrapped (e : exn)              (* _ExceptionWithTraceback(e, tb): unpickles to e with the remote traceback as cause *)
| VBytes (e : exn)                (* pickle.dumps of the above *)
| VRecord (r : logrec)
| VTuple (l : list val)
| VUserFunc                       (* the argument `func` *)
| VUserInit                       (* the argument `initializer` when given *)
| VPartial (target : string) (args : list val)
| VDict                           (* _exitcode_to_name *)
| VObj (o : obj)
| VTask (coro : string)
| VAw (k : awk) (args : list val) (* an awaitable returned by a call *)
| VExited (fields : list (string * val))
| VHandle (attrs : list (string * val)).

Definition truthy (v : val) : bool :=
  match v with
  | VNone => false
  | VBool b => b
  | VInt z => negb (Z.eqb z 0)
  | VStr ne => ne
  | VTuple [] => false
  | _ => true
  end.

Definition is_none (v : val) : bool := match v with VNone => true | _ => false end.

(** ---- observable effects *)
Inductive hev :=
| HQueueCreated
| HPartial (target : string)
| HListenerStarted | HListenerCancelled
| HSentinelPut | HListenerAwaited
| HClientBody
| HExecutorCreated (workers init : val)
| HSubmitted (callable : val)
| HProcessKnown | HEventSet | HFutureAwaited
| HShutdown | HShutdownSync
| HRunTaskCreated
| HHandlerInstalled | HSetLevel (v : val) | HUserInit | HFuncCalled
| HOsKill (sig : val) | HTerminate | HKill.

Definition is_submitted (h : hev) : bool := match h with HSubmitted _ => true | _ => false end.
Definition is_event_set (h : hev) : bool := match h with HEventSet => true | _ => false end.

(** ---- environment *)
Inductive pstate :=
| PNotCreated      (* Process object whose start() was never called: pid None, _popen None *)
| PAlive
| PZombie          (* exited, not yet waited for *)
| PReaped.         (* waited for: returncode set, the pid is free *)

Inductive fres := FRet (v : Z) | FExn (e : exn).
Inductive answer := ANever | AResult (v : val) | ARaises (e : exn).

Record env := mkEnv {
  e_before : list logrec;        (* records of the child that reach the queue before the parent's sentinel *)
  e_after : list logrec;         (* records put after it *)
  e_killed : bool;               (* the child died inside a queue write, holding the queue's write lock *)
  e_loglevel : option Z -> Z;    (* effective level of the parent's logger of that name *)
  e_badrec : logrec -> option exn;  (* logger.handle(record) raises (a raising filter/handler) *)
  e_body : option exn;           (* the client's with-body raises *)
  e_userinit : option exn;       (* the user's initializer raises *)
  e_answer : answer;             (* `await future` *)
  e_func : fres;                 (* `func()` in the worker *)
  e_dumps : bool;                (* pickle.dumps of the wrapped exception succeeds *)
  e_loads : bool;                (* pickle.loads of the result succeeds *)
  e_pid : option Z;
  e_exitcode : option Z;
  e_names : option bool;         (* the look-up in _exitcode_to_name (there is one per run, by the exit code):
                                    None = no such key, Some ne = found, the name is (non-)empty *)
  e_pstate : pstate;
  e_tick : nat -> nat            (* how far the wall clock has advanced at its k-th reading *)
}.

Definition with_answer (E : env) (a : answer) : env :=
  mkEnv (e_before E) (e_after E) (e_killed E) (e_loglevel E) (e_badrec E) (e_body E) (e_userinit E) a (e_func E)
        (e_dumps E) (e_loads E) (e_pid E) (e_exitcode E) (e_names E) (e_pstate E) (e_tick E).

(** ---- interpreter state *)
Inductive qitem := QRec (r : logrec) | QSentinel | QWedged.
Inductive lstatus := LNotStarted | LRunning | LDone | LFailed (e : exn) | LCancelled.
Notation frame := (list (string * val)).

Record st := mkSt {
  vars : frame;              (* local and closure variables of the function being executed *)
  selfa : frame;             (* attributes of `self` *)
  putq : list qitem;         (* what the parent has put into the log queue *)
  inq : list qitem;          (* the queue as the listener finds it *)
  handled : list logrec;
  trace : list hev;
  listener : lstatus;
  cms : list frame;          (* frames of the MultiprocessingLogging generators entered on the exit stack *)
  clock : nat;
  reads : nat;
  cur : option exn;          (* the exception being handled (for a bare `raise`) *)
  task_frame : frame         (* the closure captured by create_task(_run()) *)
}.

Definition st0 (v : frame) : st := mkSt v [] [] [] [] [] LNotStarted [] 0 0 None [].

Definition set_vars (v : frame) (s : st) : st :=
  mkSt v (selfa s) (putq s) (inq s) (handled s) (trace s) (listener s) (cms s) (clock s) (reads s) (cur s) (task_frame s).
Definition set_selfa (v : frame) (s : st) : st :=
  mkSt (vars s) v (putq s) (inq s) (handled s) (trace s) (listener s) (cms s) (clock s) (reads s) (cur s) (task_frame s).
Definition set_putq (q : list qitem) (s : st) : st :=
  mkSt (vars s) (selfa s) q (inq s) (handled s) (trace s) (listener s) (cms s) (clock s) (reads s) (cur s) (task_frame s).
Definition set_inq (q : list qitem) (s : st) : st :=
  mkSt (vars s) (selfa s) (putq s) q (handled s) (trace s) (listener s) (cms s) (clock s) (reads s) (cur s) (task_frame s).
Definition add_handled (r : logrec) (s : st) : st :=
  mkSt (vars s) (selfa s) (putq s) (inq s) (handled s ++ [r]) (trace s) (listener s) (cms s) (clock s) (reads s) (cur s) (task_frame s).
Definition emit (h : hev) (s : st) : st :=
  mkSt (vars s) (selfa s) (putq s) (inq s) (handled s) (trace s ++ [h]) (listener s) (cms s) (clock s) (reads s) (cur s) (task_frame s).
Definition set_trace (t : list hev) (s : st) : st :=
  mkSt (vars s) (selfa s) (putq s) (inq s) (handled s) t (listener s) (cms s) (clock s) (reads s) (cur s) (task_frame s).
Definition set_listener (l : lstatus) (s : st) : st :=
  mkSt (vars s) (selfa s) (putq s) (inq s) (handled s) (trace s) l (cms s) (clock s) (reads s) (cur s) (task_frame s).
Definition set_cms (c : list frame) (s : st) : st :=
  mkSt (vars s) (selfa s) (putq s) (inq s) (handled s) (trace s) (listener s) c (clock s) (reads s) (cur s) (task_frame s).
Definition set_clock (t k : nat) (s : st) : st :=
  mkSt (vars s) (selfa s) (putq s) (inq s) (handled s) (trace s) (listener s) (cms s) t k (cur s) (task_frame s).
Definition set_cur (c : option exn) (s : st) : st :=
  mkSt (vars s) (selfa s) (putq s) (inq s) (handled s) (trace s) (listener s) (cms s) (clock s) (reads s) c (task_frame s).
Definition set_task_frame (f : frame) (s : st) : st :=
  mkSt (vars s) (selfa s) (putq s) (inq s) (handled s) (trace s) (listener s) (cms s) (clock s) (reads s) (cur s) f.

Fixpoint lookup (x : string) (l : frame) : option val :=
  match l with
  | [] => None
  | (y, v) :: r => if String.eqb x y then Some v else lookup x r
  end.

Fixpoint update (x : string) (v : val) (l : frame) : frame :=
  match l with
  | [] => [(x, v)]
  | (y, w) :: r => if String.eqb x y then (y, v) :: r else (y, w) :: update x v r
  end.

Definition set_var (x : string) (v : val) (s : st) : st := set_vars (update x v (vars s)) s.

(** ---- completions *)
Inductive hang :=
| HgListener     (* `await task`: the listener never ends *)
| HgQueueGet     (* `queue.get` never returns *)
| HgFuture       (* `await future` never completes *)
| HgEvent.       (* `await event.wait()`: nobody sets the event *)

Inductive completion :=
| CNormal | CBreak | CContinue
| CReturn (v : val)
| CRaise (e : exn)
| CHang (h : hang)
| CYielded (v : val)      (* [MEnter]: the generator is suspended at its yield *)
| CStuck (why : string).  (* a construct or a value the interpreter has no rule for *)

Inductive res := RV (v : val) | RX (c : completion).

Notation callfun := (string -> list val -> st -> completion * st).

Definition of_call (r : completion * st) : res * st :=
  match r with
  | (CReturn v, s) => (RV v, s)
  | (CNormal, s) => (RV VNone, s)
  | (CBreak, s) | (CContinue, s) => (RX (CStuck "break/continue out of a call"), s)
  | (c, s) => (RX c, s)
  end.

Definition optz (o : option Z) : val := match o with Some z => VInt z | None => VNone end.

(** loops, as functions of the semantics of their condition and body *)
Fixpoint while_loop (cond : st -> res * st) (body : st -> completion * st) (k : nat) (s : st) {struct k} : completion * st :=
  match k with
  | O => (CStuck "loop fuel", s)
  | S k' =>
      match cond s with
      | (RV v, s1) =>
          if truthy v then
            match body s1 with
            | (CNormal, s2) | (CContinue, s2) => while_loop cond body k' s2
            | (CBreak, s2) => (CNormal, s2)
            | o => o
            end
          else (CNormal, s1)
      | (RX c, s1) => (c, s1)
      end
  end.

Fixpoint for_loop (x : string) (body : st -> completion * st) (l : list val) (s : st) {struct l} : completion * st :=
  match l with
  | [] => (CNormal, s)
  | v :: r =>
      match body (set_var x v s) with
      | (CNormal, s2) | (CContinue, s2) => for_loop x body r s2
      | (CBreak, s2) => (CNormal, s2)
      | o => o
      end
  end.

Definition is_abrupt_stop (c : completion) : bool :=
  match c with CHang _ | CYielded _ | CStuck _ => true | _ => false end.

(** try / except / else / finally, as a function of the semantics of its parts: [r1] = the completion
    of the body; a suspension (yield in [MEnter]), a hang or a stuck interpreter run no further block *)
Definition try_sem (r1 : completion * st) (handle : exn -> st -> completion * st)
           (orelse fin : st -> completion * st) : completion * st :=
  if is_abrupt_stop (fst r1) then r1 else
  let r2 :=
    match r1 with
    | (CRaise x, s1) => handle x s1
    | (CNormal, s1) => orelse s1
    | o => o
    end in
  if is_abrupt_stop (fst r2) then r2 else
  match fin (snd r2) with
  | (CNormal, s4) => (fst r2, s4)
  | o => o
  end.

Section Interp.
Variable E : env.
Variable cf : callfun.

Definition raise (x : exn) (s : st) : res * st := (RX (CRaise x), s).
Definition stuck (why : string) (s : st) : res * st := (RX (CStuck why), s).

Definition get_attr (v : val) (a : string) (s : st) : res * st :=
  match v with
  | VObj OProcess =>
      if a =? "pid" then (RV (optz (e_pid E)), s)
      else if a =? "exitcode" then (RV (optz (e_exitcode E)), s)
      else raise XAttribute s
  | VRecord r =>
      if a =? "name" then (RV (VName (r_name r)), s)
      else if a =? "levelno" then (RV (VInt (r_level r)), s)
      else raise XAttribute s
  | VExn _ => if a =? "__traceback__" then (RV (VObj OTraceback), s) else raise XAttribute s
  | _ => raise XAttribute s
  end.

Definition global (g : string) (s : st) : res * st :=
  if g =? "_exitcode_to_name" then (RV VDict, s)
  else if g =? "DEBUG" then (RV (VInt 10), s)
  else if g =? "__name__" then (RV (VStr true), s)
  else if g =? "signal.SIGINT" then (RV (VInt 2), s)
  else if g =? "signal.SIGTERM" then (RV (VInt 15), s)
  else if g =? "signal.SIGKILL" then (RV (VInt 9), s)
  else stuck "global" s.

Definition dict_get (d k : val) (s : st) : res * st :=
  match d, k with
  | VDict, VInt _ => (RV (match e_names E with Some ne => VStr ne | None => VNone end), s)
  | VDict, VNone => (RV VNone, s)
  | VDict, _ => stuck "dict key" s
  | _, _ => raise XAttribute s
  end.

Definition dict_index (d k : val) (s : st) : res * st :=
  match d, k with
  | VDict, VInt _ => match e_names E with Some ne => (RV (VStr ne), s) | None => raise XKeyError s end
  | VDict, VNone => raise XKeyError s
  | VDict, _ => stuck "dict key" s
  | _, _ => raise XType s
  end.

Definition cmp_eval (c : cmpop) (a b : Z) : bool :=
  match c with
  | CLe => Z.leb a b | CLt => Z.ltb a b | CGe => Z.leb b a | CGt => Z.ltb b a
  | CEq => Z.eqb a b | CNe => negb (Z.eqb a b)
  end.

Definition compare (c : cmpop) (a b : val) (s : st) : res * st :=
  match a, b with
  | VInt x, VInt y => (RV (VBool (cmp_eval c x y)), s)
  | _, _ =>
      match c with
      | CEq | CNe => stuck "equality of non-integers" s
      | _ => raise XType s          (* '<=' not supported between instances of ... *)
      end
  end.

Definition identical (a b : val) (s : st) : res * st :=
  match a, b with
  | VNone, _ => (RV (VBool (is_none b)), s)
  | _, VNone => (RV (VBool false), s)
  | VBool x, VBool y => (RV (VBool (Bool.eqb x y)), s)
  | _, _ => stuck "identity of objects" s
  end.

(** the queue as the listener finds it: the child's records, then -- unless the child died
    holding the write lock, after which nothing becomes readable any more -- what the parent put,
    then what the child put later *)
Definition listener_queue (pq : list qitem) : list qitem :=
  map QRec (e_before E) ++ (if e_killed E then [QWedged] else pq ++ map QRec (e_after E)).

(** a call of another program: the request, and what is done with its completion *)
Inductive post :=
| PPlain
| PHandle (saved : frame)      (* RunningProcess(...): the attributes set by __init__ become the handle *)
| PListener.                   (* `await task` of the listener task *)

Inductive creq := Done (r : res * st) | Call (name : string) (args : list val) (s : st) (p : post).

Definition finish (q : creq) : res * st :=
  match q with
  | Done r => r
  | Call name args s PPlain => of_call (cf name args s)
  | Call name args s (PHandle saved) =>
      match cf name args s with
      | (CReturn _, s') | (CNormal, s') => (RV (VHandle (selfa s')), set_selfa saved s')
      | (c, s') => (RX c, set_selfa saved s')
      end
  | Call name args s PListener =>
      match cf name args s with
      | (CReturn _, s') | (CNormal, s') => (RV VNone, emit HListenerAwaited (set_listener LDone s'))
      | (CRaise x, s') => (RX (CRaise x), emit HListenerAwaited (set_listener (LFailed x) s'))
      | (CHang _, s') => (RX (CHang HgListener), s')
      | (c, s') => (RX c, s')
      end
  end.

Definition do_await0 (v : val) (s : st) : creq :=
  match v with
  | VAw AwGet [] =>
      Done match inq s with
           | QRec r :: q => (RV (VRecord r), set_inq q s)
           | QSentinel :: q => (RV VNone, set_inq q s)
           | QWedged :: _ | [] => (RX (CHang HgQueueGet), s)
           end
  | VAw AwPut [VNone] => Done (RV VNone, emit HSentinelPut (set_putq (putq s ++ [QSentinel]) s))
  | VAw AwShutdown [] => Done (RV VNone, emit HShutdown s)
  | VAw AwEventWait [] => Call "_run_prefix" [] s PPlain
  | VAw AwEnterLogging [c] => Call "cm_enter" [c] s PPlain
  | VAw AwTaskIter [VTask c] => if c =? "_run" then Call "_run_task" [] s PPlain else Done (stuck "task" s)
  | VTask c =>
      if c =? "_run" then Call "_run_task" [] s PPlain
      else if c =? "_listen" then
        match listener s with
        | LRunning => Call "_listen" [] s PListener
        | LDone => Done (RV VNone, emit HListenerAwaited s)
        | LFailed x => Done (RX (CRaise x), emit HListenerAwaited s)
        | LCancelled => Done (RX (CRaise (XUser KdCancelled 0)), emit HListenerAwaited s)
        | LNotStarted => Done (stuck "await of a task that was not created" s)
        end
      else Done (stuck "task" s)
  | VObj OFuture =>
      let s' := emit HFutureAwaited s in
      Done match e_answer E with
           | ANever => (RX (CHang HgFuture), s')
           | AResult r => (RV r, s')
           | ARaises x => (RX (CRaise x), s')
           end
  | VAw _ _ => Done (stuck "awaitable" s)
  | _ => Done (raise XType s)
  end.

Definition do_await (v : val) (s : st) : res * st := finish (do_await0 v s).

Definition do_call0 (f : callee) (a : list val) (s : st) : creq :=
  match f, a with
  | KNow, [] => let t := clock s + e_tick E (reads s) in Done (RV (VTime t), set_clock t (S (reads s)) s)
  | KFormatTime, [VTime _] => Done (RV (VStr true), s)
  | KFormatTime, [_] => Done (raise XAttribute s)
  | KGetLogger, [] => Done (RV (VLogger None), s)
  | KGetLogger, [VName n] => Done (RV (VLogger (Some n)), s)
  | KGetLogger, [VStr _] => Done (RV (VLogger None), s)
  | KGetLogger, [_] => Done (raise XType s)
  | KLogInfo, VLogger _ :: _ => Done (RV VNone, s)
  | KLoggerLevel, [VLogger n] => Done (RV (VInt (e_loglevel E n)), s)
  | KLoggerHandle, [VLogger _; VRecord r] =>
      Done match e_badrec E r with
           | Some x => raise x s
           | None => (RV VNone, add_handled r s)
           end
  | KLoggerSetLevel, [VLogger _; v] => Done (RV VNone, emit (HSetLevel v) s)
  | KLoggerAddHandler, [VLogger _; VObj OHandler] => Done (RV VNone, emit HHandlerInstalled s)
  | KQueueHandler, [VObj OQueue] => Done (RV (VObj OHandler), s)
  | KPartial t, args => Done (RV (VPartial t args), emit (HPartial t) s)
  | KCallVar x, args =>
      match lookup x (vars s) with
      | Some VUserFunc =>
          Done match e_func E with
               | FRet v => (RV (VInt v), emit HFuncCalled s)
               | FExn x => (RX (CRaise x), emit HFuncCalled s)
               end
      | Some VUserInit =>
          Done match e_userinit E with
               | None => (RV VNone, emit HUserInit s)
               | Some x => (RX (CRaise x), emit HUserInit s)
               end
      | Some (VPartial t pa) => Call t (pa ++ args) s PPlain
      | Some _ => Done (raise XType s)         (* e.g. 'NoneType' object is not callable *)
      | None => Done (raise XName s)
      end
  | KSelfMethod m, args => Call m args s PPlain
  | KOsKill, [VInt _; sg] =>
      Done match e_pstate E with
           | PAlive | PZombie => (RV VNone, emit (HOsKill sg) s)
           | PReaped | PNotCreated => raise XProcessLookup s
           end
  | KOsKill, [_; _] => Done (raise XType s)
  | KProcTerminate, [VObj OProcess] =>
      Done match e_pstate E with
           | PNotCreated => raise XAttribute s        (* self._popen is None *)
           | PAlive | PZombie => (RV VNone, emit HTerminate s)
           | PReaped => (RV VNone, s)                 (* Popen._send_signal: returncode is set, nothing is sent *)
           end
  | KProcKill, [VObj OProcess] =>
      Done match e_pstate E with
           | PNotCreated => raise XAttribute s
           | PAlive | PZombie => (RV VNone, emit HKill s)
           | PReaped => (RV VNone, s)
           end
  | KWrapTraceback, [VExn e; _] => Done (RV (VWrapped e), s)
  | KPickleDumps, [VWrapped e] => Done (if e_dumps E then (RV (VBytes e), s) else raise XPickle s)
  | KPickleLoads, [VBytes e] => Done (if e_loads E then (RV (VExn e), s) else raise XPickle s)
  | KGetContext, [] => Done (RV (VObj OContext), s)
  | KNewQueue, [VObj OContext] => Done (RV (VObj OQueue), emit HQueueCreated s)
  | KNewQueue, [_] => Done (raise XAttribute s)
  | KCreateTask c, [] =>
      Done (if c =? "_listen" then (RV (VTask c), emit HListenerStarted (set_listener LRunning s))
            else if c =? "_run" then (RV (VTask c), emit HRunTaskCreated (set_task_frame (vars s) s))
            else stuck "create_task" s)
  | KTaskCancel, [VTask c] =>
      Done (if c =? "_listen" then
              (RV (VBool true), emit HListenerCancelled (set_listener (match listener s with LRunning => LCancelled | l => l end) s))
            else stuck "cancel" s)
  | KNewEvent, [] => Done (RV (VObj OEvent), s)
  | KEventSet, [VObj OEvent] => Done (RV VNone, emit HEventSet s)
  | KEventWait, [VObj OEvent] => Done (RV (VAw AwEventWait []), s)
  | KNewStack, [] => Done (RV (VObj OStack), s)
  | KNewExecutor, [w; _; i] => Done (RV (VObj OExecutor), emit (HExecutorCreated w i) s)
  | KGetLoop, [] => Done (RV (VObj OLoop), s)
  | KSubmit, [VObj OExecutor; c] => Done (RV (VObj OFuture), emit (HSubmitted c) s)
  | KFirstProcess, [VObj OExecutor] =>
      Done (if existsb is_submitted (trace s) then (RV (VObj OProcess), emit HProcessKnown s) else raise XIndex s)
  | KShutdownInThread, [VObj OExecutor] => Done (RV (VAw AwShutdown []), s)
  | KShutdownSync, [VObj OExecutor] => Done (RV VNone, emit HShutdownSync s)
  | KToThreadGet, [VObj OQueue] => Done (RV (VAw AwGet []), s)
  | KToThreadPut, [VObj OQueue; v] => Done (RV (VAw AwPut [v]), s)
  | KEnterLogging, [VObj OStack; c] => Done (RV (VAw AwEnterLogging [c]), s)
  | KTaskAwaitIter, [VTask c] => Done (RV (VAw AwTaskIter [VTask c]), s)
  | KRunningProcess, [p; t] => Call "__init__" [p; t] (set_selfa [] s) (PHandle (selfa s))
  | _, _ => Done (stuck "call" s)
  end.

Definition do_call (f : callee) (a : list val) (s : st) : res * st := finish (do_call0 f a s).

Fixpoint eval (e : hexp) (s : st) {struct e} : res * st :=
  match e with
  | ENone => (RV VNone, s)
  | EBool b => (RV (VBool b), s)
  | EInt z => (RV (VInt z), s)
  | EVar x => match lookup x (vars s) with Some v => (RV v, s) | None => raise XName s end
  | ESelf a => match lookup a (selfa s) with Some v => (RV v, s) | None => raise XAttribute s end
  | EAttr e1 a => match eval e1 s with (RV v, s1) => get_attr v a s1 | o => o end
  | EGlobal g => global g s
  | EAnd a b => match eval a s with (RV v, s1) => if truthy v then eval b s1 else (RV v, s1) | o => o end
  | EOr a b => match eval a s with (RV v, s1) => if truthy v then (RV v, s1) else eval b s1 | o => o end
  | ENot a => match eval a s with (RV v, s1) => (RV (VBool (negb (truthy v))), s1) | o => o end
  | EWalrus x e1 => match eval e1 s with (RV v, s1) => (RV v, set_var x v s1) | o => o end
  | EIs a b =>
      match eval a s with
      | (RV u, s1) => match eval b s1 with (RV v, s2) => identical u v s2 | o => o end
      | o => o
      end
  | EIsNot a b =>
      match eval a s with
      | (RV u, s1) =>
          match eval b s1 with
          | (RV v, s2) => match identical u v s2 with (RV w, s3) => (RV (VBool (negb (truthy w))), s3) | o => o end
          | o => o
          end
      | o => o
      end
  | ECmp c a b =>
      match eval a s with
      | (RV u, s1) => match eval b s1 with (RV v, s2) => compare c u v s2 | o => o end
      | o => o
      end
  | EGet d k =>
      match eval d s with
      | (RV u, s1) => match eval k s1 with (RV v, s2) => dict_get u v s2 | o => o end
      | o => o
      end
  | EIndex d k =>
      match eval d s with
      | (RV u, s1) => match eval k s1 with (RV v, s2) => dict_index u v s2 | o => o end
      | o => o
      end
  | ETuple l =>
      match (fix evals (l : list hexp) (s : st) {struct l} : (list val + completion) * st :=
               match l with
               | [] => (inl [], s)
               | x :: r =>
                   match eval x s with
                   | (RV v, s1) => match evals r s1 with (inl vs, s2) => (inl (v :: vs), s2) | o => o end
                   | (RX c, s1) => (inr c, s1)
                   end
               end) l s with
      | (inl vs, s1) => (RV (VTuple vs), s1)
      | (inr c, s1) => (RX c, s1)
      end
  | EFmt l =>
      match (fix evals (l : list hexp) (s : st) {struct l} : (list val + completion) * st :=
               match l with
               | [] => (inl [], s)
               | x :: r =>
                   match eval x s with
                   | (RV v, s1) => match evals r s1 with (inl vs, s2) => (inl (v :: vs), s2) | o => o end
                   | (RX c, s1) => (inr c, s1)
                   end
               end) l s with
      | (inl _, s1) => (RV (VStr true), s1)
      | (inr c, s1) => (RX c, s1)
      end
  | ECall f l =>
      match (fix evals (l : list hexp) (s : st) {struct l} : (list val + completion) * st :=
               match l with
               | [] => (inl [], s)
               | x :: r =>
                   match eval x s with
                   | (RV v, s1) => match evals r s1 with (inl vs, s2) => (inl (v :: vs), s2) | o => o end
                   | (RX c, s1) => (inr c, s1)
                   end
               end) l s with
      | (inl vs, s1) => do_call f vs s1
      | (inr c, s1) => (RX c, s1)
      end
  | EAwait e1 => match eval e1 s with (RV v, s1) => do_await v s1 | o => o end
  | EYieldFrom e1 => match eval e1 s with (RV v, s1) => do_await v s1 | o => o end
  | EExited l =>
      match (fix evalf (l : list (string * hexp)) (s : st) {struct l} : (list (string * val) + completion) * st :=
               match l with
               | [] => (inl [], s)
               | (k, x) :: r =>
                   match eval x s with
                   | (RV v, s1) => match evalf r s1 with (inl vs, s2) => (inl ((k, v) :: vs), s2) | o => o end
                   | (RX c, s1) => (inr c, s1)
                   end
               end) l s with
      | (inl vs, s1) => (RV (VExited vs), s1)
      | (inr c, s1) => (RX c, s1)
      end
  end.

(** ---- statements *)
Inductive mode := MRun | MEnter | MResume (o : option exn).

Definition after_resume (m : mode) : mode := match m with MResume _ => MRun | x => x end.

Fixpoint has_yield (p : hstmt) : bool :=
  match p with
  | SYield _ => true
  | SSeq a b | SIf _ a b => has_yield a || has_yield b
  | SWhile _ b | SFor _ _ b | SAsyncWithStack _ b => has_yield b
  | STry b hs o f =>
      has_yield b || has_yield o || has_yield f
      || (fix hy (hs : list handler) : bool :=
            match hs with [] => false | Handler _ _ hb :: r => has_yield hb || hy r end) hs
  | _ => false
  end.

Definition assign (t : target) (v : val) (s : st) : completion * st :=
  match t with
  | TVar x => (CNormal, set_var x v s)
  | TSelf a => (CNormal, set_selfa (update a v (selfa s)) s)
  | TPair a b =>
      match v with
      | VTuple [u; w] => (CNormal, set_var b w (set_var a u s))
      | _ => (CRaise XType, s)      (* cannot unpack *)
      end
  end.

(** the exits of an AsyncExitStack, LIFO; [o] = the exception pending so far *)
Fixpoint unwind (k : nat) (o : option exn) (s : st) : completion * st :=
  match k with
  | O => (match o with None => CNormal | Some x => CRaise x end, s)
  | S k' =>
      match cms s with
      | [] => (match o with None => CNormal | Some x => CRaise x end, s)
      | _ =>
          match cf "cm_exit" [match o with None => VNone | Some x => VExn x end] s with
          | (CNormal, s') => unwind k' o s'                 (* not suppressed *)
          | (CReturn _, s') => unwind k' None s'            (* the context manager swallowed the exception *)
          | (CRaise x, s') => unwind k' (Some x) s'
          | other => other
          end
      end
  end.

Fixpoint exec (n : nat) (m : mode) (p : hstmt) (s : st) {struct p} : completion * st :=
  match p with
  | SSkip => (CNormal, s)
  | SSeq a b =>
      match m with
      | MResume _ =>
          if has_yield a then
            match exec n m a s with
            | (CNormal, s1) => exec n MRun b s1
            | o => o
            end
          else exec n m b s
      | _ =>
          match exec n m a s with
          | (CNormal, s1) => exec n m b s1
          | o => o
          end
      end
  | SExpr e =>
      match m with
      | MResume _ => (CStuck "resume", s)
      | _ => match eval e s with (RV _, s1) => (CNormal, s1) | (RX c, s1) => (c, s1) end
      end
  | SAssign t e =>
      match m with
      | MResume _ => (CStuck "resume", s)
      | _ => match eval e s with (RV v, s1) => assign t v s1 | (RX c, s1) => (c, s1) end
      end
  | SIf c a b =>
      match m with
      | MResume _ =>
          if has_yield a then exec n m a s else if has_yield b then exec n m b s else (CStuck "resume", s)
      | _ =>
          match eval c s with
          | (RV v, s1) => if truthy v then exec n m a s1 else exec n m b s1
          | (RX c, s1) => (c, s1)
          end
      end
  | SWhile c body =>
      match m with
      | MResume _ => (CStuck "resume into a loop", s)
      | _ =>
          while_loop (eval c) (exec n m body) n s
      end
  | SFor x it body =>
      match m with
      | MResume _ => (CStuck "resume into a loop", s)
      | _ =>
          match eval it s with
          | (RV (VTuple l), s1) =>
              for_loop x (exec n m body) l s1
          | (RV _, s1) => (CRaise XType, s1)
          | (RX c, s1) => (c, s1)
          end
      end
  | SBreak => (CBreak, s)
  | SContinue => (CContinue, s)
  | SReturn e =>
      match m with
      | MResume _ => (CStuck "resume", s)
      | _ => match eval e s with (RV v, s1) => (CReturn v, s1) | (RX c, s1) => (c, s1) end
      end
  | SRaise => (match cur s with Some x => CRaise x | None => CRaise XRuntime end, s)
  | SAssert e =>
      match m with
      | MResume _ => (CStuck "resume", s)
      | _ =>
          match eval e s with
          | (RV v, s1) => if truthy v then (CNormal, s1) else (CRaise XAssertion, s1)
          | (RX c, s1) => (c, s1)
          end
      end
  | STry body hs orelse fin =>
      let m' := after_resume m in
      let r1 :=
        match m with
        | MResume _ => if has_yield body then exec n m body s else (CStuck "resume outside the try body", s)
        | _ => exec n m body s
        end in
      try_sem r1
        (fun x s1 =>
           (fix find (hs : list handler) : completion * st :=
              match hs with
              | [] => (CRaise x, s1)
              | Handler c bind hb :: r =>
                  if matches c x then
                    let s2 := set_cur (Some x) (match bind with Some v => set_var v (VExn x) s1 | None => s1 end) in
                    match exec n m' hb s2 with
                    | (c2, s3) => (c2, set_cur (cur s1) s3)
                    end
                  else find r
              end) hs)
        (exec n m' orelse) (exec n m' fin)
  | SYield e =>
      match m with
      | MRun => (CStuck "yield outside a generator driver", s)
      | MEnter => match eval e s with (RV v, s1) => (CYielded v, s1) | (RX c, s1) => (c, s1) end
      | MResume None => (CNormal, s)
      | MResume (Some x) => (CRaise x, s)
      end
  | SAsyncWithStack x body =>
      match m with
      | MResume _ => (CStuck "resume", s)
      | _ =>
          let saved := cms s in
          match exec n m body (set_cms [] (set_var x (VObj OStack) s)) with
          | (c, s1) =>
              if is_abrupt_stop c then (c, s1) else
              match unwind (List.length (cms s1)) (match c with CRaise e => Some e | _ => None end) s1 with
              | (CNormal, s2) => (match c with CRaise _ => CNormal | o => o end, set_cms saved s2)
              | (o, s2) => (o, set_cms saved s2)
              end
          end
      end
  | SClientBody =>
      (match e_body E with None => CNormal | Some x => CRaise x end, emit HClientBody s)
  end.

End Interp.

(** ================================================================== calls between the programs *)

Fixpoint bind_params (ps : list string) (args : list val) : option frame :=
  match ps, args with
  | [], [] => Some []
  | p :: r, _ =>
      if String.prefix "*" p then Some [(substring 1 (String.length p - 1) p, VTuple args)]
      else match args with
           | a :: ar => match bind_params r ar with Some f => Some ((p, a) :: f) | None => None end
           | [] => None
           end
  | [], _ :: _ => None
  end.

(** a function / method call: fresh locals, the caller's are restored afterwards *)
Definition call_fn (ex : mode -> hstmt -> st -> completion * st) (ps : list string) (body : hstmt)
           (args : list val) (s : st) : completion * st :=
  match bind_params ps args with
  | None => (CRaise XType, s)
  | Some f =>
      match ex MRun body (set_vars f s) with
      | (CNormal, s') => (CReturn VNone, set_vars (vars s) s')
      | (c, s') => (c, set_vars (vars s) s')
      end
  end.

(** asynccontextmanager.__aenter__: run the generator to its yield *)
Definition cm_enter (ex : mode -> hstmt -> st -> completion * st) (args : list val) (s : st) : completion * st :=
  match bind_params logging_params args with
  | None => (CRaise XType, s)
  | Some f =>
      match ex MEnter logging_prog (set_vars f s) with
      | (CYielded v, s') => (CReturn v, set_cms (vars s' :: cms s') (set_vars (vars s) s'))
      | (CNormal, s') | (CReturn _, s') => (CRaise XRuntime, set_vars (vars s) s')     (* generator didn't yield *)
      | (c, s') => (c, set_vars (vars s) s')
      end
  end.

(** asynccontextmanager.__aexit__(typ, value, tb): resume the generator at its yield.
    CNormal: finished, nothing swallowed; CReturn: the exception thrown in was swallowed;
    CRaise: the exit raises (the same exception re-raised, or another one) *)
Definition cm_exit (ex : mode -> hstmt -> st -> completion * st) (args : list val) (s : st) : completion * st :=
  match cms s with
  | [] => (CStuck "exit of a context that was not entered", s)
  | f :: rest =>
      let o := match args with [VExn x] => Some x | _ => None end in
      match ex (MResume o) logging_prog (set_cms rest (set_vars f s)) with
      | (CNormal, s') | (CReturn _, s') =>
          (match o with None => CNormal | Some _ => CReturn (VBool true) end, set_vars (vars s) s')
      | (CYielded _, s') => (CRaise XRuntime, set_vars (vars s) s')                   (* generator didn't stop *)
      | (c, s') => (c, set_vars (vars s) s')
      end
  end.

Definition name_is (a b : string) : bool := String.eqb a b.

Definition dispatch (E : env) (lis : st -> completion * st) (cf : callfun) (n : nat) (name : string) (args : list val) (s : st) : completion * st :=
  let ex := exec E cf n in
  if name_is name "_format_time" then call_fn ex rp_format_time_params rp_format_time_prog args s
  else if name_is name "_log_created" then call_fn ex rp_log_created_params rp_log_created_prog args s
  else if name_is name "_log_exited" then call_fn ex rp_log_exited_params rp_log_exited_prog args s
  else if name_is name "send_signal" then call_fn ex rp_send_signal_params rp_send_signal_prog args s
  else if name_is name "interrupt" then call_fn ex rp_interrupt_params rp_interrupt_prog args s
  else if name_is name "terminate" then call_fn ex rp_terminate_params rp_terminate_prog args s
  else if name_is name "kill" then call_fn ex rp_kill_params rp_kill_prog args s
  else if name_is name "__init__" then call_fn ex rp_init_params rp_init_prog args s
  else if name_is name "__await__" then call_fn ex rp_await_params rp_await_prog args s
  else if name_is name "_initializer" then call_fn ex initializer_params initializer_prog args s
  else if name_is name "_call_all" then call_fn ex call_all_params call_all_prog args s
  else if name_is name "_call" then call_fn ex call_params call_prog args s
  else if name_is name "_listen" then
    lis s
  else if name_is name "cm_enter" then cm_enter ex args s
  else if name_is name "cm_exit" then cm_exit ex args s
  else if name_is name "_run_task" then
    match ex MRun run_prog (set_vars (task_frame s) s) with
    | (CNormal, s') => (CReturn VNone, set_vars (vars s) s')
    | (c, s') => (c, set_vars (vars s) s')
    end
  else if name_is name "_run_prefix" then
    (* `await event.wait()`: `_run` up to its first real wait (the future never answers); only the
       nonlocal `process` and the fact that the event was set are kept *)
    match exec (with_answer E ANever) cf n MRun run_prog (set_vars (task_frame s) s) with
    | (_, s') =>
        if existsb is_event_set (trace s') then
          (CReturn (VBool true),
           match lookup "process" (vars s') with Some v => set_var "process" v s | None => s end)
        else (CHang HgEvent, s)
    end
  else (CStuck ("unknown function " ++ name), s).

Definition cf0 : callfun := fun name _ s => (CStuck ("call depth: " ++ name), s).

(** the coroutine `_listen`, run when its task is awaited: a closure of the generator's frame (same
    variables; its own are dropped afterwards); it calls nothing.  Every iteration of its loop
    consumes one item of the queue, hence the fuel. *)
Definition listen_real (E : env) (s : st) : completion * st :=
  let q := listener_queue E (putq s) in
  match exec E cf0 (S (List.length q)) MRun listen_prog (set_inq q s) with (c, s') => (c, set_vars (vars s) s') end.

Fixpoint cfn (E : env) (lis : st -> completion * st) (n : nat) (depth : nat) : callfun :=
  match depth with
  | O => cf0
  | S d => dispatch E lis (cfn E lis n d) n
  end.

Definition DEPTH : nat := 7%nat.

(** no other program has a `while` loop *)
Definition FUEL : nat := 3%nat.

Definition run_with (E : env) (lis : st -> completion * st) (n : nat) (p : hstmt) (s : st) : completion * st :=
  exec E (cfn E lis n DEPTH) n MRun p s.
Definition call_with (E : env) (lis : st -> completion * st) (n : nat) (name : string) (args : list val) (s : st) : completion * st :=
  cfn E lis n (S DEPTH) name args s.

Definition run (E : env) (p : hstmt) (s : st) : completion * st := run_with E (listen_real E) FUEL p s.
Definition call (E : env) (name : string) (args : list val) (s : st) : completion * st :=
  call_with E (listen_real E) FUEL name args s.
