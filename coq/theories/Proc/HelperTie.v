(** TIE of the C17 model (Proc/Model.v) to the helper code of /repo around `run_in_process._run`.

    Gen/ProcHelpers.v holds the statement trees of MultiprocessingLogging, _listen, _initializer,
    RunningProcess.*, _call_all, _call, run_in_process and _run, REGENERATED from the source at every
    check (translate/proc_helpers.py, fail closed).  Proc/HelperInterp.v interprets them.  This file
    proves, for ALL environments, what the regenerated code does:

      (1) [client_exact], [listener_*]: in `async with MultiprocessingLogging() as initializer: BODY`
          the listener task is started exactly once and awaited on EVERY exit path of the block
          (normal, exception, cancellation), after the sentinel was put;
      (2) [handled_exact]: every record put before the sentinel is handled exactly once, in order
          (subject to the level test the code applies);
      (3) [call_exact]: what `_call` returns / raises;
      (4) [await_exact]: RunningProcess.__await__ for every exit code; times ordered;
      (5) [signal_table]: interrupt / send_signal / terminate / kill in every process state;
      (6) [run_simulates_model]: the regenerated `_run`, with the regenerated context manager inlined
          on its exit stack, produces exactly the trace and the result of Proc/Model.v.

    Proof method: the programs are closed terms, the environment is symbolic; evaluation is by
    [lazy] with the listener coroutine kept abstract ([lis]) and then replaced by its closed form
    ([listen_real_spec], an induction over the queue). *)
From Coq Require Import List ZArith Bool String Arith Lia.
From NL Require Import Proc.HelperSyntax Gen.ProcHelpers Proc.HelperInterp Proc.HelperExt.
From NL Require Proc.Model Proc.Proofs.
Import ListNotations.
Open Scope string_scope.
Open Scope list_scope.

(** a sentence that runs away (an evaluation stuck on a symbolic value after the code changed) is a
    broken obligation, not a hanging build *)
Set Default Timeout 400.

(** ================================================================== signatures (kind c) *)
Lemma signatures :
  logging_params = ["mp_context"] /\ initializer_params = ["queue"] /\
  rp_init_params = ["process"; "task"] /\ rp_log_exited_params = ["exited_at"] /\
  rp_send_signal_params = ["sig"] /\ rp_await_params = [] /\ rp_interrupt_params = [] /\
  rp_terminate_params = [] /\ rp_kill_params = [] /\
  call_all_params = ["*funcs"] /\ call_params = ["func"] /\
  outer_params = ["func"; "mp_context"; "initializer"; "collect_logging"] /\
  exited_fields = ["returned"; "raised"; "process"; "process_created_at"; "process_exited_at"] /\
  exitcode_keys_negated = true /\
  rp_methods = ["__init__"; "__repr__"; "_log_created"; "_log_exited"; "_format_time"; "interrupt"; "send_signal";
                "terminate"; "kill"; "__await__"] /\
  logging_defaults = [("mp_context", ENone)] /\
  outer_defaults = [("mp_context", ENone); ("initializer", ENone); ("collect_logging", EBool false)].
Proof. repeat split; reflexivity. Qed.

(** ================================================================== frames *)
Lemma lookup_update_same : forall x v l, lookup x (update x v l) = Some v.
Proof.
  intros x v l. induction l as [ | [y w] r IH]; simpl.
  - rewrite String.eqb_refl. reflexivity.
  - destruct (String.eqb x y) eqn:H; simpl; rewrite H; [reflexivity | exact IH].
Qed.

Lemma lookup_update_other : forall x y v l, String.eqb x y = false -> lookup x (update y v l) = lookup x l.
Proof.
  intros x y v l Hxy. induction l as [ | [z w] r IH]; simpl.
  - rewrite Hxy. reflexivity.
  - destruct (String.eqb y z) eqn:H; simpl.
    + apply String.eqb_eq in H. subst z. rewrite Hxy. reflexivity.
    + destruct (String.eqb x z); [reflexivity | exact IH].
Qed.

(** ================================================================== the listener coroutine *)
Definition listen_cond : hexp := match listen_prog with SWhile c _ => c | _ => ENone end.
Definition listen_body : hstmt := match listen_prog with SWhile _ b => b | _ => SSkip end.

Lemma listen_shape : listen_prog = SWhile listen_cond listen_body.
Proof. reflexivity. Qed.

Definition level_ok (E : env) (r : logrec) : bool := Z.leb (e_loglevel E (Some (r_name r))) (r_level r).

(** closed form of the loop: what it does with a queue content *)
Fixpoint listen_fold (E : env) (q : list qitem) (s : st) : completion * st :=
  match q with
  | [] => (CHang HgQueueGet, set_inq [] s)
  | QWedged :: r => (CHang HgQueueGet, set_inq (QWedged :: r) s)
  | QSentinel :: r => (CNormal, set_var "record" VNone (set_inq r s))
  | QRec rc :: r =>
      let s1 := set_var "logger" (VLogger (Some (r_name rc))) (set_var "record" (VRecord rc) (set_inq r s)) in
      if level_ok E rc then
        match e_badrec E rc with
        | Some x => (CRaise x, s1)
        | None => listen_fold E r (add_handled rc s1)
        end
      else listen_fold E r s1
  end.

Definition has_queue (s : st) : Prop := lookup "queue" (vars s) = Some (VObj OQueue).

Lemma cond_rec : forall E cf s rc q, has_queue s -> inq s = QRec rc :: q ->
  eval E cf listen_cond s = (RV (VBool true), set_var "record" (VRecord rc) (set_inq q s)).
Proof.
  intros E cf s rc q Hq Hi. destruct s. unfold has_queue in Hq. simpl in *. rewrite Hq. unfold do_call, do_await. simpl. subst inq. reflexivity.
Qed.

Lemma cond_sentinel : forall E cf s q, has_queue s -> inq s = QSentinel :: q ->
  eval E cf listen_cond s = (RV (VBool false), set_var "record" VNone (set_inq q s)).
Proof.
  intros E cf s q Hq Hi. destruct s. unfold has_queue in Hq. simpl in *. rewrite Hq. unfold do_call, do_await. simpl. subst inq. reflexivity.
Qed.

Lemma cond_blocked : forall E cf s, has_queue s -> (inq s = [] \/ exists q, inq s = QWedged :: q) ->
  eval E cf listen_cond s = (RX (CHang HgQueueGet), s).
Proof.
  intros E cf s Hq Hi. destruct s. unfold has_queue in Hq. simpl in *. rewrite Hq. unfold do_call, do_await. simpl.
  destruct Hi as [Hi | [q Hi]]; subst inq; reflexivity.
Qed.

Lemma body_spec : forall E cf n s rc, lookup "record" (vars s) = Some (VRecord rc) ->
  exec E cf n MRun listen_body s =
  let s1 := set_var "logger" (VLogger (Some (r_name rc))) s in
  if level_ok E rc then
    match e_badrec E rc with
    | Some x => (CRaise x, s1)
    | None => (CNormal, add_handled rc s1)
    end
  else (CNormal, s1).
Proof.
  intros E cf n s rc Hr. destruct s. simpl in Hr. unfold level_ok.
  repeat (progress (unfold set_var, set_vars, add_handled, do_call, do_await; simpl;
                    rewrite ?lookup_update_same; rewrite ?lookup_update_other by reflexivity; rewrite ?Hr)).
  destruct (Z.leb _ _); [ | reflexivity].
  repeat (progress (unfold set_var, set_vars, add_handled, do_call, do_await; simpl;
                    rewrite ?lookup_update_same; rewrite ?lookup_update_other by reflexivity; rewrite ?Hr)).
  destruct (e_badrec E rc); reflexivity.
Qed.

Lemma has_queue_step : forall s a b q, has_queue s ->
  has_queue (set_var "logger" a (set_var "record" b (set_inq q s))).
Proof.
  intros s a b q H. unfold has_queue in *. destruct s. simpl in *.
  rewrite !lookup_update_other by reflexivity. exact H.
Qed.

Lemma while_S : forall c b k s,
  while_loop c b (S k) s =
  match c s with
  | (RV v, s1) =>
      if truthy v then
        match b s1 with
        | (CNormal, s2) | (CContinue, s2) => while_loop c b k s2
        | (CBreak, s2) => (CNormal, s2)
        | o => o
        end
      else (CNormal, s1)
  | (RX x, s1) => (x, s1)
  end.
Proof. reflexivity. Qed.

Lemma listen_loop : forall E cf n q s k, has_queue s -> inq s = q -> (List.length q < k)%nat ->
  while_loop (eval E cf listen_cond) (exec E cf n MRun listen_body) k s = listen_fold E q s.
Proof.
  intros E cf n q. induction q as [ | it r IH]; intros s k Hq Hi Hk.
  - destruct k; [simpl in Hk; lia | ]. rewrite while_S.
    rewrite cond_blocked by (auto). destruct s; simpl in *; subst; reflexivity.
  - destruct k; [simpl in Hk; lia | ]. simpl in Hk. rewrite while_S. destruct it as [rc | | ].
    + rewrite (cond_rec E cf s rc r Hq Hi). cbn [truthy].
      rewrite (body_spec E cf n _ rc) by (destruct s; simpl; apply lookup_update_same).
      cbn zeta. cbn [listen_fold]. destruct (level_ok E rc).
      * destruct (e_badrec E rc); [reflexivity | ].
        apply IH; [ | destruct s; reflexivity | lia].
        pose proof (has_queue_step s (VLogger (Some (r_name rc))) (VRecord rc) r Hq) as H.
        unfold has_queue in *. destruct s; simpl in *. exact H.
      * apply IH; [apply has_queue_step; exact Hq | destruct s; reflexivity | lia].
    + rewrite (cond_sentinel E cf s r Hq Hi). reflexivity.
    + rewrite cond_blocked by (eauto). destruct s; simpl in *; subst; reflexivity.
Qed.

(** what the loop leaves behind, field by field *)
Fixpoint listen_result (E : env) (q : list qitem) : completion :=
  match q with
  | [] | QWedged :: _ => CHang HgQueueGet
  | QSentinel :: _ => CNormal
  | QRec rc :: r =>
      if level_ok E rc then match e_badrec E rc with Some x => CRaise x | None => listen_result E r end
      else listen_result E r
  end.

Fixpoint listen_handled (E : env) (q : list qitem) : list logrec :=
  match q with
  | QRec rc :: r =>
      if level_ok E rc then match e_badrec E rc with Some _ => [] | None => rc :: listen_handled E r end
      else listen_handled E r
  | _ => []
  end.

Fixpoint listen_rest (E : env) (q : list qitem) : list qitem :=
  match q with
  | [] => []
  | QWedged :: r => QWedged :: r
  | QSentinel :: r => r
  | QRec rc :: r =>
      if level_ok E rc then match e_badrec E rc with Some _ => r | None => listen_rest E r end
      else listen_rest E r
  end.

Lemma listen_fold_fields : forall E q s,
  let r := listen_fold E q s in
  fst r = listen_result E q /\ handled (snd r) = handled s ++ listen_handled E q /\ inq (snd r) = listen_rest E q /\
  selfa (snd r) = selfa s /\ putq (snd r) = putq s /\ trace (snd r) = trace s /\ listener (snd r) = listener s /\
  cms (snd r) = cms s /\ clock (snd r) = clock s /\ reads (snd r) = reads s /\ cur (snd r) = cur s /\
  task_frame (snd r) = task_frame s.
Proof.
  intros E q. induction q as [ | it r IH]; intros s; simpl.
  - rewrite app_nil_r. repeat split; reflexivity.
  - destruct it as [rc | | ]; simpl.
    + destruct (level_ok E rc).
      * destruct (e_badrec E rc); simpl.
        -- rewrite app_nil_r. repeat split; reflexivity.
        -- specialize (IH (add_handled rc (set_var "logger" (VLogger (Some (r_name rc))) (set_var "record" (VRecord rc) (set_inq r s))))).
           simpl in IH. rewrite <- app_assoc in IH. exact IH.
      * specialize (IH (set_var "logger" (VLogger (Some (r_name rc))) (set_var "record" (VRecord rc) (set_inq r s)))).
        exact IH.
    + rewrite app_nil_r. repeat split; reflexivity.
    + rewrite app_nil_r. repeat split; reflexivity.
Qed.

(** the listener coroutine in closed form *)
Lemma listen_real_spec : forall E s, has_queue s ->
  listen_real E s =
  let q := listener_queue E (putq s) in
  (listen_result E q,
   mkSt (vars s) (selfa s) (putq s) (listen_rest E q) (handled s ++ listen_handled E q) (trace s)
        (listener s) (cms s) (clock s) (reads s) (cur s) (task_frame s)).
Proof.
  intros E s Hq. unfold listen_real. cbv zeta. set (q := listener_queue E (putq s)). rewrite listen_shape.
  change (exec E cf0 (S (List.length q)) MRun (SWhile listen_cond listen_body) (set_inq q s))
    with (while_loop (eval E cf0 listen_cond) (exec E cf0 (S (List.length q)) MRun listen_body) (S (List.length q)) (set_inq q s)).
  assert (Hq' : has_queue (set_inq q s)) by (destruct s; exact Hq).
  rewrite (listen_loop E cf0 (S (List.length q)) q (set_inq q s) (S (List.length q)) Hq' (ltac:(destruct s; reflexivity)) (Nat.lt_succ_diag_r _)).
  pose proof (listen_fold_fields E q (set_inq q s)) as H. simpl in H.
  destruct (listen_fold E q (set_inq q s)) as [c s']. simpl in *.
  destruct H as (H1 & H2 & H3 & H4 & H5 & H6 & H7 & H8 & H9 & H10 & H11 & H12).
  destruct s'; destruct s; simpl in *. subst. reflexivity.
Qed.

(** ---- the closed form as a listener function, for evaluation: what the listener does depends on the
    state only through what the parent has put into the queue (nothing / the sentinel) *)
Record lout := mkLout { lo_c : completion; lo_rest : list qitem; lo_handled : list logrec }.

Definition lout_of (E : env) (pq : list qitem) : lout :=
  let q := listener_queue E pq in mkLout (listen_result E q) (listen_rest E q) (listen_handled E q).

Definition apply_lout (o : lout) (s : st) : completion * st :=
  (lo_c o,
   mkSt (vars s) (selfa s) (putq s) (lo_rest o) (handled s ++ lo_handled o) (trace s)
        (listener s) (cms s) (clock s) (reads s) (cur s) (task_frame s)).

Definition has_queue_b (s : st) : bool :=
  match lookup "queue" (vars s) with Some (VObj OQueue) => true | _ => false end.

Definition lis_k (E : env) (o0 o1 : lout) (s : st) : completion * st :=
  if has_queue_b s then
    match putq s with
    | [] => apply_lout o0 s
    | [QSentinel] => apply_lout o1 s
    | _ => listen_real E s
    end
  else listen_real E s.

Lemma lis_k_eq : forall E s, listen_real E s = lis_k E (lout_of E []) (lout_of E [QSentinel]) s.
Proof.
  intros E s. unfold lis_k. destruct (has_queue_b s) eqn:Hb; [ | reflexivity].
  assert (Hq : has_queue s).
  { unfold has_queue, has_queue_b in *. destruct (lookup "queue" (vars s)) as [[ | | | | | | | | | | | | | | | | [ | | | | | | | | | ] | | | | ] | ]; try discriminate. reflexivity. }
  destruct (putq s) as [ | [r | | ] [ | it rest]] eqn:Hp; try reflexivity;
    rewrite (listen_real_spec E s Hq); unfold apply_lout, lout_of; cbv zeta; simpl; rewrite ?Hp; reflexivity.
Qed.

(** the listener either ends, or raises what a handler of the parent raised, or waits for ever *)
Lemma listen_result_cases : forall E q,
  listen_result E q = CNormal \/ (exists x, listen_result E q = CRaise x) \/ listen_result E q = CHang HgQueueGet.
Proof.
  intros E q. induction q as [ | [rc | | ] r IH]; simpl; auto.
  destruct (level_ok E rc); [ | exact IH]. destruct (e_badrec E rc); [right; left; eauto | exact IH].
Qed.

(** over the records of the child *)
Fixpoint first_bad (E : env) (recs : list logrec) : option exn :=
  match recs with
  | [] => None
  | rc :: r => if level_ok E rc then match e_badrec E rc with Some x => Some x | None => first_bad E r end else first_bad E r
  end.

Fixpoint handled_of (E : env) (recs : list logrec) : list logrec :=
  match recs with
  | [] => []
  | rc :: r =>
      if level_ok E rc then match e_badrec E rc with Some _ => [] | None => rc :: handled_of E r end
      else handled_of E r
  end.

Lemma listen_result_app : forall E recs tail,
  listen_result E (map QRec recs ++ tail) =
  match first_bad E recs with Some x => CRaise x | None => listen_result E tail end.
Proof.
  intros E recs tail. induction recs as [ | rc r IH]; simpl; [reflexivity | ].
  destruct (level_ok E rc); [ | exact IH]. destruct (e_badrec E rc); [reflexivity | exact IH].
Qed.

Lemma listen_handled_app : forall E recs tail,
  listen_handled E (map QRec recs ++ tail) =
  handled_of E recs ++ match first_bad E recs with Some _ => [] | None => listen_handled E tail end.
Proof.
  intros E recs tail. induction recs as [ | rc r IH]; simpl; [reflexivity | ].
  destruct (level_ok E rc); [ | exact IH]. destruct (e_badrec E rc); [reflexivity | ]. simpl. rewrite IH. reflexivity.
Qed.

Definition no_bad_records (E : env) : Prop := forall r, e_badrec E r = None.

Lemma first_bad_none : forall E recs, no_bad_records E -> first_bad E recs = None.
Proof.
  intros E recs H. induction recs as [ | rc r IH]; simpl; [reflexivity | ]. rewrite (H rc). destruct (level_ok E rc); exact IH.
Qed.

Lemma handled_of_filter : forall E recs, no_bad_records E -> handled_of E recs = filter (level_ok E) recs.
Proof.
  intros E recs H. induction recs as [ | rc r IH]; simpl; [reflexivity | ]. rewrite (H rc).
  destruct (level_ok E rc); [rewrite IH; reflexivity | exact IH].
Qed.

(** the listener's outcome once the sentinel has been put *)
Lemma lout_sentinel : forall E,
  lo_c (lout_of E [QSentinel]) =
    match first_bad E (e_before E) with
    | Some x => CRaise x
    | None => if e_killed E then CHang HgQueueGet else CNormal
    end /\
  lo_handled (lout_of E [QSentinel]) = handled_of E (e_before E).
Proof.
  intros E. unfold lout_of, listener_queue. simpl. rewrite listen_result_app, listen_handled_app.
  destruct (first_bad E (e_before E)); [rewrite app_nil_r; auto | ].
  destruct (e_killed E); simpl; rewrite app_nil_r; auto.
Qed.

(** ... and when it has not *)
Lemma lout_no_sentinel : forall E, no_bad_records E ->
  lo_c (lout_of E []) = CHang HgQueueGet.
Proof.
  intros E H. unfold lout_of, listener_queue. simpl. rewrite listen_result_app, (first_bad_none E _ H).
  destruct (e_killed E); [reflexivity | ]. simpl.
  rewrite <- (app_nil_r (map QRec (e_after E))). rewrite listen_result_app, (first_bad_none E _ H). reflexivity.
Qed.

(** ================================================================== evaluation with the closed form *)
Definition obs4 (r : completion * st) : completion * list hev * list logrec * lstatus :=
  (fst r, trace (snd r), handled (snd r), listener (snd r)).

Lemma obs4_inv : forall r a t h l, obs4 r = (a, t, h, l) ->
  fst r = a /\ trace (snd r) = t /\ handled (snd r) = h /\ listener (snd r) = l.
Proof. intros r a t h l H. unfold obs4 in H. inversion H. auto. Qed.

Ltac split_exn x := destruct x as [k id | | | | | | | | | | ]; [destruct k | .. ].

Ltac closed_listener E :=
  unfold run, call;
  repeat first [ rewrite (run_with_ext E _ _ _ _ _ (lis_k_eq E))
               | rewrite (call_with_ext E _ _ _ _ _ _ (lis_k_eq E)) ].

(** ================================================================== (1) (2): a client of MultiprocessingLogging

    async with MultiprocessingLogging() as initializer:
        BODY                      # ends normally, or raises e_body (any class; CancelledError = cancellation)

    written with an exit stack holding that one context (the same enter / exit protocol). *)
Definition client_prog : hstmt :=
  SAsyncWithStack "stack"
    (SSeq (SAssign (TVar "initializer") (EAwait (ECall KEnterLogging [EVar "stack"; ENone]))) SClientBody).

Definition client_base : list hev :=
  [HQueueCreated; HPartial "_initializer"; HListenerStarted; HClientBody; HSentinelPut].

Definition client_spec (E : env) : completion * list hev * list logrec * lstatus :=
  let o := lout_of E [QSentinel] in
  match lo_c o with
  | CNormal => (match e_body E with None => CNormal | Some x => CRaise x end, client_base ++ [HListenerAwaited], lo_handled o, LDone)
  | CRaise x => (CRaise x, client_base ++ [HListenerAwaited], lo_handled o, LFailed x)
  | _ => (CHang HgListener, client_base, lo_handled o, LRunning)
  end.

Definition client_run (E : env) : completion * st := run E client_prog (st0 []).

Theorem client_exact : forall E, obs4 (client_run E) = client_spec E.
Proof.
  intros E. unfold client_run, client_spec.
  assert (Hc := listen_result_cases E (listener_queue E [QSentinel])).
  change (listen_result E (listener_queue E [QSentinel])) with (lo_c (lout_of E [QSentinel])) in Hc.
  closed_listener E.
  remember (lout_of E []) as o0 eqn:H0. remember (lout_of E [QSentinel]) as o1 eqn:H1. clear H0 H1.
  destruct o0 as [c0 q0 h0]. destruct o1 as [c1 q1 h1]. simpl in Hc.
  destruct E as [before after killed lvl bad body uinit ans fn dumps loads pid ec names ps tick].
  destruct body as [e | ]; [split_exn e | ]; destruct Hc as [Hc | [[x Hc] | Hc]]; subst c1; lazy; reflexivity.
Qed.

Definition count_started (l : list hev) : nat :=
  List.length (filter (fun h => match h with HListenerStarted => true | _ => false end) l).

Definition started_before_sentinel_before_await (l : list hev) : Prop :=
  exists rest, l = client_base ++ rest /\ (rest = [] \/ rest = [HListenerAwaited]).

(** (1a) the listener task is started exactly once, in every environment *)
Lemma listener_started_once : forall E, count_started (trace (snd (client_run E))) = 1%nat.
Proof.
  intros E. pose proof (client_exact E) as H. unfold client_spec in H.
  destruct (lo_c (lout_of E [QSentinel])); apply obs4_inv in H; destruct H as (Hc & Ht & Hh & Hl); rewrite Ht; reflexivity.
Qed.

(** (1b) on EVERY exit path of the block -- the body ends normally, raises any exception, is
    cancelled -- the sentinel is put, after the body and before the listener is awaited *)
Lemma sentinel_on_every_exit_path : forall E, started_before_sentinel_before_await (trace (snd (client_run E))).
Proof.
  intros E. pose proof (client_exact E) as H. unfold client_spec in H.
  destruct (lo_c (lout_of E [QSentinel])); apply obs4_inv in H; destruct H as (Hc & Ht & Hh & Hl); rewrite Ht;
    first [ exists [HListenerAwaited]; split; [reflexivity | auto] | exists []; split; [reflexivity | auto] ].
Qed.

(** (1c) ... and the listener is awaited to its end: whenever the block is left (normally or by an
    exception), no listener task is left running -- in EVERY environment *)
Lemma no_listener_left_when_block_exits : forall E,
  (forall h, fst (client_run E) <> CHang h) -> listener (snd (client_run E)) <> LRunning.
Proof.
  intros E Hn. pose proof (client_exact E) as H. unfold client_spec in H.
  destruct (lo_c (lout_of E [QSentinel])); apply obs4_inv in H; destruct H as (Hc & Ht & Hh & Hl); rewrite Hl; try discriminate;
    exfalso; apply (Hn HgListener); exact Hc.
Qed.

(** when does the block exit: unless the child died inside a queue write (known finding
    hang:log-listener-never-ends) the listener ends, and the block's own outcome is the body's
    unless a handler/filter of the parent's logger raised *)
Lemma client_outcome : forall E,
  fst (client_run E) =
  match first_bad E (e_before E) with
  | Some x => CRaise x
  | None => if e_killed E then CHang HgListener else match e_body E with None => CNormal | Some x => CRaise x end
  end.
Proof.
  intros E. pose proof (client_exact E) as H. pose proof (lout_sentinel E) as [L _]. unfold client_spec in H.
  rewrite L in H. destruct (first_bad E (e_before E)); [apply obs4_inv in H; destruct H as (Hc & Ht & Hh & Hl); rewrite Hc; reflexivity | ].
  destruct (e_killed E); apply obs4_inv in H; destruct H as (Hc & Ht & Hh & Hl); rewrite Hc; reflexivity.
Qed.

Lemma listener_awaited_on_every_exit_path : forall E,
  no_bad_records E -> e_killed E = false ->
  fst (client_run E) = match e_body E with None => CNormal | Some x => CRaise x end /\
  trace (snd (client_run E)) = client_base ++ [HListenerAwaited] /\
  listener (snd (client_run E)) = LDone.
Proof.
  intros E Hb Hk. pose proof (client_exact E) as H. pose proof (lout_sentinel E) as [L _]. unfold client_spec in H.
  rewrite L, (first_bad_none E _ Hb), Hk in H. apply obs4_inv in H; destruct H as (Hc & Ht & Hh & Hl). auto.
Qed.

(** the full statement "the block always exits" is refuted by the faithful interpretation, as in the model *)
Lemma block_exit_refuted_killed_mid_write :
  exists E, no_bad_records E /\ e_body E = None /\ fst (client_run E) = CHang HgListener /\ listener (snd (client_run E)) = LRunning.
Proof.
  exists (mkEnv [] [] true (fun _ => 0%Z) (fun _ => None) None None ANever (FRet 0) true true None None None PAlive (fun _ => 0%nat)).
  split; [intros r; reflexivity | ]. vm_compute. auto.
Qed.

(** (2) every record put before the sentinel is handled exactly once, in order (those the level
    test of the code lets through), whatever the body does; records put after the sentinel are not *)
Lemma handled_exact : forall E, handled (snd (client_run E)) = handled_of E (e_before E).
Proof.
  intros E. pose proof (client_exact E) as H. pose proof (lout_sentinel E) as [_ L]. unfold client_spec in H.
  rewrite L in H. destruct (lo_c (lout_of E [QSentinel])); apply obs4_inv in H; destruct H as (Hc & Ht & Hh & Hl); rewrite Hh; reflexivity.
Qed.

Lemma handled_in_order_exactly_once : forall E, no_bad_records E ->
  handled (snd (client_run E)) = filter (fun r => Z.leb (e_loglevel E (Some (r_name r))) (r_level r)) (e_before E).
Proof. intros E Hb. rewrite handled_exact. apply handled_of_filter. exact Hb. Qed.

(** ================================================================== run_in_process._run, regenerated *)
Definition ctxv (given : bool) : val := if given then VObj OContext else VNone.

(** the closure `_run` starts in: the arguments of run_in_process, then `process = None`, `event = Event()` *)
Definition run_frame (clog : bool) (ctx ini : val) : frame :=
  [("func", VUserFunc); ("mp_context", ctx); ("initializer", ini); ("collect_logging", VBool clog);
   ("process", VNone); ("event", VObj OEvent)].

(** the initializer handed to the executor: with log collection, `_call_all(logging_initializer, initializer)` *)
Definition init_value (clog : bool) (ini : val) : val :=
  if clog then VPartial "_call_all" [VPartial "_initializer" [VObj OQueue]; ini] else ini.

Definition run_pre (clog : bool) (ini : val) : list hev :=
  (if clog then [HQueueCreated; HPartial "_initializer"; HListenerStarted; HPartial "_call_all"] else [])
  ++ [HExecutorCreated (VInt 1) (init_value clog ini); HPartial "_call"; HSubmitted (VPartial "_call" [VUserFunc]);
      HProcessKnown; HEventSet; HFutureAwaited].

(** the future answers with a pair (what `_call` returns), raises, or never completes *)
Definition wf_answer (a : answer) : Prop :=
  match a with AResult (VTuple [_; _]) => True | AResult _ => False | _ => True end.

Definition run_outcome (a : answer) : option (val * val) :=
  match a with
  | ANever => None
  | AResult (VTuple [u; w]) => Some (u, w)
  | AResult _ => Some (VNone, VExn XType)
  | ARaises XBrokenPool => Some (VNone, VNone)
  | ARaises x => Some (VNone, VExn x)
  end.

Definition run_spec (E : env) (clog : bool) (ini : val) : completion * list hev * list logrec * lstatus :=
  match run_outcome (e_answer E) with
  | None => (CHang HgFuture, run_pre clog ini, [], if clog then LRunning else LNotStarted)
  | Some (u, w) =>
      if clog then
        let o := lout_of E [QSentinel] in
        match lo_c o with
        | CNormal => (CReturn (VTuple [u; w]), run_pre clog ini ++ [HShutdown; HSentinelPut; HListenerAwaited], lo_handled o, LDone)
        | CRaise x => (CRaise x, run_pre clog ini ++ [HShutdown; HSentinelPut; HListenerAwaited], lo_handled o, LFailed x)
        | _ => (CHang HgListener, run_pre clog ini ++ [HShutdown; HSentinelPut], lo_handled o, LRunning)
        end
      else (CReturn (VTuple [u; w]), run_pre clog ini ++ [HShutdown], [], LNotStarted)
  end.

Definition run_run (E : env) (clog given_ctx : bool) (ini : val) : completion * st :=
  run E run_prog (st0 (run_frame clog (ctxv given_ctx) ini)).

Ltac split_env E :=
  destruct E as [before after killed lvl bad body uinit ans fn dumps loads pid ec names ps tick].

Theorem run_exact : forall E clog given_ctx ini, wf_answer (e_answer E) ->
  obs4 (run_run E clog given_ctx ini) = run_spec E clog ini.
Proof.
  intros E clog gctx ini Hwf. unfold run_run, run_spec.
  assert (Hc := listen_result_cases E (listener_queue E [QSentinel])).
  change (listen_result E (listener_queue E [QSentinel])) with (lo_c (lout_of E [QSentinel])) in Hc.
  closed_listener E.
  remember (lout_of E []) as o0 eqn:H0. remember (lout_of E [QSentinel]) as o1 eqn:H1. clear H0 H1.
  destruct o0 as [c0 q0 h0]. destruct o1 as [c1 q1 h1]. simpl in Hc.
  split_env E. simpl in Hwf.
  destruct ans as [ | v | x].
  - destruct clog; destruct gctx; vm_compute; reflexivity.
  - destruct v as [ | | | | | | | | | | | l | | | | | | | | | ]; try contradiction.
    destruct l as [ | u [ | w [ | z l]]]; try contradiction.
    destruct clog; destruct gctx;
      try (destruct Hc as [Hc | [[x Hc] | Hc]]; subst c1); vm_compute; reflexivity.
  - split_exn x; destruct clog; destruct gctx;
      try (destruct Hc as [Hc | [[x Hc] | Hc]]; subst c1); vm_compute; reflexivity.
Qed.

(** ---- what the regenerated `_run` guarantees, read off [run_exact] *)

(** the executor is constructed with max_workers=1 and, with log collection, an initializer that
    installs the QueueHandler BEFORE the user's initializer runs; without, the user's own *)
Lemma executor_construction : forall E clog given_ctx ini, wf_answer (e_answer E) ->
  In (HExecutorCreated (VInt 1) (init_value clog ini)) (trace (snd (run_run E clog given_ctx ini))).
Proof.
  intros E clog g ini Hwf. pose proof (run_exact E clog g ini Hwf) as H. unfold run_spec in H.
  assert (Hin : forall rest, In (HExecutorCreated (VInt 1) (init_value clog ini)) (run_pre clog ini ++ rest)).
  { intros rest. unfold run_pre. destruct clog; simpl; auto 10. }
  destruct (run_outcome (e_answer E)) as [[u w] | ].
  - destruct clog.
    + cbv zeta in H. destruct (lo_c (lout_of E [QSentinel])); apply obs4_inv in H; destruct H as (_ & Ht & _); rewrite Ht; apply Hin.
    + apply obs4_inv in H; destruct H as (_ & Ht & _); rewrite Ht; apply Hin.
  - apply obs4_inv in H; destruct H as (_ & Ht & _); rewrite Ht. rewrite <- (app_nil_r (run_pre clog ini)). apply Hin.
Qed.

(** ================================================================== (6) the model's skeleton interpreter
    Proc/Model.v runs the skeleton of `_run` with the context manager represented as "listener
    started / sentinel / listener awaited" around it; here the SAME observations come out of the
    regenerated `_run` with the regenerated MultiprocessingLogging entered on its exit stack and the
    regenerated `_listen` run when its task is awaited. *)
Definition inj_exn (e : Model.exn) : exn :=
  match e with
  | Model.EBrokenPool => XBrokenPool
  | Model.EWorker k => XUser KdException k
  | Model.EPickle => XPickle
  | Model.ESysExit n => XUser KdSysExit n
  | Model.EKeyboardInt => XUser KdKeyboardInt 0
  end.

Definition proj_exn (x : exn) : Model.exn :=
  match x with
  | XBrokenPool => Model.EBrokenPool
  | XPickle => Model.EPickle
  | XUser KdSysExit n => Model.ESysExit n
  | XUser KdKeyboardInt _ => Model.EKeyboardInt
  | XUser _ k => Model.EWorker k
  | _ => Model.EWorker 0
  end.

Definition inj_answer (a : Model.answer) : answer :=
  match a with
  | Model.AValue v => AResult (VTuple [VInt v; VNone])
  | Model.AData e => AResult (VTuple [VNone; VExn (inj_exn e)])
  | Model.ARaise e => ARaises (inj_exn e)
  end.

(** an environment of the interpreter that realises a world of the model: the model's answer of the
    future, the model's "died inside a log write"; everything else (the child's records, the levels
    of the parent's loggers, the clock, pids ...) is arbitrary, except that no logging handler raises *)
Definition realises (E : env) (w : Model.world) : Prop :=
  e_answer E = inj_answer (Model.ans w) /\ e_killed E = Model.died_in_log_write w /\ no_bad_records E.

Definition proj_ev (h : hev) : list Model.ev :=
  match h with
  | HListenerStarted => [Model.VListenerStarted]
  | HPartial t => if String.eqb t "_call_all" then [Model.VInitializerWrapped] else []
  | HExecutorCreated _ _ => [Model.VExecutorCreated]
  | HSubmitted _ => [Model.VSubmitted]
  | HProcessKnown => [Model.VProcessKnown]
  | HEventSet => [Model.VEventSet]
  | HFutureAwaited => [Model.VFutureAwaited]
  | HShutdown => [Model.VExecutorShutdown]
  | HSentinelPut => [Model.VListenerSentinel]
  | HListenerAwaited => [Model.VListenerAwaited]
  | _ => []
  end.

Definition proj_val_z (v : val) : option Z := match v with VInt z => Some z | _ => None end.
Definition proj_val_exn (v : val) : option Model.exn := match v with VExn x => Some (proj_exn x) | _ => None end.

Definition proj_result (c : completion) : Model.task_result :=
  match c with
  | CReturn (VTuple [u; w]) => Model.TDone (proj_val_z u) (proj_val_exn w)
  | CRaise x => Model.TRaised (proj_exn x)
  | CHang HgListener => Model.THang Model.HListener
  | _ => Model.TNoReturn
  end.

Theorem run_simulates_model : forall E w given_ctx ini, realises E w ->
  let r := run_run E (Model.collect_logging w) given_ctx ini in
  flat_map proj_ev (trace (snd r)) = Model.run_trace w /\ proj_result (fst r) = Model.run_task w.
Proof.
  intros E w g ini (Ha & Hk & Hb). cbv zeta.
  assert (Hwf : wf_answer (e_answer E)) by (rewrite Ha; destruct (Model.ans w); exact I).
  pose proof (run_exact E (Model.collect_logging w) g ini Hwf) as H. unfold run_spec in H.
  pose proof (lout_sentinel E) as [L _]. rewrite (first_bad_none E _ Hb), Hk in L.
  rewrite Ha in H. rewrite Proofs.run_trace_exact, Proofs.run_task_exact. unfold Proofs.stuck.
  destruct w as [clog a dw]. simpl in *.
  destruct clog; cbv zeta in H; rewrite ?L in H;
    destruct a as [v | e | e]; try destruct e; destruct dw; simpl in H;
    apply obs4_inv in H; destruct H as (Hc & Ht & _); rewrite Hc, Ht; split; reflexivity.
Qed.

(** ================================================================== run_in_process (outer part) and RunningProcess *)
Definition outer_args (clog : bool) (ctx ini : val) : frame :=
  [("func", VUserFunc); ("mp_context", ctx); ("initializer", ini); ("collect_logging", VBool clog)].

Definition start (E : env) (clog given_ctx : bool) (ini : val) : completion * st :=
  run E outer_prog (st0 (outer_args clog (ctxv given_ctx) ini)).

Definition handle_attrs (t0 : nat) : frame :=
  [("process", VObj OProcess); ("_task", VTask "_run"); ("process_created_at", VTime t0); ("_process_created_at_fmt", VStr true)].

(** run_in_process returns a handle in every environment: `_run` assigns `process` and sets the event
    before its first real wait; the task's closure is the one [run_exact] starts from; the creation
    time is the first reading of the clock *)
Theorem start_exact : forall E clog given_ctx ini,
  let r := start E clog given_ctx ini in
  fst r = CReturn (VHandle (handle_attrs (e_tick E 0))) /\
  trace (snd r) = [HRunTaskCreated] /\ task_frame (snd r) = run_frame clog (ctxv given_ctx) ini /\
  clock (snd r) = e_tick E 0 /\ reads (snd r) = 1%nat /\ selfa (snd r) = [] /\ cms (snd r) = [] /\
  listener (snd r) = LNotStarted /\ putq (snd r) = [] /\ handled (snd r) = [].
Proof.
  intros E clog g ini. cbv zeta. unfold start. closed_listener E.
  remember (lout_of E []) as o0 eqn:H0. remember (lout_of E [QSentinel]) as o1 eqn:H1. clear H0 H1.
  split_env E. destruct clog; destruct g; lazy; repeat split; reflexivity.
Qed.

(** ---- default argument values (regenerated: [outer_defaults], [logging_defaults]): the frame of a call
    that omits them is computed by evaluating the regenerated default expressions *)
Fixpoint default_of (p : string) (ds : list (string * hexp)) : option hexp :=
  match ds with [] => None | (q, e) :: r => if String.eqb p q then Some e else default_of p r end.

Fixpoint call_frame (E : env) (ps : list string) (ds : list (string * hexp)) (given : frame) : option frame :=
  match ps with
  | [] => Some []
  | p :: r =>
      let v := match lookup p given with
               | Some v => Some v
               | None => match default_of p ds with
                         | Some e => match eval E cf0 e (st0 []) with (RV v, _) => Some v | _ => None end
                         | None => None
                         end
               end in
      match v, call_frame E r ds given with
      | Some v, Some f => Some ((p, v) :: f)
      | _, _ => None
      end
  end.

(** `run_in_process(func)`: no context given, no initializer, NO log collection; `MultiprocessingLogging()`:
    no context given (it then takes mp.get_context()) *)
Theorem default_call_frames : forall E,
  call_frame E outer_params outer_defaults [("func", VUserFunc)] = Some (outer_args false VNone VNone) /\
  call_frame E logging_params logging_defaults [] = Some [("mp_context", VNone)].
Proof. intros E. split; reflexivity. Qed.

Lemma start_with_defaults : forall E f, call_frame E outer_params outer_defaults [("func", VUserFunc)] = Some f ->
  fst (run E outer_prog (st0 f)) = CReturn (VHandle (handle_attrs (e_tick E 0))) /\
  task_frame (snd (run E outer_prog (st0 f))) = run_frame false VNone VNone.
Proof.
  intros E f H. destruct (default_call_frames E) as [H1 _]. rewrite H1 in H. inversion H; subst f.
  pose proof (start_exact E false false VNone) as S. cbv zeta in S. unfold start, ctxv in S.
  destruct S as (S1 & _ & S3 & _). auto.
Qed.

(** awaiting the handle: RunningProcess.__await__ on the handle that run_in_process returned *)
Definition await_handle_with (E : env) (lis : st -> completion * st) (clog given_ctx : bool) (ini : val) : completion * st :=
  match run_with E lis FUEL outer_prog (st0 (outer_args clog (ctxv given_ctx) ini)) with
  | (CReturn (VHandle a), s1) => call_with E lis FUEL "__await__" [] (set_selfa a s1)
  | r => r
  end.

Definition await_handle (E : env) (clog given_ctx : bool) (ini : val) : completion * st :=
  await_handle_with E (listen_real E) clog given_ctx ini.

Lemma await_handle_ext : forall E l1 l2 clog g ini, (forall s, l1 s = l2 s) ->
  await_handle_with E l1 clog g ini = await_handle_with E l2 clog g ini.
Proof.
  intros E l1 l2 clog g ini H. unfold await_handle_with. rewrite (run_with_ext E l1 l2 _ _ _ H).
  destruct (run_with E l2 FUEL outer_prog _) as [c s1].
  destruct c as [ | | | v | e | h | v | why]; [reflexivity | reflexivity | reflexivity | | reflexivity | reflexivity | reflexivity | reflexivity].
  destruct v as [ | | | | | | | | | | | | | | | | | | | | a]; [reflexivity .. | ].
  apply call_with_ext. exact H.
Qed.

Definition exited_value (E : env) (u w : val) : val :=
  VExited [("returned", u); ("raised", w); ("process", VObj OProcess);
           ("process_created_at", VTime (e_tick E 0)); ("process_exited_at", VTime (e_tick E 0 + e_tick E 1))].

Definition await_spec (E : env) (clog : bool) : completion :=
  match run_outcome (e_answer E) with
  | None => CHang HgFuture
  | Some (u, w) =>
      if clog then
        match lo_c (lout_of E [QSentinel]) with
        | CNormal => CReturn (exited_value E u w)
        | CRaise x => CRaise x
        | _ => CHang HgListener
        end
      else CReturn (exited_value E u w)
  end.

(** (4) for EVERY exit code (None, 0, negative with or without a signal name, POSITIVE), every pid,
    every table _exitcode_to_name: __await__ yields the task's outcome with both times, or does what
    the task does (raises only what a raising logging handler of the parent raised; hangs only with it) *)
Theorem await_exact : forall E clog given_ctx ini, wf_answer (e_answer E) ->
  fst (await_handle E clog given_ctx ini) = await_spec E clog.
Proof.
  intros E clog g ini Hwf. unfold await_handle, await_spec.
  assert (Hc := listen_result_cases E (listener_queue E [QSentinel])).
  change (listen_result E (listener_queue E [QSentinel])) with (lo_c (lout_of E [QSentinel])) in Hc.
  rewrite (await_handle_ext E _ _ clog g ini (lis_k_eq E)). unfold await_handle_with.
  remember (lout_of E []) as o0 eqn:H0. remember (lout_of E [QSentinel]) as o1 eqn:H1. clear H0 H1.
  destruct o0 as [c0 q0 h0]. destruct o1 as [c1 q1 h1]. simpl in Hc.
  split_env E. simpl in Hwf.
  destruct names as [[ | ] | ];
  (destruct ec as [[ | p | p] | ];
   (destruct ans as [ | v | x];
    [ destruct clog; destruct g; vm_compute; reflexivity
    | destruct v as [ | | | | | | | | | | | l | | | | | | | | | ]; try contradiction;
      destruct l as [ | u [ | w [ | z l]]]; try contradiction;
      destruct clog; destruct g; try (destruct Hc as [Hc | [[x Hc] | Hc]]; subst c1); vm_compute; reflexivity
    | split_exn x; destruct clog; destruct g; try (destruct Hc as [Hc | [[x Hc] | Hc]]; subst c1); vm_compute; reflexivity ])).
Qed.

(** the consequences C17 states: awaiting never raises -- for no exit code, no pid, no content of the
    name table -- as long as no logging handler of the parent raises ... *)
Lemma await_never_raises : forall E clog given_ctx ini, wf_answer (e_answer E) -> no_bad_records E ->
  forall x, fst (await_handle E clog given_ctx ini) <> CRaise x.
Proof.
  intros E clog g ini Hwf Hb x. rewrite (await_exact E clog g ini Hwf). unfold await_spec.
  pose proof (lout_sentinel E) as [L _]. rewrite (first_bad_none E _ Hb) in L. rewrite L.
  destruct (run_outcome (e_answer E)) as [[u w] | ]; [ | discriminate].
  destruct clog; [destruct (e_killed E) | ]; discriminate.
Qed.

(** ... it yields exactly the task's outcome with the creation time not after the exit time ... *)
Lemma await_yields_times_ordered : forall E clog given_ctx ini v,
  wf_answer (e_answer E) -> fst (await_handle E clog given_ctx ini) = CReturn v ->
  exists u w t0 t1, v = VExited [("returned", u); ("raised", w); ("process", VObj OProcess);
                                 ("process_created_at", VTime t0); ("process_exited_at", VTime t1)] /\
                    run_outcome (e_answer E) = Some (u, w) /\ (t0 <= t1)%nat.
Proof.
  intros E clog g ini v Hwf H. rewrite (await_exact E clog g ini Hwf) in H. unfold await_spec in H.
  destruct (run_outcome (e_answer E)) as [[u w] | ]; [ | discriminate].
  assert (Hv : CReturn (exited_value E u w) = CReturn v -> exists u0 w0 t0 t1,
            v = VExited [("returned", u0); ("raised", w0); ("process", VObj OProcess);
                         ("process_created_at", VTime t0); ("process_exited_at", VTime t1)] /\
            Some (u, w) = Some (u0, w0) /\ (t0 <= t1)%nat).
  { intros Hx. inversion Hx. exists u, w, (e_tick E 0), (e_tick E 0 + e_tick E 1)%nat.
    repeat split. apply Nat.le_add_r. }
  destruct clog; [ | exact (Hv H)].
  destruct (lo_c (lout_of E [QSentinel])); try discriminate. exact (Hv H).
Qed.

(** ... and raising is REFUTED in general: a logging filter of the parent that raises for a record of the
    child ends the listener task with that exception; `await task` in the context manager's `finally`
    re-raises it out of `_run`, and awaiting the handle raises *)
Lemma await_raises_refuted_raising_log_filter :
  exists E, wf_answer (e_answer E) /\ e_answer E = AResult (VTuple [VInt 7; VNone]) /\
            fst (await_handle E true false VNone) = CRaise (XUser KdException 1).
Proof.
  exists (mkEnv [mkRec 0 20 0] [] false (fun _ => 0%Z) (fun _ => Some (XUser KdException 1)) None None
                (AResult (VTuple [VInt 7; VNone])) (FRet 7) true true (Some 5%Z) (Some 0%Z) None PReaped (fun _ => 1%nat)).
  split; [exact I | ]. split; [reflexivity | ]. vm_compute. reflexivity.
Qed.

(** ================================================================== (3) `_call`, in the worker *)
Definition call_run (E : env) : completion * st := call E "_call" [VUserFunc] (st0 []).

(** exactly one of (value, None) / (None, the exception wrapped with its traceback) is RETURNED; the
    one case in which `_call` raises is the one commit 957cca5 describes: the wrapped exception does not
    survive the pickle round trip made in the worker, and the pickling error is raised instead -- it
    reaches the parent through the future like any error of the transport *)
Theorem call_exact : forall E,
  fst (call_run E) =
  match e_func E with
  | FRet v => CReturn (VTuple [VInt v; VNone])
  | FExn x => if e_dumps E && e_loads E then CReturn (VTuple [VNone; VWrapped x]) else CRaise XPickle
  end.
Proof.
  intros E. unfold call_run. closed_listener E.
  remember (lout_of E []) as o0 eqn:H0. remember (lout_of E [QSentinel]) as o1 eqn:H1. clear H0 H1.
  split_env E. destruct fn as [v | x]; [ | split_exn x; destruct dumps; destruct loads]; lazy; reflexivity.
Qed.

(** the function is called exactly once *)
Lemma call_calls_once : forall E, trace (snd (call_run E)) = [HFuncCalled].
Proof.
  intros E. unfold call_run. closed_listener E.
  remember (lout_of E []) as o0 eqn:H0. remember (lout_of E [QSentinel]) as o1 eqn:H1. clear H0 H1.
  split_env E. destruct fn as [v | x]; [ | split_exn x; destruct dumps; destruct loads]; lazy; reflexivity.
Qed.

Lemma call_never_raises_when_picklable : forall E, e_dumps E = true -> e_loads E = true ->
  forall x, fst (call_run E) <> CRaise x.
Proof. intros E Hd Hl x. rewrite call_exact, Hd, Hl. destruct (e_func E); discriminate. Qed.

Lemma call_raises_only_pickling_error : forall E x, fst (call_run E) = CRaise x ->
  x = XPickle /\ exists y, e_func E = FExn y /\ (e_dumps E = false \/ e_loads E = false).
Proof.
  intros E x H. rewrite call_exact in H. destruct (e_func E) as [v | y]; [discriminate | ].
  destruct (e_dumps E) eqn:Hd; destruct (e_loads E) eqn:Hl; simpl in H; try discriminate; inversion H; eauto.
Qed.

(** what the executor's future then answers in the parent: the result unpickled (the wrapper rebuilds the
    exception, with the remote traceback as its cause), or the error of the transport *)
Definition transport (c : completion) : answer :=
  match c with
  | CReturn (VTuple [u; VWrapped x]) => AResult (VTuple [u; VExn x])
  | CReturn v => AResult v
  | CRaise x => ARaises x
  | _ => ANever
  end.

(** end to end: with that answer `_run` returns (value, None), (None, the exception the function
    raised -- of any class, data in the result), or (None, the pickling error) *)
Lemma call_then_run_outcome : forall E,
  run_outcome (transport (fst (call_run E))) =
  Some match e_func E with
       | FRet v => (VInt v, VNone)
       | FExn x => if e_dumps E && e_loads E then (VNone, VExn x) else (VNone, VExn XPickle)
       end.
Proof.
  intros E. rewrite call_exact. destruct (e_func E) as [v | x]; [reflexivity | ].
  destruct (e_dumps E && e_loads E); reflexivity.
Qed.

Lemma call_answer_wf : forall E, wf_answer (transport (fst (call_run E))).
Proof.
  intros E. rewrite call_exact. destruct (e_func E) as [v | x]; [exact I | ].
  destruct (e_dumps E && e_loads E); exact I.
Qed.

(** ================================================================== (5) interrupt / send_signal / terminate / kill *)
Definition handle_state : st := set_selfa (handle_attrs 0) (st0 []).

Definition sig_call (E : env) (m : string) (args : list val) : completion * list hev :=
  let r := call E m args handle_state in (fst r, trace (snd r)).

Ltac eval_env E :=
  closed_listener E;
  remember (lout_of E []) as o0 eqn:H0; remember (lout_of E [QSentinel]) as o1 eqn:H1; clear H0 H1;
  split_env E.

(** a started process (its pid is a positive number): what each request does in each state of the
    process.  Alive or exited-but-not-yet-waited-for: the signal is sent, nothing raises.  Reaped:
    terminate()/kill() send nothing and return; interrupt()/send_signal() use a bare os.kill on
    the stale pid and raise ProcessLookupError (after exit: outside the property). *)
Theorem signal_table_started : forall E q sg, e_pid E = Some (Zpos q) -> e_pstate E <> PNotCreated ->
  sig_call E "interrupt" [] =
    match e_pstate E with PReaped => (CRaise XProcessLookup, []) | _ => (CReturn VNone, [HOsKill (VInt 2)]) end /\
  sig_call E "send_signal" [VInt sg] =
    match e_pstate E with PReaped => (CRaise XProcessLookup, []) | _ => (CReturn VNone, [HOsKill (VInt sg)]) end /\
  sig_call E "terminate" [] =
    match e_pstate E with PReaped => (CReturn VNone, []) | _ => (CReturn VNone, [HTerminate]) end /\
  sig_call E "kill" [] =
    match e_pstate E with PReaped => (CReturn VNone, []) | _ => (CReturn VNone, [HKill]) end.
Proof.
  intros E q sg Hp Hs. unfold sig_call. cbv zeta. eval_env E. simpl in Hp, Hs. subst pid.
  destruct ps; try (exfalso; apply Hs; reflexivity); lazy; repeat split; reflexivity.
Qed.

(** a Process object that was never started (pid None; cannot come out of run_in_process, which
    takes the process from the executor after it was started): interrupt()/send_signal() test the
    pid and do nothing; terminate()/kill() fail inside multiprocessing (self._popen is None) *)
Theorem signal_table_not_created : forall E sg, e_pid E = None -> e_pstate E = PNotCreated ->
  sig_call E "interrupt" [] = (CReturn VNone, []) /\
  sig_call E "send_signal" [VInt sg] = (CReturn VNone, []) /\
  sig_call E "terminate" [] = (CRaise XAttribute, []) /\
  sig_call E "kill" [] = (CRaise XAttribute, []).
Proof.
  intros E sg Hp Hs. unfold sig_call. cbv zeta. eval_env E. simpl in Hp, Hs. subst pid ps.
  lazy; repeat split; reflexivity.
Qed.

(** before exit no request raises *)
Lemma signals_never_raise_before_exit : forall E q sg m args x,
  e_pid E = Some (Zpos q) -> (e_pstate E = PAlive \/ e_pstate E = PZombie) ->
  In (m, args) [("interrupt", []); ("send_signal", [VInt sg]); ("terminate", []); ("kill", [])] ->
  fst (sig_call E m args) <> CRaise x.
Proof.
  intros E q sg m args x Hp Hs Hin.
  assert (Hn : e_pstate E <> PNotCreated) by (destruct Hs as [Hs | Hs]; rewrite Hs; discriminate).
  destruct (signal_table_started E q sg Hp Hn) as (H1 & H2 & H3 & H4).
  simpl in Hin. destruct Hin as [Hi | [Hi | [Hi | [Hi | []]]]]; inversion Hi; subst;
    rewrite ?H1, ?H2, ?H3, ?H4; destruct Hs as [Hs | Hs]; rewrite Hs; discriminate.
Qed.

(** "never raise in every state" is refuted twice (both outside the property) *)
Lemma signals_refuted_after_reaping :
  exists E, e_pid E = Some 4242%Z /\ e_pstate E = PReaped /\ fst (sig_call E "interrupt" []) = CRaise XProcessLookup.
Proof.
  exists (mkEnv [] [] false (fun _ => 0%Z) (fun _ => None) None None ANever (FRet 0) true true (Some 4242%Z) (Some 0%Z) None PReaped (fun _ => 0%nat)).
  repeat split; vm_compute; reflexivity.
Qed.

(** the model's table (Proc/Model.v [call]) is what the regenerated methods do *)
Definition inj_pstate (p : Model.pstate) : pstate :=
  match p with Model.PBoot | Model.PRun => PAlive | Model.PZombie => PZombie | Model.PReaped => PReaped end.

Definition sig_of_num (v : val) : option Model.sigk :=
  match v with
  | VInt 2 => Some Model.SInt | VInt 15 => Some Model.STerm | VInt 9 => Some Model.SKill
  | _ => None
  end.

Definition mres_of (r : completion * list hev) : option Model.mres :=
  match r with
  | (CReturn _, [HOsKill v]) => option_map Model.MDelivered (sig_of_num v)
  | (CReturn _, [HTerminate]) => Some (Model.MDelivered Model.STerm)
  | (CReturn _, [HKill]) => Some (Model.MDelivered Model.SKill)
  | (CReturn _, []) => Some Model.MNoop
  | (CRaise XProcessLookup, []) => Some Model.MRaisesLookup
  | _ => None
  end.

Definition method_call (m : Model.method) : string * list val :=
  match m with
  | Model.MInterrupt => ("interrupt", [])
  | Model.MTerminate => ("terminate", [])
  | Model.MKill => ("kill", [])
  | Model.MSendSignal s => ("send_signal", [VInt (Model.signum s)])
  end.

Theorem signals_agree_with_model : forall E q m p, e_pid E = Some (Zpos q) -> e_pstate E = inj_pstate p ->
  mres_of (sig_call E (fst (method_call m)) (snd (method_call m))) = Some (Model.call m p).
Proof.
  intros E q m p Hp Hs.
  assert (Hn : e_pstate E <> PNotCreated) by (rewrite Hs; destruct p; discriminate).
  destruct m as [ | | | s].
  - destruct (signal_table_started E q 0%Z Hp Hn) as (H1 & _). unfold method_call; cbn [fst snd]. rewrite H1, Hs. destruct p; reflexivity.
  - destruct (signal_table_started E q 0%Z Hp Hn) as (_ & _ & H3 & _). unfold method_call; cbn [fst snd]. rewrite H3, Hs. destruct p; reflexivity.
  - destruct (signal_table_started E q 0%Z Hp Hn) as (_ & _ & _ & H4). unfold method_call; cbn [fst snd]. rewrite H4, Hs. destruct p; reflexivity.
  - destruct (signal_table_started E q (Model.signum s) Hp Hn) as (_ & H2 & _). unfold method_call; cbn [fst snd]. rewrite H2, Hs.
    destruct p; destruct s; reflexivity.
Qed.

(** ================================================================== the initializer handed to the child *)
(** concurrent.futures.process._process_worker: `if initializer is not None: initializer( *initargs )` *)
Definition worker_init_prog : hstmt :=
  SIf (EIsNot (EVar "initializer") ENone) (SExpr (ECall (KCallVar "initializer") [])) SSkip.

Definition worker_init (E : env) (v : val) : completion * list hev :=
  let r := run E worker_init_prog (st0 [("initializer", v)]) in (fst r, trace (snd r)).

Definition user_init_outcome (E : env) : completion := match e_userinit E with None => CNormal | Some x => CRaise x end.

(** with log collection the child installs the QueueHandler (root logger, level DEBUG) FIRST and then
    runs the user's initializer, if there is one: the handler is installed also when the user's
    initializer raises, and records the user's initializer logs are collected *)
Theorem initializer_chain : forall E,
  worker_init E (init_value true VUserInit) = (user_init_outcome E, [HSetLevel (VInt 10); HHandlerInstalled; HUserInit]) /\
  worker_init E (init_value true VNone) = (CNormal, [HSetLevel (VInt 10); HHandlerInstalled]) /\
  worker_init E (init_value false VUserInit) = (user_init_outcome E, [HUserInit]) /\
  worker_init E (init_value false VNone) = (CNormal, []).
Proof.
  intros E. unfold worker_init, user_init_outcome. cbv zeta. eval_env E.
  destruct uinit; lazy; repeat split; reflexivity.
Qed.
