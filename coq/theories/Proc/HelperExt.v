(** The interpreter of Proc/HelperInterp.v depends on the functions it is given (how other
    programs are called; how the listener coroutine runs) only through their VALUES: two towers
    built from pointwise-equal listener functions compute the same results.  This is what allows
    Proc/HelperTie.v to replace the interpretation of `_listen` by its closed form (proved equal
    at every state) before evaluating a program.  No functional extensionality is used. *)
From Coq Require Import List ZArith Bool String Arith.
From NL Require Import Proc.HelperSyntax Gen.ProcHelpers Proc.HelperInterp.
Import ListNotations.

Definition cf_eq (c1 c2 : string -> list val -> st -> completion * st) : Prop :=
  forall name args s, c1 name args s = c2 name args s.

Section Ext.
Variable E : env.
Variables c1 c2 : string -> list val -> st -> completion * st.
Hypothesis H : cf_eq c1 c2.

Lemma finish_ext : forall q, finish c1 q = finish c2 q.
Proof.
  intros [r | name args s p]; simpl; [reflexivity | ].
  destruct p; rewrite (H name args s); reflexivity.
Qed.

Lemma do_call_ext : forall f a s, do_call E c1 f a s = do_call E c2 f a s.
Proof. intros. unfold do_call. apply finish_ext. Qed.

Lemma do_await_ext : forall v s, do_await E c1 v s = do_await E c2 v s.
Proof. intros. unfold do_await. apply finish_ext. Qed.

Lemma eval_ext : forall e s, eval E c1 e s = eval E c2 e s.
Proof.
  fix IH 1. intros e s. destruct e; simpl; try reflexivity.
  - (* EAttr *) rewrite (IH e s). reflexivity.
  - (* EAnd *) rewrite (IH e1 s). destruct (eval E c2 e1 s) as [[v | c] s1]; [ | reflexivity].
    destruct (truthy v); [apply IH | reflexivity].
  - (* EOr *) rewrite (IH e1 s). destruct (eval E c2 e1 s) as [[v | c] s1]; [ | reflexivity].
    destruct (truthy v); [reflexivity | apply IH].
  - (* ENot *) rewrite (IH e s). reflexivity.
  - (* EWalrus *) rewrite (IH e s). reflexivity.
  - (* EIs *) rewrite (IH e1 s). destruct (eval E c2 e1 s) as [[v | c] s1]; [ | reflexivity].
    rewrite (IH e2 s1). reflexivity.
  - (* EIsNot *) rewrite (IH e1 s). destruct (eval E c2 e1 s) as [[v | c] s1]; [ | reflexivity].
    rewrite (IH e2 s1). reflexivity.
  - (* ECmp *) rewrite (IH e1 s). destruct (eval E c2 e1 s) as [[v | c0] s1]; [ | reflexivity].
    rewrite (IH e2 s1). reflexivity.
  - (* EGet *) rewrite (IH e1 s). destruct (eval E c2 e1 s) as [[v | c] s1]; [ | reflexivity].
    rewrite (IH e2 s1). reflexivity.
  - (* EIndex *) rewrite (IH e1 s). destruct (eval E c2 e1 s) as [[v | c] s1]; [ | reflexivity].
    rewrite (IH e2 s1). reflexivity.
  - (* ETuple *)
    match goal with |- match ?a with _ => _ end = match ?b with _ => _ end => assert (HL : a = b) end.
    { revert s. induction l as [ | x r IHr]; intros s; [reflexivity | ].
      rewrite (IH x s). destruct (eval E c2 x s) as [[v | c] s1]; [ | reflexivity]. rewrite (IHr s1). reflexivity. }
    rewrite HL. reflexivity.
  - (* EFmt *)
    match goal with |- match ?a with _ => _ end = match ?b with _ => _ end => assert (HL : a = b) end.
    { revert s. induction l as [ | x r IHr]; intros s; [reflexivity | ].
      rewrite (IH x s). destruct (eval E c2 x s) as [[v | c] s1]; [ | reflexivity]. rewrite (IHr s1). reflexivity. }
    rewrite HL. reflexivity.
  - (* ECall *)
    match goal with |- match ?a with _ => _ end = match ?b with _ => _ end => assert (HL : a = b) end.
    { revert s. induction args as [ | x r IHr]; intros s; [reflexivity | ].
      rewrite (IH x s). destruct (eval E c2 x s) as [[v | c] s1]; [ | reflexivity]. rewrite (IHr s1). reflexivity. }
    rewrite HL. match goal with |- (let (_, _) := ?a in _) = _ => destruct a as [[vs | c] s1] end; [apply do_call_ext | reflexivity].
  - (* EAwait *) rewrite (IH e s). destruct (eval E c2 e s) as [[v | c] s1]; [apply do_await_ext | reflexivity].
  - (* EYieldFrom *) rewrite (IH e s). destruct (eval E c2 e s) as [[v | c] s1]; [apply do_await_ext | reflexivity].
  - (* EExited *)
    match goal with |- match ?a with _ => _ end = match ?b with _ => _ end => assert (HL : a = b) end.
    { revert s. induction fields as [ | [k x] r IHr]; intros s; [reflexivity | ].
      rewrite (IH x s). destruct (eval E c2 x s) as [[v | c] s1]; [ | reflexivity]. rewrite (IHr s1). reflexivity. }
    rewrite HL. reflexivity.
Qed.

Lemma while_loop_ext : forall (f1 f2 : st -> res * st) (b1 b2 : st -> completion * st),
  (forall s, f1 s = f2 s) -> (forall s, b1 s = b2 s) -> forall k s, while_loop f1 b1 k s = while_loop f2 b2 k s.
Proof.
  intros f1 f2 b1 b2 Hf Hb k. induction k as [ | k IH]; intros s; simpl; [reflexivity | ].
  rewrite Hf. destruct (f2 s) as [[v | c] s1]; [ | reflexivity].
  destruct (truthy v); [ | reflexivity]. rewrite Hb. destruct (b2 s1) as [c s2]; destruct c; try reflexivity; apply IH.
Qed.

Lemma for_loop_ext : forall x (b1 b2 : st -> completion * st),
  (forall s, b1 s = b2 s) -> forall l s, for_loop x b1 l s = for_loop x b2 l s.
Proof.
  intros x b1 b2 Hb l. induction l as [ | v r IH]; intros s; simpl; [reflexivity | ].
  rewrite Hb. destruct (b2 (set_var x v s)) as [c s2]; destruct c; try reflexivity; apply IH.
Qed.

Lemma try_sem_ext : forall r1 r1' (h1 h2 : exn -> st -> completion * st) (o1 o2 f1 f2 : st -> completion * st),
  r1 = r1' -> (forall x s, h1 x s = h2 x s) -> (forall s, o1 s = o2 s) -> (forall s, f1 s = f2 s) ->
  try_sem r1 h1 o1 f1 = try_sem r1' h2 o2 f2.
Proof.
  intros r1 r1' h1 h2 o1 o2 f1 f2 Hr Hh Ho Hf. subst r1'. unfold try_sem.
  destruct (is_abrupt_stop (fst r1)); [reflexivity | ].
  destruct r1 as [c s1]; destruct c; simpl; rewrite ?Hh, ?Ho, ?Hf; reflexivity.
Qed.

Lemma unwind_ext : forall k o s, unwind c1 k o s = unwind c2 k o s.
Proof.
  induction k as [ | k IH]; intros o s; simpl; [reflexivity | ].
  destruct (cms s); [reflexivity | ]. rewrite H.
  destruct (c2 _ _ s) as [c s']; destruct c; try reflexivity; apply IH.
Qed.

Lemma exec_ext : forall n p m s, exec E c1 n m p s = exec E c2 n m p s.
Proof.
  intros n. fix IH 1. intros p m s. destruct p; cbn -[try_sem]; try reflexivity.
  - (* SSeq *)
    destruct m.
    + rewrite (IH p1 MRun s). destruct (exec E c2 n MRun p1 s) as [c s1]; destruct c; try reflexivity. apply IH.
    + rewrite (IH p1 MEnter s). destruct (exec E c2 n MEnter p1 s) as [c s1]; destruct c; try reflexivity. apply IH.
    + destruct (has_yield p1); [ | apply IH].
      rewrite (IH p1 (MResume o) s). destruct (exec E c2 n (MResume o) p1 s) as [c s1]; destruct c; try reflexivity. apply IH.
  - (* SExpr *) destruct m; try reflexivity; rewrite eval_ext; reflexivity.
  - (* SAssign *) destruct m; try reflexivity; rewrite eval_ext; reflexivity.
  - (* SIf *)
    destruct m.
    + rewrite eval_ext. destruct (eval E c2 c s) as [[v | x] s1]; [ | reflexivity]. destruct (truthy v); apply IH.
    + rewrite eval_ext. destruct (eval E c2 c s) as [[v | x] s1]; [ | reflexivity]. destruct (truthy v); apply IH.
    + destruct (has_yield p1); [apply IH | ]. destruct (has_yield p2); [apply IH | reflexivity].
  - (* SWhile *)
    destruct m; try reflexivity; apply while_loop_ext; intros; try apply eval_ext; apply IH.
  - (* SFor *)
    destruct m; try reflexivity; rewrite eval_ext; destruct (eval E c2 it s) as [[v | x0] s1]; try reflexivity;
      destruct v; try reflexivity; apply for_loop_ext; intros; apply IH.
  - (* SReturn *) destruct m; try reflexivity; rewrite eval_ext; reflexivity.
  - (* SAssert *) destruct m; try reflexivity; rewrite eval_ext; reflexivity.
  - (* STry *)
    apply try_sem_ext.
    + destruct m; try apply IH. destruct (has_yield p1); [apply IH | reflexivity].
    + intros x s1. induction hs as [ | [cl bind hb] r IHr]; [reflexivity | ].
      destruct (matches cl x); [ | exact IHr]. rewrite IH. reflexivity.
    + intros s1. apply IH.
    + intros s1. apply IH.
  - (* SYield *) destruct m; try reflexivity; rewrite eval_ext; reflexivity.
  - (* SAsyncWithStack *)
    destruct m; try reflexivity.
    + rewrite IH. destruct (exec E c2 n MRun p _) as [c s1]. destruct (is_abrupt_stop c); [reflexivity | ].
      rewrite unwind_ext. reflexivity.
    + rewrite IH. destruct (exec E c2 n MEnter p _) as [c s1]. destruct (is_abrupt_stop c); [reflexivity | ].
      rewrite unwind_ext. reflexivity.
Qed.

End Ext.

(** the tower *)
Lemma dispatch_ext : forall E (l1 l2 : st -> completion * st) c1 c2 n,
  (forall s, l1 s = l2 s) -> cf_eq c1 c2 -> cf_eq (dispatch E l1 c1 n) (dispatch E l2 c2 n).
Proof.
  intros E l1 l2 c1 c2 n Hl Hc name args s. unfold dispatch.
  repeat match goal with
         | |- (if ?b then _ else _) = (if ?b then _ else _) => destruct b
         end; try reflexivity;
  try (unfold call_fn; destruct (bind_params _ args); [ | reflexivity]; rewrite (exec_ext E c1 c2 Hc); reflexivity).
  - apply Hl.
  - unfold cm_enter. destruct (bind_params _ args); [ | reflexivity]. rewrite (exec_ext E c1 c2 Hc). reflexivity.
  - unfold cm_exit. destruct (cms s); [reflexivity | ]. rewrite (exec_ext E c1 c2 Hc). reflexivity.
  - rewrite (exec_ext E c1 c2 Hc). reflexivity.
  - rewrite (exec_ext (with_answer E ANever) c1 c2 Hc). reflexivity.
Qed.

Lemma cfn_ext : forall E (l1 l2 : st -> completion * st) n, (forall s, l1 s = l2 s) ->
  forall d, cf_eq (cfn E l1 n d) (cfn E l2 n d).
Proof.
  intros E l1 l2 n Hl d. induction d as [ | d IH]; simpl.
  - intros name args s. reflexivity.
  - apply dispatch_ext; assumption.
Qed.

Lemma run_with_ext : forall E (l1 l2 : st -> completion * st) n p s, (forall s, l1 s = l2 s) ->
  run_with E l1 n p s = run_with E l2 n p s.
Proof. intros. unfold run_with. apply exec_ext. apply cfn_ext. assumption. Qed.

Lemma call_with_ext : forall E (l1 l2 : st -> completion * st) n name args s, (forall s, l1 s = l2 s) ->
  call_with E l1 n name args s = call_with E l2 n name args s.
Proof. intros. unfold call_with. apply cfn_ext. assumption. Qed.
