(** Proofs about Proc/Model.v: tie to the generated skeleton, and the facts
    C17 needs, for every configuration and every answer of the executor. *)
From NL Require Import Proc.Model.
Open Scope Z_scope.

(** ---- tie: the programs interpreted by the model are the ones extracted from
    /repo/nextline/utils/run.py and multiprocessing_logging.py at this check *)
Lemma tie_run : run_prog = run_skeleton. Proof. reflexivity. Qed.
Lemma tie_call : call_prog = call_skeleton. Proof. reflexivity. Qed.
Lemma tie_outer : outer_prog = outer_skeleton. Proof. reflexivity. Qed.
Lemma tie_init : init_prog = init_skeleton. Proof. reflexivity. Qed.
Lemma tie_await : await_prog = await_skeleton. Proof. reflexivity. Qed.
Lemma tie_interrupt : interrupt_prog = interrupt_skeleton. Proof. reflexivity. Qed.
Lemma tie_send_signal : send_signal_prog = send_signal_skeleton. Proof. reflexivity. Qed.
Lemma tie_terminate : terminate_prog = terminate_skeleton. Proof. reflexivity. Qed.
Lemma tie_kill : kill_prog = kill_skeleton. Proof. reflexivity. Qed.
Lemma tie_logging : logging_prog = logging_skeleton. Proof. reflexivity. Qed.
Lemma tie_exited : exited_prog = exited_fields. Proof. reflexivity. Qed.

Lemma tie_all :
  run_prog = run_skeleton /\ outer_prog = outer_skeleton /\ init_prog = init_skeleton /\
  await_prog = await_skeleton /\ interrupt_prog = interrupt_skeleton /\
  send_signal_prog = send_signal_skeleton /\ terminate_prog = terminate_skeleton /\
  kill_prog = kill_skeleton /\ logging_prog = logging_skeleton /\ exited_prog = exited_fields /\
  call_prog = call_skeleton.
Proof. repeat split; reflexivity. Qed.

(** ---- when does the cleanup get stuck (see the environment fact in Model.v) *)
Definition stuck (w : world) : option hang_stage :=
  if collect_logging w && died_in_log_write w then Some HListener else None.

(** ---- the trace of effects is the same whatever the future answers *)
Definition expected_trace (clog : bool) : list ev :=
  (if clog then [VListenerStarted; VInitializerWrapped] else [])
  ++ [VExecutorCreated; VSubmitted; VProcessKnown; VEventSet; VFutureAwaited; VExecutorShutdown]
  ++ (if clog then [VListenerSentinel; VListenerAwaited] else []).

Ltac cases_w w :=
  destruct w as [clog a dw]; destruct clog; destruct a as [v | e | e]; try destruct e;
  destruct dw.

Lemma run_trace_exact : forall w,
  run_trace w =
  match stuck w with
  | None => expected_trace (collect_logging w)
  | Some HShutdown => firstn 7 (expected_trace true)
  | Some HListener => firstn 9 (expected_trace true)
  end.
Proof. intros w. cases_w w; reflexivity. Qed.

(** what `_run` returns, as a function of the answer alone *)
Definition expected_outcome (a : answer) : option Z * option exn :=
  match a with
  | AValue v => (Some v, None)
  | ARaise EBrokenPool => (None, None)
  | ARaise e => (None, Some e)
  | AData e => (None, Some e)
  end.

Lemma run_task_exact : forall w,
  run_task w =
  match stuck w with
  | Some h => THang h
  | None => TDone (fst (expected_outcome (ans w))) (snd (expected_outcome (ans w)))
  end.
Proof. intros w. cases_w w; reflexivity. Qed.

Lemma start_exact : forall w, start w = SHandle (if collect_logging w then 6%nat else 4%nat).
Proof. intros w. cases_w w; reflexivity. Qed.

Lemma await_exact : forall w,
  await_handle w =
  match stuck w with
  | Some h => Hangs h
  | None =>
    Yields (mkExited (fst (expected_outcome (ans w))) (snd (expected_outcome (ans w)))
                     (if collect_logging w then 6%nat else 4%nat)
                     (length (expected_trace (collect_logging w))))
  end.
Proof.
  intros w. unfold await_handle. rewrite start_exact, run_task_exact, run_trace_exact.
  destruct (stuck w); reflexivity.
Qed.

(** ---- C17 *)
Lemma never_raises : forall w e, await_handle w <> Raises e.
Proof. intros w e. rewrite await_exact. destruct (stuck w); discriminate. Qed.

Lemma hang_iff : forall w h, await_handle w = Hangs h <-> stuck w = Some h.
Proof.
  intros w h. rewrite await_exact. destruct (stuck w) as [h' | ]; split; intros H;
    try discriminate; inversion H; reflexivity.
Qed.

Lemma yields_partial : forall w, stuck w = None -> exists x, await_handle w = Yields x.
Proof. intros w H. rewrite await_exact, H. eexists. reflexivity. Qed.

Lemma yields_without_logging : forall w, collect_logging w = false -> exists x, await_handle w = Yields x.
Proof. intros w H. apply yields_partial. unfold stuck. rewrite H. reflexivity. Qed.

(** a worker that was not killed while logging: always yields, however much it logged and
    whatever it raised *)
Lemma yields_when_not_killed_logging : forall w, died_in_log_write w = false -> exists x, await_handle w = Yields x.
Proof. intros w H. apply yields_partial. unfold stuck. rewrite H, andb_false_r. reflexivity. Qed.

(** the exception the function raised -- whatever its class: it travels as data -- is yielded exactly *)
Lemma exception_yielded_exactly : forall w e,
  ans w = AData e -> stuck w = None ->
  exists c t, await_handle w = Yields (mkExited None (Some e) c t).
Proof. intros w e Ha Hs. rewrite await_exact, Hs, Ha. simpl. eauto. Qed.

Lemma yields_refuted_killed_while_logging :
  exists w, ans w = ARaise EBrokenPool /\ await_handle w = Hangs HListener.
Proof. exists (mkWorld true (ARaise EBrokenPool) true). split; reflexivity. Qed.

Lemma handle_returned : forall w, exists c, start w = SHandle c.
Proof. intros w. rewrite start_exact. eexists. reflexivity. Qed.

(** the outcome required for a scenario: list of (returned, raised) pairs *)
Definition allowed (sc : scenario) : list (option Z * option exn) :=
  match sc with
  | (Ret v, None) => [(Some v, None)]
  | (Exn e, None) => [(None, Some (EWorker e))]
  | (Unpicklable, None) => [(None, Some EPickle)]
  | (SysExit n, None) => [(None, Some (ESysExit n))]
  | (HardExit _, None) => [(None, None)]
  | (_, Some (SInt, Running)) => [(None, Some EKeyboardInt)]
  | (_, Some (_, Boot)) => [(None, None)]
  | (_, Some (_, Running)) => [(None, None)]
  | (b, Some (s, Racing)) =>
      [ match b with
        | Ret v => (Some v, None) | Exn e => (None, Some (EWorker e)) | Unpicklable => (None, Some EPickle)
        | SysExit n => (None, Some (ESysExit n)) | HardExit _ => (None, None) end;
        match s with SInt => (None, Some EKeyboardInt) | _ => (None, None) end;
        (None, None) ]
  end.

Lemma allowed_is_map : forall sc, allowed sc = map expected_outcome (answers sc).
Proof.
  intros [b [[s i] | ]]; destruct b; try destruct s; try destruct i; reflexivity.
Qed.

Lemma outcome_shape : forall w sc x,
  consistent sc (ans w) -> await_handle w = Yields x ->
  In (returned x, raised x) (allowed sc).
Proof.
  intros w sc x Hc Hx. rewrite await_exact in Hx. destruct (stuck w); [discriminate | ].
  inversion Hx; subst; clear Hx. simpl.
  rewrite allowed_is_map. rewrite <- surjective_pairing. apply in_map. exact Hc.
Qed.

Lemma value_xor_exception : forall w x,
  await_handle w = Yields x -> returned x = None \/ raised x = None.
Proof.
  intros w x Hx. rewrite await_exact in Hx. destruct (stuck w); [discriminate | ].
  inversion Hx; subst; clear Hx. simpl.
  destruct (ans w) as [v | e | e]; simpl; auto. destruct e; simpl; auto.
Qed.

Lemma cleanup_partial : forall w, stuck w = None ->
  run_trace w = expected_trace (collect_logging w) /\
  helpers_left (run_trace w) = 0%nat /\
  joined (run_trace w) = true.
Proof.
  intros w H. rewrite run_trace_exact, H. destruct (collect_logging w); repeat split; reflexivity.
Qed.

(** safety part, unconditional: whatever happens, the effects are a prefix of the full sequence *)
Lemma cleanup_prefix : forall w, exists rest, expected_trace (collect_logging w) = run_trace w ++ rest.
Proof.
  intros w. cases_w w; eexists; reflexivity.
Qed.

(** the worker process is joined even when the listener is stuck *)
Lemma process_always_joined : forall w, joined (run_trace w) = true.
Proof. intros w. cases_w w; reflexivity. Qed.

Lemma cleanup_refuted :
  exists w, joined (run_trace w) = true /\ helpers_left (run_trace w) = 1%nat.
Proof. exists (mkWorld true (ARaise EBrokenPool) true). split; reflexivity. Qed.

Lemma times_ordered : forall w x, await_handle w = Yields x -> (created_at x < exited_at x)%nat.
Proof.
  intros w x Hx. rewrite await_exact in Hx. destruct (stuck w); [discriminate | ].
  inversion Hx; subst; clear Hx. simpl.
  destruct (collect_logging w); simpl; repeat constructor.
Qed.

(** every await of the handle after the first yields the same outcome and creation time; its
    exit time is not earlier *)
Lemma await_idempotent : forall w late x,
  await_handle w = Yields x ->
  await_late w late = Yields (mkExited (returned x) (raised x) (created_at x) (exited_at x + late)).
Proof. intros w late x H. unfold await_late. rewrite H. reflexivity. Qed.

Lemma late_await_never_raises : forall w late e, await_late w late <> Raises e.
Proof.
  intros w late e. unfold await_late. pose proof (never_raises w e) as N.
  destruct (await_handle w); try exact N; try discriminate.
Qed.

Lemma signals_before_exit : forall m p, p <> PReaped -> call m p = MDelivered (sig_of m).
Proof.
  intros m p Hp. destruct m; destruct p; try congruence; reflexivity.
Qed.

(** outside the property (after exit), for the record: `interrupt()`/`send_signal()` use a
    bare os.kill and raise ProcessLookupError once the child is reaped; terminate/kill do not *)
Lemma late_requests :
  call MInterrupt PReaped = MRaisesLookup /\ (forall s, call (MSendSignal s) PReaped = MRaisesLookup) /\
  call MTerminate PReaped = MNoop /\ call MKill PReaped = MNoop.
Proof. repeat split; reflexivity. Qed.

(** [consistentb] decides [consistent] *)
Lemma exn_eqb_eq : forall a b, exn_eqb a b = true <-> a = b.
Proof.
  intros a b; split.
  - destruct a; destruct b; simpl; try discriminate; try reflexivity;
      intros H; apply Z.eqb_eq in H; subst; reflexivity.
  - intros ->. destruct b; simpl; try reflexivity; apply Z.eqb_refl.
Qed.

Lemma answer_eqb_eq : forall a b, answer_eqb a b = true <-> a = b.
Proof.
  intros a b; split.
  - destruct a; destruct b; simpl; try discriminate; intros H.
    + apply Z.eqb_eq in H; subst; reflexivity.
    + apply exn_eqb_eq in H; subst; reflexivity.
    + apply exn_eqb_eq in H; subst; reflexivity.
  - intros ->. destruct b; simpl; try apply Z.eqb_refl; apply exn_eqb_eq; reflexivity.
Qed.

Lemma consistentb_spec : forall sc a, consistentb sc a = true <-> consistent sc a.
Proof.
  intros sc a. unfold consistentb, consistent. rewrite existsb_exists. split.
  - intros [b [Hin Heq]]. apply answer_eqb_eq in Heq. subst. exact Hin.
  - intros Hin. exists a. split; [exact Hin | apply answer_eqb_eq; reflexivity].
Qed.
