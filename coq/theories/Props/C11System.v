(** C11 (and C10, C09) at SYSTEM level -- the event pipeline end to end.
    Property theorems only; each is closed by [exact] of a theorem of System/Pipeline.v, which only COMPOSES the
    per-property theorems (emitter C09, relay C10, registrars C11, broker C08); no new fact about the code enters.

    Quantifiers: every list of per-actor structured programs [ps] and every interleaving [sched] of them in the
    subprocess (Events/Emitter.v); every interleaving [ls] of the child, its feeder thread, the monitor task, the drain
    loop, an early timeout and a kill at any point (Relay/Model.v) -- "subscribers scheduled in every order relative to
    the relay", "truncated at every prefix length to model a kill".  No hypothesis of well-formedness: it is supplied
    by the emitter theorem.  [delivered_events boot es ls] = the events for which the main-process hooks are called.
    Tie to /repo: harness/props/c11_system.py (the registrars inside a real Nextline, the relay held in a slow hook while
    the run ends) + the ties of the three component models. *)
From NL Require Import Events.Grammar Events.Emitter Registrars.Model Registrars.Proofs System.Pipeline System.PipelineCode.
From Coq Require Import Lia.
Open Scope Z_scope.

(** C10 lifted to events: whatever the interleaving and the kill point, the hooks are called with a prefix of the
    emitted stream, in order, each event once *)
Theorem C11_system_delivered_is_prefix : forall boot es ls, exists k, delivered_events boot es ls = firstn k es.
Proof. exact delivered_is_prefix. Qed.

(** ... and with all of it when the run ends normally *)
Theorem C11_system_delivered_is_everything : forall boot es ls,
  R.main (R.run boot (encode es) ls) = R.PEndRun -> R.child (R.run boot (encode es) ls) = R.CExited ->
  delivered_events boot es ls = es.
Proof. exact delivered_is_everything. Qed.

(** what a recording plugin sees in the relay's log is that same prefix, and nothing is delivered once on_end_run was called:
    the theorems below about [pubs_run] (= init, start, the delivered events, then on_end_run) are about runs whose relay ends *)
Theorem C11_system_log_shows_delivered : forall boot es ls,
  decode es (R.deliveries (R.log (R.run boot (encode es) ls))) = delivered_events boot es ls.
Proof. exact log_shows_delivered. Qed.

Theorem C11_system_nothing_delivered_after_end_run : forall boot es ls l,
  R.main (R.run boot (encode es) ls) = R.PEndRun ->
  delivered_events boot es (ls ++ [l]) = delivered_events boot es ls.
Proof. exact nothing_delivered_after_end_run. Qed.

(** C09 + C10: what reaches the main process is always a well-formed stream cut at some point *)
Theorem C11_system_delivered_wf_prefix : forall r ps sched boot ls,
  wf_prefix r (delivered_events boot (emitted r ps sched) ls) = true.
Proof. exact delivered_wf_prefix. Qed.

Theorem C11_system_delivered_wf_when_complete : forall r ps sched boot ls,
  finished r ps sched = true ->
  R.main (R.run boot (encode (emitted r ps sched)) ls) = R.PEndRun ->
  R.child (R.run boot (encode (emitted r ps sched)) ls) = R.CExited ->
  WF r (delivered_events boot (emitted r ps sched) ls).
Proof. exact delivered_wf_when_complete. Qed.

(** C09 + C10 + C11: the published run state, end to end *)
Theorem C11_system_active_set : forall r ps sched boot ls,
  let del := delivered_events boot (emitted r ps sched) ls in
  last_nos (pubs_events r del) = active del.
Proof. exact e2e_active_set. Qed.

Theorem C11_system_closed_out_active_set : forall r ps sched boot ls,
  last_nos (pubs_run r (delivered_events boot (emitted r ps sched) ls)) = [].
Proof. exact e2e_closed_out_active_set. Qed.

Theorem C11_system_trace_info_once : forall r ps sched boot ls,
  let del := delivered_events boot (emitted r ps sched) ls in
  forall t,
    filter (about t) (on_topic TTraceInfo (pubs_run r del)) =
    if in_dec Z.eq_dec t (trace_starts del)
    then [Some (VTraceInfo r t (pl_of t del) true); Some (VTraceInfo r t (pl_of t del) false)]
    else [].
Proof. exact e2e_trace_info_once. Qed.

Theorem C11_system_notice_bijection : forall r ps sched boot ls,
  let del := delivered_events boot (emitted r ps sched) ls in
  on_topic TPromptNotice (pubs_events r del) = notices r del del.
Proof. exact e2e_notice_bijection. Qed.

Theorem C11_system_closed_out_prompt_topics : forall r ps sched boot ls,
  let del := delivered_events boot (emitted r ps sched) ls in
  (forall t, In t (trace_starts del) ->
     exists vs, on_topic (TPromptInfoFor t) (pubs_run r del) = map Some vs ++ [None]) /\
  (exists vs, on_topic TPromptNotice (pubs_run r del) = map Some vs ++ [None]).
Proof. exact e2e_closed_out_prompt_topics. Qed.

(** ... + C08: every subscriber of a per-trace prompt topic terminates, whenever it attached and however it was scheduled
    against the registrar's publications *)
Theorem C11_system_subscribers_terminate : forall r ps sched boot ls,
  let del := delivered_events boot (emitted r ps sched) ls in
  forall t ops,
    In t (trace_starts del) ->
    map forget (filter is_publisher_op ops) = map to_op (on_topic (TPromptInfoFor t) (pubs_run r del)) ->
    forall s, (s < length (PS.i_subs (PS.run false ops)))%nat ->
    exists n,
      let tail := skipn (length ops) (PS.outs false (ops ++ repeat (PS.Next s) (S n))) in
      last tail PS.OBlocked = PS.OStop /\ ~ In PS.OBlocked tail.
Proof. exact e2e_subscribers_terminate. Qed.

(** ---- the same, on the REGENERATED CODE of the three components that have a regenerated-source tie (System/PipelineCode.v):
    the subprocess' emitter code, the relay code and the registrars' code, interpreted; [code_delivered] = the events for
    which the relay code calls the hooks when the emitter code runs [ps] under [sched] *)
Theorem C11_system_code_delivered_is_prefix : forall r ps sched boot ls,
  exists k, code_delivered r ps sched boot ls = firstn k (EI.iemitted r ps sched).
Proof. exact code_delivered_is_prefix. Qed.

Theorem C11_system_code_delivered_wf_prefix : forall r ps sched boot ls,
  wf_prefix r (code_delivered r ps sched boot ls) = true.
Proof. exact code_delivered_wf_prefix. Qed.

(** the registrars' code, fed what the relay code delivers, never raises, is never cut short, and publishes exactly [pubs_run] *)
Theorem C11_system_code_whole_run : forall r ps sched boot ls,
  let del := code_delivered r ps sched boot ls in
  GT.run_whole_stop r del =
  Some (GT.loadR r (fst (on_end_run r (state_events r del))),
        GT.GPub (NL.Registrars.Syntax.VStr k_run_no) (NL.Registrars.Syntax.VInt r) :: map GT.enc_pub (pubs_run r del), false).
Proof. exact code_whole_run. Qed.

Theorem C11_system_code_topics : forall r ps sched boot ls,
  let del := code_delivered r ps sched boot ls in
  exists G pubs, GT.run_whole r del = Some (G, pubs) /\
    forall k, GT.g_on_topic k pubs = map (option_map GT.enc_value) (on_topic k (pubs_run r del)).
Proof. exact code_topics. Qed.

Theorem C11_system_code_closed_out : forall r ps sched boot ls,
  let del := code_delivered r ps sched boot ls in
  last_nos (pubs_run r del) = [] /\
  (forall t, In t (trace_starts del) ->
     exists vs, on_topic (TPromptInfoFor t) (pubs_run r del) = map Some vs ++ [None]) /\
  (exists vs, on_topic TPromptNotice (pubs_run r del) = map Some vs ++ [None]).
Proof. exact code_closed_out. Qed.

(** ... and the subscribers of a closed-out topic are stopped by the broker item's CODE (C08's regenerated PubSubItem) *)
Theorem C11_system_code_subscribers_terminate : forall r ps sched boot ls,
  let del := code_delivered r ps sched boot ls in
  forall t ops,
    In t (trace_starts del) ->
    map forget (filter is_publisher_op ops) = map to_op (on_topic (TPromptInfoFor t) (pubs_run r del)) ->
    forall s, (s < List.length (PS.i_subs (PS.run false ops)))%nat ->
    exists n outs,
      PI.iouts false (ops ++ repeat (PS.Next s) (S n)) = Some outs /\
      let tail := skipn (List.length ops) outs in
      last tail PS.OBlocked = PS.OStop /\ ~ In PS.OBlocked tail.
Proof. exact code_subscribers_terminate. Qed.

(** non-vacuity: two actors (a trace with a prompt, a trace without), interleaved; the relay is killed after three events
    were put of which two got through: the delivered stream is the 2-event prefix, still a well-formed prefix, and the
    close-out leaves no active trace *)
Definition ex_progs : list prog :=
  [mkProg 10 [ICall 5 7 None; IOut 4; ICall 5 7 (Some ((0, 9), [(0, 8)]))];
   mkProg 11 [ICall 6 8 (Some ((0, 9), []))]].
Definition ex_sched : list nat :=
  [0; 1; 1; 0; 0; 1; 0; 1; 0; 0; 1; 1; 0; 1; 0; 0; 1; 1; 0; 0; 0; 0; 1; 0; 0; 0; 0; 1; 0; 1; 0; 1; 0]%nat.
Definition ex_relay : list R.label :=
  [R.StartProc; R.StartRun; R.Emit; R.Flush; R.MonTake; R.MonDeliver; R.Emit; R.Flush; R.MonTake; R.Emit; R.Kill;
   R.ProcExitSeen; R.DrainTick; R.MonDeliver; R.PutSentinel; R.MonSeesSentinel; R.EndRun].

Example C11_system_example_nonvacuous :
  let es := emitted 1 ex_progs ex_sched in
  let del := delivered_events true es ex_relay in
  (4 <= length es)%nat /\ del = firstn 2 es /\ length del = 2%nat /\
  R.main (R.run true (encode es) ex_relay) = R.PEndRun /\
  last_nos (pubs_events 1 del) <> [] /\ last_nos (pubs_run 1 del) = [].
Proof. vm_compute. repeat split; try reflexivity; try lia; discriminate. Qed.

Print Assumptions C11_system_delivered_is_prefix.
Print Assumptions C11_system_delivered_is_everything.
Print Assumptions C11_system_log_shows_delivered.
Print Assumptions C11_system_nothing_delivered_after_end_run.
Print Assumptions C11_system_delivered_wf_prefix.
Print Assumptions C11_system_delivered_wf_when_complete.
Print Assumptions C11_system_active_set.
Print Assumptions C11_system_closed_out_active_set.
Print Assumptions C11_system_trace_info_once.
Print Assumptions C11_system_notice_bijection.
Print Assumptions C11_system_closed_out_prompt_topics.
Print Assumptions C11_system_subscribers_terminate.
Print Assumptions C11_system_code_delivered_is_prefix.
Print Assumptions C11_system_code_delivered_wf_prefix.
Print Assumptions C11_system_code_whole_run.
Print Assumptions C11_system_code_topics.
Print Assumptions C11_system_code_closed_out.
Print Assumptions C11_system_code_subscribers_terminate.
