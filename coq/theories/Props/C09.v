(** C09 -- the subprocess emits a well-formed, properly nested event stream.
    Property theorems only; each is closed by [exact] of a lemma proved in
    Events/GrammarProofs.v or Events/EmitterProofs.v.

    Grammar (declarative): Events/Grammar.v [WF]; recogniser (executable): [wf], [wf_prefix].
    Emitter model: Events/Emitter.v. *)
From NL Require Import Events.Grammar Events.GrammarProofs Events.Completion Events.Emitter Events.EmitterProofs.
Open Scope Z_scope.

(** the executable recogniser decides exactly the grammar *)
Theorem C09_recogniser_correct : forall r es, wf r es = true <-> WF r es.
Proof. exact recogniser_correct. Qed.

(** every prefix of a well-formed stream (a kill truncates anywhere) is accepted by the
    prefix recogniser *)
Theorem C09_prefix_closed : forall r es, WF r es -> forall n, wf_prefix r (firstn n es) = true.
Proof. exact prefix_closed. Qed.

(** the prefix recogniser accepts every stream that can be completed to a well-formed one *)
Theorem C09_prefix_sound : forall r es, WFP r es -> wf_prefix r es = true.
Proof. exact prefix_sound. Qed.

(** ... and only those: every stream accepted by the prefix recogniser can be completed to a
    well-formed stream (close the open prompt, command loop, trace call and trace of every live
    trace in stack order; a command loop that has not asked yet gets one prompt with a fresh
    number) *)
Theorem C09_prefix_complete : forall r es, wf_prefix r es = true -> exists rest, WF r (es ++ rest).
Proof. exact prefix_complete. Qed.

(** the per-trace automaton accepts exactly the per-trace language *)
Theorem C09_trace_language : forall r t l, prun r t PNone l = Some PDone <-> Trace r t l.
Proof. exact prun_Trace. Qed.

(** the emitter: for EVERY list of structured actor programs and EVERY schedule (interleaving
    of the actors' steps: taking a number from a shared counter, putting an event), if every
    actor has finished the stream put on the queue is well formed ... *)
Theorem C09_emitter_wf : forall r ps sched, finished r ps sched = true -> WF r (emitted r ps sched).
Proof. exact emitter_wf. Qed.

(** ... and at any earlier moment (a kill) it is accepted by the prefix recogniser *)
Theorem C09_emitter_prefix : forall r ps sched, wf_prefix r (emitted r ps sched) = true.
Proof. exact emitter_prefix. Qed.

(** non-vacuity: two interleaved traces, a command loop with two prompts, stdout, numbers
    handed out across traces; a truncation of it; and three corrupted variants *)
Definition ex_stream : list event :=
  [StartTrace 1 1 10; StartTraceCall 1 1 1 5 7; EndTraceCall 1 1 1;
   StartTrace 1 2 11; StartTraceCall 1 2 2 6 8; StartCmdloop 1 2 2;
   StartTraceCall 1 1 3 5 7; StartCmdloop 1 1 3; StartPrompt 1 1 3 1 0;
   StartPrompt 1 2 2 2 0; WriteStdout 1 2 4; EndPrompt 1 2 2 2 9; StartPrompt 1 2 2 3 0;
   EndPrompt 1 1 3 1 9; EndCmdloop 1 1 3; EndTraceCall 1 1 3; WriteStdout 1 1 4;
   EndPrompt 1 2 2 3 9; EndCmdloop 1 2 2; EndTraceCall 1 2 2; EndTrace 1 2; EndTrace 1 1].

Example C09_example_nonvacuous :
  WF 1 ex_stream /\
  wf_prefix 1 (firstn 9 ex_stream) = true /\ wf 1 (firstn 9 ex_stream) = false /\
  (* nested command loop *)
  wf_prefix 1 [StartTrace 1 1 0; StartTraceCall 1 1 1 0 0; StartCmdloop 1 1 1; StartCmdloop 1 1 1] = false /\
  (* command loop without a prompt *)
  wf_prefix 1 [StartTrace 1 1 0; StartTraceCall 1 1 1 0 0; StartCmdloop 1 1 1; EndCmdloop 1 1 1] = false /\
  (* a trace-call number handed out twice *)
  wf_prefix 1 [StartTrace 1 1 0; StartTraceCall 1 1 1 0 0; EndTraceCall 1 1 1; StartTrace 1 2 0; StartTraceCall 1 2 1 0 0] = false /\
  (* stdout after the end of its trace *)
  wf_prefix 1 [StartTrace 1 1 0; EndTrace 1 1; WriteStdout 1 1 0] = false /\
  (* the completion of the truncated stream: trace 1 at an open prompt, trace 2 in a command
     loop that has not asked yet (gets the fresh prompt number 3) *)
  completion 1 (firstn 9 ex_stream) =
    [EndPrompt 1 1 3 1 0; EndCmdloop 1 1 3; EndTraceCall 1 1 3; EndTrace 1 1;
     StartPrompt 1 2 2 3 0; EndPrompt 1 2 2 3 0; EndCmdloop 1 2 2; EndTraceCall 1 2 2; EndTrace 1 2] /\
  wf 1 (firstn 9 ex_stream ++ completion 1 (firstn 9 ex_stream)) = true.
Proof.
  split; [apply recogniser_correct; vm_compute; reflexivity|].
  vm_compute. repeat split; reflexivity.
Qed.

(** non-vacuity of the emitter theorem: two actors, the second actor's trace start put before the first's, every actor finishes *)
Definition ex_progs : list prog :=
  [mkProg 10 [ICall 5 7 None; IOut 4; ICall 5 7 (Some ((0, 9), [(0, 8)]))];
   mkProg 11 [ICall 6 8 (Some ((0, 9), []))]].
Definition ex_sched : list nat :=
  [0; 1; 1; 0; 0; 1; 0; 1; 0; 0; 1; 1; 0; 1; 0; 0; 1; 1; 0; 0; 0; 0; 1; 0; 0; 0; 0; 1; 0; 1; 0; 1; 0]%nat.

Example C09_example_emitter_nonvacuous :
  finished 1 ex_progs ex_sched = true /\
  emitted 1 ex_progs ex_sched =
  [StartTrace 1 2 11; StartTrace 1 1 10; StartTraceCall 1 1 1 5 7; StartTraceCall 1 2 2 6 8;
   EndTraceCall 1 1 1; WriteStdout 1 1 4; StartCmdloop 1 2 2; StartPrompt 1 2 2 1 0;
   StartTraceCall 1 1 3 5 7; StartCmdloop 1 1 3; EndPrompt 1 2 2 1 9; EndCmdloop 1 2 2;
   StartPrompt 1 1 3 2 0; EndPrompt 1 1 3 2 9; EndTraceCall 1 2 2; StartPrompt 1 1 3 3 0;
   EndPrompt 1 1 3 3 8; EndCmdloop 1 1 3; EndTraceCall 1 1 3; EndTrace 1 2; EndTrace 1 1].
Proof. vm_compute. split; reflexivity. Qed.

(** ------------------------------------------------------------------------------------------
    TIE to the code of /repo.  Gen/EmitterSkel.v is regenerated from the source at every check
    (translate/emitter_skeleton.py: the statement trees of Repeater, Factory._context,
    TraceCallHandler, TaskAndThreadKeeper, TaskOrThreadToTraceMapper, CmdloopHook, PromptFunc,
    CustomizedPdb.cmdloop, the counters of count.py, the registration order); Events/Interp.v
    interprets the trees under the structured actor programs and schedules of Events/Emitter.v;
    Events/Tie.v proves the simulation.  The theorems below are about the REGENERATED code. *)
From Coq Require Import String.
From NL Require Import Events.Syntax Gen.EmitterSkel Events.Interp Events.Tie.

(** for ALL programs and ALL schedules the regenerated code puts exactly the model's stream on the queue *)
Theorem C09_tie_same_stream : forall r ps sched, iemitted r ps sched = emitted r ps sched.
Proof. exact tie_same_stream. Qed.

(** ... in lock step: related states after every schedule (counters, every actor at the computed
    state of its program point, the dicts / sets holding under each task / trace number what that
    program point says, nothing under trace numbers not yet handed out).
    LABEL: the states [K_*] of [Rsys] are `Eval vm_compute` of the interpreter itself on the regenerated
    trees -- this half is self-referential and says nothing by itself; the content is the stream equality
    above (model's stream = interpreter's stream), for which [Rsys] is the induction invariant. *)
Theorem C09_tie_simulation : forall r ps sched,
  Rsys r (fst (irun r (iinit ps) sched)) (fst (run r (init_sys ps) sched)).
Proof. exact (fun r ps sched => proj2 (sim r ps sched)). Qed.

(** hence, stated on the regenerated code: at any moment (a kill) the stream is accepted by the prefix recogniser *)
Theorem C09_tie_prefix : forall r ps sched, wf_prefix r (iemitted r ps sched) = true.
Proof. exact tie_prefix. Qed.

(** ... the code has finished exactly when the model has ... *)
Theorem C09_tie_finished : forall r ps sched, ifinished r ps sched = finished r ps sched.
Proof. exact tie_finished. Qed.

(** ... and then the stream is well formed *)
Theorem C09_tie_wf : forall r ps sched, ifinished r ps sched = true -> WF r (iemitted r ps sched).
Proof. exact tie_wf. Qed.

(** EXCEPTIONS.  The interpreter behind the simulation raises nothing but an explicit `raise` and a failing
    `assert`; there `try: a finally: b` is a-then-b.  What is proved about exceptions is the following, for each
    generator-based hook ON ITS OWN ([gexec]: an exception is THROWN INTO the generator at its first yield, i.e.
    the body of the `with` raised; hook answers after the yield are arbitrary):
    every start event's end is put in a `finally`, with the numbers read at ENTRY -- whether the body of the
    `with` returns or raises ([thrown]), the generator puts exactly start then end, with the same run / trace /
    trace-call / prompt numbers.  Dedenting the put out of the `finally` (or removing the try) changes the
    generated term (STry) and breaks these theorems.
    NOT covered by any theorem: an exception raised by a statement of the hook itself (queue put, KeyError on
    `del`), by the entry of a context manager stacked later, by `hook.hook.prompt`; KeyboardInterrupt going
    through `catch()` in _context and being re-raised after the `with`; how apluggy's stack_gen_ctxs unwinds
    (trusted: inner to outer, as its doctest says); cancellation does not exist in the child (threads, sync code). *)
Theorem C09_tie_end_in_finally_trace_call : forall thrown sent hk r tci,
  map nums (gen_run thrown sent hk r f_Repeater_on_trace_call [tci]) =
  [("OnStartTraceCall"%string, [VNum r; hk false "current_trace_no"%string; field tci "trace_call_no"; VBad]);
   ("OnEndTraceCall"%string, [VNum r; hk false "current_trace_no"%string; field tci "trace_call_no"; VBad])].
Proof. exact tie_end_in_finally_trace_call. Qed.

Theorem C09_tie_end_in_finally_cmdloop : forall thrown sent hk r,
  map nums (gen_run thrown sent hk r f_Repeater_on_cmdloop []) =
  [("OnStartCmdloop"%string, [VNum r; hk false "current_trace_no"%string; hk false "current_trace_call_no"%string; VBad]);
   ("OnEndCmdloop"%string, [VNum r; hk false "current_trace_no"%string; hk false "current_trace_call_no"%string; VBad])].
Proof. exact tie_end_in_finally_cmdloop. Qed.

Theorem C09_tie_end_in_finally_prompt : forall thrown sent hk r pn txt,
  map nums (gen_run thrown sent hk r f_Repeater_on_prompt [pn; txt]) =
  [("OnStartPrompt"%string, [VNum r; hk false "current_trace_no"%string; field (hk false "current_trace_call_info"%string) "trace_call_no"; pn]);
   ("OnEndPrompt"%string, [VNum r; hk false "current_trace_no"%string; field (hk false "current_trace_call_info"%string) "trace_call_no"; pn])].
Proof. exact tie_end_in_finally_prompt. Qed.

(** TraceCallHandler.on_trace_call (thrown or not): no event; every dict / set it writes under the trace number
    read at entry ends with a removal under that same key; as many entries removed as recorded *)
Theorem C09_tie_handler_removes_in_finally : forall thrown sent hk r tci,
  let g := gen_res thrown sent hk r f_TraceCallHandler_on_trace_call [tci] in
  let names := dedup (map (fun e => fst (fst e)) (gr_sets g)) in
  gr_puts g = [] /\ names <> [] /\
  forallb (fun m => match last_write (gr_sets g) m with
                    | Some (_, None) => true
                    | _ => false end) names = true /\
  map (fun e => snd (fst e)) (gr_sets g) = map (fun _ => hk false "current_trace_no"%string) (gr_sets g) /\
  List.length (filter (fun e => match snd e with Some _ => true | None => false end) (gr_sets g)) =
  List.length (filter (fun e => match snd e with Some _ => false | None => true end) (gr_sets g)).
Proof. exact tie_handler_removes_in_finally. Qed.

(** LABEL: reflexivity on facts the translator computes (where each counter object is created, its first value);
    the same facts drive [visible] in the interpreter, so moving a counter also breaks the simulation.
    Trace numbers, trace-call numbers and prompt numbers each come from ONE counter object created once
    per run (shared by all traces), starting at 1, stepping by 1; nothing else in nextline/spawned puts on the
    outgoing queue *)
Theorem C09_tie_counters_per_run :
  counter_decl CTrace = (PerRun, 1) /\ counter_decl CCall = (PerRun, 1) /\ counter_decl CPrompt = (PerRun, 1) /\
  counter_step = 1 /\ other_queue_out_putters = 0%nat.
Proof. exact tie_counters_per_run. Qed.

(** the current trace call is kept PER TRACE: in every reachable state, whatever the other threads / tasks
    are doing, the first-result hooks answer thread / task i with its own trace number, whether IT is on a
    trace call, and its own trace-call number *)
Theorem C09_tie_current_call_per_trace : forall r ps sched i a,
  nth_error (s_actors (fst (run r (init_sys ps) sched))) i = Some a -> started a ->
  let sh := is_sh (fst (irun r (iinit ps) sched)) in
  eval EFUEL (ctx_of r i sh) [] (EHook "current_trace_no") = VNum (a_t a) /\
  eval EFUEL (ctx_of r i sh) [] (EHook "is_on_trace_call") = VBool (in_call a) /\
  eval EFUEL (ctx_of r i sh) [] (EHook "current_trace_call_no") = (if in_call a then VNum (a_c a) else VNone).
Proof. exact tie_current_call_per_trace. Qed.

(** the guard of the command-loop hook: Pdb's command loop entered by a thread / task that is between trace
    calls (whatever the OTHER threads / tasks are on) runs through CustomizedPdb.cmdloop() without a visible
    action and without reading a command, and leaves the dicts / sets as they were *)
Theorem C09_tie_stray_cmdloop_refused : forall r ps sched i a k qs,
  nth_error (s_actors (fst (run r (init_sys ps) sched))) i = Some a -> a_pc a = AIdle k ->
  let sh := is_sh (fst (irun r (iinit ps) sched)) in
  exists sh' lg, settle SFUEL key_eqb true r i sh (stray_cmdloop qs k) [] = (K_idle k, sh', true, lg) /\
                 view (sh_st sh') (KTask i) = view (sh_st sh) (KTask i) /\
                 view (sh_st sh') (KNum (a_t a)) = view (sh_st sh) (KNum (a_t a)).
Proof. exact tie_stray_cmdloop_refused. Qed.

(** non-vacuity: the interpreter of the regenerated code runs the example above to the end *)
Example C09_tie_example_nonvacuous :
  ifinished 1 ex_progs ex_sched = true /\ iemitted 1 ex_progs ex_sched = emitted 1 ex_progs ex_sched /\
  List.length (iemitted 1 ex_progs ex_sched) = 21%nat.
Proof. vm_compute. repeat split; reflexivity. Qed.

Print Assumptions C09_recogniser_correct.
Print Assumptions C09_emitter_wf.
Print Assumptions C09_emitter_prefix.
Print Assumptions C09_prefix_closed.
Print Assumptions C09_prefix_sound.
Print Assumptions C09_prefix_complete.
Print Assumptions C09_trace_language.
Print Assumptions C09_tie_same_stream.
Print Assumptions C09_tie_simulation.
Print Assumptions C09_tie_prefix.
Print Assumptions C09_tie_finished.
Print Assumptions C09_tie_wf.
Print Assumptions C09_tie_end_in_finally_trace_call.
Print Assumptions C09_tie_end_in_finally_cmdloop.
Print Assumptions C09_tie_end_in_finally_prompt.
Print Assumptions C09_tie_handler_removes_in_finally.
Print Assumptions C09_tie_counters_per_run.
Print Assumptions C09_tie_current_call_per_trace.
Print Assumptions C09_tie_stray_cmdloop_refused.
