(** C09 -- the subprocess emits a well-formed, properly nested event stream.
    Property theorems only; each is closed by [exact] of a lemma proved in
    Events/GrammarProofs.v or Events/EmitterProofs.v.

    Grammar (declarative): Events/Grammar.v [WF]; recogniser (executable): [wf], [wf_prefix].
    Emitter model: Events/Emitter.v. *)
From NL Require Import Events.Grammar Events.GrammarProofs Events.Completion Events.Emitter Events.EmitterProofs.
Open Scope Z_scope.

(** the executable recogniser decides exactly the grammar *)
Theorem C09_recogniser_correct : forall r es, wf r es = true <-> WF r es.
Proof. exact recogniser_correct. Qed.

(** every prefix of a well-formed stream (a kill truncates anywhere) is accepted by the
    prefix recogniser *)
Theorem C09_prefix_closed : forall r es, WF r es -> forall n, wf_prefix r (firstn n es) = true.
Proof. exact prefix_closed. Qed.

(** the prefix recogniser accepts every stream that can be completed to a well-formed one *)
Theorem C09_prefix_sound : forall r es, WFP r es -> wf_prefix r es = true.
Proof. exact prefix_sound. Qed.

(** ... and only those: every stream accepted by the prefix recogniser can be completed to a
    well-formed stream (close the open prompt, command loop, trace call and trace of every live
    trace in stack order; a command loop that has not asked yet gets one prompt with a fresh
    number) *)
Theorem C09_prefix_complete : forall r es, wf_prefix r es = true -> exists rest, WF r (es ++ rest).
Proof. exact prefix_complete. Qed.

(** the per-trace automaton accepts exactly the per-trace language *)
Theorem C09_trace_language : forall r t l, prun r t PNone l = Some PDone <-> Trace r t l.
Proof. exact prun_Trace. Qed.

(** the emitter: for EVERY list of structured actor programs and EVERY schedule (interleaving
    of the actors' steps: taking a number from a shared counter, putting an event), if every
    actor has finished the stream put on the queue is well formed ... *)
Theorem C09_emitter_wf : forall r ps sched, finished r ps sched = true -> WF r (emitted r ps sched).
Proof. exact emitter_wf. Qed.

(** ... and at any earlier moment (a kill) it is accepted by the prefix recogniser *)
Theorem C09_emitter_prefix : forall r ps sched, wf_prefix r (emitted r ps sched) = true.
Proof. exact emitter_prefix. Qed.

(** non-vacuity: two interleaved traces, a command loop with two prompts, stdout, numbers
    handed out across traces; a truncation of it; and three corrupted variants *)
Definition ex_stream : list event :=
  [StartTrace 1 1 10; StartTraceCall 1 1 1 5 7; EndTraceCall 1 1 1;
   StartTrace 1 2 11; StartTraceCall 1 2 2 6 8; StartCmdloop 1 2 2;
   StartTraceCall 1 1 3 5 7; StartCmdloop 1 1 3; StartPrompt 1 1 3 1 0;
   StartPrompt 1 2 2 2 0; WriteStdout 1 2 4; EndPrompt 1 2 2 2 9; StartPrompt 1 2 2 3 0;
   EndPrompt 1 1 3 1 9; EndCmdloop 1 1 3; EndTraceCall 1 1 3; WriteStdout 1 1 4;
   EndPrompt 1 2 2 3 9; EndCmdloop 1 2 2; EndTraceCall 1 2 2; EndTrace 1 2; EndTrace 1 1].

Example C09_example_nonvacuous :
  WF 1 ex_stream /\
  wf_prefix 1 (firstn 9 ex_stream) = true /\ wf 1 (firstn 9 ex_stream) = false /\
  (* nested command loop *)
  wf_prefix 1 [StartTrace 1 1 0; StartTraceCall 1 1 1 0 0; StartCmdloop 1 1 1; StartCmdloop 1 1 1] = false /\
  (* command loop without a prompt *)
  wf_prefix 1 [StartTrace 1 1 0; StartTraceCall 1 1 1 0 0; StartCmdloop 1 1 1; EndCmdloop 1 1 1] = false /\
  (* a trace-call number handed out twice *)
  wf_prefix 1 [StartTrace 1 1 0; StartTraceCall 1 1 1 0 0; EndTraceCall 1 1 1; StartTrace 1 2 0; StartTraceCall 1 2 1 0 0] = false /\
  (* stdout after the end of its trace *)
  wf_prefix 1 [StartTrace 1 1 0; EndTrace 1 1; WriteStdout 1 1 0] = false /\
  (* the completion of the truncated stream: trace 1 at an open prompt, trace 2 in a command
     loop that has not asked yet (gets the fresh prompt number 3) *)
  completion 1 (firstn 9 ex_stream) =
    [EndPrompt 1 1 3 1 0; EndCmdloop 1 1 3; EndTraceCall 1 1 3; EndTrace 1 1;
     StartPrompt 1 2 2 3 0; EndPrompt 1 2 2 3 0; EndCmdloop 1 2 2; EndTraceCall 1 2 2; EndTrace 1 2] /\
  wf 1 (firstn 9 ex_stream ++ completion 1 (firstn 9 ex_stream)) = true.
Proof.
  split; [apply recogniser_correct; vm_compute; reflexivity|].
  vm_compute. repeat split; reflexivity.
Qed.

(** non-vacuity of the emitter theorem: two actors, the second actor's trace start put before the first's, every actor finishes *)
Definition ex_progs : list prog :=
  [mkProg 10 [ICall 5 7 None; IOut 4; ICall 5 7 (Some ((0, 9), [(0, 8)]))];
   mkProg 11 [ICall 6 8 (Some ((0, 9), []))]].
Definition ex_sched : list nat :=
  [0; 1; 1; 0; 0; 1; 0; 1; 0; 0; 1; 1; 0; 1; 0; 0; 1; 1; 0; 0; 0; 0; 1; 0; 0; 0; 0; 1; 0; 1; 0; 1; 0]%nat.

Example C09_example_emitter_nonvacuous :
  finished 1 ex_progs ex_sched = true /\
  emitted 1 ex_progs ex_sched =
  [StartTrace 1 2 11; StartTrace 1 1 10; StartTraceCall 1 1 1 5 7; StartTraceCall 1 2 2 6 8;
   EndTraceCall 1 1 1; WriteStdout 1 1 4; StartCmdloop 1 2 2; StartPrompt 1 2 2 1 0;
   StartTraceCall 1 1 3 5 7; StartCmdloop 1 1 3; EndPrompt 1 2 2 1 9; EndCmdloop 1 2 2;
   StartPrompt 1 1 3 2 0; EndPrompt 1 1 3 2 9; EndTraceCall 1 2 2; StartPrompt 1 1 3 3 0;
   EndPrompt 1 1 3 3 8; EndCmdloop 1 1 3; EndTraceCall 1 1 3; EndTrace 1 2; EndTrace 1 1].
Proof. vm_compute. split; reflexivity. Qed.

Print Assumptions C09_recogniser_correct.
Print Assumptions C09_emitter_wf.
Print Assumptions C09_emitter_prefix.
Print Assumptions C09_prefix_closed.
Print Assumptions C09_prefix_sound.
Print Assumptions C09_prefix_complete.
Print Assumptions C09_trace_language.
