(** C14 -- runs are numbered uniquely and execute the script that is on display.
    Property theorems only; each is closed by [exact] of a lemma proved in
    Life/Numbering.v (from the step classification of Life/NumKind.v and the
    lock / state-machine invariants of Life/LockInv.v, Life/FsmInv.v).

    Model: Life/Model.v (the lifecycle LTS; RunArgComposer = [c_stmt c_next
    c_threads c_modules], Context.run_arg = [run_arg]).  Every statement
    quantifies over EVERY initial configuration and EVERY label list [ls]
    (= every history of calls from any number of tasks and every schedule of
    their atomic segments).

    Vocabulary (Life/Hist.v, Life/Numbering.v).  [history s] is the
    chronological list of observable events.  [is_init e n]: [e] is an
    on_initialize_run record carrying run number [n]; [no_init l]: no such
    record in [l].  For a chronological prefix [h]:
    [latest_init_no h] = number of the last on_initialize_run record in [h],
    [latest_statement h] = last published statement,
    [latest_run_info h] = (number, phase, statement) of the last published run info,
    [latest_initialized_info h] = (number, statement) of the last run info of
    phase `initialized`. *)
From NL Require Import Life.Model Life.LockInv Life.FsmInv Life.Hist Life.NumKind Life.Numbering.
Open Scope Z_scope.

(** ---- numbering ---- *)

(** the first initialisation carries the configured start number *)
Theorem C14_run_no_first : forall stmt start th md ls h1 e n h2,
  let s := run_labels (init_state stmt start th md) ls in
  history s = h1 ++ e :: h2 -> is_init e n -> no_init h1 -> n = start.
Proof. exact thm_first_init. Qed.

(** two consecutive initialisations carry n and n+1, unless a reset record
    asking for exactly the new number lies between them *)
Theorem C14_run_no_consecutive : forall stmt start th md ls h1 a n mid b m h2,
  let s := run_labels (init_state stmt start th md) ls in
  history s = h1 ++ a :: mid ++ b :: h2 -> is_init a n -> is_init b m -> no_init mid ->
  m = n + 1 \/ exists r, In (EvHook r) mid /\ h_hook r = HReset /\ h_start r = Some m.
Proof. exact thm_consecutive. Qed.

(** every on_initialize_run record carries a number and a statement and is
    immediately preceded by the publication of that run number and of the
    `initialized` run info with the same number and statement *)
Theorem C14_init_record_block : forall stmt start th md ls h1 r h2,
  let s := run_labels (init_state stmt start th md) ls in
  history s = h1 ++ EvHook r :: h2 -> h_hook r = HInitRun ->
  exists n x h0, h_runno r = Some n /\ h_stmt r = Some x /\
                 h1 = h0 ++ [EvPub (PRunNo n); EvPub (PRunInfo n RInitialized x None)].
Proof. exact thm_init_has_number. Qed.

(** ---- numbers carried (the statement as first written is false, see
    [C14_numbers_carried_refuted]; this is the strongest true form) ---- *)

(** a run-number publication is always the first event of an initialisation:
    it is followed by the `initialized` run info and the on_initialize_run
    record with the same number *)
Theorem C14_numbers_carried_run_no : forall stmt start th md ls h1 k h2,
  let s := run_labels (init_state stmt start th md) ls in
  history s = h1 ++ EvPub (PRunNo k) :: h2 ->
  exists x r h3, h2 = EvPub (PRunInfo k RInitialized x None) :: EvHook r :: h3 /\
                 h_hook r = HInitRun /\ h_runno r = Some k /\ h_stmt r = Some x.
Proof. exact thm_run_no_block. Qed.

Theorem C14_numbers_carried_initialized_info : forall stmt start th md ls h1 k x res h2,
  let s := run_labels (init_state stmt start th md) ls in
  history s = h1 ++ EvPub (PRunInfo k RInitialized x res) :: h2 ->
  exists r h3, h2 = EvHook r :: h3 /\ h_hook r = HInitRun /\ h_runno r = Some k /\ h_stmt r = Some x.
Proof. exact thm_initialized_info_block. Qed.

(** the `running` / `finished` run infos carry the number of the latest
    preceding on_initialize_run record (there is one) *)
Theorem C14_numbers_carried_run_info : forall stmt start th md ls h1 k ph x res h2,
  let s := run_labels (init_state stmt start th md) ls in
  history s = h1 ++ EvPub (PRunInfo k ph x res) :: h2 -> ph <> RInitialized -> latest_init_no h1 = Some k.
Proof. exact thm_carried_info. Qed.

(** on_end_run likewise (on_start_run: [C14_executed_is_displayed]) *)
Theorem C14_numbers_carried_end_run : forall stmt start th md ls h1 r h2,
  let s := run_labels (init_state stmt start th md) ls in
  history s = h1 ++ EvHook r :: h2 -> h_hook r = HEndRun ->
  exists n, h_runno r = Some n /\ latest_init_no h1 = Some n.
Proof. exact thm_carried_end. Qed.

(** what [latest_init_no] is: after a record with number n and no later one, it is n *)
Theorem C14_spec_latest_init_no : forall h1 a n mid,
  is_init a n -> no_init mid -> latest_init_no (h1 ++ a :: mid) = Some n.
Proof. exact t_init_after_init. Qed.

(** the statement as first written -- "every PRunNo k between an
    on_initialize_run record (number n) and the next one has k = n" -- fails:
    the publications of an initialisation precede its hook record *)
Theorem C14_numbers_carried_refuted :
  exists h1 a n mid k h2,
    history (run_labels (init_state 1 1 true false) refute_ls) = h1 ++ a :: mid ++ EvPub (PRunNo k) :: h2 /\
    is_init a n /\ no_init mid /\ k <> n.
Proof. exact carried_original_refuted. Qed.

(** ---- the run executes what is on display ---- *)

(** at every on_start_run record: it carries a number n and a statement x;
    the last published statement is x; the last on_initialize_run record has
    number n; the last `initialized` run info is (n, x); the last run info is
    (n, running, x) *)
Theorem C14_executed_is_displayed : forall stmt start th md ls h1 r h2,
  let s := run_labels (init_state stmt start th md) ls in
  history s = h1 ++ EvHook r :: h2 -> h_hook r = HStartRun ->
  exists n x, h_runno r = Some n /\ h_stmt r = Some x /\
    latest_statement h1 = Some x /\ latest_init_no h1 = Some n /\
    latest_initialized_info h1 = Some (n, x) /\ latest_run_info h1 = Some (n, RRunning, x).
Proof. exact thm_executed. Qed.

(** [run_arg] is what the composer holds (statement, flags, and the counter is
    one ahead) in every reachable state in which no reset is between
    enter_reset and its re-initialisation ... *)
Theorem C14_run_arg_is_composer : forall stmt start th md ls ra,
  let s := run_labels (init_state stmt start th md) ls in
  run_arg s = Some ra ->
  (forall t c p, find_task (tasks s) t = Some (c, p) -> zmid p = false) ->
  ra_stmt ra = c_stmt s /\ ra_threads ra = c_threads s /\ ra_modules ra = c_modules s /\ c_next s = ra_no ra + 1.
Proof. exact thm_composer. Qed.

(** ... in particular, unconditionally, whenever the run task has not finished
    (RT_New, RT_Created: the moment the child process is given [run_arg]) *)
Theorem C14_run_arg_is_composer_at_run_start : forall stmt start th md ls ra x,
  let s := run_labels (init_state stmt start th md) ls in
  runt s = Some x -> early x = true -> run_arg s = Some ra ->
  ra_stmt ra = c_stmt s /\ ra_threads ra = c_threads s /\ ra_modules ra = c_modules s /\ c_next s = ra_no ra + 1.
Proof. exact thm_composer_at_run_start. Qed.

(** no run starts or is in progress while a reset is half way
    ([early] = RT_New, RT_Created, RT_G_start, RT_WaitChild, RT_G_end) *)
Theorem C14_no_run_during_reset : forall stmt start th md ls t c p,
  let s := run_labels (init_state stmt start th md) ls in
  find_task (tasks s) t = Some (c, p) -> zmid p = true ->
  forall x, runt s = Some x -> early x = false.
Proof. exact thm_no_run_during_reset. Qed.

(** ---- a reset takes full effect or is refused ---- *)

(** when reset(o) returns normally the object is `initialized` and [run_arg]
    is the composer as it was when this reset began ([snapshot]: the composer
    fields just before the step that logged the latest reset record, which is
    this reset's: same statement / start options) with the options of [o]
    written over it *)
Theorem C14_reset_atomic : forall stmt start th md ls l t o,
  let s := run_labels (init_state stmt start th md) ls in
  let s' := step s l in
  In (EvRet t (CReset o) ROk) (appended s s') ->
  st_fsm s' = Initialized /\
  run_arg s' = Some (ra_of (merged (fst (snapshot stmt start th md ls)) o)) /\
  exists r, snd (snapshot stmt start th md ls) = Some r /\ h_hook r = HReset /\
            h_stmt r = o_stmt o /\ h_start r = o_start o.
Proof. exact thm_reset_ok. Qed.

(** spelled out for the options that were given *)
Theorem C14_reset_options_applied : forall stmt start th md ls l t o,
  let s := run_labels (init_state stmt start th md) ls in
  let s' := step s l in
  In (EvRet t (CReset o) ROk) (appended s s') ->
  exists ra, run_arg s' = Some ra /\
    (forall x, o_stmt o = Some x -> ra_stmt ra = x) /\
    (forall n, o_start o = Some n -> ra_no ra = n) /\
    (forall b, o_threads o = Some b -> ra_threads ra = b) /\
    (forall b, o_modules o = Some b -> ra_modules ra = b).
Proof. exact thm_reset_options. Qed.

(** a refused reset changes nothing and shows nothing: in the step in which it
    raises, composer and run_arg are unchanged and the only events appended
    are the call itself and its exception *)
Theorem C14_reset_refused_changes_nothing : forall stmt start th md ls l t o,
  let s := run_labels (init_state stmt start th md) ls in
  let s' := step s l in
  In (EvRet t (CReset o) RMachineError) (appended s s') ->
  comp s' = comp s /\ run_arg s' = run_arg s /\
  forall e, In e (appended s s') -> e = EvRet t (CReset o) RMachineError \/ call_ev e.
Proof. exact thm_reset_refused. Qed.

(** ---- non-vacuity ---- *)
Definition ex_o1 : opts := mkOpts (Some 2) (Some 10) None None.
Definition ex_o0 : opts := mkOpts None None None None.

(** start; reset(statement=2, run_no_start_from=10) by task 1, held at its
    first gate while task 2 requests run (it has to wait for the lock); the
    reset completes; the run starts with statement 2 / number 10 and
    finishes; a plain reset; run number 11 *)
Definition ex_ls : list label :=
  [Call 0 CStart; Step 0; Step 0; Step 0;
   Call 1 (CReset ex_o1); Call 2 CRun; Step 2; Step 1; Step 1; Step 1; Step 1;
   Step 2; StepRun; StepRun; StepRun; Step 2; Step 2;
   ChildExit OReturn; StepRun; StepRun; StepRun; StepRun;
   Call 3 (CReset ex_o0); Step 3; Step 3; Step 3].

Example C14_example_nonvacuous :
  let s := run_labels (init_state 1 1 true false) ex_ls in
  let s7 := run_labels (init_state 1 1 true false) (firstn 7 ex_ls) in
  (* while the reset is at its gate the run request waits and no run task exists *)
  (find_task (tasks s7) 1%nat = Some (CReset ex_o1, Z_G1) /\ find_task (tasks s7) 2%nat = Some (CRun, WaitLock1) /\
   runt s7 = None /\ c_stmt s7 = 2 /\ c_next s7 = 2) /\
  init_nos (history s) = [1; 10; 11] /\
  In (EvHook (mkHook HStartRun Running (Some 10) (Some 2) None)) (history s) /\
  In (EvRet 1 (CReset ex_o1) ROk) (history s) /\ In (EvRet 2 CRun ROk) (history s) /\
  In (EvRet 3 (CReset ex_o0) ROk) (history s) /\
  run_arg s = Some (mkRunArg 11 2 true false) /\ st_fsm s = Initialized.
Proof. vm_compute. repeat split; auto 60. Qed.

(** a refused reset (during a run) *)
Example C14_example_refused :
  let s := run_labels (init_state 1 1 true false)
             [Call 0 CStart; Step 0; Step 0; Step 0; Call 2 CRun; StepRun; StepRun; StepRun; Step 2; Step 2] in
  st_fsm s = Running /\
  In (EvRet 5 (CReset ex_o1) RMachineError) (appended s (step s (Call 5 (CReset ex_o1)))).
Proof. vm_compute. auto. Qed.

Print Assumptions C14_run_no_first.
Print Assumptions C14_run_no_consecutive.
Print Assumptions C14_init_record_block.
Print Assumptions C14_numbers_carried_run_no.
Print Assumptions C14_numbers_carried_initialized_info.
Print Assumptions C14_numbers_carried_run_info.
Print Assumptions C14_numbers_carried_end_run.
Print Assumptions C14_spec_latest_init_no.
Print Assumptions C14_numbers_carried_refuted.
Print Assumptions C14_executed_is_displayed.
Print Assumptions C14_run_arg_is_composer.
Print Assumptions C14_run_arg_is_composer_at_run_start.
Print Assumptions C14_no_run_during_reset.
Print Assumptions C14_reset_atomic.
Print Assumptions C14_reset_options_applied.
Print Assumptions C14_reset_refused_changes_nothing.
