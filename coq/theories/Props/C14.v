(** C14 -- runs are numbered uniquely and execute the script that is on display.
    Property theorems only; each is closed by [exact] of a lemma proved in
    Life/Numbering.v (from the step classification of Life/NumKind.v and the
    lock / state-machine invariants of Life/LockInv.v, Life/FsmInv.v).

    Model: Life/Model.v (the lifecycle LTS; RunArgComposer = [c_stmt c_next
    c_threads c_modules], Context.run_arg = [run_arg]).  Every statement
    quantifies over EVERY initial configuration and EVERY label list [ls]
    (= every history of calls from any number of tasks and every schedule of
    their atomic segments).

    Vocabulary (Life/Hist.v, Life/Numbering.v).  [history s] is the
    chronological list of observable events.  [is_init e n]: [e] is an
    on_initialize_run record carrying run number [n]; [no_init l]: no such
    record in [l].  For a chronological prefix [h]:
    [latest_init_no h] = number of the last on_initialize_run record in [h],
    [latest_statement h] = last published statement,
    [latest_run_info h] = (number, phase, statement) of the last published run info,
    [latest_initialized_info h] = (number, statement) of the last run info of
    phase `initialized`. *)
From NL Require Import Life.Model Life.LockInv Life.FsmInv Life.Hist Life.NumKind Life.Numbering.
Open Scope Z_scope.

(** ---- numbering ---- *)

(** the first initialisation carries the configured start number *)
Theorem C14_run_no_first : forall stmt start th md ls h1 e n h2,
  let s := run_labels (init_state stmt start th md) ls in
  history s = h1 ++ e :: h2 -> is_init e n -> no_init h1 -> n = start.
Proof. exact thm_first_init. Qed.

(** two consecutive initialisations carry n and n+1, unless a reset record
    asking for exactly the new number lies between them *)
Theorem C14_run_no_consecutive : forall stmt start th md ls h1 a n mid b m h2,
  let s := run_labels (init_state stmt start th md) ls in
  history s = h1 ++ a :: mid ++ b :: h2 -> is_init a n -> is_init b m -> no_init mid ->
  m = n + 1 \/ exists r, In (EvHook r) mid /\ h_hook r = HReset /\ h_start r = Some m.
Proof. exact thm_consecutive. Qed.

(** every on_initialize_run record carries a number and a statement and is
    immediately preceded by the publication of that run number and of the
    `initialized` run info with the same number and statement *)
Theorem C14_init_record_block : forall stmt start th md ls h1 r h2,
  let s := run_labels (init_state stmt start th md) ls in
  history s = h1 ++ EvHook r :: h2 -> h_hook r = HInitRun ->
  exists n x h0, h_runno r = Some n /\ h_stmt r = Some x /\
                 h1 = h0 ++ [EvPub (PRunNo n); EvPub (PRunInfo n RInitialized x None)].
Proof. exact thm_init_has_number. Qed.

(** ---- numbers carried (the statement as first written is false, see
    [C14_numbers_carried_refuted]; this is the strongest true form) ---- *)

(** a run-number publication is always the first event of an initialisation:
    it is followed by the `initialized` run info and the on_initialize_run
    record with the same number *)
Theorem C14_numbers_carried_run_no : forall stmt start th md ls h1 k h2,
  let s := run_labels (init_state stmt start th md) ls in
  history s = h1 ++ EvPub (PRunNo k) :: h2 ->
  exists x r h3, h2 = EvPub (PRunInfo k RInitialized x None) :: EvHook r :: h3 /\
                 h_hook r = HInitRun /\ h_runno r = Some k /\ h_stmt r = Some x.
Proof. exact thm_run_no_block. Qed.

Theorem C14_numbers_carried_initialized_info : forall stmt start th md ls h1 k x res h2,
  let s := run_labels (init_state stmt start th md) ls in
  history s = h1 ++ EvPub (PRunInfo k RInitialized x res) :: h2 ->
  exists r h3, h2 = EvHook r :: h3 /\ h_hook r = HInitRun /\ h_runno r = Some k /\ h_stmt r = Some x.
Proof. exact thm_initialized_info_block. Qed.

(** the `running` / `finished` run infos carry the number of the latest
    preceding on_initialize_run record (there is one) *)
Theorem C14_numbers_carried_run_info : forall stmt start th md ls h1 k ph x res h2,
  let s := run_labels (init_state stmt start th md) ls in
  history s = h1 ++ EvPub (PRunInfo k ph x res) :: h2 -> ph <> RInitialized -> latest_init_no h1 = Some k.
Proof. exact thm_carried_info. Qed.

(** on_end_run likewise (on_start_run: [C14_executed_is_displayed]) *)
Theorem C14_numbers_carried_end_run : forall stmt start th md ls h1 r h2,
  let s := run_labels (init_state stmt start th md) ls in
  history s = h1 ++ EvHook r :: h2 -> h_hook r = HEndRun ->
  exists n, h_runno r = Some n /\ latest_init_no h1 = Some n.
Proof. exact thm_carried_end. Qed.

(** what [latest_init_no] is: after a record with number n and no later one, it is n *)
Theorem C14_spec_latest_init_no : forall h1 a n mid,
  is_init a n -> no_init mid -> latest_init_no (h1 ++ a :: mid) = Some n.
Proof. exact t_init_after_init. Qed.

(** the statement as first written -- "every PRunNo k between an
    on_initialize_run record (number n) and the next one has k = n" -- fails:
    the publications of an initialisation precede its hook record *)
Theorem C14_numbers_carried_refuted :
  exists h1 a n mid k h2,
    history (run_labels (init_state 1 1 true false) refute_ls) = h1 ++ a :: mid ++ EvPub (PRunNo k) :: h2 /\
    is_init a n /\ no_init mid /\ k <> n.
Proof. exact carried_original_refuted. Qed.

(** ---- the run executes what is on display ---- *)

(** at every on_start_run record: it carries a number n and a statement x;
    the last published statement is x; the last on_initialize_run record has
    number n; the last `initialized` run info is (n, x); the last run info is
    (n, running, x) *)
Theorem C14_executed_is_displayed : forall stmt start th md ls h1 r h2,
  let s := run_labels (init_state stmt start th md) ls in
  history s = h1 ++ EvHook r :: h2 -> h_hook r = HStartRun ->
  exists n x, h_runno r = Some n /\ h_stmt r = Some x /\
    latest_statement h1 = Some x /\ latest_init_no h1 = Some n /\
    latest_initialized_info h1 = Some (n, x) /\ latest_run_info h1 = Some (n, RRunning, x).
Proof. exact thm_executed. Qed.

(** [run_arg] is what the composer holds (statement, flags, and the counter is
    one ahead) in every reachable state in which no reset is between
    enter_reset and its re-initialisation ... *)
Theorem C14_run_arg_is_composer : forall stmt start th md ls ra,
  let s := run_labels (init_state stmt start th md) ls in
  run_arg s = Some ra ->
  (forall t c p, find_task (tasks s) t = Some (c, p) -> zmid p = false) ->
  ra_stmt ra = c_stmt s /\ ra_threads ra = c_threads s /\ ra_modules ra = c_modules s /\ c_next s = ra_no ra + 1.
Proof. exact thm_composer. Qed.

(** ... in particular, unconditionally, whenever the run task has not finished
    (RT_New, RT_Created: the moment the child process is given [run_arg]) *)
Theorem C14_run_arg_is_composer_at_run_start : forall stmt start th md ls ra x,
  let s := run_labels (init_state stmt start th md) ls in
  runt s = Some x -> early x = true -> run_arg s = Some ra ->
  ra_stmt ra = c_stmt s /\ ra_threads ra = c_threads s /\ ra_modules ra = c_modules s /\ c_next s = ra_no ra + 1.
Proof. exact thm_composer_at_run_start. Qed.

(** no run starts or is in progress while a reset is half way
    ([early] = RT_New, RT_Created, RT_G_start, RT_WaitChild, RT_G_end) *)
Theorem C14_no_run_during_reset : forall stmt start th md ls t c p,
  let s := run_labels (init_state stmt start th md) ls in
  find_task (tasks s) t = Some (c, p) -> zmid p = true ->
  forall x, runt s = Some x -> early x = false.
Proof. exact thm_no_run_during_reset. Qed.

(** ---- a reset takes full effect or is refused ---- *)

(** when reset(o) returns normally the object is `initialized` and [run_arg]
    is the composer as it was when this reset began ([snapshot]: the composer
    fields just before the step that logged the latest reset record, which is
    this reset's: same statement / start options) with the options of [o]
    written over it *)
Theorem C14_reset_atomic : forall stmt start th md ls l t o,
  let s := run_labels (init_state stmt start th md) ls in
  let s' := step s l in
  In (EvRet t (CReset o) ROk) (appended s s') ->
  st_fsm s' = Initialized /\
  run_arg s' = Some (ra_of (merged (fst (snapshot stmt start th md ls)) o)) /\
  exists r, snd (snapshot stmt start th md ls) = Some r /\ h_hook r = HReset /\
            h_stmt r = o_stmt o /\ h_start r = o_start o.
Proof. exact thm_reset_ok. Qed.

(** spelled out for the options that were given *)
Theorem C14_reset_options_applied : forall stmt start th md ls l t o,
  let s := run_labels (init_state stmt start th md) ls in
  let s' := step s l in
  In (EvRet t (CReset o) ROk) (appended s s') ->
  exists ra, run_arg s' = Some ra /\
    (forall x, o_stmt o = Some x -> ra_stmt ra = x) /\
    (forall n, o_start o = Some n -> ra_no ra = n) /\
    (forall b, o_threads o = Some b -> ra_threads ra = b) /\
    (forall b, o_modules o = Some b -> ra_modules ra = b).
Proof. exact thm_reset_options. Qed.

(** a refused reset changes nothing and shows nothing: in the step in which it
    raises, composer and run_arg are unchanged and the only events appended
    are the call itself and its exception *)
Theorem C14_reset_refused_changes_nothing : forall stmt start th md ls l t o,
  let s := run_labels (init_state stmt start th md) ls in
  let s' := step s l in
  In (EvRet t (CReset o) RMachineError) (appended s s') ->
  comp s' = comp s /\ run_arg s' = run_arg s /\
  forall e, In e (appended s s') -> e = EvRet t (CReset o) RMachineError \/ call_ev e.
Proof. exact thm_reset_refused. Qed.

(** ---- non-vacuity ---- *)
Definition ex_o1 : opts := mkOpts (Some 2) (Some 10) None None.
Definition ex_o0 : opts := mkOpts None None None None.

(** start; reset(statement=2, run_no_start_from=10) by task 1, held at its
    first gate while task 2 requests run (it has to wait for the lock); the
    reset completes; the run starts with statement 2 / number 10 and
    finishes; a plain reset; run number 11 *)
Definition ex_ls : list label :=
  [Call 0 CStart; Step 0; Step 0; Step 0;
   Call 1 (CReset ex_o1); Call 2 CRun; Step 2; Step 1; Step 1; Step 1; Step 1;
   Step 2; StepRun; StepRun; StepRun; Step 2; Step 2;
   ChildExit OReturn; StepRun; StepRun; StepRun; StepRun;
   Call 3 (CReset ex_o0); Step 3; Step 3; Step 3].

Example C14_example_nonvacuous :
  let s := run_labels (init_state 1 1 true false) ex_ls in
  let s7 := run_labels (init_state 1 1 true false) (firstn 7 ex_ls) in
  (* while the reset is at its gate the run request waits and no run task exists *)
  (find_task (tasks s7) 1%nat = Some (CReset ex_o1, Z_G1) /\ find_task (tasks s7) 2%nat = Some (CRun, WaitLock1) /\
   runt s7 = None /\ c_stmt s7 = 2 /\ c_next s7 = 2) /\
  init_nos (history s) = [1; 10; 11] /\
  In (EvHook (mkHook HStartRun Running (Some 10) (Some 2) None)) (history s) /\
  In (EvRet 1 (CReset ex_o1) ROk) (history s) /\ In (EvRet 2 CRun ROk) (history s) /\
  In (EvRet 3 (CReset ex_o0) ROk) (history s) /\
  run_arg s = Some (mkRunArg 11 2 true false) /\ st_fsm s = Initialized.
Proof. vm_compute. repeat split; auto 60. Qed.

(** a refused reset (during a run) *)
Example C14_example_refused :
  let s := run_labels (init_state 1 1 true false)
             [Call 0 CStart; Step 0; Step 0; Step 0; Call 2 CRun; StepRun; StepRun; StepRun; Step 2; Step 2] in
  st_fsm s = Running /\
  In (EvRet 5 (CReset ex_o1) RMachineError) (appended s (step s (Call 5 (CReset ex_o1)))).
Proof. vm_compute. auto. Qed.

(** ---- tie of the composer part of the model to the source (Life/ArgTie.v) ----
    Gen/ArgComposer.v is regenerated from argument.py, count.py, types.py, spawned/types.py, main.py and the
    registrars run_no.py / run_info.py / script.py by translate/arg_composer.py on every run.  The functions of
    Life/Model.v that stand for RunArgComposer are EQUAL, for every state and every option record, to the
    transcribed ones ([get_comp]/[put_comp]: the four composer fields of a model state; [ropts]: the
    ResetOptions that Nextline.reset builds from the model's [opts]); so all theorems above are theorems about
    the transcribed code. *)
From NL Require Import Gen.ArgComposer Life.ArgTie.

Theorem C14_tie_init : forall stmt start th md,
  get_comp (init_state stmt start th md) = RunArgComposer_init (Nextline_init_options stmt start th md).
Proof. exact tie_init. Qed.

(** compose_run_arg, then what RunNoRegistrar / RunInfoRegistrar publish at on_initialize_run.
    Honest label: [gen_initialize_run] (Life/ArgTie.v) is a hand-written wrapper -- "compose once, store run_arg,
    RunNo before RunInfo, then the hook record" is the model's own glue ([set_run_arg]/[publish]/[log_hook]; the order of
    the plugins is Gen/HookOrder.v's business, Callback.initialize_run is Gen/CallbackSkeleton.v's); what comes from the
    source here is the RunArg value, the composer after the call and the two publication lists, with
    isinstance(statement, str) = true only (the model's statements are scripts) *)
Theorem C14_tie_initialize_run : forall s, initialize_run s = gen_initialize_run s.
Proof. exact tie_initialize_run. Qed.

Theorem C14_tie_enter_start : forall s t c, Some (enter_start s t c) = gen_enter_start s t c.
Proof. exact tie_enter_start. Qed.

Theorem C14_tie_start_resume : forall c,
  exists k, RunArgComposer_start c = Await c (OnChangeScript (a_statement c) (a_filename c)) k /\
            forall c', k c' = Ret c'.
Proof. exact tie_start_resume. Qed.

(** the reset hook up to its first suspension (the nested on_change_script, or its end) *)
Theorem C14_tie_enter_reset : forall s t o, Some (enter_reset s t o) = gen_enter_reset s t o.
Proof. exact tie_enter_reset. Qed.

(** ... and its continuation after the gate, applied to the state as it is then *)
Theorem C14_tie_resume_reset : forall s0 s o, o_stmt o <> None -> Some (apply_rest s o) = gen_resume_reset s0 s o.
Proof. exact tie_resume_reset. Qed.

Theorem C14_tie_reset_whole : forall s o,
  model_reset s o = put_comp s (finish (RunArgComposer_reset (get_comp s) (ropts o))).
Proof. exact tie_reset_whole. Qed.

Theorem C14_tie_registrars : forall ra cx x,
  decode_res (ScriptRegistrar_on_change_script cx x SCRIPT_FILE_NAME) = Some [PStatement x] /\
  decode_res (RunNoRegistrar_on_initialize_run (HookContext_mk (Some ra))) = Some [PRunNo (rg_run_no ra)] /\
  decode_res (RunInfoRegistrar_on_initialize_run (HookContext_mk (Some ra)) true)
    = Some [PRunInfo (rg_run_no ra) RInitialized (rg_statement ra) None].
Proof. exact tie_registrars. Qed.

(** `assert context.run_arg` in the two registrars is a raising branch of the translation *)
Theorem C14_tie_registrars_assert : forall b,
  RunNoRegistrar_on_initialize_run (HookContext_mk None) = None /\
  RunInfoRegistrar_on_initialize_run (HookContext_mk None) b = None.
Proof. exact registrars_assert. Qed.

(** start and reset contain no assert that can fail ([Raise] is what an assert translates to) *)
Theorem C14_tie_never_raises : forall c o,
  raises (RunArgComposer_reset c o) = false /\ raises (RunArgComposer_start c) = false /\
  (forall c1 k, RunArgComposer_reset c o = Await (set_statement c (dflt (a_statement c) (ro_statement o)))
                                             (OnChangeScript (dflt (a_statement c) (ro_statement o)) (a_filename c)) k ->
                raises (k c1) = false).
Proof. exact never_raises. Qed.

(** exceptions / cancellation at the nested await.  NOT a statement about the model: Life/Model.v has no label for a
    raising hook or a cancelled transition (raising user plugins are excluded, DESIGN 6.1; the lock of imp.py keeps other
    calls out).  On the transcribed code (which has no try/with -- the translator refuses them): if on_change_script
    raises inside reset, or the task is cancelled there, the composer is left with the new statement and none of the
    other options, and the exception leaves reset() *)
Theorem C14_tie_reset_interrupted_at_hook : forall c o,
  interrupted_at_hook (RunArgComposer_reset c o) = option_map (set_statement c) (ro_statement o).
Proof. exact reset_interrupted_at_hook. Qed.

(** a reset applies exactly the given options (an explicit False / 0 included) and nothing else *)
Theorem C14_tie_reset_exact : forall c o,
  let c' := finish (RunArgComposer_reset c o) in
  a_statement c' = dflt (a_statement c) (ro_statement o) /\
  a_run_no_count c' = dflt (a_run_no_count c) (ro_run_no_start_from o) /\
  a_trace_threads c' = dflt (a_trace_threads c) (ro_trace_threads o) /\
  a_trace_modules c' = dflt (a_trace_modules c) (ro_trace_modules o) /\
  a_filename c' = a_filename c.
Proof. exact reset_exact. Qed.

(** on_change_script is awaited iff a statement is given, showing that statement, when only the statement has
    been stored; the other options are applied after it to the composer as it is then *)
Theorem C14_tie_reset_hook_position : forall c o,
  match ro_statement o with
  | Some x => exists k, RunArgComposer_reset c o = Await (set_statement c x) (OnChangeScript x (a_filename c)) k /\
                        forall c1, exists c2, k c1 = Ret c2 /\
                          a_statement c2 = a_statement c1 /\
                          a_run_no_count c2 = dflt (a_run_no_count c1) (ro_run_no_start_from o) /\
                          a_trace_threads c2 = dflt (a_trace_threads c1) (ro_trace_threads o) /\
                          a_trace_modules c2 = dflt (a_trace_modules c1) (ro_trace_modules o) /\
                          a_filename c2 = a_filename c1
  | None => exists c2, RunArgComposer_reset c o = Ret c2
  end.
Proof. exact reset_hook_position. Qed.

Theorem C14_tie_reset_no_options_is_identity : forall c,
  finish (RunArgComposer_reset c ResetOptions_defaults) = c /\ hooks_in (RunArgComposer_reset c ResetOptions_defaults) = [].
Proof. exact reset_no_options_is_identity. Qed.

(** compose_run_arg consumes exactly one number and copies the other attributes *)
Theorem C14_tie_compose_one : forall c,
  let '(ra, c') := RunArgComposer_compose_run_arg c in
  rg_run_no ra = a_run_no_count c /\ rg_statement ra = a_statement c /\ rg_filename ra = Some (a_filename c) /\
  rg_trace_threads ra = a_trace_threads c /\ rg_trace_modules ra = a_trace_modules c /\
  c' = set_run_no_count c (a_run_no_count c + 1).
Proof. exact compose_one. Qed.

(** the numbers handed out by n initialisations in a row are consecutive: from the configured start of a new
    object, from the restart value after a reset that gives one, going on after a reset that gives none *)
Theorem C14_tie_numbers_from_init : forall n io,
  fst (compose_n n (RunArgComposer_init io)) = map (fun i => io_run_no_start_from io + Z.of_nat i) (seq 0 n).
Proof. exact numbers_from_init. Qed.

Theorem C14_tie_numbers_after_restart : forall n c o start,
  ro_run_no_start_from o = Some start ->
  fst (compose_n n (finish (RunArgComposer_reset c o))) = map (fun i => start + Z.of_nat i) (seq 0 n).
Proof. exact numbers_after_restart. Qed.

Theorem C14_tie_numbers_after_plain_reset : forall n c o,
  ro_run_no_start_from o = None ->
  fst (compose_n n (finish (RunArgComposer_reset c o))) = map (fun i => a_run_no_count c + Z.of_nat i) (seq 0 n).
Proof. exact numbers_after_plain_reset. Qed.

(** defaults and argument wiring of Nextline(...) / Nextline.reset(...): [Nextline_init_options] / [Nextline_reset_options]
    are the record HANDED to Imp(...) / Imp.reset(...), computed by the translated statement lists of the two methods
    (a store through the record, an `if`, a re-binding by an untranslatable expression are refused by the translator);
    Imp.__init__ -> hook.init and Imp.reset -> the reset hook are NOT followed here (imp.py, fsm/) *)
Theorem C14_tie_defaults :
  (forall stmt, Nextline_init_options stmt Nextline_init_default_run_no_start_from
                  Nextline_init_default_trace_threads Nextline_init_default_trace_modules
                = InitOptions_defaults stmt) /\
  (forall stmt, cfields_of (RunArgComposer_init (InitOptions_defaults stmt)) = (stmt, 1, false, false)) /\
  Nextline_reset_options Nextline_reset_default_statement Nextline_reset_default_run_no_start_from
    Nextline_reset_default_trace_threads Nextline_reset_default_trace_modules = ResetOptions_defaults /\
  ResetOptions_defaults = ResetOptions_kw None None None None /\
  RunNoCounter_default_start = 1.
Proof. exact tie_defaults. Qed.

Theorem C14_tie_option_wiring :
  (forall a b c d, Nextline_init_options a b c d = InitOptions_kw a b c d) /\
  (forall a b c d, Nextline_reset_options a b c d = ResetOptions_kw a b c d).
Proof. exact tie_option_wiring. Qed.

(** [C14_reset_atomic] read on the transcribed code: when reset(o) returns normally, [run_arg] is the
    transcribed compose_run_arg of the transcribed reset of the composer as it was when this reset began *)
Theorem C14_tie_reset_atomic : forall stmt start th md ls l t o,
  let s := run_labels (init_state stmt start th md) ls in
  let s' := step s l in
  In (EvRet t (CReset o) ROk) (appended s s') ->
  st_fsm s' = Initialized /\
  run_arg s' = Some (runarg_of (fst (RunArgComposer_compose_run_arg
                 (finish (RunArgComposer_reset (composer_of (fst (snapshot stmt start th md ls))) (ropts o)))))).
Proof. exact reset_atomic_gen. Qed.

(** non-vacuity on the transcribed functions: reset(trace_threads=False) switches thread tracing off;
    reset(statement=2, run_no_start_from=3) given at counter value 3 restarts at 3 *)
Example C14_tie_example :
  a_trace_threads (finish (RunArgComposer_reset (Composer_mk 3 1 SCRIPT_FILE_NAME true true)
                                                 (ResetOptions_kw None None (Some false) None))) = false /\
  fst (compose_n 3 (finish (RunArgComposer_reset (Composer_mk 3 1 SCRIPT_FILE_NAME true true)
                                                  (ResetOptions_kw (Some 2) (Some 3) None None)))) = [3; 4; 5].
Proof. exact reset_false_is_applied. Qed.

Print Assumptions C14_run_no_first.
Print Assumptions C14_run_no_consecutive.
Print Assumptions C14_init_record_block.
Print Assumptions C14_numbers_carried_run_no.
Print Assumptions C14_numbers_carried_initialized_info.
Print Assumptions C14_numbers_carried_run_info.
Print Assumptions C14_numbers_carried_end_run.
Print Assumptions C14_spec_latest_init_no.
Print Assumptions C14_numbers_carried_refuted.
Print Assumptions C14_executed_is_displayed.
Print Assumptions C14_run_arg_is_composer.
Print Assumptions C14_run_arg_is_composer_at_run_start.
Print Assumptions C14_no_run_during_reset.
Print Assumptions C14_reset_atomic.
Print Assumptions C14_reset_options_applied.
Print Assumptions C14_reset_refused_changes_nothing.
Print Assumptions C14_tie_init.
Print Assumptions C14_tie_initialize_run.
Print Assumptions C14_tie_enter_start.
Print Assumptions C14_tie_start_resume.
Print Assumptions C14_tie_enter_reset.
Print Assumptions C14_tie_resume_reset.
Print Assumptions C14_tie_reset_whole.
Print Assumptions C14_tie_registrars.
Print Assumptions C14_tie_reset_exact.
Print Assumptions C14_tie_reset_hook_position.
Print Assumptions C14_tie_reset_no_options_is_identity.
Print Assumptions C14_tie_compose_one.
Print Assumptions C14_tie_numbers_from_init.
Print Assumptions C14_tie_numbers_after_restart.
Print Assumptions C14_tie_numbers_after_plain_reset.
Print Assumptions C14_tie_defaults.
Print Assumptions C14_tie_option_wiring.
Print Assumptions C14_tie_reset_atomic.
Print Assumptions C14_tie_example.
Print Assumptions C14_tie_registrars_assert.
Print Assumptions C14_tie_never_raises.
Print Assumptions C14_tie_reset_interrupted_at_hook.
