(** C05 -- prompts appear exactly at the executed lines of the user's script, in order.

    Model: Bdb/Model.v -- the raw trace-event stream of one thread/task is the INPUT
    (every list of events; no bound on length, depth, number of frames); the filter
    chain is evaluated over the GENERATED registration order (Gen/ChildHookOrder.v,
    Gen/SkipList.v).  Property theorems only; proofs in Bdb/{Basics,Filters,StepMode,
    ContinueMode,NextMode,NextProps}.v.

    Proved at full strength: C05_filters (all four filter clauses), C05_threads_off, C05_step.
    Three clauses do NOT hold of the faithful model; each is refuted with a concrete stream
    (re-established against the real code on every run by harness/props/c05.py; the signatures
    are KNOWN FINDINGS) and the strongest statement that holds is proved as _partial:
      C05_callable_refuted   module tracing off, callable statement: its module is not
                             _script, nothing is ever prompted
      C05_next_refuted       all-next: after an exception event whose traceback goes
                             into a callee, while botframe is not on the f_back chain,
                             Pdb selects the dead callee frame; the stepped frame is
                             never prompted again          -> C05_next_partial (hyp. simple_tb)
      C05_continue_refuted   all-continue: botframe is a generator/coroutine frame;
                             StopIteration events prompt again
                                                           -> C05_continue_partial (hyp. not_gen_frame) *)
From NL Require Import Bdb.Model Bdb.Basics Bdb.Filters Bdb.StepMode Bdb.ContinueMode Bdb.NextMode Bdb.NextProps.
From NL Require Bdb.Options.
From NL Require Bdb.Interp Gen.BdbFuns Bdb.Tie Bdb.TieProps.
Open Scope list_scope.
Open Scope Z_scope.

(** every prompt is at an event of the stream (same kind, line, frame); that event is never in a
    frame whose code name is <lambda>; with module tracing off it is in the script module; with module
    tracing on it is not in a skip-listed module.  (Hypothesis: a frame's module and code name do not
    change during its life.) *)
Theorem C05_filters : forall c pol evs p,
  frame_attrs_const evs -> In p (prompts c pol evs) ->
  exists e, nth_error evs (p_idx p) = Some e /\
            p_kind p = e_kind e /\ p_line p = e_line e /\ p_fid p = e_fid e /\
            e_lam e = false /\
            (c_modules c = false -> e_mc e = MScript) /\
            (c_modules c = true -> e_mc e <> MSkip).
Proof. exact filters_full. Qed.

(** no prompt (and no trace call) in a thread other than the main one when thread tracing is off.
    By construction: this is the [else] branch of [run] ([stream_traced c = c_main c || c_threads c]).  The content of the
    clause -- sys_trace installs threading.settrace only if trace_threads -- rests on the tie (correspondence runs with
    trace_threads off: no trace for any non-main thread), not on this theorem. *)
Theorem C05_threads_off : forall c pol evs,
  c_threads c = false -> c_main c = false -> prompts c pol evs = [] /\ trace_calls c pol evs = [].
Proof. exact no_prompt_in_untraced_thread. Qed.

(** program  f = lambda: 1 ; f()  under all-step, module tracing off *)
Definition ev (k : kind) (f : Z) (p : option Z) (l : Z) (mc : mclass) (lam gen : bool) : event :=
  mkE k f p l mc 0 lam gen noX.
Definition cfg_off : cfg := mkC true false true true [].
Definition cfg_on : cfg := mkC true true true true [].

Definition lambda_stream : list event :=
  [ev KCall 1 (Some 0) 0 MScript false false; ev KLine 1 (Some 0) 1 MScript false false;
   ev KLine 1 (Some 0) 2 MScript false false;
   ev KCall 2 (Some 1) 1 MScript true false; ev KLine 2 (Some 1) 1 MScript true false;
   ev KReturn 2 (Some 1) 1 MScript true false; ev KReturn 1 (Some 0) 2 MScript false false].

(** regression (repaired in /repo e4beda9): no prompt inside the lambda, for both settings *)
Example C05_lambda_regression :
  map p_idx (prompts cfg_off (all Step) lambda_stream) = [1; 2; 6]%nat /\
  map p_idx (prompts cfg_on (all Step) lambda_stream) = [1; 2; 6]%nat.
Proof. vm_compute. auto. Qed.

(** a callable statement: the user's lines are in a module that is not _script *)
Definition callable_stream : list event :=
  [ev KCall 1 (Some 0) 1 MLib false false; ev KLine 1 (Some 0) 2 MLib false false;
   ev KLine 1 (Some 0) 3 MLib false false; ev KReturn 1 (Some 0) 3 MLib false false].

Theorem C05_callable_refuted :
  exists evs, (exists e, In e evs /\ e_kind e = KLine) /\
              prompts cfg_off (all Step) evs = [] /\
              map p_idx (prompts cfg_on (all Step) evs) = [1; 2; 3]%nat.
Proof.
  exists callable_stream. split; [exists (ev KLine 1 (Some 0) 2 MLib false false); simpl; auto |].
  vm_compute. auto.
Qed.

(** all-next: B is being stepped (prompts at 3, 4); at the exception event 6 the traceback goes
    into the callee C and botframe (100) is not on B's f_back chain; the line event 7 of B --
    B has not returned -- is not prompted *)
Definition next_stream : list event :=
  [ev KCall 1 (Some 100) 1 MScript false false; ev KLine 1 (Some 100) 2 MScript false false;
   ev KReturn 1 (Some 100) 2 MScript false false;
   ev KCall 2 (Some 101) 5 MScript false false; ev KLine 2 (Some 101) 6 MScript false false;
   ev KCall 3 (Some 2) 1 MScript false false;
   mkE KException 2 (Some 101) 6 MScript 0 false false (mkX false false false (Some 3) 2 (Some 2) false);
   ev KLine 2 (Some 101) 7 MScript false false].

Theorem C05_next_refuted :
  exists evs i j f e,
    In i (map p_idx (prompts cfg_off (all Next) evs)) /\ (i < j)%nat /\
    nth_error evs j = Some e /\ e_kind e = KLine /\ e_fid e = f /\
    (exists e0, nth_error evs i = Some e0 /\ e_fid e0 = f) /\
    (forall e1, In e1 evs -> e_fid e1 = f -> e_kind e1 <> KReturn) /\
    ~ In j (map p_idx (prompts cfg_off (all Next) evs)).
Proof.
  exists next_stream, 4%nat, 7%nat, 2, (ev KLine 2 (Some 101) 7 MScript false false).
  split; [vm_compute; auto 10|]. split; [lia|]. split; [reflexivity|]. split; [reflexivity|]. split; [reflexivity|].
  split; [eexists; split; reflexivity|]. split.
  - intros e1 H1 Hf. simpl in H1. repeat (destruct H1 as [H1|H1]; [subst e1; simpl in *; try discriminate|]); try contradiction.
  - vm_compute. intuition discriminate.
Qed.

(** all-continue: the first accepted frame (11) is called from a coroutine frame (10) of a library
    (asyncio.wait_for): botframe = 10; after `continue` a StopIteration event in 11 prompts again *)
Definition continue_stream : list event :=
  [ev KCall 10 (Some 9) 400 MSkip false true;
   ev KCall 11 (Some 10) 2 MScript false true; ev KLine 11 (Some 10) 3 MScript false true;
   ev KLine 11 (Some 10) 4 MScript false true;
   mkE KException 11 (Some 10) 4 MScript 0 false true (mkX true false false (Some 11) 4 (Some 10) true);
   ev KLine 11 (Some 10) 5 MScript false true].

Theorem C05_continue_refuted :
  exists evs, (1 < List.length (prompts cfg_off (all Continue) evs))%nat.
Proof. exists continue_stream. vm_compute. lia. Qed.

(** the filter chain is COMPLETE: in terms of the event's own attributes only ([accept_attr], Bdb/Filters.v -- no plugin,
    no registration order, no pluggy), the chain rejects an event iff [accept_attr] does not accept it ... *)
Theorem C05_filter_complete : forall c e fs,
  rejected c e fs = (negb (fst (accept_attr c e fs)), snd (accept_attr c e fs)).
Proof. exact filter_complete. Qed.

(** ... in particular, module tracing off: an event of the script module that is not in a lambda IS accepted; *)
Theorem C05_filter_complete_modules_off : forall c e fs,
  c_modules c = false -> e_mc e = MScript -> e_lam e = false -> fst (rejected c e fs) = false.
Proof. exact accepted_modules_off. Qed.

(** module tracing on: an event that is not skip-listed and not in a lambda IS accepted once its thread/task is entered
    (already traced, or its module is one of the modules to trace, or it is the first event of the entering thread) *)
Theorem C05_filter_complete_modules_on : forall c e fs,
  c_modules c = true -> e_mc e <> MSkip -> e_lam e = false ->
  (f_traced fs = true \/ existsb (Z.eqb (e_mod e)) (f_mods fs) = true \/ (f_first fs = false /\ c_entering c = true)) ->
  fst (rejected c e fs) = false.
Proof. exact accepted_modules_on. Qed.

(** all-step: the prompted line events are exactly the line events of the frames entered by an accepted call, in order,
    where "accepted" is [accept_attr]: written with e_mc / e_lam / e_mod and the thread's entered-state only *)
Theorem C05_step : forall c evs,
  stream_traced c = true ->
  map p_idx (filter (fun p => match p_kind p with KLine => true | _ => false end) (prompts c (all Step) evs))
  = step_spec_attr c 0%nat (s_filter (init c)) [] evs.
Proof. exact step_lines_attr. Qed.

(** module tracing off, no state at all: every line event of every frame entered by a call in the script module and not
    in a lambda is prompted, in order, and no other line event *)
Theorem C05_step_modules_off : forall c evs,
  stream_traced c = true -> c_modules c = false ->
  map p_idx (filter (fun p => match p_kind p with KLine => true | _ => false end) (prompts c (all Step) evs))
  = script_lines 0%nat [] evs.
Proof. exact step_lines_off. Qed.

(** corollary, the earlier formulation: the same list computed with the filter chain itself *)
Theorem C05_step_filter_chain : forall c evs,
  stream_traced c = true ->
  map p_idx (filter (fun p => match p_kind p with KLine => true | _ => false end) (prompts c (all Step) evs))
  = step_spec c 0%nat (s_filter (init c)) [] evs.
Proof. exact step_lines. Qed.

(** all-continue, PARTIAL.  Hypothesis added (excludes known finding 4): the frame [b] below the
    first accepted frame exists and is never entered as a generator/coroutine frame.  [pre] = the
    events before the first accepted call (every call in it is rejected), [e0] that call, [l] the
    line event that follows it: exactly one prompt, at that line, none after. *)
Theorem C05_continue_partial : forall c pre e0 l post b fs1,
  stream_traced c = true ->
  skip_pre c (s_filter (init c)) pre = Some fs1 ->
  e_kind e0 = KCall -> fst (rejected c e0 fs1) = false -> e_par e0 = Some b ->
  e_kind l = KLine -> e_fid l = e_fid e0 ->
  not_gen_frame b (pre ++ e0 :: l :: post) ->
  prompts c (all Continue) (pre ++ e0 :: l :: post) = [mkP (S (List.length pre)) KLine (e_line l) (e_fid l)].
Proof. exact continue_once. Qed.

(** all-next, PARTIAL.  Hypothesis added (excludes known finding 3): [simple_tb] -- at every event the
    frame Pdb selects is the event's frame (no exception event whose traceback goes into another
    frame).  The debugger then refines the small history automaton [next_spec] (NextMode.v) ... *)
Theorem C05_next_partial : forall c evs,
  (forall e, In e evs -> simple_tb e) -> prompts c (all Next) evs = next_spec c evs.
Proof. exact next_refines. Qed.

(** ... and, in the words of the property: if frame [f] (not a generator) is prompted at [ei] (not its
    return) and [ej] is the next event of [f], then NOTHING in between is prompted -- nothing inside
    the calls it makes -- *)
Theorem C05_next_nothing_inside_calls : forall c pre mid post ei ej f,
  (forall e, In e (pre ++ ei :: mid ++ ej :: post) -> simple_tb e) ->
  e_fid ei = f -> (forall e, In e mid -> e_fid e <> f) ->
  (forall e, In e (pre ++ [ei]) -> e_kind e = KCall -> e_fid e = f -> e_gen e = false) ->
  e_kind ei <> KReturn ->
  In (List.length pre) (map p_idx (prompts c (all Next) (pre ++ ei :: mid ++ ej :: post))) ->
  forall k, (List.length pre < k < S (List.length pre) + List.length mid)%nat ->
  ~ In k (map p_idx (prompts c (all Next) (pre ++ ei :: mid ++ ej :: post))).
Proof. exact next_nothing_inside. Qed.

(** ... [ej] itself is prompted if it is a line: every line of the frame being stepped ... *)
Theorem C05_next_every_line : forall c pre mid post ei ej f,
  (forall e, In e (pre ++ ei :: mid ++ ej :: post) -> simple_tb e) ->
  e_fid ei = f -> e_fid ej = f -> (forall e, In e mid -> e_fid e <> f) ->
  (forall e, In e (pre ++ [ei]) -> e_kind e = KCall -> e_fid e = f -> e_gen e = false) ->
  e_kind ei <> KReturn ->
  In (List.length pre) (map p_idx (prompts c (all Next) (pre ++ ei :: mid ++ ej :: post))) ->
  e_kind ej = KLine -> 0 <= e_line ej ->
  In (S (List.length pre) + List.length mid)%nat (map p_idx (prompts c (all Next) (pre ++ ei :: mid ++ ej :: post))).
Proof. exact next_line_prompted. Qed.

(** ... and after the prompt of a return, the next line of a frame prompted before (its caller) is prompted *)
Theorem C05_next_after_return : forall c pre ei ej post p,
  (forall e, In e (pre ++ ei :: ej :: post) -> simple_tb e) ->
  e_kind ei = KReturn -> In (List.length pre) (map p_idx (prompts c (all Next) (pre ++ ei :: ej :: post))) ->
  e_kind ej = KLine ->
  In p (prompts c (all Next) (pre ++ ei :: ej :: post)) -> p_fid p = e_fid ej -> (p_idx p < List.length pre)%nat ->
  In (S (List.length pre)) (map p_idx (prompts c (all Next) (pre ++ ei :: ej :: post))).
Proof. exact next_after_return. Qed.

(** the options in force for a run (the RunArg the child receives): each of trace_threads / trace_modules
    is the last value explicitly given to reset(), else the constructor's value (Bdb/Options.v; compared with
    the real Nextline object on random option histories on every run) *)
Theorem C05_options_in_force : forall (hist : list (option bool)) (init : bool),
  Bdb.Options.in_force init hist =
  match Bdb.Options.last_given hist with Some v => v | None => init end.
Proof. exact (@Bdb.Options.opts_last_given bool). Qed.

Example C05_options_example :
  Bdb.Options.in_force true [None; Some false; None] = false /\
  Bdb.Options.in_force false [Some true; Some false; Some true; None] = true.
Proof. vm_compute. auto. Qed.

(** non-vacuity: def f(a): b = a + 1; return b / x = f(1) -- all-step prompts at every line,
    all-next not inside f, all-continue once *)
Definition ex_stream : list event :=
  [ev KCall 1 (Some 0) 0 MScript false false; ev KLine 1 (Some 0) 1 MScript false false;
   ev KLine 1 (Some 0) 4 MScript false false;
   ev KCall 2 (Some 1) 1 MScript false false; ev KLine 2 (Some 1) 2 MScript false false;
   ev KLine 2 (Some 1) 3 MScript false false; ev KReturn 2 (Some 1) 3 MScript false false;
   ev KLine 1 (Some 0) 5 MScript false false; ev KReturn 1 (Some 0) 5 MScript false false].

Example C05_example_nonvacuous :
  frame_attrs_const ex_stream /\
  map p_idx (prompts cfg_off (all Step) ex_stream) = [1; 2; 3; 4; 5; 6; 7; 8]%nat /\
  script_lines 0%nat [] ex_stream = [1; 2; 4; 5; 7]%nat /\
  map p_idx (prompts cfg_off (all Next) ex_stream) = [1; 2; 7; 8]%nat /\
  map p_idx (prompts cfg_off (all Continue) ex_stream) = [1]%nat /\
  (* hypotheses of C05_continue_partial: pre = [], e0 = the call of <module>, l = its first line, b = 0 *)
  skip_pre cfg_off (s_filter (init cfg_off)) [] = Some (s_filter (init cfg_off)) /\
  fst (rejected cfg_off (ev KCall 1 (Some 0) 0 MScript false false) (s_filter (init cfg_off))) = false /\
  not_gen_frame 0 ex_stream /\
  (* hypotheses of the C05_next_* theorems: ei = line 4 of <module> (index 2, calls f), mid = the four
     events of f, ej = line 5 of <module> (index 7) *)
  (forall e, In e ex_stream -> simple_tb e) /\
  In 2%nat (map p_idx (prompts cfg_off (all Next) ex_stream)) /\
  next_spec cfg_off ex_stream = prompts cfg_off (all Next) ex_stream.
Proof.
  split.
  - intros e1 e2 H1 H2. simpl in H1, H2.
    repeat (destruct H1 as [H1|H1]; [subst e1|]); try contradiction;
    repeat (destruct H2 as [H2|H2]; [subst e2|]); try contradiction; simpl; intro; try discriminate; auto.
  - split; [vm_compute; reflexivity|]. split; [vm_compute; reflexivity|]. split; [vm_compute; reflexivity|].
    split; [vm_compute; reflexivity|]. split; [reflexivity|]. split; [vm_compute; reflexivity|].
    split.
    { intros e H K F. simpl in H. repeat (destruct H as [H|H]; [subst e; simpl in *; try discriminate|]); try contradiction. }
    split.
    { intros e H. simpl in H. repeat (destruct H as [H|H]; [subst e; exact I|]). contradiction. }
    split; [vm_compute; auto|]. vm_compute. reflexivity.
Qed.

(** ---- TIE: theorems about the REGENERATED code (Gen/BdbFuns.v, translate/bdb_funs.py: the installed CPython
    bdb.py; custom.py, factory.py, filter.py, plugins/__init__.py, global_.py, utils.py, call.py of /repo) interpreted
    by Bdb/Interp.v; proofs in Bdb/Tie.v, Bdb/TieFilter.v, Bdb/TieProps.v.  Each says: for ALL debugger states, frames and events the
    interpretation of the current source is never stuck and equals the function of the hand-written Bdb/Model.v. *)
Section Tie.
Import Bdb.Interp Gen.BdbFuns Bdb.Tie Bdb.TieProps.
Local Open Scope string_scope.

(** Bdb.stop_here *)
Theorem C05_tie_stop_here : forall e user s f vw,
  call methods e user FUEL "stop_here" [VFrame f (Some vw)] s
  = Some (VBool (stop_here (s_dbg (i_st s)) f (v_line vw)), s).
Proof. exact tie_stop_here. Qed.

(** Bdb._set_stopinfo (quitting is reset, the default stoplineno is 0) *)
Theorem C05_tie_set_stopinfo : forall e user st fr q out sf rf ln,
  call methods e user FUEL "_set_stopinfo" [of_opt sf; of_opt rf; VInt ln] (mkI st fr q out)
  = Some (VNone, mkI (set_dbg st (set_stopinfo (s_dbg st) sf rf ln)) fr false out).
Proof. exact tie_set_stopinfo. Qed.

(** the five commands: Bdb.set_step / set_next / set_return / set_until and CustomizedPdb.set_continue (the override
    shadows Bdb.set_continue: no sys.settrace(None), no f_trace deleted) on the frame Pdb selected *)
Theorem C05_tie_commands : forall c e st returning out,
  run_cmd methods e c (cur_val st e) (mkI st (fr_of e returning) false out)
  = Some (mkI (apply_cmd c st e returning) (fr_of e returning) false out).
Proof. exact tie_commands. Qed.

(** Bdb.user_X -> Pdb.interaction -> CustomizedPdb.cmdloop inside CmdloopHook: one prompt and one command when the
    event came through a WithContext closure, NOTHING (no prompt, no change of the stop info) otherwise *)
Theorem C05_tie_interaction : forall pol i w e returning st out,
  interact pol i w e (mkI st (fr_of e returning) false out)
  = Some (let '(st', p) := interaction pol i w returning st e in
          mkI st' (fr_of e returning) false (app out (opt_list p))).
Proof. exact tie_interaction. Qed.

(** the four dispatch functions *)
Theorem C05_tie_dispatch_line : forall pol i w st e,
  dcall pol i w e "dispatch_line" [eframe e] st = (let '(st', p) := dispatch_line pol i w st e in res VTrace st' p).
Proof. exact tie_dispatch_line. Qed.

Theorem C05_tie_dispatch_call : forall pol i st e,
  dcall pol i true e "dispatch_call" [eframe e; VArg] st
  = (let '(st', p, t) := dispatch_call pol i st e in res (if t then VTrace else VNone) st' p).
Proof. exact tie_dispatch_call. Qed.

Theorem C05_tie_dispatch_return : forall pol i w st e,
  dcall pol i w e "dispatch_return" [eframe e; VArg] st = (let '(st', p) := dispatch_return pol i w st e in res VTrace st' p).
Proof. exact tie_dispatch_return. Qed.

Theorem C05_tie_dispatch_exception : forall pol i w st e,
  dcall pol i w e "dispatch_exception" [eframe e; VArg] st = (let '(st', p) := dispatch_exception pol i w st e in res VTrace st' p).
Proof. exact tie_dispatch_exception. Qed.

(** Bdb.trace_dispatch (the function factory.py installs for every trace) selects them by the event name *)
Theorem C05_tie_trace_dispatch : forall pol i w st e,
  (e_kind e = KCall -> w = true) ->
  dcall pol i w e "trace_dispatch" [eframe e; VStr (kname (e_kind e)); VArg] st = expected pol i w st e.
Proof. exact tie_trace_dispatch. Qed.

(** CustomizedPdb.__init__: botframe None, stop info (None, None, 0) *)
Theorem C05_tie_init : forall c e user st fr q out,
  exec methods e user FUEL (m_body custom_init) [] (mkI st fr q out)
  = Some (ONext, [], mkI (set_dbg st (s_dbg (init c))) fr false out).
Proof. exact tie_init. Qed.

(** PIN (no interpretation): the methods CustomizedPdb defines besides __init__; the translator refuses any other one *)
Theorem C05_tie_overrides :
  forallb (fun x => existsb (String.eqb x) ["_cmdloop"; "cmdloop"; "set_continue"]) custom_overrides = true
  /\ existsb (String.eqb "set_continue") custom_overrides = true
  /\ existsb (String.eqb "cmdloop") custom_overrides = true.
Proof. exact tie_overrides. Qed.

(** filter.py: each `filter` implementation; plugins/__init__.py register(): the registration order; pluggy's LIFO,
    trylast-last, first-result rule over them; GlobalTraceFunc.global_trace_func *)
Theorem C05_tie_filter_class : forall f c e s,
  match find_class (fname_str f) filter_classes with Some k => run_class c e k s | None => None end
  = Some (run_filter c f e s).
Proof. exact tie_filter_class. Qed.

Theorem C05_tie_registered : forall c,
  map (fun kt => (fc_name (fst kt), snd kt)) (iregistered (c_modules c))
  = map (fun ft => (fname_str (fst ft), snd ft)) (registered c).
Proof. exact tie_registered. Qed.

Theorem C05_tie_first_result : forall c e s,
  ichain filter_classes register_prog c e s = Some (first_result c (call_order (registered c)) e s).
Proof. exact tie_first_result. Qed.

Theorem C05_tie_rejected : forall c e s,
  irejected filter_classes register_prog global_trace_prog c e s = Some (rejected c e s).
Proof. exact tie_rejected. Qed.

(** ... and against the attribute-level specification [accept_attr] directly (no second translator involved) *)
Theorem C05_tie_filter_chain_attr : forall c e fs,
  irejected filter_classes register_prog global_trace_prog c e fs
  = Some (negb (fst (accept_attr c e fs)), snd (accept_attr c e fs)).
Proof. exact tie_filter_chain_attr. Qed.

Theorem C05_tie_lambda_rejected : forall c e s,
  e_lam e = true -> exists s1, irejected filter_classes register_prog global_trace_prog c e s = Some (true, s1).
Proof. exact tie_lambda_rejected. Qed.

(** WithContext._local_trace, called with a live next_trace: `assert next_trace` holds and the closure stays on the
    frame iff the wrapped function returned non-None.
    C05_tie_sys_trace is a PIN: the translator checks the shape of sys_trace (threading.settrace only under `if thread:`)
    and of its one call in runner.py (thread=run_arg.trace_threads) and emits `true`; nothing is interpreted. *)
Theorem C05_tie_local_trace : forall r, wexec FUEL local_trace_prog true r = Some r.
Proof. exact tie_local_trace. Qed.

Theorem C05_tie_sys_trace : sys_trace_thread_guarded = true.
Proof. exact tie_sys_trace. Qed.

(** one raw event, and a whole stream, through the regenerated code = the model: every theorem above about
    [prompts] / [trace_calls] is a theorem about the interpretation of the current source ... *)
Theorem C05_tie_step : forall c pol i st e, istep c pol i st e = Some (step c pol i st e).
Proof. exact tie_step. Qed.

Theorem C05_tie_run : forall c pol evs, irun c pol evs = Some (run c pol evs).
Proof. exact tie_run. Qed.

(** ... for instance C05_filters *)
Theorem C05_tie_filters_transfer : forall c pol evs ps tcs p,
  frame_attrs_const evs -> irun c pol evs = Some (ps, tcs) -> In p ps ->
  exists e, nth_error evs (p_idx p) = Some e /\
            p_kind p = e_kind e /\ p_line p = e_line e /\ p_fid p = e_fid e /\
            e_lam e = false /\
            (c_modules c = false -> e_mc e = MScript) /\
            (c_modules c = true -> e_mc e <> MSkip).
Proof. exact tie_filters_transfer. Qed.

Example C05_tie_example_nonvacuous :
  option_map (fun r => map p_idx (fst r)) (irun tie_cfg (all Step) tie_stream) = Some [1; 2; 3; 4; 5; 6; 7; 8]%nat /\
  option_map (fun r => map p_idx (fst r)) (irun tie_cfg (all Next) tie_stream) = Some [1; 2; 7; 8]%nat /\
  option_map (fun r => map p_idx (fst r)) (irun tie_cfg (all Continue) tie_stream) = Some [1]%nat.
Proof. exact tie_example. Qed.
End Tie.

Print Assumptions C05_filters.
Print Assumptions C05_threads_off.
Print Assumptions C05_callable_refuted.
Print Assumptions C05_next_refuted.
Print Assumptions C05_continue_refuted.
Print Assumptions C05_step.
Print Assumptions C05_filter_complete.
Print Assumptions C05_filter_complete_modules_off.
Print Assumptions C05_filter_complete_modules_on.
Print Assumptions C05_step_modules_off.
Print Assumptions C05_step_filter_chain.
Print Assumptions C05_options_in_force.
Print Assumptions C05_continue_partial.
Print Assumptions C05_next_partial.
Print Assumptions C05_next_nothing_inside_calls.
Print Assumptions C05_next_every_line.
Print Assumptions C05_next_after_return.
Print Assumptions C05_tie_stop_here.
Print Assumptions C05_tie_set_stopinfo.
Print Assumptions C05_tie_commands.
Print Assumptions C05_tie_interaction.
Print Assumptions C05_tie_dispatch_line.
Print Assumptions C05_tie_dispatch_call.
Print Assumptions C05_tie_dispatch_return.
Print Assumptions C05_tie_dispatch_exception.
Print Assumptions C05_tie_trace_dispatch.
Print Assumptions C05_tie_init.
Print Assumptions C05_tie_overrides.
Print Assumptions C05_tie_filter_class.
Print Assumptions C05_tie_registered.
Print Assumptions C05_tie_first_result.
Print Assumptions C05_tie_rejected.
Print Assumptions C05_tie_filter_chain_attr.
Print Assumptions C05_tie_lambda_rejected.
Print Assumptions C05_tie_local_trace.
Print Assumptions C05_tie_sys_trace.
Print Assumptions C05_tie_step.
Print Assumptions C05_tie_run.
Print Assumptions C05_tie_filters_transfer.
