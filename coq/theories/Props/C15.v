(** C15 -- at most one script execution is in flight per Nextline object.
    Model: Life/Model.v (every label sequence = every history and schedule of
    API calls from any number of tasks, gate releases, run-task steps and
    child exits).  Proofs: Life/LockInv.v, Life/FsmInv.v, Life/Single.v. *)
From NL Require Import Life.Model Life.LockInv Life.FsmInv Life.Hist Life.Single.

(** never two child processes alive; a live child only while the state is 'running' *)
Theorem C15_single_child : forall stmt start th md ls,
  let s := run_labels (init_state stmt start th md) ls in
  (alive s <= 1)%nat /\ (alive s = 1%nat -> st_fsm s = Running).
Proof. exact single_child. Qed.

(** once 'finished' is reported (state attribute, hook or publication) the child has exited *)
Theorem C15_finished_implies_exited : forall stmt start th md ls,
  let s := run_labels (init_state stmt start th md) ls in
  st_fsm s = Finished -> alive s = 0%nat /\ pending_exit s = None.
Proof. exact finished_implies_exited. Qed.

(** a run request that gets the lock in any state but 'initialized' (a run starting, running,
    finished, ...) is refused: it is exactly [refuse], which changes nothing but the call log *)
Theorem C15_second_run_refused : forall s t c part2,
  runlike c = true -> st_fsm s <> Initialized -> enter s t c part2 = refuse s t c.
Proof. exact second_run_refused. Qed.

(** a reset cannot take effect while a run is in progress (or before start / after close) *)
Theorem C15_no_reset_during_run : forall s t o,
  st_fsm s <> Initialized -> st_fsm s <> Finished -> enter s t (CReset o) false = refuse s t (CReset o).
Proof. exact no_reset_during_run. Qed.

Theorem C15_refused_changes_nothing : forall s t c,
  st_fsm (refuse s t c) = st_fsm s /\ runt (refuse s t c) = runt s /\ run_finished (refuse s t c) = run_finished s
  /\ run_arg (refuse s t c) = run_arg s /\ alive (refuse s t c) = alive s /\ pending_exit (refuse s t c) = pending_exit s
  /\ c_stmt (refuse s t c) = c_stmt s /\ c_next (refuse s t c) = c_next s
  /\ c_threads (refuse s t c) = c_threads s /\ c_modules (refuse s t c) = c_modules s
  /\ (exists r, hd_error (trace (refuse s t c)) = Some (EvRet t c r) /\ r <> ROk)
  /\ hooks_of (trace (refuse s t c)) = hooks_of (trace s).
Proof. exact refuse_effect. Qed.

(** while a run task exists the state is 'running' or 'finished', so (by the two theorems above)
    no run request can create a second one and no reset can re-initialise under it *)
Theorem C15_run_task_states : forall stmt start th md ls,
  let s := run_labels (init_state stmt start th md) ls in
  runt s <> None -> st_fsm s = Running \/ st_fsm s = Finished.
Proof. exact run_task_states. Qed.

Example C15_example_nonvacuous :
  let s := run_labels (init_state 1 1 false false)
             [Call 1 CStart; Step 1; Step 1; Step 1; Call 1 CRun; StepRun; StepRun; Call 2 CRun;
              Call 3 (CReset (mkOpts (Some 2%Z) None None None)); StepRun; Step 1; Step 1; Step 2; Step 3] in
  alive s = 1%nat /\ st_fsm s = Running /\ runt s = Some RT_WaitChild
  /\ hd_error (trace s) = Some (EvRet 3 (CReset (mkOpts (Some 2%Z) None None None)) RMachineError).
Proof. vm_compute. repeat split; reflexivity. Qed.

Print Assumptions C15_single_child.
Print Assumptions C15_finished_implies_exited.
Print Assumptions C15_second_run_refused.
Print Assumptions C15_no_reset_during_run.
Print Assumptions C15_refused_changes_nothing.
Print Assumptions C15_run_task_states.
