(** C15 -- at most one script execution is in flight per Nextline object.
    Model: Life/Model.v (every label sequence = every history and schedule of
    API calls from any number of tasks, gate releases, run-task steps and
    child exits).  Proofs: Life/LockInv.v, Life/FsmInv.v, Life/Single.v. *)
From NL Require Import Life.Close Life.Protocol Life.Refusal.
From NL Require Import Life.Model Life.LockInv Life.FsmInv Life.Hist Life.Single.

(** never two child processes alive; a live child only while the state is 'running' *)
Theorem C15_single_child : forall stmt start th md ls,
  let s := run_labels (init_state stmt start th md) ls in
  (alive s <= 1)%nat /\ (alive s = 1%nat -> st_fsm s = Running).
Proof. exact single_child. Qed.

(** once 'finished' is reported (state attribute, hook or publication) the child has exited *)
Theorem C15_finished_implies_exited : forall stmt start th md ls,
  let s := run_labels (init_state stmt start th md) ls in
  st_fsm s = Finished -> alive s = 0%nat /\ pending_exit s = None.
Proof. exact finished_implies_exited. Qed.

(** a run request that gets the lock in any state but 'initialized' (a run starting, running,
    finished, ...) is refused: it is exactly [refuse], which changes nothing but the call log *)
Theorem C15_second_run_refused : forall s t c part2,
  runlike c = true -> st_fsm s <> Initialized -> enter s t c part2 = refuse s t c.
Proof. exact second_run_refused. Qed.

(** a reset cannot take effect while a run is in progress (or before start / after close) *)
Theorem C15_no_reset_during_run : forall s t o,
  st_fsm s <> Initialized -> st_fsm s <> Finished -> enter s t (CReset o) false = refuse s t (CReset o).
Proof. exact no_reset_during_run. Qed.

Theorem C15_refused_changes_nothing : forall s t c,
  st_fsm (refuse s t c) = st_fsm s /\ runt (refuse s t c) = runt s /\ run_finished (refuse s t c) = run_finished s
  /\ run_arg (refuse s t c) = run_arg s /\ alive (refuse s t c) = alive s /\ pending_exit (refuse s t c) = pending_exit s
  /\ c_stmt (refuse s t c) = c_stmt s /\ c_next (refuse s t c) = c_next s
  /\ c_threads (refuse s t c) = c_threads s /\ c_modules (refuse s t c) = c_modules s
  /\ (exists r, hd_error (trace (refuse s t c)) = Some (EvRet t c r) /\ r <> ROk)
  /\ hooks_of (trace (refuse s t c)) = hooks_of (trace s).
Proof. exact refuse_effect. Qed.

(** while a run task exists the state is 'running' or 'finished', so (by the two theorems above)
    no run request can create a second one and no reset can re-initialise under it *)
Theorem C15_run_task_states : forall stmt start th md ls,
  let s := run_labels (init_state stmt start th md) ls in
  runt s <> None -> st_fsm s = Running \/ st_fsm s = Finished.
Proof. exact run_task_states. Qed.

(** ---- the same on HISTORIES (Life/Refusal.v) ---- *)

(** in every reachable state in which a run task exists (a run starting, running or
    finishing), a run request that reaches its turn -- at its own step after queueing for the
    lock, or inside its [Call] when the lock is free -- returns MachineError
    (and by C01_refused_on_history changes nothing) *)
Theorem C15_second_run_refused_on_history : forall stmt start th md ls t c,
  let s := run_labels (init_state stmt start th md) ls in
  runt s <> None -> runlike c = true ->
  (find_task (tasks s) t = Some (c, Granted1) ->
   In (EvRet t c RMachineError) (appended s (step s (Step t)))) /\
  (find_task (tasks s) t = None -> holder s = None -> lockq s = [] ->
   (is_cont c = true -> cont_closed s = false) ->
   In (EvRet t c RMachineError) (appended s (step s (Call t c)))).
Proof. exact Refusal.all_second_run_refused. Qed.

(** a reset that reaches its turn while the state is 'running' returns MachineError *)
Theorem C15_reset_refused_while_running : forall stmt start th md ls t o,
  let s := run_labels (init_state stmt start th md) ls in
  st_fsm s = Running -> find_task (tasks s) t = Some (CReset o, Granted1) ->
  In (EvRet t (CReset o) RMachineError) (appended s (step s (Step t))).
Proof. exact Refusal.all_reset_refused_while_running. Qed.

(** "every reset while a run task exists is refused" is FALSE of the model (and of the code):
    while the run task is finishing (state already 'finished', on_finished / state notification
    still to be delivered) a reset is accepted ... *)
Theorem C15_reset_refused_during_run_refuted :
  let s := run_labels (init_state 7 1 false false) finishing_labels in
  let c := CReset (mkOpts None None None None) in
  runt s = Some RT_G_fin /\ st_fsm s = Finished /\
  find_task (tasks (step s (Call 2%nat c))) 2%nat = Some (c, Z_G1b) /\
  appended s (step s (Call 2%nat c)) = [EvCall 2%nat c; EvHook (mkHook HReset Finished None None None)].
Proof. exact Refusal.reset_while_finishing_witness. Qed.

(** ... but (the strongest true statement) it then WAITS for the run task: as long as the run
    task exists its step re-initialises nothing (state, run arguments, run number, hook log
    and publications unchanged) and it stays at the wait *)
Theorem C15_reset_during_run_partial : forall stmt start th md ls t c p,
  let s := run_labels (init_state stmt start th md) ls in
  runt s <> None -> find_task (tasks s) t = Some (c, p) -> p = Z_G1b \/ p = Z_WaitRunTask ->
  let s' := step s (Step t) in
  st_fsm s' = st_fsm s /\ run_arg s' = run_arg s /\ c_next s' = c_next s /\ runt s' = runt s /\
  hooks_of (history s') = hooks_of (history s) /\ pubs_of (history s') = pubs_of (history s) /\
  find_task (tasks s') t = Some (c, Z_WaitRunTask).
Proof. exact Refusal.all_reset_waits. Qed.

(** a run request that returns ROk was accepted at an earlier moment of the same history
    (a prefix ls1 and the request's own label l1) at which the object was idle: state
    'initialized', no run task, no child alive, no pending exit *)
Theorem C15_accepted_run_implies_idle : forall stmt start th md ls l t c,
  let init := init_state stmt start th md in
  let s := run_labels init ls in
  runlike c = true -> In (EvRet t c ROk) (appended s (step s l)) ->
  exists ls1 l1 ls2, ls = ls1 ++ l1 :: ls2 /\
    let s1 := run_labels init ls1 in
    st_fsm s1 = Initialized /\ runt s1 = None /\ alive s1 = 0%nat /\ pending_exit s1 = None /\
    (l1 = Step t \/ l1 = Call t c) /\ runlike c = true /\
    st_fsm (step s1 l1) = Running /\ find_task (tasks (step s1 l1)) t = Some (c, R_WaitStarted).
Proof. exact Refusal.all_accepted_run_implies_idle. Qed.

(** a run_and_continue that queued behind run() gets its turn while the child runs: refused;
    the run() itself returns ROk (hypothesis of C15_accepted_run_implies_idle) *)
Example C15_example_history_nonvacuous :
  let s := refusal_state in
  runt s = Some RT_WaitChild /\ find_task (tasks s) 2%nat = Some (CRunCont, Granted1)
  /\ appended s (step s (Step 2%nat)) = [EvPub (PCont false); EvRet 2%nat CRunCont RMachineError]
  /\ (let s9 := run_labels (init_state 7 1 false false) (firstn 10 refusal_labels) in
      appended s9 (step s9 (Step 1%nat)) = [EvRet 1%nat CRun ROk]).
Proof. vm_compute. repeat split; reflexivity. Qed.

Example C15_example_nonvacuous :
  let s := run_labels (init_state 1 1 false false)
             [Call 1 CStart; Step 1; Step 1; Step 1; Call 1 CRun; StepRun; StepRun; Call 2 CRun;
              Call 3 (CReset (mkOpts (Some 2%Z) None None None)); StepRun; Step 1; Step 1; Step 2; Step 3] in
  alive s = 1%nat /\ st_fsm s = Running /\ runt s = Some RT_WaitChild
  /\ hd_error (trace s) = Some (EvRet 3 (CReset (mkOpts (Some 2%Z) None None None)) RMachineError).
Proof. vm_compute. repeat split; reflexivity. Qed.

Print Assumptions C15_single_child.
Print Assumptions C15_finished_implies_exited.
Print Assumptions C15_second_run_refused.
Print Assumptions C15_no_reset_during_run.
Print Assumptions C15_refused_changes_nothing.
Print Assumptions C15_run_task_states.
Print Assumptions C15_second_run_refused_on_history.
Print Assumptions C15_reset_refused_while_running.
Print Assumptions C15_reset_refused_during_run_refuted.
Print Assumptions C15_reset_during_run_partial.
Print Assumptions C15_accepted_run_implies_idle.
Print Assumptions C15_example_history_nonvacuous.

(** ---- tie of the serialisation assumed by the model to nextline/imp.py + nextline/main.py ----
    Gen/ImpSkeleton.v is REGENERATED from the source by translate/imp_skeleton.py at every check;
    Life/ImpTie.v interprets it ([exec]: an oracle decides at every await whether it raises and
    the value of every untracked condition).  All statements are for every oracle. *)
From Coq Require Import String.
From NL Require Import Life.ImpSyntax Gen.ImpSkeleton Life.ImpTie.

(** every machine trigger ISSUED BY a method of Imp or of Nextline (run, reset, aopen, aclose;
    run_session / run_continue_and_wait included) happens while the ONE lock is held; the run task's
    own `finish` trigger (fsm/callback.py) is outside the lock by design and not covered here *)
Theorem C15_tie_lock_discipline : forall ob m, In m (names ob) -> forall st cl o,
  let x := exec ob m st cl o in
  res_of x <> RBad /\ lock_ok false (trace_of x) = true /\ lk_held (cfg_of x) = false.
Proof. exact lock_discipline. Qed.

(** the API calls that ask for the lock in the code are exactly those for which [do_call] goes
    through [acquire] (queues when the lock is busy), for every value of the two flags *)
Theorem C15_tie_lock_set : forall c m st cl, In m (nl_methods_of c) ->
  code_acquires st cl m = model_acquires st cl c /\ code_may_acquire st cl m = model_acquires st cl c.
Proof. exact lock_set_agrees. Qed.

(** each API call fires the trigger whose transition the model puts it in *)
Theorem C15_tie_call_trigger : forall c m, In m (nl_methods_of c) ->
  code_first_trigger true false m = model_first_trigger st_initialized c /\
  (c = CStart \/ c = CClose -> code_first_trigger false false m = model_first_trigger st_created c).
Proof. exact call_trigger_agrees. Qed.

(** no method of Nextline touches the machine / lock / broker close itself; in Imp they occur
    only inside `async with self._lock`; one lock; the flags start False *)
Theorem C15_tie_only_through_imp :
  forallb (fun x => no_direct (snd x)) nextline_methods = true /\
  forallb flag_sets_ok nextline_methods = true /\
  forallb (fun x => locked_text false (snd x)) imp_methods = true /\
  imp_locks = ["_lock"%string] /\
  (forall a b c d, nextline_init_flags =
     [(FStarted, nl_started (init_state a b c d)); (FClosed, nl_closed (init_state a b c d))]).
Proof. exact nextline_reaches_machine_only_through_imp. Qed.

(** the remaining methods of Nextline are no lifecycle requests in any execution *)
Theorem C15_tie_other_methods_inert : forall m, In m (names ONextline) -> mem m api_names = false ->
  forall st cl o, forallb inert_ev (trace_of (exec ONextline m st cl o)) = true.
Proof. exact other_methods_inert. Qed.

(** per-call refinement against Model.do_call / do_step (Life/ImpTie.v section 5): on seven
    representative states, every execution (every oracle) of start / run / run_session / reset /
    close has the model's observations, or leaves them at a decision the model takes the other way,
    or at an environment failure; never anything else; the model's behaviour is one of them *)
Theorem C15_tie_call_refinement : forall s c m, In s ref_states -> In c ref_calls -> In m (nl_methods_of c) ->
  (forall o, let x := exec ONextline m (nl_started s) (nl_closed s) o in
     verdict_of s c x <> VMismatch /\ (verdict_of s c x = VEqual -> end_agrees s c x = true)) /\
  (exists o, verdict_of s c (exec ONextline m (nl_started s) (nl_closed s) o) = VEqual).
Proof. exact call_refinement. Qed.

Theorem C15_tie_ref_states_are :
  map st_fsm ref_states = [Created; Initialized; Running; Finished; Finished; Initialized; Closed] /\
  map runt ref_states = [None; None; Some RT_WaitChild; Some RT_G_fin; None; None; None] /\
  forallb (fun s => match holder s, find_task (tasks s) 5 with None, None => true | _, _ => false end) ref_states = true.
Proof. exact ref_states_are. Qed.

(** the `finally` of run_session is reached from every await of its body *)
Theorem C15_tie_run_session_finally_reached : forall m, In m session_names -> forall st cl o,
  wait_after_yield false (trace_of (exec ONextline m st cl o)) = true.
Proof. exact run_session_finally_reached. Qed.

Print Assumptions C15_tie_lock_discipline.
Print Assumptions C15_tie_lock_set.
Print Assumptions C15_tie_call_trigger.
Print Assumptions C15_tie_only_through_imp.
Print Assumptions C15_tie_other_methods_inert.
Print Assumptions C15_tie_call_refinement.
Print Assumptions C15_tie_ref_states_are.
Print Assumptions C15_tie_run_session_finally_reached.

(** ---- tie of the refusals to the regenerated wiring (session 5): Gen/MachineWiring.v (translate/machine_wiring.py),
    Gen/FsmConfig.v, Life/MachineTie.v.  [script src tr = None] = the transitions library raises MachineError. *)
From NL Require Gen.FsmConfig Life.MachineSyntax Gen.MachineWiring Life.MachineTie.

(** run is refused unless the state is `initialized` -- of the code (no row / MachineError) and of the model *)
Theorem C15_tie_machine_run_refused_unless_initialized : forall s t c,
  (st_fsm s <> Initialized -> MachineTie.script (st_fsm s) FsmConfig.TRun = None /\ enter_run s t c = refuse s t c) /\
  (st_fsm s = Initialized -> MachineTie.script (st_fsm s) FsmConfig.TRun <> None /\ st_fsm (enter_run s t c) = Running).
Proof. exact MachineTie.run_refused_unless_initialized. Qed.

(** reset is refused while running *)
Theorem C15_tie_machine_reset_refused_while_running : forall s t o, st_fsm s = Running ->
  MachineTie.script (st_fsm s) FsmConfig.TReset = None /\ enter_reset s t o = refuse s t (CReset o).
Proof. exact MachineTie.reset_refused_while_running. Qed.

(** the accepted run: state := running, Callback.start_run (new events, the run task), started.wait(), on_change_state *)
Theorem C15_tie_machine_enter_run : forall s t c, enter_run s t c = MachineTie.api_trigger t c FsmConfig.TRun s.
Proof. exact MachineTie.tie_enter_run. Qed.

(** invalid triggers raise (are not ignored), nothing is queued *)
Theorem C15_tie_machine_flags : FsmConfig.ignore_invalid_triggers = false /\ FsmConfig.queued = false /\ MachineTie.model_is_self = true /\
  MachineTie.wired_after_state_change = ["after_state_change"%string] /\ MachineTie.callback_backref = true.
Proof. exact MachineTie.config_flags. Qed.

Print Assumptions C15_tie_machine_run_refused_unless_initialized.
Print Assumptions C15_tie_machine_reset_refused_while_running.
Print Assumptions C15_tie_machine_enter_run.
Print Assumptions C15_tie_machine_flags.

(** ---- stage 2: Imp.run from the two regenerated sources together (Life/MachineImpTie.v): lock held; the trigger `run`
    (refused -> MachineError out of the `async with`, lock released); release; then run_session / run_continue_and_wait
    go on to wait for the run, the others return *)
From NL Require Life.MachineImpTie.
Theorem C15_tie_machine_imp_run : forall s t c, enter_run s t c = MachineImpTie.imp_run "run"%string t c s.
Proof. exact MachineImpTie.imp_run_run. Qed.
Theorem C15_tie_machine_imp_run_epilogue : forall s t c,
  MachineTie.epilogue t c FsmConfig.TRun s = MachineImpTie.derived_epilogue "run"%string t c s.
Proof. exact MachineImpTie.imp_epilogue_run. Qed.
Print Assumptions C15_tie_machine_imp_run.
Print Assumptions C15_tie_machine_imp_run_epilogue.
