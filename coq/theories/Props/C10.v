(** C10 -- events are relayed to the main process completely, in order, within the run.
    Property theorems only; each is closed by [exact] of a lemma of Relay/Proofs.v.

    Model: Relay/Model.v (child with its queue buffer, the FIFO pipe shared with the
    sentinel, the monitor task, the main task with the drain loop and its timer).
    Every statement quantifies over EVERY list of labels [ls] = every interleaving of
    the child, the feeder, the monitor (with arbitrarily slow hooks: [MonDeliver] can
    be delayed at will), the drain loop and an early [Timeout], and every kill point.

    Environment assumptions (hypotheses of the model, listed in ASSUMPTIONS of
    harness/props/c10.py and validated by the real runs):
    - FIFO: the multiprocessing.Queue pipe delivers in the order written; puts of one
      process are written in the order they were made;
    - flush-before-exit: a child that exits normally has written everything to the
      pipe ([ChildExit] is enabled only then);
    - boot ([run true]): the child cannot emit before `on_start_run` is called.
      Needed only for C10_bracketed; [C10_bracket_needs_boot] shows the model violates
      the bracket without it.
    PARTIAL: the pipe, the feeder threads and the process are modelled, not verified. *)
From NL Require Import Relay.Model Relay.Proofs.
Open Scope Z_scope.

(** normal exit: when `on_end_run` is called the plugin has been given exactly the events
    the child emitted = the script's stream: same order, each once *)
Theorem C10_complete_in_order : forall boot script ls,
  let s := run boot script ls in
  main s = PEndRun -> child s = CExited ->
  delivered s = script /\ emitted s = script /\ deliveries (log s) = script.
Proof. exact complete_in_order. Qed.

(** at every moment, in particular whenever and however the child is killed: what has been
    delivered is a prefix of what was emitted (itself a prefix of the script's stream), and the
    plugin's log shows exactly those deliveries *)
Theorem C10_prefix_on_kill : forall boot script ls,
  let s := run boot script ls in
  (exists rest, emitted s = delivered s ++ rest) /\ (exists rest, script = emitted s ++ rest) /\
  deliveries (log s) = delivered s.
Proof. exact prefix_always. Qed.

(** every delivery (call and completion of the hooks) lies after the `on_start_run` call and
    before the `on_end_run` call, whatever the interleaving, slow hooks and early timeout *)
Theorem C10_bracketed : forall script ls, bracketed (log (run true script ls)) = true.
Proof. exact bracketed_always. Qed.

(** and none after: once `on_end_run` has been called the plugin's log never changes again *)
Theorem C10_nothing_after_end : forall boot script ls l,
  main (run boot script ls) = PEndRun ->
  log (run boot script (ls ++ [l])) = log (run boot script ls).
Proof. exact nothing_after_end. Qed.

(** the monitor awaits the hooks of one event before it takes the next: calls and
    completions alternate *)
Theorem C10_hooks_never_overlap : forall boot script ls, alternating None (log (run boot script ls)) = true.
Proof. exact hooks_never_overlap. Qed.

(** the boot assumption is necessary in the model *)
Theorem C10_bracket_needs_boot :
  bracketed (log (run false [5] [StartProc; Emit; Flush; MonTake; StartRun])) = false.
Proof. exact bracket_needs_boot. Qed.

(** liveness is NOT part of C10, but for the record (found by the real runs): a child killed
    inside a pipe write takes the queue's write lock with it; the sentinel is never written, the
    monitor never ends and `on_end_run` is never called, whatever happens afterwards *)
Theorem C10_kill_mid_write_never_ends : forall boot script ls1 ls2,
  child (run boot script ls1) = CRunning ->
  main (run boot script (ls1 ++ KillMidWrite :: ls2)) <> PEndRun.
Proof. exact kill_mid_write_wedges. Qed.

(** non-vacuity: three events; the hooks of the first are slow; the drain loop times out while
    two events are still in the pipe; the sentinel is queued behind them; everything is
    delivered, in order, inside the bracket *)
Definition ex_ls : list label :=
  [StartProc; StartRun; Emit; Emit; Flush; MonTake; Emit; Flush; Flush; ChildExit; ProcExitSeen;
   DrainTick; Timeout; PutSentinel; MonSeesSentinel; MonDeliver; MonTake; MonDeliver; MonTake;
   EndRun; MonDeliver; MonSeesSentinel; EndRun; MonTake].

Example C10_example_nonvacuous :
  let s := run true [1; 2; 3] ex_ls in
  main s = PEndRun /\ child s = CExited /\ delivered s = [1; 2; 3] /\
  log s = [OStartRun; ODeliver 1; ODone 1; ODeliver 2; ODone 2; ODeliver 3; ODone 3; OEndRun] /\
  (* a kill after the second emit, with the second event still in the child's buffer: prefix *)
  delivered (run true [1; 2; 3] [StartProc; StartRun; Emit; Emit; Flush; Kill; ProcExitSeen; MonTake; MonDeliver;
                                 DrainTick; PutSentinel; MonSeesSentinel; EndRun]) = [1] /\
  main (run true [1; 2; 3] [StartProc; StartRun; Emit; Emit; Flush; Kill; ProcExitSeen; MonTake; MonDeliver;
                            DrainTick; PutSentinel; MonSeesSentinel; EndRun]) = PEndRun.
Proof. vm_compute. repeat split; reflexivity. Qed.

Print Assumptions C10_complete_in_order.
Print Assumptions C10_prefix_on_kill.
Print Assumptions C10_bracketed.
Print Assumptions C10_nothing_after_end.
Print Assumptions C10_hooks_never_overlap.
Print Assumptions C10_bracket_needs_boot.
Print Assumptions C10_kill_mid_write_never_ends.
