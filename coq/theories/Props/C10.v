(** C10 -- events are relayed to the main process completely, in order, within the run.
    Property theorems only; each is closed by [exact] of a lemma of Relay/Proofs.v.

    Model: Relay/Model.v (child with its queue buffer, the FIFO pipe shared with the
    sentinel, the monitor task, the main task with the drain loop and its timer).
    Every statement quantifies over EVERY list of labels [ls] = every interleaving of
    the child, the feeder, the monitor (with arbitrarily slow hooks: [MonDeliver] can
    be delayed at will), the drain loop and an early [Timeout], and every kill point.

    Environment assumptions (hypotheses of the model, listed in ASSUMPTIONS of
    harness/props/c10.py and validated by the real runs):
    - FIFO: the multiprocessing.Queue pipe delivers in the order written; puts of one
      process are written in the order they were made;
    - flush-before-exit: a child that exits normally has written everything to the
      pipe ([ChildExit] is enabled only then);
    - boot ([run true]): the child cannot emit before `on_start_run` is called.
      Needed only for C10_bracketed; [C10_bracket_needs_boot] shows the model violates
      the bracket without it.
    PARTIAL: the pipe, the feeder threads and the process are modelled, not verified. *)
From NL Require Import Relay.Model Relay.Proofs.
Open Scope Z_scope.

(** normal exit: when `on_end_run` is called the plugin has been given exactly the events
    the child emitted = the script's stream: same order, each once *)
Theorem C10_complete_in_order : forall boot script ls,
  let s := run boot script ls in
  main s = PEndRun -> child s = CExited ->
  delivered s = script /\ emitted s = script /\ deliveries (log s) = script.
Proof. exact complete_in_order. Qed.

(** at every moment, in particular whenever and however the child is killed: what has been
    delivered is a prefix of what was emitted (itself a prefix of the script's stream), and the
    plugin's log shows exactly those deliveries *)
Theorem C10_prefix_on_kill : forall boot script ls,
  let s := run boot script ls in
  (exists rest, emitted s = delivered s ++ rest) /\ (exists rest, script = emitted s ++ rest) /\
  deliveries (log s) = delivered s.
Proof. exact prefix_always. Qed.

(** every delivery (call and completion of the hooks) lies after the `on_start_run` call and
    before the `on_end_run` call, whatever the interleaving, slow hooks and early timeout *)
Theorem C10_bracketed : forall script ls, bracketed (log (run true script ls)) = true.
Proof. exact bracketed_always. Qed.

(** and none after: once `on_end_run` has been called the plugin's log never changes again *)
Theorem C10_nothing_after_end : forall boot script ls l,
  main (run boot script ls) = PEndRun ->
  log (run boot script (ls ++ [l])) = log (run boot script ls).
Proof. exact nothing_after_end. Qed.

(** the monitor awaits the hooks of one event before it takes the next: calls and
    completions alternate *)
Theorem C10_hooks_never_overlap : forall boot script ls, alternating None (log (run boot script ls)) = true.
Proof. exact hooks_never_overlap. Qed.

(** the boot assumption is necessary in the model *)
Theorem C10_bracket_needs_boot :
  bracketed (log (run false [5] [StartProc; Emit; Flush; MonTake; StartRun])) = false.
Proof. exact bracket_needs_boot. Qed.

(** liveness is NOT part of C10, but for the record (found by the real runs): a child killed
    inside a pipe write takes the queue's write lock with it; the sentinel is never written, the
    monitor never ends and `on_end_run` is never called, whatever happens afterwards *)
Theorem C10_kill_mid_write_never_ends : forall boot script ls1 ls2,
  child (run boot script ls1) = CRunning ->
  main (run boot script (ls1 ++ KillMidWrite :: ls2)) <> PEndRun.
Proof. exact kill_mid_write_wedges. Qed.

(** non-vacuity: three events; the hooks of the first are slow; the drain loop times out while
    two events are still in the pipe; the sentinel is queued behind them; everything is
    delivered, in order, inside the bracket *)
Definition ex_ls : list label :=
  [StartProc; StartRun; Emit; Emit; Flush; MonTake; Emit; Flush; Flush; ChildExit; ProcExitSeen;
   DrainTick; Timeout; PutSentinel; MonSeesSentinel; MonDeliver; MonTake; MonDeliver; MonTake;
   EndRun; MonDeliver; MonSeesSentinel; EndRun; MonTake].

Example C10_example_nonvacuous :
  let s := run true [1; 2; 3] ex_ls in
  main s = PEndRun /\ child s = CExited /\ delivered s = [1; 2; 3] /\
  log s = [OStartRun; ODeliver 1; ODone 1; ODeliver 2; ODone 2; ODeliver 3; ODone 3; OEndRun] /\
  (* a kill after the second emit, with the second event still in the child's buffer: prefix *)
  delivered (run true [1; 2; 3] [StartProc; StartRun; Emit; Emit; Flush; Kill; ProcExitSeen; MonTake; MonDeliver;
                                 DrainTick; PutSentinel; MonSeesSentinel; EndRun]) = [1] /\
  main (run true [1; 2; 3] [StartProc; StartRun; Emit; Emit; Flush; Kill; ProcExitSeen; MonTake; MonDeliver;
                            DrainTick; PutSentinel; MonSeesSentinel; EndRun]) = PEndRun.
Proof. vm_compute. repeat split; reflexivity. Qed.

Print Assumptions C10_complete_in_order.
Print Assumptions C10_prefix_on_kill.
Print Assumptions C10_bracketed.
Print Assumptions C10_nothing_after_end.
Print Assumptions C10_hooks_never_overlap.
Print Assumptions C10_bracket_needs_boot.
Print Assumptions C10_kill_mid_write_never_ends.

(** ======================================================================================
    TIE of Relay/Model.v to the code, by proof (Relay/Tie.v, Relay/TieSkeleton.v).
    Gen/RelaySkel.v = the statement trees of RunSession.run, _on_start_run, _on_end_run,
    relay_events, _monitor, Timer, wait_until_queue_empty, spawned.main, regenerated from /repo at
    every check by translate/relay_skeleton.py (fail closed).  [irun] interprets those trees
    (main task + monitor task with continuations, the child, the same pipe) under the SAME labels
    as the model; [K]/[KM] are the control points computed from the trees. *)
From NL Require Import Relay.Syntax Gen.RelaySkel Relay.Tie Relay.TieSkeleton Relay.TieExn.

(** for EVERY list of labels the interpreter of the regenerated code and the model are in lock
    step: same pipe, same child, same histories and plugin log, corresponding control points *)
Theorem C10_tie_simulation : forall boot script ls, R (irun boot script ls) (run boot script ls).
Proof. exact sim. Qed.

Theorem C10_tie_same_log : forall boot script ls,
  let s := irun boot script ls in
  let m := run boot script ls in
  d_log (dd s) = log m /\ d_delivered (dd s) = delivered m /\ d_emitted (dd s) = emitted m /\
  d_pipe (dd s) = pipe m /\ d_child (dd s) = child m /\ k_main s = K (main m) /\ k_mon s = KM (mon m).
Proof. exact tie_same_histories. Qed.

(** hence the theorems above hold of the regenerated code *)
Theorem C10_tie_complete_in_order : forall boot script ls,
  let s := irun boot script ls in
  In OEndRun (d_log (dd s)) -> d_child (dd s) = CExited ->
  d_delivered (dd s) = script /\ d_emitted (dd s) = script /\ deliveries (d_log (dd s)) = script.
Proof. exact tie_complete_in_order. Qed.

Theorem C10_tie_prefix_on_kill : forall boot script ls,
  let s := irun boot script ls in
  (exists rest, d_emitted (dd s) = d_delivered (dd s) ++ rest) /\ (exists rest, script = d_emitted (dd s) ++ rest) /\
  deliveries (d_log (dd s)) = d_delivered (dd s).
Proof. exact tie_prefix_on_kill. Qed.

Theorem C10_tie_bracketed : forall script ls, bracketed (d_log (dd (irun true script ls))) = true.
Proof. exact tie_bracketed. Qed.

Theorem C10_tie_nothing_after_end : forall boot script ls l,
  In OEndRun (d_log (dd (irun boot script ls))) ->
  d_log (dd (irun boot script (ls ++ [l]))) = d_log (dd (irun boot script ls)).
Proof. exact tie_nothing_after_end. Qed.

(** direct corollaries on the regenerated code.
    (1) no second `queue.get` before the hooks of the previous event returned *)
Theorem C10_tie_one_event_at_a_time : forall boot script ls,
  alternating None (d_log (dd (irun boot script ls))) = true.
Proof. exact tie_one_event_at_a_time. Qed.

Theorem C10_tie_no_get_before_hook_returned : forall boot script ls z l,
  mon (run boot script ls) = MBusy z -> (l = MonTake \/ l = MonSeesSentinel) ->
  istep boot (irun boot script ls) l = irun boot script ls.
Proof. exact tie_no_get_before_hook_returned. Qed.

(** (2) `_on_end_run` only after `await task`: the monitor coroutine has run to its end *)
Theorem C10_tie_end_run_after_await_task : forall boot script ls,
  let s := irun boot script ls in
  In OEndRun (d_log (dd s)) -> k_mon s = Some [] /\ k_main s = K_endrun.
Proof. exact tie_end_run_after_await_task. Qed.

(** (3) the sentinel only after the child was awaited, behind everything the child wrote *)
Theorem C10_tie_sentinel_after_child_awaited : forall boot script ls,
  let s := irun boot script ls in
  nosent (d_pipe (dd s)) = false ->
  dead (d_child (dd s)) = true /\ sent_last (d_pipe (dd s)) = true /\ k_main s = K_awaitmon.
Proof. exact tie_sentinel_after_child_awaited. Qed.

(** Timer (utils/timer.py), translated (the restarts themselves are no-ops in [irun]: the model
    leaves the firing time to the scheduler, so only `is_timeout` and the timeout value matter): is_timeout() is false for ever without a timeout, else
    true iff MORE than the timeout has elapsed since the last restart(); so DrainTick (no time
    elapsed) never leaves the drain loop by the break and Timeout (more than the timeout) does *)
Theorem C10_tie_timer_is_timeout : forall tm now,
  timer_fired tm now = match t_timeout tm with None => false | Some t => (now - t_start tm >? t)%Z end.
Proof. exact timer_fired_spec. Qed.

Theorem C10_tie_timer_restart : forall tm now, timer_restarted tm now = mkT (t_timeout tm) now.
Proof. exact timer_restarted_spec. Qed.

Theorem C10_tie_drain_labels : relay_timer_says false = false /\ relay_timer_says true = true.
Proof. exact drain_labels_meaning. Qed.

(** PINS of the regenerated child program (constants checked by computation; [irun] passes
    wait_until_queue_empty without a condition, as the model does), except C10_tie_child_wait which
    interprets the regenerated loop.  The child (spawned.main): all the puts, then wait_until_queue_empty (which, called without a
    timeout, returns exactly when it sees the queue empty and never raises), then return; at exit
    the feeder thread is joined (nothing cancels it); the queue is the one relay_events reads *)
Theorem C10_tie_child_flush_order : child_order 0 child_main_prog = true.
Proof. exact child_flush_order. Qed.

Theorem C10_tie_child_wait : forall t0 obs, wait_exec None t0 obs = wait_spec obs.
Proof. exact wait_returns_iff_seen_empty. Qed.

Theorem C10_tie_child_waits_without_timeout :
  forallb (fun t => match tmo_val t None with None => true | Some _ => false end) (child_wait_tmos child_main_prog) = true.
Proof. exact child_waits_without_timeout. Qed.

Theorem C10_tie_child_exit_flushes : child_exit_joins_feeder = true.
Proof. exact child_exit_flushes. Qed.

Theorem C10_tie_queue_wiring : set_queues_out_pos = session_out_pos.
Proof. exact queue_wiring. Qed.

(** PIN BETWEEN TWO REGENERATED FILES (both sides change with the source): the two translators read
    the same structure (Gen/CallbackSkeleton.v is what C12's exception analysis uses) *)
Theorem C10_tie_skeletons_agree :
  mkseq (erase session_prog) = CS.session_skeleton /\ mkseq (erase relay_prog) = CS.relay_skeleton.
Proof. exact skeletons_agree. Qed.

(** OnEvent.on_event_in_process, every statement translated, against nextline/events.py: every
    subclass of Event the child constructs has a case, every case is a subclass of Event, the classes
    without a case are the ones the main process constructs itself, and each case awaits exactly the
    hook of its own name as its last statement *)
Theorem C10_tie_dispatch :
  forallb case_ok dispatch = true /\ nodupb (map fst dispatch) = true /\
  forallb (fun c => mem c (map fst dispatch)) child_event_classes = true /\
  forallb (fun c => mem c event_classes) (map fst dispatch) = true /\
  forallb (fun c => mem c (map fst dispatch) || mem c main_event_classes) event_classes = true /\
  forallb (fun c => negb (mem c (map fst dispatch))) main_event_classes = true /\
  negb (Nat.eqb (List.length child_event_classes) 0) = true.
Proof. exact dispatch_complete. Qed.

(** try/finally with its real meaning (Relay/TieExn.v): for EVERY execution of the regenerated
    RunSession.run (relay_events inlined) in which any await, assert or the body at the yield raises,
    or the task is cancelled at any await: the `finally` of relay_events is reached from every await
    of its body (the monitor task, once created, is always sent the sentinel and awaited, unless the
    drain loop's own sleep(0) or the put raises); the spawned process is awaited; on_end_run is called
    only if nothing raised and `await task` returned.  [xrun_in_outcomes]: every derivation of the
    big-step semantics is among the finitely many [outcomes] (loops: any number of iterations).
    Not covered: raising INSIDE the monitor task (seen as "`await task` raises"), GeneratorExit. *)
Theorem C10_tie_finally_semantics : forall r t, xrun main_program r t -> xsafe t = true.
Proof. exact finally_semantics. Qed.

Theorem C10_tie_outcomes_complete : forall s r t, xrun s r t -> loops_silent s = true -> In (r, t) (outcomes s).
Proof. exact xrun_in_outcomes. Qed.

Example C10_tie_cancel_at_process_await_nonvacuous :
  In (XRaise, [(LCreate, true); (LSpawn, true); (LHook HOnStartRun, true); (LBody, true); (LProc, false); (LInFinally, true);
               (LPut, true); (LMon, true)]) (outcomes main_program).
Proof. exact xrun_cancel_at_process_await. Qed.

Example C10_tie_example_nonvacuous :
  let s := irun true [1; 2; 3] ex_ls in
  d_log (dd s) = [OStartRun; ODeliver 1; ODone 1; ODeliver 2; ODone 2; ODeliver 3; ODone 3; OEndRun] /\
  k_main s = K_endrun /\ k_mon s = Some [] /\ d_child (dd s) = CExited.
Proof. exact tie_example. Qed.

Print Assumptions C10_tie_simulation.
Print Assumptions C10_tie_same_log.
Print Assumptions C10_tie_complete_in_order.
Print Assumptions C10_tie_prefix_on_kill.
Print Assumptions C10_tie_bracketed.
Print Assumptions C10_tie_nothing_after_end.
Print Assumptions C10_tie_one_event_at_a_time.
Print Assumptions C10_tie_no_get_before_hook_returned.
Print Assumptions C10_tie_end_run_after_await_task.
Print Assumptions C10_tie_sentinel_after_child_awaited.
Print Assumptions C10_tie_timer_is_timeout.
Print Assumptions C10_tie_timer_restart.
Print Assumptions C10_tie_drain_labels.
Print Assumptions C10_tie_child_flush_order.
Print Assumptions C10_tie_child_wait.
Print Assumptions C10_tie_child_waits_without_timeout.
Print Assumptions C10_tie_child_exit_flushes.
Print Assumptions C10_tie_queue_wiring.
Print Assumptions C10_tie_skeletons_agree.
Print Assumptions C10_tie_dispatch.
Print Assumptions C10_tie_finally_semantics.
Print Assumptions C10_tie_outcomes_complete.
