(** C16 -- non-interactive mode is confined to the run that requested it.
    Property theorems only; each is closed by [exact] of a lemma proved in
    Life/ContFlag.v.

    Model: Life/Model.v (the lifecycle LTS; nextline/continuous.py after the
    `fix:` commits, including Continuous.close() publishing False first).  [cont_plugins s : list (nat * bool)] = the registered
    [Continue] plugins as (requesting task, run started); a plugin [(_, true)]
    is one that answers prompts ([_run_started]).  [run_cont s] = the run in
    progress was requested by run_and_continue / run_continue_and_wait (the
    ContextVar seen by the run task), [run_owner s] = the task that requested it.
    [enabled_of (trace s)] (Life/Hist.v) = the latest value published on the
    `continuous enabled` item; [cont_closed s] = that item is closed.
    Every statement quantifies over EVERY label list [ls]: every history of
    start / run / run-and-continue / run-continue-and-wait / run_session /
    reset / close / signal calls from any number of tasks, valid or refused,
    under every interleaving of the tasks, the run task and the child's exit. *)
From NL Require Import Life.Model Life.LockInv Life.FsmInv Life.Hist Life.ContFlag.
Open Scope Z_scope.

(** The structural invariant ([cont_inv], Life/ContFlag.v):
    - a not-yet-started plugin [(t, false)] belongs to a continue call of task
      [t] that is in flight and waits for / has just been given the lifecycle
      lock, or has been accepted and waits at `started.wait()` while the run
      task has not reached on_start_run ([pend_ok]);
    - no plugin is registered twice;
    - a started plugin [(t, true)] is the plugin of the request that started
      the run in progress ([t = run_owner s], [run_cont s = true]) and the run
      task is between on_start_run and on_finished ([mid]);
    - nothing is registered before start(). *)
Theorem C16_cont_inv : forall stmt start th md ls,
  cont_inv (run_labels (init_state stmt start th md) ls).
Proof. exact cont_inv_reachable. Qed.

(** at most one plugin answers prompts at any time *)
Theorem C16_at_most_one_started : forall stmt start th md ls,
  let s := run_labels (init_state stmt start th md) ls in
  (length (filter (fun x => snd x) (cont_plugins s)) <= 1)%nat.
Proof. exact started_at_most_one. Qed.

(** a plugin answers prompts only during the run its own request started *)
Theorem C16_started_only_in_own_run : forall stmt start th md ls t,
  let s := run_labels (init_state stmt start th md) ls in
  In (t, true) (cont_plugins s) ->
  t = run_owner s /\ run_cont s = true /\ mid (runt s) = true.
Proof. exact started_own_run. Qed.

(** a run started with plain run() / run_session() is never auto-answered,
    whatever happened before it *)
Theorem C16_plain_run_never_auto : forall stmt start th md ls,
  let s := run_labels (init_state stmt start th md) ls in
  run_cont s = false -> runt s <> None ->
  forall x, In x (cont_plugins s) -> snd x = false.
Proof. exact plain_run_never_auto. Qed.

(** the flag: once start() has been requested and until Continuous.close(),
    the published value is true exactly while a continue request is pending or
    its run is in progress (= some plugin is registered).  Before start():
    nothing is registered and the flag has never been left true. *)
Theorem C16_flag : forall stmt start th md ls,
  let s := run_labels (init_state stmt start th md) ls in
  (nl_started s = true -> cont_closed s = false ->
   enabled_of (trace s) = Some (nonempty (cont_plugins s))) /\
  (nl_started s = false ->
   cont_plugins s = [] /\ cont_closed s = false /\ enabled_of (trace s) <> Some true).
Proof. exact flag_reachable. Qed.

(** a refused continue request (MachineError out of the API call): its plugin
    is gone; while the continuous item is open the flag is re-published (false
    unless another request is still pending or running); once the item is closed
    the flag stays off and nothing is published *)
Theorem C16_refused_restores : forall stmt start th md ls l t c,
  let s := run_labels (init_state stmt start th md) ls in
  let s' := step s l in
  is_cont c = true -> In (EvRet t c RMachineError) (appended s s') ->
  ~ In (t, false) (cont_plugins s') /\
  (cont_closed s' = false -> enabled_of (trace s') = Some (nonempty (cont_plugins s'))) /\
  (cont_closed s' = true -> enabled_of (trace s') = Some false) /\
  (cont_plugins s' = [] -> enabled_of (trace s') = Some false) /\
  (cont_closed s = true -> forall b, ~ In (EvPub (PCont b)) (appended s s')).
Proof. exact refused_reachable. Qed.

(** what the repair of Continuous.close() buys: once the continuous item is
    closed the flag is off -- the last value published on it is [false] -- in
    every reachable state, whatever requests were pending behind the close *)
Theorem C16_closed_flag_off : forall stmt start th md ls,
  let s := run_labels (init_state stmt start th md) ls in
  cont_closed s = true -> enabled_of (trace s) = Some false.
Proof. exact flag_closed. Qed.

(** a continue request that was waiting for the lock when the object got closed
    is refused with MachineError (not RuntimeError) as soon as it is given the
    lock; that step appends the return and nothing else, its plugin is removed *)
Theorem C16_refused_after_close : forall stmt start th md ls t c,
  let s := run_labels (init_state stmt start th md) ls in
  cont_closed s = true -> is_cont c = true -> find_task (tasks s) t = Some (c, Granted1) ->
  let s' := step s (Step t) in
  trace s' = EvRet t c RMachineError :: trace s /\
  ~ In (t, false) (cont_plugins s') /\ find_task (tasks s') t = None /\ cont_closed s' = true.
Proof. exact refused_after_close. Qed.

(** no step from a closed state publishes on the flag *)
Theorem C16_closed_silent : forall stmt start th md ls l b,
  let s := run_labels (init_state stmt start th md) ls in
  cont_closed s = true -> ~ In (EvPub (PCont b)) (appended s (step s l)).
Proof. exact closed_step_silent. Qed.

(** the step in which the run task performs on_finished: every started plugin
    has unregistered itself, the others stay, and the flag follows *)
Theorem C16_finished_clears : forall stmt start th md ls,
  let s := run_labels (init_state stmt start th md) ls in
  runt s = Some RT_G_end ->
  let s' := step s StepRun in
  runt s' = Some RT_G_fin /\
  cont_plugins s' = filter unstarted (cont_plugins s) /\
  (forall x, In x (cont_plugins s') -> snd x = false) /\
  (cont_closed s = false -> enabled_of (trace s') = Some (nonempty (cont_plugins s'))).
Proof. exact finished_step. Qed.

(** after Continuous.close() nothing is ever published on the flag again ... *)
Theorem C16_closed : forall stmt start th md ls ls',
  let s := run_labels (init_state stmt start th md) ls in
  cont_closed s = true ->
  cpubs (trace (run_labels s ls')) = cpubs (trace s) /\ cont_closed (run_labels s ls') = true.
Proof. exact closed_forever. Qed.

(** ... and a continue request fails at once with RuntimeError, changing nothing else *)
Theorem C16_closed_request : forall stmt start th md ls t c,
  let s := run_labels (init_state stmt start th md) ls in
  cont_closed s = true -> is_cont c = true -> find_task (tasks s) t = None ->
  step s (Call t c) =
  set_trace (set_tasks s (remove_task (tasks s) t)) (EvRet t c RRuntimeError :: EvCall t c :: trace s).
Proof. exact closed_request_reachable. Qed.

(** the converse of the invariant: a continue request whose call waits for /
    has just got the lock has its plugin registered; once accepted, the plugin
    of the request that started the run is registered, and it is a STARTED one
    (it answers prompts) from on_start_run until on_finished *)
Theorem C16_registered : forall stmt start th md ls,
  let s := run_labels (init_state stmt start th md) ls in
  (forall t c p, find_task (tasks s) t = Some (c, p) -> is_cont c = true ->
                 p = WaitLock1 \/ p = Granted1 -> In (t, false) (cont_plugins s)) /\
  (run_cont s = true -> fresh (runt s) = true -> In (run_owner s, false) (cont_plugins s)) /\
  (run_cont s = true -> mid (runt s) = true -> In (run_owner s, true) (cont_plugins s)).
Proof. exact registered_reachable. Qed.

(** the flag, exactly ([active], Life/ContFlag.v): between start() and
    Continuous.close() the published value is true while a continue request is
    active -- its call waits for / has just got the lock, or it was accepted and
    its run has not yet performed on_finished -- and false otherwise *)
Theorem C16_flag_exact : forall stmt start th md ls,
  let s := run_labels (init_state stmt start th md) ls in
  nl_started s = true -> cont_closed s = false ->
  (active s -> enabled_of (trace s) = Some true) /\
  (~ active s -> enabled_of (trace s) = Some false).
Proof. exact flag_exact. Qed.

(** Non-vacuity: start; task 1 run_and_continue accepted; while its run is in
    progress task 2's run_and_continue is refused (the flag stays true: request
    1's run is in progress); the run finishes (flag false); reset; task 4 plain
    run(); while it runs task 5's run_and_continue is refused (true, then false)
    and no plugin is ever started during the plain run; the run finishes;
    close; task 7's run_and_continue fails with RuntimeError, nothing published. *)
Definition ex_o0 := mkOpts None None None None.
Definition ex_p1 : list label :=
  [Call 0 CStart; Step 0; Step 0; Step 0;
   Call 1 CRunCont; StepRun; StepRun; StepRun; Step 1; Step 1].
Definition ex_p2 : list label :=
  [ChildExit OReturn; StepRun].
Definition ex_p3 : list label :=
  [StepRun; StepRun; StepRun;
   Call 3 (CReset ex_o0); Step 3; Step 3; Step 3;
   Call 4 CRun; StepRun; StepRun; StepRun; Step 4; Step 4;
   Call 5 CRunCont].
Definition ex_p4 : list label :=
  [ChildExit OReturn; StepRun; StepRun; StepRun; StepRun;
   Call 6 CClose; Step 6; Step 6; Call 7 CRunCont].
Definition ex_i := init_state 7 1 true false.

Example C16_example_nonvacuous :
  let s0 := run_labels ex_i ex_p1 in                                   (* run of request 1 in progress *)
  let s1 := step s0 (Call 2 CRunCont) in                               (* request 2 refused *)
  let s2 := run_labels s1 ex_p2 in                                     (* about to perform on_finished *)
  let s3 := run_labels (step s2 StepRun) ex_p3 in                      (* plain run in progress, 5 refused *)
  let s4 := run_labels s3 ex_p4 in                                     (* closed *)
  (cont_plugins s0 = [(1%nat, true)] /\ run_cont s0 = true /\ runt s0 = Some RT_WaitChild) /\
  (appended s0 s1 = [EvCall 2 CRunCont; EvPub (PCont true); EvPub (PCont true); EvRet 2 CRunCont RMachineError]
   /\ cont_plugins s1 = [(1%nat, true)] /\ enabled_of (trace s1) = Some true) /\
  (runt s2 = Some RT_G_end /\ cont_plugins (step s2 StepRun) = [] /\
   enabled_of (trace (step s2 StepRun)) = Some false) /\
  (run_cont s3 = false /\ runt s3 = Some RT_WaitChild /\ cont_plugins s3 = [] /\
   rev (cpubs (trace s3)) = [false; true; true; true; false; true; false] /\
   nl_started s3 = true /\ cont_closed s3 = false) /\
  (cont_closed s4 = true /\ rev (cpubs (trace s4)) = [false; true; true; true; false; true; false] /\
   rev (rets_of (trace s4)) =
   [(0%nat, CStart, ROk); (1%nat, CRunCont, ROk); (2%nat, CRunCont, RMachineError);
    (3%nat, CReset ex_o0, ROk); (4%nat, CRun, ROk); (5%nat, CRunCont, RMachineError);
    (6%nat, CClose, ROk); (7%nat, CRunCont, RRuntimeError)]).
Proof. vm_compute. repeat split; reflexivity. Qed.


(** The repaired defect: a continuous run in progress, close() waiting for it,
    one more run_and_continue pending behind the close.  The run finishes (flag
    still true: request 3 pending), close() publishes false and closes the item,
    request 3 is then refused with MachineError and publishes nothing. *)
Definition ex_q1 : list label :=
  [Call 0 CStart; Step 0; Step 0; Step 0;
   Call 1 CRunCont; StepRun; StepRun; StepRun; Step 1; Step 1;
   Call 2 CClose; Call 3 CRunCont].
Definition ex_q2 : list label :=
  [ChildExit OReturn; StepRun; StepRun; StepRun; StepRun; Step 2; Step 2; Step 2].

Example C16_example_close_pending :
  let s1 := run_labels ex_i ex_q1 in
  let s2 := run_labels s1 ex_q2 in
  let s3 := step s2 (Step 3) in
  (tasks s1 = [(2%nat, (CClose, C_WaitRunFinished)); (3%nat, (CRunCont, WaitLock1))] /\
   runt s1 = Some RT_WaitChild /\ cont_plugins s1 = [(1%nat, true); (3%nat, false)]) /\
  (cont_closed s2 = true /\ tasks s2 = [(3%nat, (CRunCont, Granted1))] /\
   cont_plugins s2 = [(3%nat, false)] /\ enabled_of (trace s2) = Some false) /\
  (appended s2 s3 = [EvRet 3 CRunCont RMachineError] /\ cont_plugins s3 = [] /\ tasks s3 = [] /\
   rev (cpubs (trace s3)) = [false; true; true; true; false] /\
   skipn 8 (pubs_of (history s3)) =
     [PEndAll; PCont true; PRunInfo 1 RFinished 7 (Some OReturn); PCont true;
      PState Finished; PState Closed; PEndAll; PCont false; PEndCont] /\
   rev (rets_of (trace s3)) =
     [(0%nat, CStart, ROk); (1%nat, CRunCont, ROk); (2%nat, CClose, ROk); (3%nat, CRunCont, RMachineError)]).
Proof. vm_compute. repeat split; reflexivity. Qed.

Print Assumptions C16_cont_inv.
Print Assumptions C16_at_most_one_started.
Print Assumptions C16_started_only_in_own_run.
Print Assumptions C16_plain_run_never_auto.
Print Assumptions C16_flag.
Print Assumptions C16_refused_restores.
Print Assumptions C16_finished_clears.
Print Assumptions C16_closed.
Print Assumptions C16_closed_request.
Print Assumptions C16_registered.
Print Assumptions C16_flag_exact.
Print Assumptions C16_closed_flag_off.
Print Assumptions C16_refused_after_close.
Print Assumptions C16_closed_silent.
Print Assumptions C16_example_nonvacuous.
Print Assumptions C16_example_close_pending.
