(** C16 -- non-interactive mode is confined to the run that requested it.
    Property theorems only; each is closed by [exact] of a lemma proved in
    Life/ContFlag.v.

    Model: Life/Model.v (the lifecycle LTS; nextline/continuous.py after the
    `fix:` commits, including Continuous.close() publishing False first).  [cont_plugins s : list (nat * bool)] = the registered
    [Continue] plugins as (requesting task, run started); a plugin [(_, true)]
    is one that answers prompts ([_run_started]).  [run_cont s] = the run in
    progress was requested by run_and_continue / run_continue_and_wait (the
    ContextVar seen by the run task), [run_owner s] = the task that requested it.
    [enabled_of (trace s)] (Life/Hist.v) = the latest value published on the
    `continuous enabled` item; [cont_closed s] = that item is closed.
    Every statement quantifies over EVERY label list [ls]: every history of
    start / run / run-and-continue / run-continue-and-wait / run_session /
    reset / close / signal calls from any number of tasks, valid or refused,
    under every interleaving of the tasks, the run task and the child's exit. *)
From NL Require Import Life.Model Life.LockInv Life.FsmInv Life.Hist Life.ContFlag Life.ContTie Life.ContSys.
Open Scope Z_scope.

(** The structural invariant ([cont_inv], Life/ContFlag.v):
    - a not-yet-started plugin [(t, false)] belongs to a continue call of task
      [t] that is in flight and waits for / has just been given the lifecycle
      lock, or has been accepted and waits at `started.wait()` while the run
      task has not reached on_start_run ([pend_ok]);
    - no plugin is registered twice;
    - a started plugin [(t, true)] is the plugin of the request that started
      the run in progress ([t = run_owner s], [run_cont s = true]) and the run
      task is between on_start_run and on_finished ([mid]);
    - nothing is registered before start(). *)
Theorem C16_cont_inv : forall stmt start th md ls,
  cont_inv (run_labels (init_state stmt start th md) ls).
Proof. exact cont_inv_reachable. Qed.

(** at most one plugin answers prompts at any time *)
Theorem C16_at_most_one_started : forall stmt start th md ls,
  let s := run_labels (init_state stmt start th md) ls in
  (length (filter (fun x => snd x) (cont_plugins s)) <= 1)%nat.
Proof. exact started_at_most_one. Qed.

(** a plugin answers prompts only during the run its own request started *)
Theorem C16_started_only_in_own_run : forall stmt start th md ls t,
  let s := run_labels (init_state stmt start th md) ls in
  In (t, true) (cont_plugins s) ->
  t = run_owner s /\ run_cont s = true /\ mid (runt s) = true.
Proof. exact started_own_run. Qed.

(** a run started with plain run() / run_session() is never auto-answered,
    whatever happened before it *)
Theorem C16_plain_run_never_auto : forall stmt start th md ls,
  let s := run_labels (init_state stmt start th md) ls in
  run_cont s = false -> runt s <> None ->
  forall x, In x (cont_plugins s) -> snd x = false.
Proof. exact plain_run_never_auto. Qed.

(** the flag: once start() has been requested and until Continuous.close(),
    the published value is true exactly while a continue request is pending or
    its run is in progress (= some plugin is registered).  Before start():
    nothing is registered and the flag has never been left true. *)
Theorem C16_flag : forall stmt start th md ls,
  let s := run_labels (init_state stmt start th md) ls in
  (nl_started s = true -> cont_closed s = false ->
   enabled_of (trace s) = Some (nonempty (cont_plugins s))) /\
  (nl_started s = false ->
   cont_plugins s = [] /\ cont_closed s = false /\ enabled_of (trace s) <> Some true).
Proof. exact flag_reachable. Qed.

(** a refused continue request (MachineError out of the API call): its plugin
    is gone; while the continuous item is open the flag is re-published (false
    unless another request is still pending or running); once the item is closed
    the flag stays off and nothing is published *)
Theorem C16_refused_restores : forall stmt start th md ls l t c,
  let s := run_labels (init_state stmt start th md) ls in
  let s' := step s l in
  is_cont c = true -> In (EvRet t c RMachineError) (appended s s') ->
  ~ In (t, false) (cont_plugins s') /\
  (cont_closed s' = false -> enabled_of (trace s') = Some (nonempty (cont_plugins s'))) /\
  (cont_closed s' = true -> enabled_of (trace s') = Some false) /\
  (cont_plugins s' = [] -> enabled_of (trace s') = Some false) /\
  (cont_closed s = true -> forall b, ~ In (EvPub (PCont b)) (appended s s')).
Proof. exact refused_reachable. Qed.

(** what the repair of Continuous.close() buys: once the continuous item is
    closed the flag is off -- the last value published on it is [false] -- in
    every reachable state, whatever requests were pending behind the close *)
Theorem C16_closed_flag_off : forall stmt start th md ls,
  let s := run_labels (init_state stmt start th md) ls in
  cont_closed s = true -> enabled_of (trace s) = Some false.
Proof. exact flag_closed. Qed.

(** a continue request that was waiting for the lock when the object got closed
    is refused with MachineError (not RuntimeError) as soon as it is given the
    lock; that step appends the return and nothing else, its plugin is removed *)
Theorem C16_refused_after_close : forall stmt start th md ls t c,
  let s := run_labels (init_state stmt start th md) ls in
  cont_closed s = true -> is_cont c = true -> find_task (tasks s) t = Some (c, Granted1) ->
  let s' := step s (Step t) in
  trace s' = EvRet t c RMachineError :: trace s /\
  ~ In (t, false) (cont_plugins s') /\ find_task (tasks s') t = None /\ cont_closed s' = true.
Proof. exact refused_after_close. Qed.

(** no step from a closed state publishes on the flag *)
Theorem C16_closed_silent : forall stmt start th md ls l b,
  let s := run_labels (init_state stmt start th md) ls in
  cont_closed s = true -> ~ In (EvPub (PCont b)) (appended s (step s l)).
Proof. exact closed_step_silent. Qed.

(** the step in which the run task performs on_finished: every started plugin
    has unregistered itself, the others stay, and the flag follows *)
Theorem C16_finished_clears : forall stmt start th md ls,
  let s := run_labels (init_state stmt start th md) ls in
  runt s = Some RT_G_end ->
  let s' := step s StepRun in
  runt s' = Some RT_G_fin /\
  cont_plugins s' = filter unstarted (cont_plugins s) /\
  (forall x, In x (cont_plugins s') -> snd x = false) /\
  (cont_closed s = false -> enabled_of (trace s') = Some (nonempty (cont_plugins s'))).
Proof. exact finished_step. Qed.

(** after Continuous.close() nothing is ever published on the flag again ... *)
Theorem C16_closed : forall stmt start th md ls ls',
  let s := run_labels (init_state stmt start th md) ls in
  cont_closed s = true ->
  cpubs (trace (run_labels s ls')) = cpubs (trace s) /\ cont_closed (run_labels s ls') = true.
Proof. exact closed_forever. Qed.

(** ... and a continue request fails at once with RuntimeError, changing nothing else *)
Theorem C16_closed_request : forall stmt start th md ls t c,
  let s := run_labels (init_state stmt start th md) ls in
  cont_closed s = true -> is_cont c = true -> find_task (tasks s) t = None ->
  step s (Call t c) =
  set_trace (set_tasks s (remove_task (tasks s) t)) (EvRet t c RRuntimeError :: EvCall t c :: trace s).
Proof. exact closed_request_reachable. Qed.

(** the converse of the invariant: a continue request whose call waits for /
    has just got the lock has its plugin registered; once accepted, the plugin
    of the request that started the run is registered, and it is a STARTED one
    (it answers prompts) from on_start_run until on_finished *)
Theorem C16_registered : forall stmt start th md ls,
  let s := run_labels (init_state stmt start th md) ls in
  (forall t c p, find_task (tasks s) t = Some (c, p) -> is_cont c = true ->
                 p = WaitLock1 \/ p = Granted1 -> In (t, false) (cont_plugins s)) /\
  (run_cont s = true -> fresh (runt s) = true -> In (run_owner s, false) (cont_plugins s)) /\
  (run_cont s = true -> mid (runt s) = true -> In (run_owner s, true) (cont_plugins s)).
Proof. exact registered_reachable. Qed.

(** the flag, exactly ([active], Life/ContFlag.v): between start() and
    Continuous.close() the published value is true while a continue request is
    active -- its call waits for / has just got the lock, or it was accepted and
    its run has not yet performed on_finished -- and false otherwise *)
Theorem C16_flag_exact : forall stmt start th md ls,
  let s := run_labels (init_state stmt start th md) ls in
  nl_started s = true -> cont_closed s = false ->
  (active s -> enabled_of (trace s) = Some true) /\
  (~ active s -> enabled_of (trace s) = Some false).
Proof. exact flag_exact. Qed.

(** Non-vacuity: start; task 1 run_and_continue accepted; while its run is in
    progress task 2's run_and_continue is refused (the flag stays true: request
    1's run is in progress); the run finishes (flag false); reset; task 4 plain
    run(); while it runs task 5's run_and_continue is refused (true, then false)
    and no plugin is ever started during the plain run; the run finishes;
    close; task 7's run_and_continue fails with RuntimeError, nothing published. *)
Definition ex_o0 := mkOpts None None None None.
Definition ex_p1 : list label :=
  [Call 0 CStart; Step 0; Step 0; Step 0;
   Call 1 CRunCont; StepRun; StepRun; StepRun; Step 1; Step 1].
Definition ex_p2 : list label :=
  [ChildExit OReturn; StepRun].
Definition ex_p3 : list label :=
  [StepRun; StepRun; StepRun;
   Call 3 (CReset ex_o0); Step 3; Step 3; Step 3;
   Call 4 CRun; StepRun; StepRun; StepRun; Step 4; Step 4;
   Call 5 CRunCont].
Definition ex_p4 : list label :=
  [ChildExit OReturn; StepRun; StepRun; StepRun; StepRun;
   Call 6 CClose; Step 6; Step 6; Call 7 CRunCont].
Definition ex_i := init_state 7 1 true false.

Example C16_example_nonvacuous :
  let s0 := run_labels ex_i ex_p1 in                                   (* run of request 1 in progress *)
  let s1 := step s0 (Call 2 CRunCont) in                               (* request 2 refused *)
  let s2 := run_labels s1 ex_p2 in                                     (* about to perform on_finished *)
  let s3 := run_labels (step s2 StepRun) ex_p3 in                      (* plain run in progress, 5 refused *)
  let s4 := run_labels s3 ex_p4 in                                     (* closed *)
  (cont_plugins s0 = [(1%nat, true)] /\ run_cont s0 = true /\ runt s0 = Some RT_WaitChild) /\
  (appended s0 s1 = [EvCall 2 CRunCont; EvPub (PCont true); EvPub (PCont true); EvRet 2 CRunCont RMachineError]
   /\ cont_plugins s1 = [(1%nat, true)] /\ enabled_of (trace s1) = Some true) /\
  (runt s2 = Some RT_G_end /\ cont_plugins (step s2 StepRun) = [] /\
   enabled_of (trace (step s2 StepRun)) = Some false) /\
  (run_cont s3 = false /\ runt s3 = Some RT_WaitChild /\ cont_plugins s3 = [] /\
   rev (cpubs (trace s3)) = [false; true; true; true; false; true; false] /\
   nl_started s3 = true /\ cont_closed s3 = false) /\
  (cont_closed s4 = true /\ rev (cpubs (trace s4)) = [false; true; true; true; false; true; false] /\
   rev (rets_of (trace s4)) =
   [(0%nat, CStart, ROk); (1%nat, CRunCont, ROk); (2%nat, CRunCont, RMachineError);
    (3%nat, CReset ex_o0, ROk); (4%nat, CRun, ROk); (5%nat, CRunCont, RMachineError);
    (6%nat, CClose, ROk); (7%nat, CRunCont, RRuntimeError)]).
Proof. vm_compute. repeat split; reflexivity. Qed.


(** The repaired defect: a continuous run in progress, close() waiting for it,
    one more run_and_continue pending behind the close.  The run finishes (flag
    still true: request 3 pending), close() publishes false and closes the item,
    request 3 is then refused with MachineError and publishes nothing. *)
Definition ex_q1 : list label :=
  [Call 0 CStart; Step 0; Step 0; Step 0;
   Call 1 CRunCont; StepRun; StepRun; StepRun; Step 1; Step 1;
   Call 2 CClose; Call 3 CRunCont].
Definition ex_q2 : list label :=
  [ChildExit OReturn; StepRun; StepRun; StepRun; StepRun; Step 2; Step 2; Step 2].

Example C16_example_close_pending :
  let s1 := run_labels ex_i ex_q1 in
  let s2 := run_labels s1 ex_q2 in
  let s3 := step s2 (Step 3) in
  (tasks s1 = [(2%nat, (CClose, C_WaitRunFinished)); (3%nat, (CRunCont, WaitLock1))] /\
   runt s1 = Some RT_WaitChild /\ cont_plugins s1 = [(1%nat, true); (3%nat, false)]) /\
  (cont_closed s2 = true /\ tasks s2 = [(3%nat, (CRunCont, Granted1))] /\
   cont_plugins s2 = [(3%nat, false)] /\ enabled_of (trace s2) = Some false) /\
  (appended s2 s3 = [EvRet 3 CRunCont RMachineError] /\ cont_plugins s3 = [] /\ tasks s3 = [] /\
   rev (cpubs (trace s3)) = [false; true; true; true; false] /\
   skipn 8 (pubs_of (history s3)) =
     [PEndAll; PCont true; PRunInfo 1 RFinished 7 (Some OReturn); PCont true;
      PState Finished; PState Closed; PEndAll; PCont false; PEndCont] /\
   rev (rets_of (trace s3)) =
     [(0%nat, CStart, ROk); (1%nat, CRunCont, ROk); (2%nat, CClose, ROk); (3%nat, CRunCont, RMachineError)]).
Proof. vm_compute. repeat split; reflexivity. Qed.

(** ======================================================================================
    Tie of the Continuous part of the model to nextline/continuous.py and the call sites in
    nextline/main.py.  Gen/ContinuousSkel.v is REGENERATED from the source on every check by
    the fail-closed translator translate/continuous_skeleton.py (every method of Continue,
    Continuous and the Nextline methods that start/close/use the mode, as statement programs);
    Life/ContTie.v interprets the programs ([exec (prog m) e cur sh fr], environment [e]:
    for every await that is not translated code an ARBITRARY interference on the shared state
    and whether / with which kind of exception it raises) and proves the statements below.
    [sh_m sh] is a state of the model, [sh_cnt sh] the counter `_n_requests` (the model uses
    [length (cont_plugins s)]: [counted]), [sh_item sh] the closed flag of the PubSubItem (the
    model uses [cont_closed]: [coherent]). *)

(** Continuous._requested, for ALL environments: up to the `yield` it is the model's entry
    ([entry_m]: publish True, register (t, false)), counter + 1, ContextVar = own plugin (the
    second argument of [e_interf]); after the body: accepted -> nothing; raised (any class
    but the interpreter's own [XStuck]) -> if the plugin of this request is still registered:
    exactly that ONE plugin unregistered, counter - 1, flag re-published from the counter
    unless closed, exception re-raised; if it is gone (its run has finished meanwhile and
    on_finished has unregistered it): pluggy's AssertionError leaves `unregister`, disable()
    is NOT called (the request has been uncounted by on_finished), that exception propagates;
    the ContextVar is restored on every path ([after_with]).  Cancellation at the `yield` is
    the case [XBaseOnly]; Life/Model.v has no cancel label, so that branch is tied to no model
    transition.  The handler's `await self.disable()` is atomic (PubSubItem.publish never
    suspends: C08's atomicity check), so no cancellation is delivered inside it. *)
Theorem C16_tie_requested_all_env : forall e cur sh fr,
  env_ok e -> coherent sh -> cont_closed (sh_m sh) = false ->
  let t := fr_me fr in
  let sh1 := mkSh (entry_m (sh_m sh) t) (sh_cnt sh + 1) false in
  let sh2 := e_interf e CBody (Some t) sh1 in
  exec (prog MRequested) e cur sh fr =
  match e_exc e CBody with
  | None => (Fin, sh2, after_with fr)
  | Some XStuck => (Exc XStuck, sh2, after_with fr)
  | Some x =>
      (if has_plugin (sh_m sh2) t (e_own_started e)
       then (Exc x, disable_sh (set_m sh2 (unreg_m (sh_m sh2) t (e_own_started e))), after_with fr)
       else (Exc XOrdinary, sh2, after_with fr))
  end.
Proof. exact requested_all_env. Qed.

(** the request against the model's [do_call]: open -> [acquire] is entered with exactly the
    state the generator hands to its body, and [counted] is kept; closed -> RuntimeError out
    of publish(True), nothing registered or published *)
Theorem C16_tie_entry : forall s t c e cur fr n,
  is_cont c = true -> find_task (tasks s) t = None -> fr_me fr = t -> env_ok e ->
  let s0 := set_trace s (EvCall t c :: trace s) in
  let sh := mkSh s0 n (cont_closed s0) in
  (cont_closed s = false ->
     let sh1 := mkSh (entry_m s0 t) (n + 1) false in
     do_call s t c = acquire (sh_m sh1) t c false /\
     (counted sh -> counted sh1) /\
     exec (prog MRequested) e cur sh fr =
       (let sh2 := e_interf e CBody (Some t) sh1 in
        match e_exc e CBody with
        | None => (Fin, sh2, after_with fr)
        | Some XStuck => (Exc XStuck, sh2, after_with fr)
        | Some x => (if has_plugin (sh_m sh2) t (e_own_started e)
       then (Exc x, disable_sh (set_m sh2 (unreg_m (sh_m sh2) t (e_own_started e))), after_with fr)
       else (Exc XOrdinary, sh2, after_with fr))
        end)) /\
  (cont_closed s = true ->
     do_call s t c = finish_call s0 t c RRuntimeError /\
     exec (prog MRequested) e cur sh fr = (Exc XOrdinary, set_cnt sh (n + 1), fr)).
Proof. exact tie_entry. Qed.

(** the refusal path against the model's [refuse] (MachineError = an ordinary exception,
    raised before the run exists: the plugin is unstarted).  ONE-STEP link: the interference
    hypothesis says "whatever happened since the request was made, the refusal finds the state
    [release s] with the counter = the length of its registry"; that the counter IS that
    length along every history is [C16_tie_sys_flag] (for the regenerated code) -- it is an
    assumption here, as are NoDup / In (theorems on reachable model states: next entry) *)
Theorem C16_tie_refuse : forall s t c e cur sh0 fr,
  is_cont c = true -> fr_me fr = t -> env_ok e -> coherent sh0 -> cont_closed (sh_m sh0) = false ->
  e_exc e CBody = Some XOrdinary -> e_own_started e = false ->
  let s1 := release s in
  (forall v x, e_interf e CBody v x = mkSh s1 (Z.of_nat (length (cont_plugins s1))) (cont_closed s1)) ->
  NoDup (cont_plugins s1) -> In (t, false) (cont_plugins s1) ->
  exists sh',
    exec (prog MRequested) e cur sh0 fr = (Exc XOrdinary, sh', after_with fr) /\
    refuse s t c = finish_call (sh_m sh') t c RMachineError /\
    counted sh' /\ coherent sh'.
Proof. exact tie_refuse. Qed.

(** ... and on every reachable state of the model in which a continue request that has just
    been given the lock is refused (the hypotheses NoDup / In are theorems there) *)
Theorem C16_tie_refuse_reachable : forall a b c d ls t c0 e cur sh0 fr,
  let s := run_labels (init_state a b c d) ls in
  find_task (tasks s) t = Some (c0, Granted1) -> is_cont c0 = true -> st_fsm s <> Initialized ->
  fr_me fr = t -> env_ok e -> coherent sh0 -> cont_closed (sh_m sh0) = false ->
  e_exc e CBody = Some XOrdinary -> e_own_started e = false ->
  (forall v x, e_interf e CBody v x =
               mkSh (release s) (Z.of_nat (length (cont_plugins (release s)))) (cont_closed (release s))) ->
  exists sh',
    exec (prog MRequested) e cur sh0 fr = (Exc XOrdinary, sh', after_with fr) /\
    step s (Step t) = finish_call (sh_m sh') t c0 RMachineError /\
    counted sh' /\ coherent sh'.
Proof. exact tie_refuse_reachable. Qed.

(** Continuous.disable: never raises; decrements; publishes `counter > 0` unless closed *)
Theorem C16_tie_disable : forall e cur sh fr,
  coherent sh ->
  exec (prog MDisable) e cur sh fr = (Fin, disable_sh sh, fr).
Proof. exact disable_exec. Qed.

Theorem C16_tie_disable_model : forall sh,
  cont_closed (sh_m sh) = false -> sh_cnt sh = Z.of_nat (S (length (cont_plugins (sh_m sh)))) ->
  sh_m (disable_sh sh) = cont_disable (sh_m sh) /\ counted (disable_sh sh).
Proof. exact disable_model. Qed.

(** Continuous.close = the model's [close_cont] *)
Theorem C16_tie_close : forall e cur sh fr,
  sh_item sh = false ->
  exec (prog MClose) e cur sh fr = (Fin, close_sh sh, fr).
Proof. exact close_exec. Qed.

Theorem C16_tie_close_model : forall sh, counted sh ->
  sh_m (close_sh sh) = close_cont (sh_m sh) /\ coherent (close_sh sh) /\ counted (close_sh sh).
Proof. exact close_model. Qed.

(** Nextline.start against [do_call ... CStart]: False is published before Imp.aopen *)
Theorem C16_tie_nl_start : forall s t e cur n fr,
  find_task (tasks s) t = None -> nl_started s = false ->
  let s0 := set_trace s (EvCall t CStart :: trace s) in
  let x := publish (set_nl_started s0 true) (PCont false) in
  do_call s t CStart = acquire x t CStart false /\
  exec (prog MNlStart) e cur (mkSh s0 n false) fr =
    (match e_exc e CImpOpen with Some y => Exc y | None => Fin end, e_interf e CImpOpen (fr_ctx fr) (mkSh x n false), fr).
Proof. exact tie_nl_start. Qed.

(** Nextline.close: Imp.aclose first; Continuous.close after it and only if it returned; when
    Imp.aclose raises (any class, cancellation included) nothing of Continuous changes,
    `Nextline._closed` is reset and the exception re-raised *)
Theorem C16_tie_nl_close_order : forall e cur sh fr,
  nl_started (sh_m sh) = true ->
  let sh0 := set_m sh (set_nl_closed (sh_m sh) true) in
  let sh1 := e_interf e CImpClose (fr_ctx fr) sh0 in
  sh_item sh1 = false ->
  exec (prog MNlClose) e cur sh fr =
  if nl_closed (sh_m sh) then (Fin, sh, fr)
  else match e_exc e CImpClose with
       | Some XStuck => (Exc XStuck, sh1, fr)
       | Some x => (Exc x, set_m sh1 (set_nl_closed (sh_m sh1) false), fr)
       | None => (Fin, close_sh sh1, fr)
       end.
Proof. exact nl_close_exec. Qed.

(** ... and when Continuous.close itself raises, the flag is reset as well *)
Theorem C16_tie_nl_close_cont_raises : forall e cur sh fr,
  nl_started (sh_m sh) = true -> nl_closed (sh_m sh) = false -> e_exc e CImpClose = None ->
  let sh0 := set_m sh (set_nl_closed (sh_m sh) true) in
  let sh1 := e_interf e CImpClose (fr_ctx fr) sh0 in
  sh_item sh1 = true -> sh_cnt sh1 > 0 ->
  exec (prog MNlClose) e cur sh fr =
  (Exc XOrdinary, set_m sh1 (set_nl_closed (set_cont_closed (sh_m sh1) true) false), fr).
Proof. exact nl_close_cont_raises. Qed.

Theorem C16_tie_nl_close : forall s1 e cur sh fr,
  nl_started (sh_m sh) = true -> nl_closed (sh_m sh) = false -> e_exc e CImpClose = None ->
  (forall v x, e_interf e CImpClose v x = mkSh s1 (Z.of_nat (length (cont_plugins s1))) false) ->
  exists sh', exec (prog MNlClose) e cur sh fr = (Fin, sh', fr) /\
              sh_m sh' = close_cont s1 /\ coherent sh' /\ counted sh'.
Proof. exact tie_nl_close. Qed.

(** plain run(): Continuous is not touched and the ContextVar of the caller is what the run
    task inherits *)
Theorem C16_tie_plain_run : forall e cur sh fr,
  exec (prog MNlRun) e cur sh fr =
  (match e_exc e CImpRun with Some x => Exc x | None => Fin end, e_interf e CImpRun (fr_ctx fr) sh, fr).
Proof. exact nl_run_exec. Qed.

(** run_and_continue = `_requested` around exactly Imp.run() *)
Theorem C16_tie_run_and_continue : forall e cur sh fr,
  env_ok e -> coherent sh -> cont_closed (sh_m sh) = false ->
  exec (prog MNlRunAndContinue) e cur sh fr = exec (prog MRequested) (env_body e CImpRun) cur sh fr.
Proof. exact run_and_continue_exec. Qed.

(** run_continue_and_wait: `_requested` covers exactly the entering of run_session
    (= Imp.run()); the wait for the end of the run comes after it, only if accepted *)
Theorem C16_tie_run_continue_and_wait : forall e cur sh fr,
  env_ok e -> coherent sh -> cont_closed (sh_m sh) = false -> fr_deferred fr = [] ->
  exec (prog MNlRunContinueAndWait) e cur sh fr =
  let '(o, sh', fr') := exec (prog MRequested) (env_body e CImpRun) cur sh fr in
  match o with
  | Fin => (match e_exc e CImpWait with Some x => Exc x | None => Fin end, e_interf e CImpWait (fr_ctx fr') sh', fr')
  | _ => (o, sh', fr')
  end.
Proof. exact run_continue_and_wait_exec. Qed.

(** Continue.on_start_run over the registry = the model's [arm]: `_run_started` is set only
    for the plugin whose own request created the run task's context *)
Theorem C16_tie_arm : forall e cur sh requested owner l,
  map (fun x => (fst x, fr_started (snd (exec (prog MOnStartRun) e cur sh (plugin_frame x (run_ctx requested owner)))))) l
  = arm requested owner l.
Proof. exact tie_arm. Qed.

(** Continue.on_start_prompt sends the command iff `_run_started` *)
Theorem C16_tie_on_start_prompt : forall e cur sh fr,
  exec (prog MOnStartPrompt) e cur sh fr =
  if fr_started fr
  then (match e_exc e CSendCmd with Some x => Exc x | None => Fin end,
        e_interf e CSendCmd (fr_ctx fr) sh, set_sent fr (S (fr_sent fr)))
  else (Fin, sh, fr).
Proof. exact on_start_prompt_exec. Qed.

(** Continue.on_finished acts iff `_run_started`: unregisters itself, then disable() *)
Theorem C16_tie_on_finished : forall e cur sh fr,
  coherent sh ->
  exec (prog MOnFinished) e cur sh fr =
  if fr_started fr then
    if has_plugin (sh_m sh) (fr_me fr) true
    then (Fin, disable_sh (set_m sh (unreg_m (sh_m sh) (fr_me fr) true)), fr)
    else (Exc XOrdinary, sh, fr)
  else (Fin, sh, fr).
Proof. exact on_finished_exec. Qed.

(** one unrolling of the model's [cont_finished] = the interpreted on_finished of the first
    started plugin *)
Theorem C16_tie_cont_finished : forall e cur m n t b rest fuel,
  cont_closed m = false -> NoDup (cont_plugins m) ->
  filter (fun x => snd x) (cont_plugins m) = (t, b) :: rest ->
  let sh := mkSh m (Z.of_nat (length (cont_plugins m))) false in
  let r := exec (prog MOnFinished) e cur sh (plugin_frame (t, true) n) in
  cont_finished m (S fuel) = cont_finished (sh_m (snd (fst r))) fuel /\ counted (snd (fst r)).
Proof. exact tie_cont_finished. Qed.

(** who writes what: `_run_started` only Continue.__init__ / on_start_run; the ContextVar
    only `_requested`; counter, `_closed`, the item, registration only the five methods of
    Continuous that the theorems above cover *)
Theorem C16_tie_writers :
  forallb (fun m => negb (writes is_set_started (resolve m)) || meth_in m [MCInit; MOnStartRun]) all_meths = true /\
  forallb (fun m => negb (writes is_ctx_write (resolve m)) || meth_in m [MRequested]) all_meths = true /\
  forallb (fun m => negb (writes is_cont_write (resolve m)) || meth_in m [MInit; MStart; MClose; MRequested; MDisable]) all_meths = true.
Proof. exact writers. Qed.

(** the published flag is `counter > 0` unless closed (then off) after __init__ + start,
    after disable, after close, and on every way out of `_requested` for all environments
    whose interference keeps it (a per-call postcondition under a rely condition; the
    statement without rely condition, for all schedules, is [C16_tie_sys_flag]) *)
Theorem C16_tie_flag_init_start : forall e cur sh fr,
  let sh0 := snd (fst (exec (prog MInit) e cur sh fr)) in
  flag_inv (snd (fst (exec (prog MStart) e cur sh0 fr))).
Proof. exact flag_init_start. Qed.

Theorem C16_tie_flag_disable : forall sh, flag_inv sh -> flag_inv (disable_sh sh).
Proof. exact flag_disable. Qed.

Theorem C16_tie_flag_close : forall sh, flag_inv sh -> cont_closed (sh_m sh) = false -> flag_inv (close_sh sh).
Proof. exact flag_close. Qed.

Theorem C16_tie_flag_requested : forall e cur sh fr,
  env_ok e -> coherent sh -> cont_closed (sh_m sh) = false -> 0 <= sh_cnt sh ->
  (forall c v x, flag_inv x -> flag_inv (e_interf e c v x)) ->
  flag_inv (snd (fst (exec (prog MRequested) e cur sh fr))).
Proof. exact flag_requested. Qed.

(** non-vacuity of the tie: a concrete environment and state (one run in progress, task 3's
    run_and_continue cancelled inside Imp.run()) *)
Example C16_tie_example_nonvacuous :
  let '(o, sh', fr') := exec (prog MNlRunAndContinue) ex_env None ex_sh ex_fr in
  o = Exc XBaseOnly /\ sh_cnt sh' = 1 /\ cont_plugins (sh_m sh') = [(7%nat, true)] /\
  rev (cpubs (trace (sh_m sh'))) = [true; true; true] /\ fr_ctx fr' = None /\
  env_ok ex_env /\ coherent ex_sh /\ counted ex_sh /\ flag_inv ex_sh /\ flag_inv sh'.
Proof. exact ex_refused_nonvacuous. Qed.

(** `async with continuous:` = start / close; PIN of the two read accessors *)
Theorem C16_tie_aenter : forall e cur sh fr,
  exec (prog MAenter) e cur sh fr = exec (prog MStart) e cur sh fr.
Proof. exact aenter_exec. Qed.

Theorem C16_tie_aexit : forall e cur sh fr,
  exec (prog MAexit) e cur sh fr = exec (prog MClose) e cur sh fr.
Proof. exact aexit_exec. Qed.

Theorem C16_tie_accessors_pinned :
  resolve MEnabled = ReturnLatest /\ resolve MSubscribeEnabled = ReturnSubscribe.
Proof. exact accessors_pinned. Qed.

(** WHOLE HISTORIES on the regenerated code (Life/ContSys.v): a task-pool system whose every
    step is [exec] on a generated program -- a request is [LEnter] (the generator up to its
    yield) and [LExit] (the WHOLE generator re-run from the state it was started in, in the
    environment "the rest of the system has produced the current state, then the body returns
    / raises r"), plus the on_start_run / on_finished hooks of a run, Continuous.close and
    foreign events -- scheduled by an arbitrary label list.  The state handed to the body at
    the yield is the one [LEnter] computes: *)
Theorem C16_tie_sys_enter_state : forall sh fr,
  coherent sh -> cont_closed (sh_m sh) = false ->
  exec (prog MRequested) env_pass None sh fr =
  (Fin, mkSh (entry_m (sh_m sh) (fr_me fr)) (sh_cnt sh + 1) false, after_with fr).
Proof. exact enter_state. Qed.

(** the invariant, by induction over ALL schedules: coherent, flag = counter > 0 unless closed
    (then off), counter = number of registered plugins (>= once closed); every suspended
    request was started open *)
Theorem C16_tie_sys_inv : forall a b c d ls, SInv (srun (sys_init a b c d) ls).
Proof. exact SInv_reachable. Qed.

Theorem C16_tie_sys_flag : forall a b c d ls,
  let sh := y_sh (srun (sys_init a b c d) ls) in
  coherent sh /\
  (cont_closed (sh_m sh) = false ->
     sh_cnt sh = Z.of_nat (length (cont_plugins (sh_m sh))) /\
     enabled_of (trace (sh_m sh)) = Some (nonempty (cont_plugins (sh_m sh)))) /\
  (cont_closed (sh_m sh) = true -> enabled_of (trace (sh_m sh)) = Some false).
Proof. exact sys_flag. Qed.

(** non-vacuity: two requests refused in FIFO order (the history of seed C16-1), one accepted,
    armed, finished, one pending across close and then cancelled *)
Example C16_tie_sys_example :
  let y1 := srun (sys_init 7 1 true false)
              [LEnter 1 None; LEnter 2 None; LExit 1 (Some XOrdinary) false; LExit 2 (Some XOrdinary) false] in
  let y2 := srun y1 [LEnter 3 None; LArm true 3; LExit 3 None false] in
  let y3 := srun y2 [LFinished; LEnter 4 None; LClose; LExit 4 (Some XBaseOnly) false] in
  (rev (cpubs (trace (sh_m (y_sh y1)))) = [false; true; true; true; false] /\ cont_plugins (sh_m (y_sh y1)) = [] /\ sh_cnt (y_sh y1) = 0) /\
  (cont_plugins (sh_m (y_sh y2)) = [(3%nat, true)] /\ sh_cnt (y_sh y2) = 1 /\ enabled_of (trace (sh_m (y_sh y2))) = Some true) /\
  (rev (cpubs (trace (sh_m (y_sh y3)))) = [false; true; true; true; false; true; false; true; false] /\
   cont_plugins (sh_m (y_sh y3)) = [] /\ sh_cnt (y_sh y3) = 0 /\ sh_item (y_sh y3) = true /\ y_pend y3 = []).
Proof. exact sys_example. Qed.

Print Assumptions C16_cont_inv.
Print Assumptions C16_at_most_one_started.
Print Assumptions C16_started_only_in_own_run.
Print Assumptions C16_plain_run_never_auto.
Print Assumptions C16_flag.
Print Assumptions C16_refused_restores.
Print Assumptions C16_finished_clears.
Print Assumptions C16_closed.
Print Assumptions C16_closed_request.
Print Assumptions C16_registered.
Print Assumptions C16_flag_exact.
Print Assumptions C16_closed_flag_off.
Print Assumptions C16_refused_after_close.
Print Assumptions C16_closed_silent.
Print Assumptions C16_example_nonvacuous.
Print Assumptions C16_example_close_pending.
Print Assumptions C16_tie_requested_all_env.
Print Assumptions C16_tie_entry.
Print Assumptions C16_tie_refuse.
Print Assumptions C16_tie_refuse_reachable.
Print Assumptions C16_tie_disable.
Print Assumptions C16_tie_disable_model.
Print Assumptions C16_tie_close.
Print Assumptions C16_tie_close_model.
Print Assumptions C16_tie_nl_start.
Print Assumptions C16_tie_nl_close_order.
Print Assumptions C16_tie_nl_close.
Print Assumptions C16_tie_plain_run.
Print Assumptions C16_tie_run_and_continue.
Print Assumptions C16_tie_run_continue_and_wait.
Print Assumptions C16_tie_arm.
Print Assumptions C16_tie_on_start_prompt.
Print Assumptions C16_tie_on_finished.
Print Assumptions C16_tie_cont_finished.
Print Assumptions C16_tie_writers.
Print Assumptions C16_tie_flag_init_start.
Print Assumptions C16_tie_flag_disable.
Print Assumptions C16_tie_flag_close.
Print Assumptions C16_tie_flag_requested.
Print Assumptions C16_tie_example_nonvacuous.
Print Assumptions C16_tie_nl_close_cont_raises.
Print Assumptions C16_tie_aenter.
Print Assumptions C16_tie_aexit.
Print Assumptions C16_tie_accessors_pinned.
Print Assumptions C16_tie_sys_enter_state.
Print Assumptions C16_tie_sys_inv.
Print Assumptions C16_tie_sys_flag.
Print Assumptions C16_tie_sys_example.
