(** C11 -- published run state agrees with the event stream and is closed out at run end.
    Property theorems only; each is closed by [exact] of a lemma proved in
    Registrars/Proofs.v.

    Model: Registrars/Model.v ([pubs_events r es]: what the registrars hand to the broker for
    on_initialize_run, on_start_run and the events [es]; [pubs_run r es]: the same followed by
    on_end_run).  Every statement quantifies over EVERY stream [es] accepted by C09's prefix
    recogniser, i.e. (C09_prefix_closed) every well-formed stream cut at any point: a kill.
    The expected values ([active], [pl_of], [notices] ...) are functions of the history alone.
 *)
From NL Require Import Events.Grammar Events.GrammarProofs Registrars.Model Registrars.Proofs Registrars.Order.
Open Scope Z_scope.

(** after each event the last tuple published on trace_nos is the list of traces started and
    not yet ended, in start order *)
Theorem C11_active_set : forall r es, wf_prefix r es = true ->
  last_nos (pubs_events r es) = active es.
Proof. exact active_set. Qed.

(** over the whole run (including the leftovers closed by on_end_run after a kill) the
    trace_info publications about a trace are: running, finished -- exactly once each -- if
    the trace started, and nothing otherwise *)
Theorem C11_trace_info_once : forall r es, wf_prefix r es = true ->
  forall t,
    filter (about t) (on_topic TTraceInfo (pubs_run r es)) =
    if in_dec Z.eq_dec t (trace_starts es)
    then [Some (VTraceInfo r t (pl_of t es) true); Some (VTraceInfo r t (pl_of t es) false)]
    else [].
Proof. exact trace_info_once. Qed.

(** the notices published on prompt_notice are, in order, exactly one per prompt start of the
    stream, each carrying the trace/prompt numbers and text of that start and the location of
    the trace call that contains it *)
Theorem C11_notice_bijection : forall r es, wf_prefix r es = true ->
  on_topic TPromptNotice (pubs_events r es) = notices r es es.
Proof. exact notice_bijection. Qed.

(** prompts are reported open and then closed with the command that answered them.  Exactly:
    over the whole run (the events of any truncated stream, then on_end_run) the publications
    that report on a prompt ([is_report]: a PromptInfo carrying the prompt text) are, on
    prompt_info, in stream order: one open=true report for each OnStartPrompt (numbers and
    text of that event, location of the enclosing trace call) and one open=false report for
    each OnEndPrompt carrying the command of THAT event and the numbers/location/text of the
    prompt -- nothing else; on prompt_info_<t> the same for the prompts of trace t.  By the
    grammar (C09) the OnEndPrompt of a prompt follows its OnStartPrompt, at most once; a prompt
    still open when the stream is cut (kill) has no OnEndPrompt and gets no closing report,
    neither from the events nor from on_end_run *)
Theorem C11_prompt_open_close : forall r es, wf_prefix r es = true ->
  filter is_report (on_topic TPromptInfo (pubs_run r es)) = prompt_reports r es es /\
  forall t, filter is_report (on_topic (TPromptInfoFor t) (pubs_run r es)) = prompt_reports r es (proj t es).
Proof. exact prompt_open_close. Qed.

(** closed out, (i): after on_end_run the published active set is () *)
Theorem C11_closed_out_active_set : forall r es, last_nos (pubs_run r es) = [].
Proof. exact active_set_closed. Qed.

(** closed out, (ii): the per-trace prompt topic of every started trace has been ended exactly
    once, as the last thing sent on it; likewise prompt_notice *)
Theorem C11_closed_out_prompt_topics : forall r es, wf_prefix r es = true ->
  (forall t, In t (trace_starts es) ->
     exists vs, on_topic (TPromptInfoFor t) (pubs_run r es) = map Some vs ++ [None]) /\
  (exists vs, on_topic TPromptNotice (pubs_run r es) = map Some vs ++ [None]).
Proof. exact closed_out_prompt_topics. Qed.

(** closed out, (iii): with the pub/sub theorems (C08): whatever the subscribers of such a topic
    did and whenever they attached to it (any interleaving [ops] of their operations with the
    registrar's publications [obs] on the topic), each of them terminates *)
Theorem C11_closed_out_subscribers_terminate : forall obs ops,
  (exists vs, obs = map Some vs ++ [None]) ->
  map forget (filter is_publisher_op ops) = map to_op obs ->
  forall s, (s < length (PS.i_subs (PS.run false ops)))%nat ->
  exists n,
    let tail := skipn (length ops) (PS.outs false (ops ++ repeat (PS.Next s) (S n))) in
    last tail PS.OBlocked = PS.OStop /\ ~ In PS.OBlocked tail.
Proof. exact ended_topic_terminates. Qed.

(** non-vacuity: a run killed with two traces live, one of them at an open prompt *)
Definition ex_killed : list event :=
  [StartTrace 1 1 10; StartTraceCall 1 1 1 5 7; StartCmdloop 1 1 1; StartPrompt 1 1 1 1 3;
   StartTrace 1 2 11; EndPrompt 1 1 1 1 9; EndCmdloop 1 1 1; EndTraceCall 1 1 1;
   StartTrace 1 3 12; EndTrace 1 3;
   StartTraceCall 1 2 2 6 8; StartCmdloop 1 2 2; StartPrompt 1 2 2 2 3].

Example C11_example_nonvacuous :
  wf_prefix 1 ex_killed = true /\ wf 1 ex_killed = false /\
  active ex_killed = [1; 2] /\
  last_nos (pubs_events 1 ex_killed) = [1; 2] /\
  last_nos (pubs_run 1 ex_killed) = [] /\
  on_topic TTraceInfo (pubs_run 1 ex_killed) =
    [Some (VTraceInfo 1 1 10 true); Some (VTraceInfo 1 2 11 true); Some (VTraceInfo 1 3 12 true);
     Some (VTraceInfo 1 3 12 false); Some (VTraceInfo 1 2 11 false); Some (VTraceInfo 1 1 10 false)] /\
  last (on_topic (TPromptInfoFor 2) (pubs_run 1 ex_killed)) (Some (VNos [])) = None /\
  length (on_topic (TPromptInfoFor 2) (pubs_run 1 ex_killed)) = 3%nat /\
  on_topic TPromptNotice (pubs_run 1 ex_killed) =
    [Some (VNotice 1 1 1 3 7); Some (VNotice 1 2 2 3 8); None] /\
  notices 1 ex_killed ex_killed = [Some (VNotice 1 1 1 3 7); Some (VNotice 1 2 2 3 8)] /\
  filter is_report (on_topic TPromptInfo (pubs_run 1 ex_killed)) =
    [Some (VPromptInfo (mkPinfo 1 1 1 true (Some 7) (Some 3) None false));
     Some (VPromptInfo (mkPinfo 1 1 1 false (Some 7) (Some 3) (Some 9) false));
     Some (VPromptInfo (mkPinfo 1 2 2 true (Some 8) (Some 3) None false))] /\
  prompt_reports 1 ex_killed (proj 2 ex_killed) =
    [Some (VPromptInfo (mkPinfo 1 2 2 true (Some 8) (Some 3) None false))] /\
  raised (pubs_run 1 ex_killed) = false.
Proof. vm_compute. repeat split; reflexivity. Qed.

(** ------------------------------------------------------------------
    Tie of Registrars/Model.v to the source (Registrars/Tie.v): the hook implementations of
    nextline/plugin/plugins/registrars/*.py are REGENERATED on every check as statement ASTs
    (Gen/RegistrarsFuns.v, translate/registrars_funs.py); [Tie.run_class] interprets one of them on
    the encoded state of its registrar, [Tie.call_hook] runs all implementations of a hook in
    pluggy's call order computed from Gen/HookOrder.v, [Tie.run_event] goes through the regenerated
    dispatch table of OnEvent.  Each theorem: for ALL model states and ALL events the interpreted
    source yields exactly (the encoding of) the state and the publication list of the model. *)
From NL Require Import Registrars.Syntax Gen.RegistrarsFuns Gen.HookOrder Registrars.Tie Registrars.NoRaise.
Local Open Scope string_scope.

(** one obligation per registrar: every hook it implements against the model's function *)
Theorem C11_tie_TraceNumbersRegistrar :
  (forall rn l, run_class rn "TraceNumbersRegistrar" "on_initialize_run" [] (load_tn l) = Some (load_tn [], [])) /\
  (forall rn l r t pl, tied load_tn rn "TraceNumbersRegistrar" "on_start_trace" [("event", enc_event (StartTrace r t pl))] l (tn_start l t)) /\
  (forall rn l r t, tied load_tn rn "TraceNumbersRegistrar" "on_end_trace" [("event", enc_event (EndTrace r t))] l (tn_end l t)) /\
  (forall rn l a, tied load_tn rn "TraceNumbersRegistrar" "on_end_run" a l (tn_end_run l)).
Proof. exact (conj tie_tn_init (conj tie_tn_start (conj tie_tn_end tie_tn_end_run))). Qed.

Theorem C11_tie_TraceInfoRegistrar :
  (forall rn m, run_class rn "TraceInfoRegistrar" "on_initialize_run" [] (load_ti m) = Some (load_ti [], [])) /\
  (forall rn m r t pl, tied load_ti rn "TraceInfoRegistrar" "on_start_trace" [("event", enc_event (StartTrace r t pl))] m (ti_start rn m t pl)) /\
  (forall rn m r t, tied load_ti rn "TraceInfoRegistrar" "on_end_trace" [("event", enc_event (EndTrace r t))] m (ti_end m t)) /\
  (forall rn m a, tied load_ti rn "TraceInfoRegistrar" "on_end_run" a m (ti_end_run m)).
Proof. exact (conj tie_ti_init (conj tie_ti_start (conj tie_ti_end tie_ti_end_run))). Qed.

Theorem C11_tie_PromptInfoRegistrar :
  (forall rn s, run_class rn "PromptInfoRegistrar" "on_initialize_run" [] (load_pi s) = Some (load_pi pi_empty, [])) /\
  (forall rn s r t pl, tied load_pi rn "PromptInfoRegistrar" "on_start_trace" [("event", enc_event (StartTrace r t pl))] s (pi_start_trace rn s t)) /\
  (forall rn s r t, tied load_pi rn "PromptInfoRegistrar" "on_end_trace" [("event", enc_event (EndTrace r t))] s (pi_end_trace s t)) /\
  (forall rn s r t c fid info, tied load_pi rn "PromptInfoRegistrar" "on_start_trace_call" [("event", enc_event (StartTraceCall r t c fid info))] s (pi_start_call s t fid info)) /\
  (forall rn s r t c, tied load_pi rn "PromptInfoRegistrar" "on_end_trace_call" [("event", enc_event (EndTraceCall r t c))] s (pi_end_call rn s t)) /\
  (forall rn s r t c p txt, tied load_pi rn "PromptInfoRegistrar" "on_start_prompt" [("event", enc_event (StartPrompt r t c p txt))] s (pi_start_prompt rn s t p txt)) /\
  (forall rn s r t c p cmd, tied load_pi rn "PromptInfoRegistrar" "on_end_prompt" [("event", enc_event (EndPrompt r t c p cmd))] s (pi_end_prompt s t p cmd)) /\
  (forall rn s a, tied load_pi rn "PromptInfoRegistrar" "on_end_run" a s (pi_end_run s)).
Proof.
  exact (conj tie_pi_init (conj tie_pi_start_trace (conj tie_pi_end_trace (conj tie_pi_start_call
        (conj tie_pi_end_call (conj tie_pi_start_prompt (conj tie_pi_end_prompt tie_pi_end_run))))))).
Qed.

Theorem C11_tie_PromptNoticeRegistrar :
  (forall rn m, run_class rn "PromptNoticeRegistrar" "on_initialize_run" [] (load_pn m) = Some (load_pn [], [])) /\
  (forall rn m r t c fid info, tied load_pn rn "PromptNoticeRegistrar" "on_start_trace_call" [("event", enc_event (StartTraceCall r t c fid info))] m (pn_start_call m t fid info)) /\
  (forall rn m r t c, tied load_pn rn "PromptNoticeRegistrar" "on_end_trace_call" [("event", enc_event (EndTraceCall r t c))] m (pn_end_call m t)) /\
  (forall rn m r t c p txt, tied load_pn rn "PromptNoticeRegistrar" "on_start_prompt" [("event", enc_event (StartPrompt r t c p txt))] m (pn_start_prompt rn m t p txt)) /\
  (forall rn m a, tied load_pn rn "PromptNoticeRegistrar" "on_end_run" a m (pn_end_run m)).
Proof. exact (conj tie_pn_init (conj tie_pn_start_call (conj tie_pn_end_call (conj tie_pn_start_prompt tie_pn_end_run)))). Qed.

Theorem C11_tie_RunInfoRegistrar :
  (forall rn s, run_class rn "RunInfoRegistrar" "on_initialize_run" [] (load_ri rn s) =
                Some (load_ri rn (fst (ri_init rn)), map enc_pub (snd (ri_init rn)))) /\
  (forall rn s, tied (load_ri rn) rn "RunInfoRegistrar" "on_start_run" (run_event_arg "OnStartRun") s (ri_start_run rn s)) /\
  (forall rn s, tied (load_ri rn) rn "RunInfoRegistrar" "on_end_run" (run_event_arg "OnEndRun") s (ri_end_run rn s)).
Proof. exact (conj tie_ri_init (conj tie_ri_start_run tie_ri_end_run)). Qed.

Theorem C11_tie_StdoutRegistrar : forall rn r t txt,
  run_class rn "StdoutRegistrar" "on_write_stdout" [("event", enc_event (WriteStdout r t txt))] [] =
  Some ([], map enc_pub (so_write rn t txt)).
Proof. exact tie_so_write. Qed.

(** the registrars whose topics are outside the model (run_no, state_name, statement,
    script_file_name): exactly one publication of the given value per call, no state *)
Theorem C11_tie_other_registrars :
  (forall rn, run_class rn "RunNoRegistrar" "on_initialize_run" [] [] = Some ([], [GPub (VStr "run_no") (VInt rn)])) /\
  (forall rn v, run_class rn "StateNameRegistrar" "on_change_state" [("state_name", v)] [] = Some ([], [GPub (VStr "state_name") v])) /\
  (forall rn v w, run_class rn "ScriptRegistrar" "on_change_script" [("script", v); ("filename", w)] [] =
                  Some ([], [GPub (VStr "statement") v; GPub (VStr "script_file_name") w])).
Proof. exact (conj tie_run_no (conj tie_state_name tie_script)). Qed.

(** composed as a run calls them: the regenerated dispatch of OnEvent, then every implementation
    of the hook in pluggy's call order (from Gen/HookOrder.v), equals the model's [on_event] *)
Theorem C11_tie_on_event : forall rn s e,
  run_event rn (loadR rn s) e = Some (loadR rn (fst (on_event rn s e)), map enc_pub (snd (on_event rn s e))).
Proof. exact tie_on_event. Qed.

Theorem C11_tie_on_initialize_run : forall rn s,
  call_hook rn "on_initialize_run" [] (loadR rn s) =
  Some (loadR rn (fst (on_initialize_run rn s)),
        GPub (VStr "run_no") (VInt rn) :: map enc_pub (snd (on_initialize_run rn s))).
Proof. exact tie_on_initialize_run. Qed.

Theorem C11_tie_on_start_run : forall rn s,
  call_hook rn "on_start_run" (run_event_arg "OnStartRun") (loadR rn s) =
  Some (loadR rn (fst (on_start_run rn s)), map enc_pub (snd (on_start_run rn s))).
Proof. exact tie_on_start_run. Qed.

Theorem C11_tie_on_end_run : forall rn s,
  call_hook rn "on_end_run" (run_event_arg "OnEndRun") (loadR rn s) =
  Some (loadR rn (fst (on_end_run rn s)), map enc_pub (snd (on_end_run rn s))).
Proof. exact tie_on_end_run. Qed.

(** a whole run (any stream, cut anywhere), interpreted from the registrars as constructed: the
    publications are 'run_no' followed by the encoding of the model's [pubs_run] ... *)
Theorem C11_tie_whole_run : forall rn es,
  run_whole rn es =
  Some (loadR rn (fst (on_end_run rn (state_events rn es))),
        GPub (VStr "run_no") (VInt rn) :: map enc_pub (pubs_run rn es)).
Proof. exact tie_whole_run. Qed.

(** ... so what the interpreted source sends on each topic is the encoding of the model's
    [on_topic k (pubs_run rn es)], the sequence every theorem above speaks about *)
Theorem C11_tie_whole_run_topics : forall rn es,
  exists G ps, run_whole rn es = Some (G, ps) /\
    forall k, g_on_topic k ps = map (option_map enc_value) (on_topic k (pubs_run rn es)).
Proof. exact tie_whole_run_topics. Qed.

(** PINS (reflexivity between regenerated tables and terms written here, no simulation): the encoded
    state has exactly the classes and tracked attributes the translator found; the dispatch table is
    the one Registrars/Order.v ties to the model *)
Theorem C11_tie_state_shape : forall rn s,
  map (fun cs => (fst cs, map (fun ak => (fst ak, kind_of (snd ak))) (snd cs))) (loadR rn s) =
  map (fun g => (g_name g, g_attrs g)) Gen.RegistrarsFuns.registrars.
Proof. exact loadR_shape. Qed.

Theorem C11_tie_dispatch : Gen.RegistrarsFuns.funs_dispatch = Gen.HookOrder.on_event_dispatch.
Proof. exact dispatch_same. Qed.

(** non-vacuity of the tie: the killed run of C11_example_nonvacuous, interpreted *)
Example C11_tie_example :
  option_map (fun Gp => g_on_topic TTraceInfo (snd Gp)) (run_whole 1 ex_killed) =
  Some (map (option_map enc_value) (on_topic TTraceInfo (pubs_run 1 ex_killed))) /\
  option_map (fun Gp => List.length (snd Gp)) (run_whole 1 ex_killed) = Some 32%nat.
Proof. vm_compute. split; reflexivity. Qed.

(** ------------------------------------------------------------------
    Exceptions.  In the code a raising hook implementation kills the relay: later events are not
    dispatched and on_end_run is not awaited.  [pubs_run] (and [run_whole]) go on after a [Raise];
    the next theorems say that this never matters for the streams the theorems quantify over, and
    give the driver that stops as the code does. *)

(** no hook implementation of a registrar raises on a well-formed stream cut anywhere (on_end_run
    included): the KeyErrors of on_start_prompt / on_end_prompt and the asserts of RunInfoRegistrar
    are unreachable under the grammar of C09 *)
Theorem C11_no_raise : forall r es, wf_prefix r es = true -> raised (pubs_run r es) = false.
Proof. exact no_raise. Qed.

(** the relay as the code runs it ([run_events_stop]: stop dispatching at the first event in which
    an implementation raised) on the regenerated bodies = the model's [on_event] iterated with the
    same stop rule, for ALL states and ALL streams (well formed or not) *)
Theorem C11_tie_relay_stops_at_raise : forall rn es s,
  run_events_stop rn (loadR rn s) es =
  Some (loadR rn (fst (fst (feed_stop rn s es))), map enc_pub (snd (fst (feed_stop rn s es))), snd (feed_stop rn s es)).
Proof. exact tie_feed_stop. Qed.

(** the whole run with that rule (no on_end_run after an exception): on a stream accepted by
    wf_prefix it is never cut short and sends exactly 'run_no' followed by the model's [pubs_run] *)
Theorem C11_tie_whole_run_stop : forall rn es, wf_prefix rn es = true ->
  run_whole_stop rn es =
  Some (loadR rn (fst (on_end_run rn (state_events rn es))),
        GPub (VStr "run_no") (VInt rn) :: map enc_pub (pubs_run rn es), false).
Proof. exact tie_whole_run_stop. Qed.

(** outside the grammar the run IS cut short (OnStartPrompt with no trace call open: KeyError,
    relay dead, prompt_notice never ended) *)
Example C11_tie_run_stops_at_raise :
  option_map (fun x => (snd x, g_on_topic TPromptNotice (snd (fst x))))
    (run_whole_stop 1 [StartTrace 1 1 10; StartPrompt 1 1 1 1 3; EndTrace 1 1]) = Some (true, []).
Proof. exact run_stops_at_raise. Qed.

(** PIN of everything the translator does not translate (asserts on the context / on time stamps,
    ASSUMED to hold; statements and values that only feed untracked dataclass fields): its text, as
    regenerated, is the text the tie was written for.  No semantics is given to these positions. *)
Theorem C11_tie_untranslated_pinned :
  map fst Gen.RegistrarsFuns.untranslated =
  ["StdoutRegistrar.on_write_stdout"; "PromptNoticeRegistrar.on_start_prompt"; "PromptInfoRegistrar.on_start_trace";
   "PromptInfoRegistrar.on_end_trace_call"; "PromptInfoRegistrar.on_start_prompt"; "PromptInfoRegistrar.on_end_prompt";
   "TraceInfoRegistrar.on_end_run"; "TraceInfoRegistrar.on_start_trace"; "TraceInfoRegistrar.on_end_trace";
   "RunInfoRegistrar.on_initialize_run"; "RunInfoRegistrar.on_start_run"; "RunInfoRegistrar.on_end_run";
   "RunNoRegistrar.on_initialize_run"] /\
  flat_map snd Gen.RegistrarsFuns.untranslated =
  ["assert context.run_arg"; "StdoutInfo: written_at=event.written_at";
   "assert context.run_arg"; "PromptNotice: started_at=event.started_at";
   "assert context.run_arg"; "assert context.run_arg";
   "assert context.run_arg"; "PromptInfo: started_at=event.started_at";
   "replace: ended_at=event.ended_at";
   "replace: ended_at=datetime.datetime.utcnow()";
   "assert context.run_arg"; "TraceInfo: started_at=event.started_at";
   "replace: ended_at=event.ended_at";
   "assert context.run_arg";
   "if isinstance(context.run_arg.statement, str): script = context.run_arg.statement else: script = None";
   "RunInfo: script=script";
   "assert event.started_at.tzinfo is timezone.utc"; "started_at = event.started_at.replace(tzinfo=None)";
   "replace: started_at=started_at";
   "assert event.ended_at.tzinfo is timezone.utc"; "ended_at = event.ended_at.replace(tzinfo=None)";
   "replace: ended_at=ended_at"; "replace: exception=event.raised"; "replace: result=event.returned";
   "assert context.run_arg"].
Proof. split; reflexivity. Qed.

Print Assumptions C11_active_set.
Print Assumptions C11_trace_info_once.
Print Assumptions C11_notice_bijection.
Print Assumptions C11_prompt_open_close.
Print Assumptions C11_closed_out_active_set.
Print Assumptions C11_closed_out_prompt_topics.
Print Assumptions C11_closed_out_subscribers_terminate.
Print Assumptions C11_tie_TraceNumbersRegistrar.
Print Assumptions C11_tie_TraceInfoRegistrar.
Print Assumptions C11_tie_PromptInfoRegistrar.
Print Assumptions C11_tie_PromptNoticeRegistrar.
Print Assumptions C11_tie_RunInfoRegistrar.
Print Assumptions C11_tie_StdoutRegistrar.
Print Assumptions C11_tie_other_registrars.
Print Assumptions C11_tie_on_event.
Print Assumptions C11_tie_on_initialize_run.
Print Assumptions C11_tie_on_start_run.
Print Assumptions C11_tie_on_end_run.
Print Assumptions C11_tie_whole_run.
Print Assumptions C11_tie_whole_run_topics.
Print Assumptions C11_tie_state_shape.
Print Assumptions C11_tie_dispatch.
Print Assumptions C11_no_raise.
Print Assumptions C11_tie_relay_stops_at_raise.
Print Assumptions C11_tie_whole_run_stop.
Print Assumptions C11_tie_untranslated_pinned.
