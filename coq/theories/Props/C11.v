(** C11 -- published run state agrees with the event stream and is closed out at run end.
    Property theorems only; each is closed by [exact] of a lemma proved in
    Registrars/Proofs.v.

    Model: Registrars/Model.v ([pubs_events r es]: what the registrars hand to the broker for
    on_initialize_run, on_start_run and the events [es]; [pubs_run r es]: the same followed by
    on_end_run).  Every statement quantifies over EVERY stream [es] accepted by C09's prefix
    recogniser, i.e. (C09_prefix_closed) every well-formed stream cut at any point: a kill.
    The expected values ([active], [pl_of], [notices] ...) are functions of the history alone.
 *)
From NL Require Import Events.Grammar Events.GrammarProofs Registrars.Model Registrars.Proofs Registrars.Order.
Open Scope Z_scope.

(** after each event the last tuple published on trace_nos is the list of traces started and
    not yet ended, in start order *)
Theorem C11_active_set : forall r es, wf_prefix r es = true ->
  last_nos (pubs_events r es) = active es.
Proof. exact active_set. Qed.

(** over the whole run (including the leftovers closed by on_end_run after a kill) the
    trace_info publications about a trace are: running, finished -- exactly once each -- if
    the trace started, and nothing otherwise *)
Theorem C11_trace_info_once : forall r es, wf_prefix r es = true ->
  forall t,
    filter (about t) (on_topic TTraceInfo (pubs_run r es)) =
    if in_dec Z.eq_dec t (trace_starts es)
    then [Some (VTraceInfo r t (pl_of t es) true); Some (VTraceInfo r t (pl_of t es) false)]
    else [].
Proof. exact trace_info_once. Qed.

(** the notices published on prompt_notice are, in order, exactly one per prompt start of the
    stream, each carrying the trace/prompt numbers and text of that start and the location of
    the trace call that contains it *)
Theorem C11_notice_bijection : forall r es, wf_prefix r es = true ->
  on_topic TPromptNotice (pubs_events r es) = notices r es es.
Proof. exact notice_bijection. Qed.

(** prompts are reported open and then closed with the command that answered them.  Exactly:
    over the whole run (the events of any truncated stream, then on_end_run) the publications
    that report on a prompt ([is_report]: a PromptInfo carrying the prompt text) are, on
    prompt_info, in stream order: one open=true report for each OnStartPrompt (numbers and
    text of that event, location of the enclosing trace call) and one open=false report for
    each OnEndPrompt carrying the command of THAT event and the numbers/location/text of the
    prompt -- nothing else; on prompt_info_<t> the same for the prompts of trace t.  By the
    grammar (C09) the OnEndPrompt of a prompt follows its OnStartPrompt, at most once; a prompt
    still open when the stream is cut (kill) has no OnEndPrompt and gets no closing report,
    neither from the events nor from on_end_run *)
Theorem C11_prompt_open_close : forall r es, wf_prefix r es = true ->
  filter is_report (on_topic TPromptInfo (pubs_run r es)) = prompt_reports r es es /\
  forall t, filter is_report (on_topic (TPromptInfoFor t) (pubs_run r es)) = prompt_reports r es (proj t es).
Proof. exact prompt_open_close. Qed.

(** closed out, (i): after on_end_run the published active set is () *)
Theorem C11_closed_out_active_set : forall r es, last_nos (pubs_run r es) = [].
Proof. exact active_set_closed. Qed.

(** closed out, (ii): the per-trace prompt topic of every started trace has been ended exactly
    once, as the last thing sent on it; likewise prompt_notice *)
Theorem C11_closed_out_prompt_topics : forall r es, wf_prefix r es = true ->
  (forall t, In t (trace_starts es) ->
     exists vs, on_topic (TPromptInfoFor t) (pubs_run r es) = map Some vs ++ [None]) /\
  (exists vs, on_topic TPromptNotice (pubs_run r es) = map Some vs ++ [None]).
Proof. exact closed_out_prompt_topics. Qed.

(** closed out, (iii): with the pub/sub theorems (C08): whatever the subscribers of such a topic
    did and whenever they attached to it (any interleaving [ops] of their operations with the
    registrar's publications [obs] on the topic), each of them terminates *)
Theorem C11_closed_out_subscribers_terminate : forall obs ops,
  (exists vs, obs = map Some vs ++ [None]) ->
  map forget (filter is_publisher_op ops) = map to_op obs ->
  forall s, (s < length (PS.i_subs (PS.run false ops)))%nat ->
  exists n,
    let tail := skipn (length ops) (PS.outs false (ops ++ repeat (PS.Next s) (S n))) in
    last tail PS.OBlocked = PS.OStop /\ ~ In PS.OBlocked tail.
Proof. exact ended_topic_terminates. Qed.

(** non-vacuity: a run killed with two traces live, one of them at an open prompt *)
Definition ex_killed : list event :=
  [StartTrace 1 1 10; StartTraceCall 1 1 1 5 7; StartCmdloop 1 1 1; StartPrompt 1 1 1 1 3;
   StartTrace 1 2 11; EndPrompt 1 1 1 1 9; EndCmdloop 1 1 1; EndTraceCall 1 1 1;
   StartTrace 1 3 12; EndTrace 1 3;
   StartTraceCall 1 2 2 6 8; StartCmdloop 1 2 2; StartPrompt 1 2 2 2 3].

Example C11_example_nonvacuous :
  wf_prefix 1 ex_killed = true /\ wf 1 ex_killed = false /\
  active ex_killed = [1; 2] /\
  last_nos (pubs_events 1 ex_killed) = [1; 2] /\
  last_nos (pubs_run 1 ex_killed) = [] /\
  on_topic TTraceInfo (pubs_run 1 ex_killed) =
    [Some (VTraceInfo 1 1 10 true); Some (VTraceInfo 1 2 11 true); Some (VTraceInfo 1 3 12 true);
     Some (VTraceInfo 1 3 12 false); Some (VTraceInfo 1 2 11 false); Some (VTraceInfo 1 1 10 false)] /\
  last (on_topic (TPromptInfoFor 2) (pubs_run 1 ex_killed)) (Some (VNos [])) = None /\
  length (on_topic (TPromptInfoFor 2) (pubs_run 1 ex_killed)) = 3%nat /\
  on_topic TPromptNotice (pubs_run 1 ex_killed) =
    [Some (VNotice 1 1 1 3 7); Some (VNotice 1 2 2 3 8); None] /\
  notices 1 ex_killed ex_killed = [Some (VNotice 1 1 1 3 7); Some (VNotice 1 2 2 3 8)] /\
  filter is_report (on_topic TPromptInfo (pubs_run 1 ex_killed)) =
    [Some (VPromptInfo (mkPinfo 1 1 1 true (Some 7) (Some 3) None false));
     Some (VPromptInfo (mkPinfo 1 1 1 false (Some 7) (Some 3) (Some 9) false));
     Some (VPromptInfo (mkPinfo 1 2 2 true (Some 8) (Some 3) None false))] /\
  prompt_reports 1 ex_killed (proj 2 ex_killed) =
    [Some (VPromptInfo (mkPinfo 1 2 2 true (Some 8) (Some 3) None false))] /\
  raised (pubs_run 1 ex_killed) = false.
Proof. vm_compute. repeat split; reflexivity. Qed.

Print Assumptions C11_active_set.
Print Assumptions C11_trace_info_once.
Print Assumptions C11_notice_bijection.
Print Assumptions C11_prompt_open_close.
Print Assumptions C11_closed_out_active_set.
Print Assumptions C11_closed_out_prompt_topics.
Print Assumptions C11_closed_out_subscribers_terminate.
