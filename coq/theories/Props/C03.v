(** C03 -- close() always completes and leaves everything shut down.
    Property theorems only; each is closed by [exact] of a lemma of Life/Close.v.

    Model: Life/Model.v (the lifecycle LTS of the code after the `fix:` commits).
    All statements are for EVERY label sequence [ls] from EVERY initial
    configuration: every history of API calls from any number of tasks, every
    interleaving of their suspended transitions, of the run task and of the child's
    exit.  [appended s (step s l)] = the events the step [l] adds to the trace. *)
From NL Require Import Life.Model Life.LockInv Life.FsmInv Life.Hist Life.Close.
Open Scope Z_scope.

(** ---- A. safety ---- *)

(** whenever a close() returns: without error; if it is the close that did the work
    (issued with `_closed` false: it returns from the close hook gate or from the
    internal transition of `closed`), the state is `closed`, no child is alive or
    un-awaited, the run task is gone, the `continuous` item and the broker have been
    closed (PEndAll, PEndCont published: every subscription handed out earlier has
    been ended, C08); if it was issued with `_closed` already true it changed
    nothing but the call log *)
Theorem C03_returns_closed : forall stmt start th md ls l t r,
  let s := run_labels (init_state stmt start th md) ls in
  In (EvRet t CClose r) (appended s (step s l)) ->
  r = ROk /\
  ((closed_down (step s l) /\
    ((l = Call t CClose /\ nl_closed s = false /\ find_task (tasks s) t = None) \/
     (l = Step t /\ exists p, find_task (tasks s) t = Some (CClose, p)))) \/
   (l = Call t CClose /\ nl_closed s = true /\ find_task (tasks s) t = None /\
    step s l = set_trace s (EvRet t CClose ROk :: EvCall t CClose :: trace s))).
Proof. exact close_returns_reachable. Qed.

(** in particular none of the error returns of the model is reachable for a close:
    `_run_finished` always exists when close meets `running`, and the start part of a
    close is never refused *)
Theorem C03_never_raises : forall stmt start th md ls l t r,
  let s := run_labels (init_state stmt start th md) ls in
  In (EvRet t CClose r) (appended s (step s l)) ->
  r <> RAttributeError /\ r <> RMachineError /\ r <> RRuntimeError /\ r <> RAssertionError.
Proof. exact close_never_raises. Qed.

(** `closed` is absorbing for every label, and every later close() (from a task that
    is not inside a call) returns at once: no hook, no publication, no state change *)
Theorem C03_idempotent : forall stmt start th md ls,
  let s := run_labels (init_state stmt start th md) ls in
  st_fsm s = Closed ->
  (forall ls', st_fsm (run_labels s ls') = Closed) /\
  (forall ls' t, let s' := run_labels s ls' in
     find_task (tasks s') t = None ->
     step s' (Call t CClose) = set_trace s' (EvRet t CClose ROk :: EvCall t CClose :: trace s')).
Proof. exact close_idempotent. Qed.

(** no child process and no run task in `closed`, now and for ever after *)
Theorem C03_no_child_after_close : forall stmt start th md ls,
  let s := run_labels (init_state stmt start th md) ls in
  st_fsm s = Closed ->
  alive s = 0%nat /\ runt s = None /\ pending_exit s = None /\
  forall ls', alive (run_labels s ls') = 0%nat /\ runt (run_labels s ls') = None.
Proof. exact no_child_after_close. Qed.

(** the broker is closed ONCE MORE, atomically with the return of the close that does
    the work (`Imp.aclose`: pubsub.close() first, then possibly a wait for the run,
    then the `close` trigger, then pubsub.close() again, still under the lock).  The
    step that returns appends, newest first,
      EvRet t CClose ROk :: EvPub PEndCont :: [EvPub (PCont false)]? ++ EvPub PEndAll :: older
    so no broker publication (PState, PRunInfo, PRunNo, PStatement) comes after that
    PEndAll: only the `continuous` item, which is not a broker topic, is touched *)
Theorem C03_return_closes_broker_again : forall stmt start th md ls l t r,
  let s := run_labels (init_state stmt start th md) ls in
  In (EvRet t CClose r) (appended s (step s l)) ->
  nl_closed s = false \/ l = Step t ->
  exists coff mid, (coff = [] \/ coff = [EvPub (PCont false)]) /\
    trace (step s l) =
    EvRet t CClose ROk :: EvPub PEndCont :: coff ++ EvPub PEndAll :: mid ++ trace s.
Proof. exact close_return_shape. Qed.

(** every subscription handed out earlier has been ended.  A subscription is modelled
    as a point of the history: the trace prefix [pre] at which it was handed out --
    ANY point up to the state the returning step starts from, in particular one that
    lies after the first pubsub.close() of a close in progress (a `defaultdict` topic
    re-created while close() waits for the run).  After that point and before the
    return there is a PEndAll; the broker theorem C08_broker_close_ends_everything
    says that a close-out ends every subscriber of every topic existing then *)
Theorem C03_subscriptions_ended : forall stmt start th md ls l t r,
  let s := run_labels (init_state stmt start th md) ls in
  In (EvRet t CClose r) (appended s (step s l)) ->
  nl_closed s = false \/ l = Step t ->
  forall older pre, trace s = older ++ pre ->
  exists post, trace (step s l) = EvRet t CClose ROk :: post ++ pre /\ In (EvPub PEndAll) post.
Proof. exact subscriptions_ended. Qed.

(** ---- B. progress ---- *)

(** every label that is not a new API call and that changes the state decreases a
    natural-number measure: no infinite internal activity, the FIFO hand-over of the
    lock and the re-queueing of close() after its start part included *)
Theorem C03_measure : forall stmt start th md ls l,
  let s := run_labels (init_state stmt start th md) ls in
  internal l = true -> step s l <> s -> (mu (step s l) < mu s)%nat.
Proof. exact measure_decreases. Qed.

(** no deadlock: whenever a task is queued for the lifecycle lock or inside start/close
    (a pc a close() can be at), some task step or the run task can move -- unless
    everything waits for the child process alone, which is characterised exactly:
    the run task waits for the child, one child is alive and has not exited, the lock
    holder is a close() waiting for the run, every other call waits for the lock or
    for the run; then the child's exit is enabled and unblocks the run task *)
Theorem C03_no_deadlock : forall stmt start th md ls,
  let s := run_labels (init_state stmt start th md) ls in
  (exists t c p, find_task (tasks s) t = Some (c, p) /\ compat CClose p = true) ->
  (exists t', (mu (step s (Step t')) < mu s)%nat) \/
  (mu (step s StepRun) < mu s)%nat \/
  (waits_only_child s /\
   forall o, (mu (step s (ChildExit o)) < mu s)%nat /\ run_blocked (step s (ChildExit o)) = false).
Proof. exact no_deadlock. Qed.

(** close() completes: from every reachable state with a close in flight (at any of
    its suspension points, issued by any task, whatever the other tasks are doing)
    there is a finite continuation made only of task steps, run-task steps and the
    exit of the child -- no new API call -- after which that close has returned ROk
    and everything is shut down *)
Theorem C03_close_completes : forall stmt start th md ls t p,
  let s := run_labels (init_state stmt start th md) ls in
  find_task (tasks s) t = Some (CClose, p) ->
  exists ls', Forall (fun x => internal x = true) ls' /\
    let s' := run_labels s ls' in
    hd_error (trace s') = Some (EvRet t CClose ROk) /\ closed_down s' /\
    exists new, trace s' = new ++ trace s /\ In (EvRet t CClose ROk) new.
Proof. exact close_completes. Qed.

(** the recorded finding "close() with an unanswered prompt never returns": a
    reachable state with a close in flight in which no task step and no step of the
    run task changes anything -- only the exit of the child does, and then the same
    close completes *)
Theorem C03_needs_child_exit_witness :
  find_task (tasks stuck_state) 1%nat = Some (CClose, C_WaitRunFinished) /\
  st_fsm stuck_state = Running /\ runt stuck_state = Some RT_WaitChild /\
  alive stuck_state = 1%nat /\ pending_exit stuck_state = None /\
  (forall t, step stuck_state (Step t) = stuck_state) /\
  step stuck_state StepRun = stuck_state /\
  (forall o, step stuck_state (ChildExit o) <> stuck_state) /\
  (let s' := run_labels stuck_state [ChildExit OReturn; StepRun; StepRun; StepRun; StepRun;
                                    Step 1; Step 1; Step 1]%nat in
   st_fsm s' = Closed /\ tasks s' = [] /\ alive s' = 0%nat /\
   hd_error (trace s') = Some (EvRet 1%nat CClose ROk)).
Proof. exact stuck_witness. Qed.

(** observation (mirrors `if self._closed: return` in Nextline.close): a SECOND close()
    issued while the first one is still waiting for the run returns at once, without
    error, while the state is still `running` -- "when close() returns the state is
    closed" is a statement about the close that does the work (C03_returns_closed,
    first disjunct); the later ones only promise "does nothing" *)
Theorem C03_second_close_returns_early_witness :
  let s := run_labels stuck_state [Call 2%nat CClose] in
  nl_closed stuck_state = true /\ st_fsm s = Running /\ alive s = 1%nat /\
  hd_error (trace s) = Some (EvRet 2%nat CClose ROk).
Proof. vm_compute. repeat split; reflexivity. Qed.

(** ---- non-vacuity: start, run, close() from another task while running, the child
    exits, the run completes, the close completes; then a second close ---- *)
Definition ex_before_return : list label :=
  stuck_labels ++ [ChildExit OReturn; StepRun; StepRun; StepRun; StepRun; Step 1; Step 1]%nat.

Example C03_example_nonvacuous :
  let s := run_labels (init_state 0 1 false false) ex_before_return in
  let s1 := step s (Step 1%nat) in
  let s2 := step s1 (Call 2%nat CClose) in
  find_task (tasks s) 1%nat = Some (CClose, C_G4) /\
  appended s s1 = [EvPub PEndAll; EvPub PEndCont; EvRet 1%nat CClose ROk] /\
  (* the broker was closed twice: when close() took the lock, and with its return *)
  filter (fun e => match e with EvPub PEndAll => true | _ => false end) (trace s1) =
    [EvPub PEndAll; EvPub PEndAll] /\
  filter (fun e => match e with EvPub PEndAll => true | _ => false end) (trace s) = [EvPub PEndAll] /\
  In (EvRet 1%nat CClose ROk) (appended s s1) /\
  closed_down s1 /\
  states_of (pubs_of (history s1)) = [Initialized; Running; Finished; Closed] /\
  nl_closed s1 = true /\
  appended s1 s2 = [EvCall 2%nat CClose; EvRet 2%nat CClose ROk] /\
  st_fsm s2 = Closed /\ tasks s2 = [] /\ alive s2 = 0%nat.
Proof.
  vm_compute. repeat split; try reflexivity; repeat (first [left; reflexivity | right]).
Qed.

(** the measure along that history is strictly decreasing on the internal labels *)
Example C03_example_measure :
  map (fun n => mu (run_labels (init_state 0 1 false false) (firstn n ex_before_return)))
      [11; 12; 13; 14; 15; 16; 17; 18]%nat = [40; 39; 37; 36; 35; 33; 31; 30]%nat.
Proof. vm_compute. reflexivity. Qed.

Print Assumptions C03_returns_closed.
Print Assumptions C03_never_raises.
Print Assumptions C03_return_closes_broker_again.
Print Assumptions C03_subscriptions_ended.
Print Assumptions C03_idempotent.
Print Assumptions C03_no_child_after_close.
Print Assumptions C03_measure.
Print Assumptions C03_no_deadlock.
Print Assumptions C03_close_completes.
Print Assumptions C03_needs_child_exit_witness.

(** ---- tie of the close path of the model to nextline/imp.py + nextline/main.py ----
    Gen/ImpSkeleton.v is REGENERATED from the source by translate/imp_skeleton.py at every check;
    Life/ImpTie.v interprets it ([exec]: an oracle decides at every await whether it raises and
    the value of every untracked condition).  All statements are for every oracle. *)
From Coq Require Import String.
From NL Require Import Life.ImpSyntax Gen.ImpSkeleton Life.ImpTie.

(** every trigger issued by a method of Imp / Nextline (the run task's own `finish` is outside the
    lock by design, fsm/callback.py) and every pubsub.close() under the lock; the lock never
    requested while held, user code never run under it, no wait_for timeout armed under it, and free
    again when the call ends -- whatever raised (the release itself is the meaning of `async with`) *)
Theorem C03_tie_lock_released_on_every_path : forall ob m, In m (names ob) -> forall st cl o,
  let x := exec ob m st cl o in
  res_of x <> RBad /\ lock_ok false (trace_of x) = true /\ lk_held (cfg_of x) = false.
Proof. exact lock_discipline. Qed.

(** the actions of Nextline.close() / Imp.aclose() in the code are, in this order, those of the
    model's close paths (pubsub.close; the wait iff 'running'; the trigger; pubsub.close again;
    Continuous.close), the model holding the lock at every gate of the path *)
Theorem C03_tie_close_order :
  happy ONextline "close"%string true false false = [model_acts 2 s_started close_ls_idle] /\
  happy ONextline "close"%string true false true = [model_acts 2 s_running close_ls_running] /\
  happy ONextline "close"%string false false false = [model_acts 2 st_created close_ls_fresh] /\
  happy ONextline "close"%string true true false = [model_acts 2 s_closed [Model.Call 3 CClose]] /\
  map (fun a => a ++ [AContClose]) (happy OImp "aclose"%string true false false) = [model_acts 2 s_started close_ls_idle] /\
  map (fun a => a ++ [AContClose]) (happy OImp "aclose"%string true false true) = [model_acts 2 s_running close_ls_running] /\
  model_holds 2 s_started close_ls_idle = true /\ returned_ok 2 (run_labels s_started close_ls_idle) = true /\
  model_holds 2 s_running close_ls_running = true /\ returned_ok 2 (run_labels s_running close_ls_running) = true /\
  model_holds 2 st_created close_ls_fresh = true /\ returned_ok 2 (run_labels st_created close_ls_fresh) = true /\
  st_fsm s_running = Running /\ st_fsm s_started = Initialized /\
  model_acts 2 s_running close_ls_running = [APubSubClose; AWaitRun; ATrigClose; APubSubClose; AContClose] /\
  model_acts 2 st_created close_ls_fresh = [AContStart; ATrigOpen; APubSubClose; ATrigClose; APubSubClose; AContClose].
Proof. exact close_order_agrees. Qed.

(** every execution of close() (also those in which something raises) is such a path cut at the
    failing await; Continuous.start()/close() run outside the lock *)
Theorem C03_tie_close_cut_path : forall m, In m close_names -> forall st cl o,
  close_shape st cl (exec ONextline m st cl o) = true.
Proof. exact close_every_execution_is_a_cut_path. Qed.

(** the wait for the run is under the lock in close(), outside it in run_session() *)
Theorem C03_tie_wait_lock_status :
  (forall m, In m close_names -> forall st cl o, waits_held true false (trace_of (exec ONextline m st cl o)) = true) /\
  (forall st cl o, waits_held true false (trace_of (exec OImp "aclose"%string st cl o)) = true) /\
  (forall m, In m session_names -> forall st cl o, waits_held false false (trace_of (exec ONextline m st cl o)) = true) /\
  locked_pc C_WaitRunFinished = true /\ locked_pc P_WaitRunFinished = false.
Proof. exact wait_for_run_lock_status. Qed.

(** a close() issued when `_closed` is True -- i.e. after a close() that COMPLETED, see
    C03_tie_cut_close_can_be_repeated -- returns at the guard *)
Theorem C03_tie_second_close_does_nothing : forall st o,
  exec ONextline "close"%string st true o =
    (RNorm, mkCfg st true false, [EEnter ONextline "close"%string; EGuard (GFlag FClosed) true]).
Proof. exact second_close_does_nothing. Qed.

(** close() on a never-started object starts it first (fix 3e5a1b5) *)
Theorem C03_tie_close_starts_first : forall m, In m close_names -> forall o,
  let x := exec ONextline m false false o in
  opened_first false (trace_of x) = true /\ f_started (cfg_of x) = true /\
  (is_norm (res_of x) = true -> f_closed (cfg_of x) = true).
Proof. exact close_starts_first. Qed.

(** a close() that was cut at ANY await (refused trigger, raising hook, cancellation, the timeout of
    __aexit__) raises and leaves `_closed` False, so that the next close() does the work again; a
    close() in which nothing raised returns with `_closed` True; the lock is free (fix 9ec32d9) *)
Theorem C03_tie_cut_close_can_be_repeated : forall m, In m close_names -> forall st o,
  let x := exec ONextline m st false o in
  (existsb raised (trace_of x) = true -> res_of x = RExc /\ f_closed (cfg_of x) = false) /\
  (existsb raised (trace_of x) = false -> is_norm (res_of x) = true /\ f_closed (cfg_of x) = true) /\
  lk_held (cfg_of x) = false.
Proof. exact cut_close_can_be_repeated. Qed.

(** the only `asyncio.wait_for` is the one of __aexit__ around the whole of close(), outside the lock *)
Theorem C03_tie_timeout_only_around_close_in_aexit :
  (forall m, In m (names ONextline) -> forall st cl o, waitfor_ok m (exec ONextline m st cl o) = true) /\
  (forall m, In m (names OImp) -> forall st cl o, existsb is_waitfor (trace_of (exec OImp m st cl o)) = false) /\
  assoc "__aexit__"%string nextline_methods = Some (WaitFor (ImpSyntax.Call ONextline "close"%string)).
Proof. exact timeout_only_around_close_in_aexit. Qed.

(** the timeout of __aexit__ fires while close() waits for the run: TimeoutError propagates (intended
    API; for C03 the recorded finding "the run does not end"), lock released, `close` never
    triggered, `_closed` False again, and a later close() takes the model's close path *)
Theorem C03_tie_aexit_timeout_while_waiting_for_the_run :
  let x := exec ONextline "__aexit__"%string true false [false; false; true; true] in
  res_of x = RExc /\ f_closed (cfg_of x) = false /\ lk_held (cfg_of x) = false /\
  trace_of x = [EEnter ONextline "__aexit__"%string; EWaitFor; EEnter ONextline "close"%string; EGuard (GFlag FClosed) false;
                ESet FClosed true; EEnter ONextline "start"%string; EGuard (GFlag FStarted) true;
                EEnter OImp "aclose"%string; EAcq true; EPubClose true; EGuard (GStateIs "running"%string) true;
                EWaitRun false; ERel; ESet FClosed false] /\
  happy ONextline "close"%string true (f_closed (cfg_of x)) true = [model_acts 2 s_running close_ls_running].
Proof. exact aexit_timeout_while_waiting_for_the_run. Qed.

(** per-call refinement against Model.do_call / do_step (Life/ImpTie.v section 5), every oracle *)
Theorem C03_tie_call_refinement : forall s c m, In s ref_states -> In c ref_calls -> In m (nl_methods_of c) ->
  (forall o, let x := exec ONextline m (nl_started s) (nl_closed s) o in
     verdict_of s c x <> VMismatch /\ (verdict_of s c x = VEqual -> end_agrees s c x = true)) /\
  (exists o, verdict_of s c (exec ONextline m (nl_started s) (nl_closed s) o) = VEqual).
Proof. exact call_refinement. Qed.

Print Assumptions C03_tie_lock_released_on_every_path.
Print Assumptions C03_tie_close_order.
Print Assumptions C03_tie_close_cut_path.
Print Assumptions C03_tie_wait_lock_status.
Print Assumptions C03_tie_second_close_does_nothing.
Print Assumptions C03_tie_close_starts_first.
Print Assumptions C03_tie_cut_close_can_be_repeated.
Print Assumptions C03_tie_timeout_only_around_close_in_aexit.
Print Assumptions C03_tie_aexit_timeout_while_waiting_for_the_run.
Print Assumptions C03_tie_call_refinement.

(** ---- tie of the callback wiring of the close paths (session 5): Gen/MachineWiring.v (translate/machine_wiring.py),
    Life/MachineTie.v.  The `close` trigger of the model = the program derived from the regenerated CONFIG,
    StateMachine and Callback, for ALL model states. *)
From NL Require Gen.FsmConfig Life.MachineSyntax Gen.MachineWiring Life.MachineTie.

(** every source state but Created; from Running the model fires the trigger only once `_run_finished` is set
    (Imp.aclose has waited, next theorem but one), so the wait of on_close_while_running passes at once;
    in Closed: the internal transition -- no callback, no state change, after_state_change returns early *)
Theorem C03_tie_machine_close_trigger : forall s t, st_fsm s <> Created ->
  (st_fsm s = Running -> run_finished s = Some true) ->
  close_trigger s t = MachineTie.api_trigger t CClose FsmConfig.TClose s.
Proof. exact MachineTie.tie_close_trigger. Qed.

(** from Created (unreachable: Imp.aclose runs after aopen) the model has no suspension at the `start` hook *)
Theorem C03_tie_machine_close_trigger_created : forall s t, st_fsm s = Created ->
  exists k, MachineTie.api_prog t CClose FsmConfig.TClose Created = Some k /\
            close_trigger s t = MachineTie.api_embed t CClose FsmConfig.TClose (MachineTie.run (MachineTie.ungate S_G1 k) s).
Proof. exact MachineTie.tie_close_trigger_created. Qed.

(** close while running: Imp.aclose awaits the regenerated Callback.wait_for_run_finish BEFORE the trigger:
    AttributeError if no run was ever started, at once if set, otherwise parked at C_WaitRunFinished until set *)
Theorem C03_tie_machine_close_while_running : forall s t,
  exists a r, MachineTie.wait_for_run_finish_prims = Some [MachineTie.PWait a r C_WaitRunFinished] /\
  (find_task (tasks s) t = Some (CClose, C_WaitRunFinished) ->
     do_step s t = if r s then close_trigger s t else s) /\
  (st_fsm s = Running ->
     enter_close s t = let s1 := publish s PEndAll in
                       match a s1 with
                       | MachineTie.WPass => close_trigger s1 t
                       | MachineTie.WPark => set_pc s1 t CClose C_WaitRunFinished
                       | MachineTie.WRaise x => MachineTie.raise_out s1 t CClose x
                       end).
Proof. exact MachineTie.tie_close_wait_run_finished. Qed.

(** close from Finished: on_exit_finished awaits the run task AFTER the before-callbacks and BEFORE the state change *)
Theorem C03_tie_machine_close_wait_run_task : forall s t, find_task (tasks s) t = Some (CClose, C_WaitRunTask) ->
  do_step s t = MachineTie.api_resume t CClose FsmConfig.TClose C_WaitRunTask
                  (MachineTie.api_cont t CClose FsmConfig.TClose Finished C_WaitRunTask) s.
Proof. exact MachineTie.tie_step_close_wait_task. Qed.

(** after the close hook: on_change_state (state already Closed), then the rest of Imp.aclose *)
Theorem C03_tie_machine_close_after : forall s t p src, find_task (tasks s) t = Some (CClose, p) ->
  src <> Closed -> In p [C_G3; C_G4] ->
  do_step s t = MachineTie.api_resume t CClose FsmConfig.TClose p (MachineTie.api_cont t CClose FsmConfig.TClose src p) s.
Proof. exact MachineTie.tie_step_close_after. Qed.

(** what a plugin sees of one close(): Closed -> nothing at all *)
Theorem C03_tie_machine_close_hook_order : forall s t,
  MachineTie.api_hook_order t CClose FsmConfig.TClose s =
  match st_fsm s with
  | Created => Some [(HStart, Created); (HChangeScript, Created); (HClose, Closed); (HChangeState, Closed)]
  | Closed => Some []
  | _ => Some [(HClose, Closed); (HChangeState, Closed)]
  end.
Proof. exact MachineTie.hook_order_close. Qed.

Print Assumptions C03_tie_machine_close_trigger.
Print Assumptions C03_tie_machine_close_trigger_created.
Print Assumptions C03_tie_machine_close_while_running.
Print Assumptions C03_tie_machine_close_wait_run_task.
Print Assumptions C03_tie_machine_close_after.
Print Assumptions C03_tie_machine_close_hook_order.

(** ---- stage 2: the whole close path from the two regenerated sources together (Life/MachineImpTie.v) *)
From NL Require Life.MachineImpTie.

(** from the moment Imp.aclose holds the lock: pubsub.close(); the wait for the run iff the state is `running`
    (AttributeError if no run was ever started); the trigger `close` (script of Gen/FsmConfig.v + Gen/MachineWiring.v);
    pubsub.close() again; release of the lock; Continuous.close() (tail of the regenerated Nextline.close) -- all states
    but Created (unreachable: Nextline.close starts first) *)
Theorem C03_tie_machine_imp_close : forall s t, st_fsm s <> Created ->
  enter_close s t = MachineImpTie.imp_run "aclose"%string t CClose s.
Proof. exact MachineImpTie.imp_run_aclose. Qed.

Theorem C03_tie_machine_imp_close_prologue : forall s t,
  enter_close s t =
  match MachineImpTie.orun t CClose (MachineImpTie.imp_pre "aclose"%string) s with
  | (s1, MachineImpTie.ODone) => close_trigger s1 t
  | (s1, MachineImpTie.OPark p _ _) => set_pc s1 t CClose p
  | (s1, MachineImpTie.ORaise x) => MachineTie.raise_out s1 t CClose x
  | (s1, MachineImpTie.OStuck) => s1
  end.
Proof. exact MachineImpTie.imp_close_prologue. Qed.

(** the epilogue of close that stage 1 copied from the model is: second pubsub.close(), release, Continuous.close(), return *)
Theorem C03_tie_machine_imp_close_epilogue : forall s t c,
  MachineTie.epilogue t c FsmConfig.TClose s = MachineImpTie.derived_epilogue "aclose"%string t c s.
Proof. exact MachineImpTie.imp_epilogue_aclose. Qed.

Print Assumptions C03_tie_machine_imp_close.
Print Assumptions C03_tie_machine_imp_close_prologue.
Print Assumptions C03_tie_machine_imp_close_epilogue.
