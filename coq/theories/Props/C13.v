(** C13 -- standard output is captured in whole lines and attributed to the
    right trace.  Property theorems only; each is closed by [exact] of a lemma
    proved in Stdout/Proofs.v.

    Model: Stdout/Model.v wires the GENERATED transcriptions of
    ReadLinesByKey / AssignKey / peek_textio.write (Gen/PeekFuns.v, regenerated
    from /repo on every check) the way peek_stdout_by_key / PeekStdout /
    Repeater do.  [events ws] = the OnWriteStdout(trace_no, text) sequence,
    [real ws] = what the real stdout received.
    Spec:  Stdout/Spec.v (functions of the history of writes alone).

    All statements quantify over EVERY list [ws] of [Write actor text]:
    every interleaving of the writers (threads, tasks, untraced code =
    actor None), every splitting of the text into partial writes, every text
    (empty, with embedded / trailing / no newline).  A trace number is
    [Some n] with [n <> 0] (the counter starts at 1). *)
From NL Require Import Stdout.Spec Stdout.Proofs.
Open Scope Z_scope.

(** every reported piece is non-empty, ends with NL (it may contain several
    lines), and carries a trace number (never None) *)
Theorem C13_pieces_end_at_newline : forall ws k line,
  In (k, line) (events ws) -> k <> None /\ exists body, line = body ++ [NL].
Proof. exact model_pieces_end. Qed.

(** exactly once and in order, for the trace that wrote it: the concatenation
    of the pieces reported for trace n, followed by what n has written after
    the last reported newline, is exactly what n wrote -- whatever the
    other writers did in between *)
Theorem C13_exactly_once_in_order : forall ws n, n <> 0 ->
  reported_of (Some n) (events ws) ++ unflushed (Some n) ws = writes_of (Some n) ws.
Proof. exact model_exactly_once. Qed.

Theorem C13_reported_is_prefix : forall ws n, n <> 0 ->
  exists rest, writes_of (Some n) ws = reported_of (Some n) (events ws) ++ rest.
Proof. exact model_prefix. Qed.

(** the pieces reported for a trace do not depend on the interleaving with
    the other writers: they are the pieces of that trace's writes alone *)
Theorem C13_interleaving_independent : forall ws n, n <> 0 ->
  pieces_of (Some n) (events ws) = pieces_of (Some n) (events (only (Some n) ws)).
Proof. exact model_interleaving. Qed.

(** text written by code without a trace number is never reported *)
Theorem C13_untraced_dropped : forall ws line, ~ In (None, line) (events ws).
Proof. exact model_untraced_dropped. Qed.

(** the real stdout receives every write (traced or not), unchanged, in order *)
Theorem C13_passthrough : forall ws, real ws = map text_of ws.
Proof. exact real_all. Qed.

(** [upto_last_nl] is "the longest prefix that ends in NL": it is a prefix,
    it is empty or ends in NL, and no NL follows it *)
Theorem C13_spec_upto_last_nl : forall t,
  exists rest, t = upto_last_nl t ++ rest /\ has_nl rest = false /\
               (upto_last_nl t = [] \/ ends_nl (upto_last_nl t) = true).
Proof. exact upto_decomp. Qed.

(** "up to the last newline that thread or task wrote": for every list of
    writes and every trace, the reported text is the longest prefix of what
    the trace wrote that ends in NL -- also when a line is completed in the
    middle of a write (sys.stdout.write('d\ne')) and whatever the other
    writers do in between. *)
Theorem C13_up_to_last_newline : forall ws n, n <> 0 ->
  reported_of (Some n) (events ws) = upto_last_nl (writes_of (Some n) ws).
Proof. exact model_upto. Qed.

(** what has been written but not yet reported never contains a newline *)
Theorem C13_pending_has_no_newline : forall ws n,
  has_nl (unflushed (Some n) ws) = false.
Proof. exact model_pending_no_nl. Qed.

(** non-vacuity: two traces and untraced code interleaved; lines assembled
    from partial writes (print('a','b') = 'a',' ','b','\n'); an empty write;
    a write with an embedded newline followed by a partial line ('y\nq' by
    trace 2, 'd\ne' by trace 1: the piece stops at the newline, the rest is
    kept); a piece with several lines ('c\nd\n'); trace 2 ends with an
    unfinished line; the untraced text reaches only the real stdout *)
Definition ex_ws : list label :=
  [Wr (Some 1) [97]; Wr (Some 2) [120]; Wr (Some 1) [32]; Wr None [117; 10]; Wr (Some 1) [98];
   Wr (Some 2) [121; 10; 113]; Wr (Some 1) [10]; Wr (Some 1) []; Wr (Some 2) [10];
   Wr (Some 1) [99; 10; 100; 10; 101]; Wr (Some 2) [122]; Wr (Some 1) [102; 10]].

Example C13_example_nonvacuous :
  events ex_ws = [(Some 2, txt [120; 121; 10]); (Some 1, txt [97; 32; 98; 10]);
                  (Some 2, txt [113; 10]); (Some 1, txt [99; 10; 100; 10]);
                  (Some 1, txt [101; 102; 10])] /\
  writes_of (Some 2) ex_ws = txt [120; 121; 10; 113; 10; 122] /\
  reported_of (Some 2) (events ex_ws) = txt [120; 121; 10; 113; 10] /\
  upto_last_nl (writes_of (Some 2) ex_ws) = txt [120; 121; 10; 113; 10] /\
  unflushed (Some 2) ex_ws = txt [122] /\
  reported_of (Some 1) (events ex_ws) = writes_of (Some 1) ex_ws /\
  real ex_ws = map text_of ex_ws.
Proof. vm_compute. repeat split; reflexivity. Qed.

Print Assumptions C13_pieces_end_at_newline.
Print Assumptions C13_exactly_once_in_order.
Print Assumptions C13_reported_is_prefix.
Print Assumptions C13_interleaving_independent.
Print Assumptions C13_untraced_dropped.
Print Assumptions C13_passthrough.
Print Assumptions C13_spec_upto_last_nl.
Print Assumptions C13_up_to_last_newline.
Print Assumptions C13_pending_has_no_newline.
