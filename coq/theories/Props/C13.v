(** C13 -- standard output is captured in whole lines and attributed to the
    right trace.  Property theorems only; each is closed by [exact] of a lemma
    proved in Stdout/Proofs.v.

    Model: Stdout/Model.v wires the GENERATED transcriptions of
    ReadLinesByKey / AssignKey / peek_textio.write (Gen/PeekFuns.v, regenerated
    from /repo on every check) the way peek_stdout_by_key / PeekStdout /
    Repeater do.  [events ws] = the OnWriteStdout(trace_no, text) sequence,
    [real ws] = what the real stdout received.
    Spec:  Stdout/Spec.v (functions of the history of writes alone).

    All statements quantify over EVERY list [ws] of [Write actor text]:
    every interleaving of the writers (threads, tasks, untraced code =
    actor None), every splitting of the text into partial writes, every text
    (empty, with embedded / trailing / no newline).  A trace number is
    [Some n] with [n <> 0] (the counter starts at 1). *)
From NL Require Import Stdout.Spec Stdout.Proofs.
Open Scope Z_scope.

(** every reported piece is non-empty, ends with NL (it may contain several
    lines), and carries a trace number (never None) *)
Theorem C13_pieces_end_at_newline : forall ws k line,
  In (k, line) (events ws) -> k <> None /\ exists body, line = body ++ [NL].
Proof. exact model_pieces_end. Qed.

(** exactly once and in order, for the trace that wrote it: the concatenation
    of the pieces reported for trace n, followed by what n has written after
    the last reported newline, is exactly what n wrote -- whatever the
    other writers did in between *)
Theorem C13_exactly_once_in_order : forall ws n, n <> 0 ->
  reported_of (Some n) (events ws) ++ unflushed (Some n) ws = writes_of (Some n) ws.
Proof. exact model_exactly_once. Qed.

Theorem C13_reported_is_prefix : forall ws n, n <> 0 ->
  exists rest, writes_of (Some n) ws = reported_of (Some n) (events ws) ++ rest.
Proof. exact model_prefix. Qed.

(** the pieces reported for a trace do not depend on the interleaving with
    the other writers: they are the pieces of that trace's writes alone *)
Theorem C13_interleaving_independent : forall ws n, n <> 0 ->
  pieces_of (Some n) (events ws) = pieces_of (Some n) (events (only (Some n) ws)).
Proof. exact model_interleaving. Qed.

(** text written by code without a trace number is never reported *)
Theorem C13_untraced_dropped : forall ws line, ~ In (None, line) (events ws).
Proof. exact model_untraced_dropped. Qed.

(** the real stdout receives every write (traced or not), unchanged, in order *)
Theorem C13_passthrough : forall ws, real ws = map text_of ws.
Proof. exact real_all. Qed.

(** [upto_last_nl] is "the longest prefix that ends in NL": it is a prefix,
    it is empty or ends in NL, and no NL follows it *)
Theorem C13_spec_upto_last_nl : forall t,
  exists rest, t = upto_last_nl t ++ rest /\ has_nl rest = false /\
               (upto_last_nl t = [] \/ ends_nl (upto_last_nl t) = true).
Proof. exact upto_decomp. Qed.

(** "up to the last newline that thread or task wrote": for every list of
    writes and every trace, the reported text is the longest prefix of what
    the trace wrote that ends in NL -- also when a line is completed in the
    middle of a write (sys.stdout.write('d\ne')) and whatever the other
    writers do in between. *)
Theorem C13_up_to_last_newline : forall ws n, n <> 0 ->
  reported_of (Some n) (events ws) = upto_last_nl (writes_of (Some n) ws).
Proof. exact model_upto. Qed.

(** what has been written but not yet reported never contains a newline *)
Theorem C13_pending_has_no_newline : forall ws n,
  has_nl (unflushed (Some n) ws) = false.
Proof. exact model_pending_no_nl. Qed.

(** non-vacuity: two traces and untraced code interleaved; lines assembled
    from partial writes (print('a','b') = 'a',' ','b','\n'); an empty write;
    a write with an embedded newline followed by a partial line ('y\nq' by
    trace 2, 'd\ne' by trace 1: the piece stops at the newline, the rest is
    kept); a piece with several lines ('c\nd\n'); trace 2 ends with an
    unfinished line; the untraced text reaches only the real stdout *)
Definition ex_ws : list label :=
  [Wr (Some 1) [97]; Wr (Some 2) [120]; Wr (Some 1) [32]; Wr None [117; 10]; Wr (Some 1) [98];
   Wr (Some 2) [121; 10; 113]; Wr (Some 1) [10]; Wr (Some 1) []; Wr (Some 2) [10];
   Wr (Some 1) [99; 10; 100; 10; 101]; Wr (Some 2) [122]; Wr (Some 1) [102; 10]].

Example C13_example_nonvacuous :
  events ex_ws = [(Some 2, txt [120; 121; 10]); (Some 1, txt [97; 32; 98; 10]);
                  (Some 2, txt [113; 10]); (Some 1, txt [99; 10; 100; 10]);
                  (Some 1, txt [101; 102; 10])] /\
  writes_of (Some 2) ex_ws = txt [120; 121; 10; 113; 10; 122] /\
  reported_of (Some 2) (events ex_ws) = txt [120; 121; 10; 113; 10] /\
  upto_last_nl (writes_of (Some 2) ex_ws) = txt [120; 121; 10; 113; 10] /\
  unflushed (Some 2) ex_ws = txt [122] /\
  reported_of (Some 1) (events ex_ws) = writes_of (Some 1) ex_ws /\
  real ex_ws = map text_of ex_ws.
Proof. vm_compute. repeat split; reflexivity. Qed.

Print Assumptions C13_pieces_end_at_newline.
Print Assumptions C13_exactly_once_in_order.
Print Assumptions C13_reported_is_prefix.
Print Assumptions C13_interleaving_independent.
Print Assumptions C13_untraced_dropped.
Print Assumptions C13_passthrough.
Print Assumptions C13_spec_upto_last_nl.
Print Assumptions C13_up_to_last_newline.
Print Assumptions C13_pending_has_no_newline.

(** ======================================================================
    "Text produced by the debugger itself (prompts, command output) is never
    reported as script output, and the real standard output still receives
    everything the script wrote."

    Tie: Gen/DebuggerStream.v (translate/debugger_stream.py, regenerated from
    /repo on every check) holds the statement trees of StdInOut's methods, of
    the construction of each Pdb (Factory._factory, CustomizedPdb.__init__), of
    peek_textio and the wrapper it installs on sys.stdout.write, of
    peek_stdout / peek_stdout_by_key and of Repeater.on_write_stdout;
    Stdout/DebugTie.v interprets them.

    TWO-SINK run: a run is ANY list of
      LScript a s       the script calls sys.stdout.write(s) while current_trace_no() = a
      LDbgWrite n s     the Pdb of trace n writes s to its stdout (it runs IN trace n)
      LDbgFlush n / LDbgReadline n c   its stdout.flush() / stdin.readline(), the user answers c
    where which object "its stdout / stdin" is, is computed from the regenerated
    factory.  [d_events] = the OnWriteStdout sequence, [d_real] = what the real
    stdout received, [d_prompts n] = the texts handed to the prompt function by
    the Pdb of trace n.  [prompt] = Pdb.prompt, any text.

    ASSUMPTIONS, visible as hypotheses on the label list: pdb's behaviour is not
    translated.  What CPython's pdb does BESIDE writing to the stdout it was
    constructed with has labels of its own:
      LDbgSysWrite n s          the Pdb of trace n writes s to sys.stdout (`help pdb` -> pydoc.pager;
                                the `>>> ` of `interact`)
      LSwapOn n / LSwapOff n    Pdb.default (a `!statement`) binds sys.stdout to its own stream,
                                PROCESS-WIDE, while the statement runs
    [no_sys_write ls] / [no_swap ls] say that the run contains none of them.  They
    are FALSE of CPython 3.12's pdb: see the two `_refuted_` theorems (both
    histories are reproduced against /repo by harness/props/c13.py and are
    recorded as findings); [C13_tie_reported_and_real_exact] says what is
    reported and what reaches the real stdout WITHOUT the assumptions. *)
From Coq Require Import String.
From NL Require Import Stdout.DebugSyntax Stdout.DebugTie Gen.DebuggerStream.

(** NON-INTERFERENCE: erasing every write / flush / readline of every debugger
    from the run leaves the reported sequence unchanged (all keys at once, hence
    per key); it is the sequence Stdout/Model.v reports for the script's writes
    alone -- so no character of debugger text is ever reported *)
Theorem C13_debugger_text_never_reported : forall prompt ls, no_sys_write ls -> no_swap ls ->
  d_events prompt ls = d_events prompt (erase_dbg ls) /\
  d_events prompt ls = events (script_writes ls).
Proof. exact debugger_text_never_reported. Qed.

(** what is reported for trace n is a prefix of what the SCRIPT wrote in trace n
    (up to its last newline), whatever the debugger of n -- which runs in the
    same thread, under the same trace number -- wrote in between *)
Theorem C13_reported_is_script_text : forall prompt ls n, no_sys_write ls -> no_swap ls -> n <> 0 ->
  reported_of (Some n) (d_events prompt ls) = upto_last_nl (writes_of (Some n) (script_writes ls)).
Proof. exact reported_is_script_text. Qed.

(** PASSTHROUGH: the real stdout receives exactly the script's writes, in order,
    each once, and nothing of the debugger's; this is [real] of Stdout/Model.v
    on the script's writes, i.e. C13_passthrough transfers to every interleaving *)
Theorem C13_real_stdout_gets_everything : forall prompt ls, no_sys_write ls -> no_swap ls ->
  d_real prompt ls = map text_of (script_writes ls) /\ d_real prompt ls = real (script_writes ls).
Proof. exact real_stdout_gets_everything. Qed.

(** ... whatever the callback does (any state of its own, any function) *)
Theorem C13_tie_real_stdout_any_callback : forall (C : Type) (cb : pykey -> text -> C -> C) prompt c0 ls,
  no_sys_write ls -> no_swap ls ->
  snd (g_w _ (grun (C * list text) (cbk_any C cb) (org_any C) prompt (c0, []) ls)) = map text_of (script_writes ls).
Proof. exact real_any_callback. Qed.

Theorem C13_tie_noninterference_any_callback : forall (W : Type) cbk org prompt (w : W) ls,
  no_sys_write ls -> no_swap ls ->
  g_w W (grun W cbk org prompt w (erase_dbg ls)) = g_w W (grun W cbk org prompt w ls).
Proof. exact grun_noninterference. Qed.

(** the capture state (buffer, events, real stdout) after any interleaving is
    that of Stdout/Model.v on the script's writes: every theorem above transfers *)
Theorem C13_tie_run_is_model : forall prompt ls, no_sys_write ls -> no_swap ls ->
  g_w _ (drun prompt ls) = run (script_writes ls).
Proof. exact drun_is_model. Qed.

(** WITHOUT the assumptions (every label list): what is reported and what the
    real stdout receives is exactly Stdout/Model.v on the writes that REACH the
    patched sys.stdout -- the script's writes made while sys.stdout is not
    swapped, plus the debugger's own writes to sys.stdout *)
Theorem C13_tie_reported_and_real_exact : forall prompt ls,
  d_events prompt ls = events (reaching ls) /\ d_real prompt ls = map text_of (reaching ls).
Proof. exact reported_and_real_exact. Qed.

(** REFUTED without [no_sys_write]: `help pdb` (pydoc writes the module
    documentation to sys.stdout, in the traced thread): that text IS reported as
    output of the trace, and erasing the debugger changes the report *)
Theorem C13_debugger_text_never_reported_refuted_help_pdb :
  exists prompt ls, no_swap ls /\ d_events prompt ls <> d_events prompt (erase_dbg ls) /\
                    exists n s, In (LDbgSysWrite n s) ls /\ In (Some n, s) (d_events prompt ls).
Proof. exact never_reported_refuted_help_pdb. Qed.

(** REFUTED without [no_swap]: a `!statement` at a prompt of trace 1 while the
    thread of trace 2 prints: that line is neither reported nor written to the
    real stdout (it ends up in trace 1's prompt text, [ex_bang_statement]) *)
Theorem C13_real_stdout_refuted_bang_statement_other_thread :
  exists prompt ls, no_sys_write ls /\ d_real prompt ls <> map text_of (script_writes ls) /\
                    exists a s, In (LScript (Some a) s) ls /\ ~ In s (d_real prompt ls) /\
                                ~ In (Some a, s) (d_events prompt ls).
Proof. exact real_stdout_refuted_bang_statement. Qed.

(** PROMPT TEXT (what C06's text-attribution oracle relies on): the texts
    handed to the prompt function for trace n and the commands returned to its
    Pdb are a function of the history of n's debugger alone ... *)
Theorem C13_tie_prompt_text_is_debugger_text : forall prompt ls n, no_swap ls ->
  d_prompts prompt n ls = prompts_hist prompt n ls /\ d_cmds prompt n ls = cmds_hist prompt n ls.
Proof. exact prompt_text_is_debugger_text. Qed.

Theorem C13_tie_prompts_independent : forall prompt ls n, no_swap ls ->
  d_prompts prompt n ls = d_prompts prompt n (filter (dbg_only n) ls).
Proof. exact prompts_independent. Qed.

(** ... when the debugger behaves like Pdb (what it wrote since its last read
    ends with the prompt whenever it reads), each prompt text is EXACTLY what the
    debugger of n wrote since its last readline ... *)
Theorem C13_tie_prompt_text_since_last_readline : forall prompt ls n, no_swap ls ->
  pdb_like prompt n ls = true -> d_prompts prompt n ls = segments n ls.
Proof. exact prompt_text_since_last_readline. Qed.

(** ... and in every case nothing n's debugger wrote is lost, duplicated or
    mixed with another trace's, and every text handed over ends with the prompt *)
Theorem C13_tie_prompt_text_conserved : forall prompt n ls,
  List.concat (prompts_hist prompt n ls) ++ pending prompt n ls = dbg_writes_of n ls.
Proof. exact prompt_text_conserved. Qed.

Theorem C13_tie_prompts_accepted : forall prompt n ls,
  Forall (fun t => accepts (VText prompt) t = true) (prompts_hist prompt n ls).
Proof. exact prompts_accepted. Qed.

(** ---- the regenerated code, method by method (all object states, arguments, oracle answers) *)

(** StdInOut.write(s) appends s to _prompt_text, returns len(s), calls nothing *)
Theorem C13_tie_stdinout_write : forall o e f t s,
  so_call o stdinout_write (mkS e f (VText t)) [VText s] =
  (mkS e f (VText (t ++ s)), [], Some (VInt (Z.of_nat (List.length s)))).
Proof. exact write_spec. Qed.

(** write / flush call nothing and readline at most the prompt function, in ANY
    state: no statement of them writes to sys.stdout or calls the peek callback *)
Theorem C13_tie_stdinout_quiet : forall o ob,
  (forall v, snd (fst (so_call o stdinout_write ob [v])) = []) /\
  snd (fst (so_call o stdinout_flush ob [])) = [] /\
  forallb quiet_fx (snd (fst (so_call o stdinout_readline ob []))) = true.
Proof. intros o ob. split; [intro v; apply write_quiet | split; [apply flush_quiet | apply readline_quiet]]. Qed.

(** readline(): prompt function called once with exactly the accumulated text,
    which is cleared; the command is returned -- or AssertionError, nothing changed *)
Theorem C13_tie_stdinout_readline : forall (o : oracle) p t,
  (accepts (VText p) t = true ->
   so_call o stdinout_readline (mkS (VText p) VPromptFn (VText t)) [] =
   (mkS (VText p) VPromptFn (VText []), [FxPrompt (VText t)], o (FxPrompt (VText t)))) /\
  (accepts (VText p) t = false ->
   so_call o stdinout_readline (mkS (VText p) VPromptFn (VText t)) [] =
   (mkS (VText p) VPromptFn (VText t), [], None)).
Proof. intros o p t. split; [apply readline_spec_ok | apply readline_spec_refused]. Qed.

(** Pdb's output stream is a StdInOut object (not sys.stdout, not Pdb's default) ... *)
Theorem C13_tie_pdb_stdout_private : forall prompt,
  exists i o, pdb_streams prompt = Some (i, o) /\ is_private o = true.
Proof. exact pdb_stdout_private. Qed.

(** ... created by the same call of _factory (one per trace), the same object
    Pdb reads from, left with empty text, the prompt function, prompt_end = pdb.prompt *)
Theorem C13_tie_pdb_streams_own : forall prompt,
  exists x, pdb_streams prompt = Some (SelfStdio x, SelfStdio x) /\
            obj_of_stream prompt (SelfStdio x) = Some (mkS (VText prompt) VPromptFn (VText [])).
Proof. exact pdb_streams_own. Qed.

(** CustomizedPdb overrides nothing of Pdb that prints: its only members are
    __init__/_cmdloop/cmdloop/set_continue (anything else is refused by the
    translator) and every call they make is on this list (PIN of the call names) *)
Theorem C13_tie_pdb_overrides_harmless :
  forallb (fun m => existsb (String.eqb (fst m)) ["__init__"; "_cmdloop"; "cmdloop"; "set_continue"]%string
                    && forallb harmless_callee (snd m)) pdb_override_calls = true.
Proof. exact pdb_overrides_harmless. Qed.

(** the wrapper installed on sys.stdout.write: callback(s), then the ORIGINAL
    write with the same s, whose value it returns; only a raising callback keeps
    the text from the real stdout; it is the function Stdout/Model.v is built on *)
Theorem C13_tie_wrapper : forall (o : oracle) s r,
  o (FxCall "callback"%string s) = Some r ->
  wrapper_call o s = ([FxCall "callback"%string s; FxCall "org_write"%string s], o (FxCall "org_write"%string s)).
Proof. exact wrapper_spec. Qed.

Theorem C13_tie_wrapper_callback_raises : forall (o : oracle) s,
  o (FxCall "callback"%string s) = None -> wrapper_call o s = ([FxCall "callback"%string s], None).
Proof. exact wrapper_spec_callback_raises. Qed.

Theorem C13_tie_wrapper_is_peek_write : forall (W : Type) (cbk org : text -> W -> W) s w,
  sys_write_w W cbk org s w = peek_write cbk org s w.
Proof. exact sys_write_w_is_peek_write. Qed.

Theorem C13_tie_sys_write_is_model_step : forall a s st,
  sys_write_w (buf * world) (the_callback a) org_write s st = step st (Write a s).
Proof. exact sys_write_is_model_step. Qed.

(** peek_textio installs the wrapper exactly while the block runs and restores
    the original write (run of the regenerated save/install/yield/restore list; the
    `finally` is body-then-finally: no exception inside the `with` is modelled);
    what is wrapped is sys.stdout; no other print / sys.stdout in the code that
    runs in the child (PIN: a syntactic scan of nextline/spawned, nextline/utils) *)
Theorem C13_tie_peek_context_manager : p_at_yield peek_cm = [WWrapper] /\ p_cur peek_cm = WOrg.
Proof. exact peek_cm_spec. Qed.

Theorem C13_tie_peek_target :
  peek_stdout_target = SysStdout /\ peek_stdout_passes_callback = true /\ other_stdout_uses = [].
Proof. exact peek_target_spec. Qed.

(** Repeater.on_write_stdout, regenerated, is the function of Stdout/Model.v *)
Theorem C13_tie_on_write_stdout : forall ctn k line w,
  ows_sem on_write_stdout_event ctn k line w = on_write_stdout ctn k line w.
Proof. exact ows_is_model. Qed.

(** non-vacuity: script writes of two traces interleaved with the writes,
    flushes and readlines of both debuggers; a script line ('a' ... 'b\n')
    assembled AROUND a whole debugger interaction of the same trace *)
Example C13_tie_example_nonvacuous :
  d_events P_PDB ex_dbg = [(Some 2, txt [120; 10]); (Some 1, txt [97; 98; 10])] /\
  d_real P_PDB ex_dbg = [txt [97]; txt [120; 10]; txt [98; 10]] /\
  d_prompts P_PDB 1 ex_dbg = [txt [62; 32; 102; 40; 49; 41; 10; 40; 80; 100; 98; 41; 32]; txt [52; 50; 10; 40; 80; 100; 98; 41; 32]] /\
  d_prompts P_PDB 2 ex_dbg = [txt [62; 32; 103; 10; 40; 80; 100; 98; 41; 32]] /\
  d_cmds P_PDB 1 ex_dbg = [txt [110]; txt [99]] /\
  pdb_like P_PDB 1 ex_dbg = true /\ pdb_like P_PDB 2 ex_dbg = true /\
  d_events P_PDB (erase_dbg ex_dbg) = d_events P_PDB ex_dbg.
Proof. exact ex_dbg_runs. Qed.

Print Assumptions C13_debugger_text_never_reported.
Print Assumptions C13_reported_is_script_text.
Print Assumptions C13_real_stdout_gets_everything.
Print Assumptions C13_tie_real_stdout_any_callback.
Print Assumptions C13_tie_noninterference_any_callback.
Print Assumptions C13_tie_run_is_model.
Print Assumptions C13_tie_reported_and_real_exact.
Print Assumptions C13_debugger_text_never_reported_refuted_help_pdb.
Print Assumptions C13_real_stdout_refuted_bang_statement_other_thread.
Print Assumptions C13_tie_prompt_text_is_debugger_text.
Print Assumptions C13_tie_prompts_independent.
Print Assumptions C13_tie_prompt_text_since_last_readline.
Print Assumptions C13_tie_prompt_text_conserved.
Print Assumptions C13_tie_prompts_accepted.
Print Assumptions C13_tie_stdinout_write.
Print Assumptions C13_tie_stdinout_quiet.
Print Assumptions C13_tie_stdinout_readline.
Print Assumptions C13_tie_pdb_stdout_private.
Print Assumptions C13_tie_pdb_streams_own.
Print Assumptions C13_tie_pdb_overrides_harmless.
Print Assumptions C13_tie_wrapper.
Print Assumptions C13_tie_wrapper_callback_raises.
Print Assumptions C13_tie_wrapper_is_peek_write.
Print Assumptions C13_tie_sys_write_is_model_step.
Print Assumptions C13_tie_peek_context_manager.
Print Assumptions C13_tie_peek_target.
Print Assumptions C13_tie_on_write_stdout.
