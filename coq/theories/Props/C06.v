(** C06 -- each thread and each asyncio task is debugged as its own independent
    trace.  Property theorems only; each is closed by [exact] of a lemma proved
    in Ids/Inv.v or Prompt/Indep.v.

    Model: Ids/Model.v (TaskAndThreadKeeper, ThreadTaskIdComposer,
    TaskOrThreadToTraceMapper as counters and finite maps) and, for the
    independence of traces, the per-trace command queues of Prompt/Model.v.
    [started tr a] is a function of the history: the numbers of the OnStartTrace
    event of actor a.  All statements quantify over EVERY label sequence.

    WHAT RESTS ON WHAT -- read this before citing the theorems.
    * Numbering and attribution (C06_trace_no_injective,
      C06_trace_numbers_sequential, C06_thread_task_pair_identifies,
      C06_numbers_stable, C06_attribution, C06_end_attribution) are invariants
      proved over every interleaving of the counter calls of Ids/Model.v, whose
      every transition is compared with the real code on each run.
    * Independence (C06_independent, C06_independent_of_blocked_trace,
      C06_answer_is_delivered) is TRUE BY CONSTRUCTION of Prompt/Model.v: the
      model has one unbounded queue per trace and no lock, so no label of one
      trace can be disabled by another trace.  These theorems only document
      that modelling decision (the command path itself -- queue_in, relay
      thread, per-trace queues -- has no shared blocking resource); they say
      nothing about resources OUTSIDE that path.  A lock taken around the
      trace-function dispatch (seeded change C06-2), the GIL, or a blocking
      call in a plugin are invisible to them.
    * The independence clause of the property ("a prompt left unanswered in one
      trace never prevents other threads from running, being prompted and being
      answered") therefore rests on the RUNS of harness/props/c06.py against the
      real code, not on a theorem: the victim scenarios (a prompt at a
      call / return / exception / line event is withheld; every unit that never
      waits for the victim, already running or started afterwards, must run to
      its end) and the withholding responder of the generated programs.  That
      is evidence for the generated programs and switch intervals only; the
      clause is labelled partial.
    * Attribution of the debugger's own TEXT (stop location, --Call-- /
      --Return-- banners, output of debugger commands in OnStartPrompt.prompt_text):
      C06_prompt_text_is_own is likewise TRUE BY CONSTRUCTION of Ids/Text.v, which
      has one text buffer per trace because pdb_/factory.py creates one StdInOut
      per trace.  Whether the code really keeps the buffers apart (seeded change
      C06-3 shared one) is checked by the text clause of the oracle in
      harness/props/c06.py on every prompt of every run, in particular in the
      barrier scenarios that hold two or three threads between Pdb's location
      print and its prompt (gate at OnStartCmdloop) in every prompt order. *)
From NL Require Import Ids.Model Ids.Inv.
From NL Require Ids.Text.
From NL Require Prompt.Model Prompt.Hist Prompt.Indep.
Open Scope Z_scope.

(** distinct actors <-> distinct trace numbers *)
Theorem C06_trace_no_injective : forall ls a b ta ida tb idb,
  started (trace ls) a = Some (ta, ida) -> started (trace ls) b = Some (tb, idb) ->
  (a = b <-> ta = tb).
Proof. exact trace_no_injective. Qed.

(** trace numbers are handed out as 1, 2, 3, ... in the order of the starts *)
Theorem C06_trace_numbers_sequential : forall ls,
  map (fun x => fst (snd x)) (starts (trace ls)) = map Z.of_nat (seq 1 (length (starts (trace ls)))).
Proof. exact start_numbers. Qed.

(** same thread <-> same thread number; two actors of one thread have different
    task numbers; the (thread no, task no) pair determines the actor; a thread
    (not a task) has task number None and vice versa *)
Theorem C06_thread_task_pair_identifies : forall ls a b ta na ka tb nb kb,
  started (trace ls) a = Some (ta, (na, ka)) -> started (trace ls) b = Some (tb, (nb, kb)) ->
  (fst a = fst b <-> na = nb) /\
  (fst a = fst b -> a <> b -> ka <> kb) /\
  ((na, ka) = (nb, kb) -> a = b) /\
  (snd a = None <-> ka = None).
Proof. exact thread_task_pair_identifies. Qed.

(** the numbers of an actor never change *)
Theorem C06_numbers_stable : forall pre post a v,
  started pre a = Some v -> started (pre ++ post) a = Some v.
Proof. exact started_stable. Qed.

(** every event emitted by an actor's action carries that actor's trace number *)
Theorem C06_attribution : forall ls pre a x o post,
  trace ls = pre ++ (Emit a x, o) :: post ->
  o = OEv (option_map fst (started pre a)) x.
Proof. exact attribution. Qed.

Theorem C06_end_attribution : forall ls pre a o post,
  trace ls = pre ++ (End a, o) :: post ->
  o = match started pre a with Some (t, _) => OEnd t | None => OErr end.
Proof. exact end_attribution. Qed.

(** whatever trace t does or fails to do -- in particular staying blocked at an
    open prompt -- every label of the other traces, of the sender and of the
    relay thread does exactly what it would do otherwise *)
Theorem C06_independent : forall t ls s1 s2,
  Prompt.Indep.Rel t s1 s2 ->
  Forall (fun l => Prompt.Indep.other t l = true) ls ->
  map snd (Prompt.Model.trace_from s1 ls) = map snd (Prompt.Model.trace_from s2 ls).
Proof. exact Prompt.Indep.indep_run. Qed.

(** instance: t blocked at prompt p with an empty queue, versus any state *)
Theorem C06_independent_of_blocked_trace : forall s t p ls,
  Prompt.Model.s_map s t <> None ->
  Forall (fun l => Prompt.Indep.other t l = true) ls ->
  map snd (Prompt.Model.trace_from s ls) =
  map snd (Prompt.Model.trace_from (Prompt.Indep.blocked_at s t p) ls).
Proof. intros s t p ls H F. exact (Prompt.Indep.indep_run t ls _ _ (Prompt.Indep.Rel_blocked s t p H) F). Qed.

(** a trace waiting at its prompt is answered, whatever the others do *)
Theorem C06_answer_is_delivered : forall s t p x,
  Prompt.Model.s_open s t = Some p -> Prompt.Model.s_map s t = Some [] -> Prompt.Model.s_in s = [] ->
  map snd (Prompt.Model.trace_from s
             [Prompt.Model.Send (Prompt.Model.mkCmd t p x); Prompt.Model.Relay; Prompt.Model.Take t]) =
  [Prompt.Model.OSent (Prompt.Model.s_nsent s); Prompt.Model.ORelayed (Prompt.Model.s_nsent s);
   Prompt.Model.OExec p (Prompt.Model.s_nsent s) (Prompt.Model.mkCmd t p x)].
Proof. exact Prompt.Indep.answer_is_delivered. Qed.

(** a readline of trace t returns exactly what t's own Pdb wrote since t's
    previous readline ([pending] is a function of the history) -- by construction *)
Theorem C06_prompt_text_is_own : forall pre t post,
  nth_error (snd (Ids.Text.trun Ids.Text.tinit (pre ++ Ids.Text.TRead t :: post))) (length pre) =
  Some (Some (Ids.Text.pending t (rev pre))).
Proof. exact Ids.Text.read_returns_own_text. Qed.

Example C06_example_prompt_text :
  snd (Ids.Text.trun Ids.Text.tinit
         [Ids.Text.TWrite 2 10; Ids.Text.TWrite 3 20; Ids.Text.TWrite 2 11; Ids.Text.TRead 2;
          Ids.Text.TWrite 3 21; Ids.Text.TRead 3; Ids.Text.TRead 2]) =
  [None; None; None; Some [10; 11]; None; Some [20; 21]; Some []].
Proof. vm_compute. reflexivity. Qed.

(** non-vacuity: main thread, a task of the main thread, a second thread whose
    first traced frame belongs to a task, a second task there *)
Definition ex_run : list label :=
  [Filtered (1, None); Mapped (1, None); Emit (1, None) 10; Filtered (1, Some 7); Mapped (1, Some 7);
   (* two threads start concurrently: thread numbers in one order, trace numbers in the other *)
   Filtered (2, Some 8); Filtered (3, None); Mapped (3, None); Mapped (2, Some 8); Emit (2, Some 8) 11;
   Filtered (1, None); Filtered (2, Some 9); Mapped (2, Some 9); Emit (4, None) 12; Filtered (2, None); Mapped (2, None);
   End (1, Some 7); Emit (1, Some 7) 13].

Example C06_example_nonvacuous :
  outs ex_run =
  [OComposed; OStart 1 1 None; OEv (Some 1) 10; OComposed; OStart 2 1 (Some 1);
   OComposed; OComposed; OStart 3 3 None; OStart 4 2 (Some 1); OEv (Some 4) 11;
   OSeen; OComposed; OStart 5 2 (Some 2); OEv None 12; OComposed; OStart 6 2 None;
   OEnd 2; OEv (Some 2) 13] /\
  started (trace ex_run) (2, Some 9) = Some (5, (2, Some 2)).
Proof. vm_compute. split; reflexivity. Qed.

(** non-vacuity of independence: trace 1 blocked at its prompt; trace 2 is
    prompted, answered and finishes *)
Example C06_example_independent :
  let s := Prompt.Model.final [Prompt.Model.StartTrace 1; Prompt.Model.StartTrace 2; Prompt.Model.OpenPrompt 1] in
  Prompt.Model.s_open s 1 = Some 1 /\
  map snd (Prompt.Model.trace_from s
    [Prompt.Model.OpenPrompt 2; Prompt.Model.Send (Prompt.Model.mkCmd 2 2 5); Prompt.Model.Relay;
     Prompt.Model.Take 2; Prompt.Model.EndTrace 2]) =
  [Prompt.Model.OOpened 2; Prompt.Model.OSent 0; Prompt.Model.ORelayed 0;
   Prompt.Model.OExec 2 0 (Prompt.Model.mkCmd 2 2 5); Prompt.Model.OEnded].
Proof. vm_compute. split; reflexivity. Qed.

(** ================= TIE to the code regenerated from /repo =================
    translate/ids_funs.py regenerates Gen/IdsFuns.v (a statement/expression AST of
    ThreadTaskIdComposer, TaskAndThreadKeeper, TaskOrThreadToTraceMapper, Repeater.on_start_trace /
    on_end_trace, current_task_or_thread and the counter constructors) from the CURRENT source on
    every check; Ids/Interp.v interprets that AST; Ids/Tie.v proves that the interpreter run on the
    regenerated bodies computes exactly the operations of the hand-written Ids/Model.v.  The
    theorems below are about the REGENERATED definitions ([program]): a behavioural change of a
    tracked method changes [program] and the proofs in Ids/Tie.v are re-checked against it.
    [Rst lt lm st s] relates an interpreter state to a model state (Ids/TieBase.v): same counters,
    same maps (task counters: one per thread NUMBER, created by the defaultdict on demand); [Pre s]
    is the part of the model's invariant [Inv] the code relies on (numbers are never 0, ...). *)
From NL Require Import Ids.Interp Gen.IdsFuns Ids.TieBase Ids.Tie.

(** the regenerated __init__ bodies produce the model's initial state *)
Theorem C06_tie_init : exists lt lm, Rsys lt lm (pview st_init) (iinit program) init.
Proof. exact tie_init. Qed.

(** thread number and task number of an actor: `self._counter()` of the keeper
    (ThreadTaskIdComposer.__call__ -> _current_thread_task, _map.get, _compose, _map[key] = ..)
    is [composer_call] of the model -- for ALL related states, actors, answers of
    asyncio.current_task() (task / None / RuntimeError) and event-loop assignments *)
Theorem C06_tie_thread_task_numbers : forall n th ok nl lp st en lt lm s, (36 <= n)%nat ->
  Rst lt lm st s -> Pre s ->
  exists st',
    eval program (mkCx (th, ok) nl lp) n st en (ECall (EAttr Keeper "_counter"%string))
      = EV st' en (enc_id (snd (composer_call s (th, ok)))) /\
    Rst lt lm st' (fst (composer_call s (th, ok))) /\ rest_of st' = rest_of st.
Proof. exact composer_call_tie. Qed.

(** the trace number every plugin attributes its events with: the hook current_trace_no() is a
    pure read of TaskOrThreadToTraceMapper._map BY THE CURRENT TASK-OR-THREAD *)
Theorem C06_tie_trace_no_lookup : forall n th ok nl lp st en lt lm s, (14 <= n)%nat ->
  Rst lt lm st s ->
  eval program (mkCx (th, ok) nl lp) n st en (EHook "current_trace_no"%string) = EV st en (enc_oz (m_map s (th, ok))).
Proof. exact eval_current_trace_no. Qed.

(** ONE label executed by the regenerated code (Filtered: `filtered` up to the call of
    on_start_task_or_thread; Mapped: trace number at the first filtered event, _map[current] = ..,
    on_start_trace -> OnStartTrace(trace_no, current_thread_no(), current_task_no()), _set.add;
    Emit: current_trace_no(); End: _on_end -> _map[ending] -> OnEndTrace, the entry is KEPT)
    = ONE step of the model, for ALL related states *)
Theorem C06_tie_step : forall nl lp lt lm pv y s l, Rsys lt lm pv y s -> Pre s ->
  Rsys lt lm pv (fst (istep program nl lp y l)) (fst (step s l)) /\
  snd (istep program nl lp y l) = snd (step s l).
Proof. exact tie_step. Qed.

(** hence every run of the regenerated code is the run of the model *)
Theorem C06_tie_simulation : forall nl lp ls, itrace program nl lp ls = trace ls.
Proof. exact tie_trace. Qed.

Theorem C06_tie_final_state : forall nl lp ls, exists lt lm, Rsys lt lm (pview st_init) (ifinal program nl lp ls) (final ls).
Proof. exact tie_final. Qed.

(** and the C06 invariants hold of the regenerated code *)
Theorem C06_tie_trace_no_injective : forall nl lp ls a b ta ida tb idb,
  started (itrace program nl lp ls) a = Some (ta, ida) -> started (itrace program nl lp ls) b = Some (tb, idb) ->
  (a = b <-> ta = tb).
Proof. exact tie_trace_no_injective. Qed.

Theorem C06_tie_trace_numbers_sequential : forall nl lp ls,
  map (fun x => fst (snd x)) (starts (itrace program nl lp ls)) =
  map Z.of_nat (seq 1 (length (starts (itrace program nl lp ls)))).
Proof. exact tie_trace_numbers_sequential. Qed.

Theorem C06_tie_thread_task_pair_identifies : forall nl lp ls a b ta na ka tb nb kb,
  started (itrace program nl lp ls) a = Some (ta, (na, ka)) -> started (itrace program nl lp ls) b = Some (tb, (nb, kb)) ->
  (fst a = fst b <-> na = nb) /\
  (fst a = fst b -> a <> b -> ka <> kb) /\
  ((na, ka) = (nb, kb) -> a = b) /\
  (snd a = None <-> ka = None).
Proof. exact tie_thread_task_pair_identifies. Qed.

Theorem C06_tie_numbers_stable : forall nl lp ls ls' a v,
  started (itrace program nl lp ls) a = Some v -> started (itrace program nl lp (ls ++ ls')) a = Some v.
Proof. exact tie_numbers_stable. Qed.

Theorem C06_tie_attribution : forall nl lp ls pre a x o post,
  itrace program nl lp ls = pre ++ (Emit a x, o) :: post ->
  o = OEv (option_map fst (started pre a)) x.
Proof. exact tie_attribution. Qed.

Theorem C06_tie_end_attribution : forall nl lp ls pre a o post,
  itrace program nl lp ls = pre ++ (End a, o) :: post ->
  o = match started pre a with Some (t, _) => OEnd t | None => OErr end.
Proof. exact tie_end_attribution. Qed.

(** the two methods of ThreadTaskIdComposer the run does not use: has_id() is a pure read;
    reset() installs a NEW thread counter from 1 and drops every task counter but keeps the maps
    from objects to numbers (nextline never calls it; numbers would repeat after it) *)
Theorem C06_tie_has_id : forall n th ok nl lp st en lt lm s, (16 <= n)%nat -> Rst lt lm st s ->
  eval program (mkCx (th, ok) nl lp) n st en (EMethod Composer "has_id"%string []) = EV st en (VBool (is_some (c_map s (th, ok)))).
Proof. exact tie_has_id. Qed.

Theorem C06_tie_reset : forall n cx st en lt lm s, (8 <= n)%nat -> Rst lt lm st s ->
  exists st' lt',
    eval program cx n st en (EMethod Composer "reset"%string []) = EV st' en VNone /\
    Rst lt' lm st' (w_tkctr (w_thctr s 1) (fun _ => 1)).
Proof. exact tie_reset. Qed.


(** ---- the USE of the trace number: one debugger per trace.
    LocalTraceFunc.local_trace_func / init (local_.py), PdbInstanceFactory.init / create_local_trace_func and the
    bodies of the two closures `Factory(hook)._factory` (local_.py, pdb_/factory.py) are TRANSLATED and interpreted;
    the shape of the two `Factory` functions around `_factory` and three facts about WithContext are PINNED by the
    translator (pin + interpretation of the translated bodies).  [pv] is the debugger side of the interpreter's state
    (LocalTraceFunc._map, the number of objects created, ..); [PInv pv]: every entry of _map is a WithContext around
    the trace_dispatch of its own CustomizedPdb with its own StdInOut, and no two entries share either. *)

(** a call of local_trace_func in actor a reaches the Pdb stored under a's current trace number (a new
    StdInOut + CustomizedPdb pair is created and stored if there is none); no other entry changes *)
Theorem C06_tie_dispatch : forall nl lp lt lm pv y s a x, Rsys lt lm pv y s -> PInv pv ->
  exists pv',
    Rsys lt lm pv' (fst (idispatch program nl lp y a x)) s /\ PInv pv' /\
    snd (idispatch program nl lp y a x) = pdb_at pv' (m_map s a) /\ snd (idispatch program nl lp y a x) <> None /\
    (forall o, o <> m_map s a -> pv_map pv' (enc_oz o) = pv_map pv (enc_oz o)) /\
    (pv_map pv (enc_oz (m_map s a)) <> None -> pv' = pv).
Proof. exact tie_dispatch. Qed.

(** two different started actors are never served by the same Pdb nor by the same StdInOut *)
Theorem C06_tie_dispatch_separates : forall nl lp lt lm pv y s tr a b ta tb x x',
  Rsys lt lm pv y s -> PInv pv -> Inv tr s ->
  m_map s a = Some ta -> m_map s b = Some tb -> a <> b ->
  exists ls lpp ls' lpp',
    snd (idispatch program nl lp y a x) = Some (pdb_obj ls lpp) /\
    snd (idispatch program nl lp (fst (idispatch program nl lp y a x)) b x') = Some (pdb_obj ls' lpp') /\
    lpp <> lpp' /\ ls <> ls'.
Proof. exact tie_dispatch_separates. Qed.

(** the same actor is served by the same Pdb again, whatever numbering labels and calls of local_trace_func of
    any actors happen in between *)
Theorem C06_tie_dispatch_same_pdb : forall nl lp lt lm pv y s tr a t x x' xls,
  Rsys lt lm pv y s -> PInv pv -> Inv tr s -> m_map s a = Some t ->
  snd (idispatch program nl lp (xexec nl lp (fst (idispatch program nl lp y a x)) xls) a x') =
  snd (idispatch program nl lp y a x).
Proof. exact tie_dispatch_same_pdb. Qed.

(** the hypotheses of the three theorems hold in every state reachable by numbering labels interleaved with calls
    of local_trace_func, and the interleaved calls do not disturb the numbering *)
Theorem C06_tie_xrun : forall nl lp xls,
  exists lt lm pv tr, Rsys lt lm pv (xexec nl lp (iinit program) xls) (final (xproj xls)) /\ PInv pv /\
                      Inv tr (final (xproj xls)) /\ xouts nl lp (iinit program) xls = outs (xproj xls).
Proof. exact tie_xrun. Qed.

(** non-vacuity: thread 1 and its task 7 get different Pdb objects (1 and 4) with different StdInOut objects
    (0 and 3); thread 1 gets Pdb 1 again *)
Example C06_tie_example_dispatch :
  let y1 := ifinal program (fun _ => false) (fun _ _ => 0) [Filtered (1, None); Mapped (1, None); Filtered (1, Some 7); Mapped (1, Some 7)] in
  let d1 := idispatch program (fun _ => false) (fun _ _ => 0) y1 (1, None) 5 in
  let d2 := idispatch program (fun _ => false) (fun _ _ => 0) (fst d1) (1, Some 7) 6 in
  let d3 := idispatch program (fun _ => false) (fun _ _ => 0) (fst d2) (1, None) 8 in
  (snd d1, snd d2, snd d3) = (Some (pdb_obj 0 1), Some (pdb_obj 3 4), Some (pdb_obj 0 1)).
Proof. vm_compute. reflexivity. Qed.

(** non-vacuity: the regenerated code, interpreted, on the run of C06_example_nonvacuous (current_task()
    raising RuntimeError in the threads with an even number), plus an End of an unknown actor and a
    Mapped without Filtered *)
Example C06_tie_example_nonvacuous :
  iouts program (fun a => Z.even (fst a)) (fun _ _ => 0) (ex_run ++ [End (9, None); Mapped (5, None)]) =
  [OComposed; OStart 1 1 None; OEv (Some 1) 10; OComposed; OStart 2 1 (Some 1);
   OComposed; OComposed; OStart 3 3 None; OStart 4 2 (Some 1); OEv (Some 4) 11;
   OSeen; OComposed; OStart 5 2 (Some 2); OEv None 12; OComposed; OStart 6 2 None;
   OEnd 2; OEv (Some 2) 13; OErr; OErr].
Proof. vm_compute. reflexivity. Qed.

Print Assumptions C06_trace_no_injective.
Print Assumptions C06_trace_numbers_sequential.
Print Assumptions C06_thread_task_pair_identifies.
Print Assumptions C06_numbers_stable.
Print Assumptions C06_attribution.
Print Assumptions C06_end_attribution.
Print Assumptions C06_independent.
Print Assumptions C06_independent_of_blocked_trace.
Print Assumptions C06_answer_is_delivered.
Print Assumptions C06_prompt_text_is_own.
Print Assumptions C06_tie_init.
Print Assumptions C06_tie_thread_task_numbers.
Print Assumptions C06_tie_trace_no_lookup.
Print Assumptions C06_tie_step.
Print Assumptions C06_tie_simulation.
Print Assumptions C06_tie_final_state.
Print Assumptions C06_tie_trace_no_injective.
Print Assumptions C06_tie_trace_numbers_sequential.
Print Assumptions C06_tie_thread_task_pair_identifies.
Print Assumptions C06_tie_numbers_stable.
Print Assumptions C06_tie_attribution.
Print Assumptions C06_tie_end_attribution.
Print Assumptions C06_tie_has_id.
Print Assumptions C06_tie_reset.
Print Assumptions C06_tie_dispatch.
Print Assumptions C06_tie_dispatch_separates.
Print Assumptions C06_tie_dispatch_same_pdb.
Print Assumptions C06_tie_xrun.
