(** C18 -- done-callbacks fire exactly once for every registered thread and task.
    Property theorems only; each is closed by [exact] of a lemma proved in
    DoneCb/{Safety,Inv,Partial,Main,TaskProofs}.v.

    Thread half.  Model: DoneCb/Model.v -- the monitor thread, the thread calling
    close() and ANY NUMBER of registering threads, each executing the shared accesses
    of its bytecode (Gen/DoneCbSkeleton.v), interleaved by an adversarial scheduler:
    every statement quantifies over EVERY label list [ls] (Step who / Arrive t /
    Die t / CloseCall) and every choice [raises] of callbacks that raise.
    [called], [registered], [ended], [close_results], [monitor_exits],
    [first_raised] are functions of the observable history alone (Inv.ghost_of).

    The full-strength statement [thread_statement] is FALSE of the faithful model
    (C18_thread_statement_false and the four witnesses).  What holds:
      - for every schedule: at most once, only registered threads, only after the
        thread ended; close() returns only after the monitor ended, with its exception;
      - C18_thread_partial under the ADDED hypothesis [no_overlap]: no thread is
        inside register() (between LOAD_ATTR _active and CALL add) while the monitor is
        between GET_ITER and the end of its scan, between BINARY_OP - and STORE_ATTR
        _active, or between the truth test of the empty set and LOAD_ATTR _closed.
    Task half.  Model: DoneCb/Task.v (sequential); every operation sequence = every
    completion order; hypothesis [twf]: no task is registered again after it ended. *)
From NL Require Import DoneCb.Model DoneCb.Safety DoneCb.Inv DoneCb.Partial DoneCb.Main
                       DoneCb.Task DoneCb.TaskProofs.

(** tie: the model's programs are exactly the shared accesses of the regenerated skeleton *)
Theorem C18_skeleton_register : filter shared register_skeleton = register_prog.
Proof. exact register_skeleton_ok. Qed.
Theorem C18_skeleton_close : filter shared close_skeleton = close_prog.
Proof. exact close_skeleton_ok. Qed.
Theorem C18_skeleton_monitor : filter shared monitor_skeleton = monitor_prog.
Proof. exact monitor_skeleton_ok. Qed.

(** every schedule: never twice, never for an unregistered thread, never before the thread ended *)
Theorem C18_thread_at_most_once : forall raises ls,
  NoDup (called raises ls) /\
  forall t, In t (called raises ls) -> In t (ended raises ls) /\ In t (registered raises ls).
Proof. exact thread_at_most_once. Qed.

(** every schedule: close() returns only after the monitor thread ended, and reports how it ended *)
Theorem C18_close_after_monitor : forall raises ls e,
  In e (close_results raises ls) -> In e (monitor_exits raises ls).
Proof. exact close_after_monitor. Qed.

Theorem C18_monitor_exit_kinds : forall raises ls e,
  In e (monitor_exits raises ls) -> e = Some ExSetChanged \/ e = first_raised raises ls.
Proof. exact monitor_exit_kinds. Qed.

(** the full statement fails: lost update *)
Theorem C18_refuted_lost_update :
  exists ls, In None (close_results nobody ls) /\ In 2 (registered nobody ls) /\ In 2 (ended nobody ls)
             /\ count_occ Nat.eq_dec (called nobody ls) 2 = 0
             /\ obj (heap (run nobody ls)) (active (run nobody ls)) = [].
Proof. exact refuted_lost_update. Qed.

(** ... "Set changed size during iteration" kills the monitor thread *)
Theorem C18_refuted_iteration :
  exists ls, close_results nobody ls = [Some ExSetChanged] /\ In 1 (registered nobody ls) /\ In 1 (ended nobody ls)
             /\ count_occ Nat.eq_dec (called nobody ls) 1 = 0 /\ first_raised nobody ls = None.
Proof. exact refuted_iteration. Qed.

(** ... the monitor leaves between `if self._active` and `if self._closed` *)
Theorem C18_refuted_exit_race :
  exists ls, In None (close_results nobody ls) /\ In 1 (registered nobody ls)
             /\ count_occ Nat.eq_dec (called nobody ls) 1 = 0
             /\ obj (heap (run nobody ls)) (active (run nobody ls)) = [1].
Proof. exact refuted_exit_race. Qed.

(** ... a callback's exception is lost (close() raises the iteration error instead) *)
Theorem C18_refuted_exception_lost :
  exists ls, close_results only1 ls = [Some ExSetChanged] /\ first_raised only1 ls = Some (ExCb 1).
Proof. exact refuted_exception_lost. Qed.

Theorem C18_thread_statement_false : ~ thread_statement.
Proof. exact thread_statement_false. Qed.

(** ADDED hypothesis: no registration overlaps a scan / rebuild / exit check.
    Then: exactly once, close() waits, the first callback exception is re-raised. *)
Theorem C18_thread_partial : forall raises ls e,
  no_overlap raises ls = true -> In e (close_results raises ls) ->
  (forall t, In t (registered raises ls) ->
     count_occ Nat.eq_dec (called raises ls) t = 1 /\ In t (ended raises ls))
  /\ e = first_raised raises ls.
Proof. exact thread_partial. Qed.

(** close() returns only after all registered threads have ended and been called back (same hypothesis) *)
Theorem C18_close_waits_partial : forall raises ls e,
  no_overlap raises ls = true -> In e (close_results raises ls) ->
  forall t, In t (registered raises ls) -> In t (called raises ls) /\ In t (ended raises ls).
Proof. exact close_waits_partial. Qed.

(** close() re-raises exactly the first callback exception, or returns normally if none (same hypothesis) *)
Theorem C18_exception_reraised_partial : forall raises ls e,
  no_overlap raises ls = true -> In e (close_results raises ls) -> e = first_raised raises ls.
Proof. exact exception_reraised_partial. Qed.

Theorem C18_no_iteration_error_partial : forall raises ls e,
  no_overlap raises ls = true -> In e (monitor_exits raises ls) -> e = first_raised raises ls.
Proof. exact no_iteration_error_partial. Qed.

(** task half: exactly once for every task registered and ended, for every completion order *)
Theorem C18_task_exactly_once : forall raises os, twf os ->
  NoDup (tcalled (touts raises os)) /\
  forall t, In t (tcalled (touts raises os)) <-> In (TReg t) os /\ In (TComplete t) os.
Proof. exact task_exactly_once. Qed.

(** task half: callbacks only in the step in which the task ends; close() returns only when all
    tasks registered so far have ended, with the first exception raised so far *)
Theorem C18_task_close_waits : forall raises os, twf os -> steps_ok [] [] [] os (touts raises os).
Proof. exact task_steps_ok. Qed.

(** non-vacuity: a schedule with two threads registering while the monitor runs that satisfies
    no_overlap (and the three witnesses do not) *)
Example C18_example_nonvacuous :
  no_overlap only1 ex_ok = true /\ registered only1 ex_ok = [2; 1] /\ called only1 ex_ok = [2; 1]
  /\ close_results only1 ex_ok = [Some (ExCb 1)] /\ first_raised only1 ex_ok = Some (ExCb 1)
  /\ no_overlap nobody w_lost_update = false /\ no_overlap nobody w_iteration = false
  /\ no_overlap nobody w_exit_race = false.
Proof. exact example_nonvacuous. Qed.

Example C18_example_task_nonvacuous :
  twf [TReg 1; TReg 2; TReg 1; TComplete 2; TClose; TComplete 3; TComplete 1] /\
  touts (fun t => t =? 2) [TReg 1; TReg 2; TReg 1; TComplete 2; TClose; TComplete 3; TComplete 1]
  = [[]; []; []; [TCb 2 true]; []; []; [TCb 1 false; TCloseRet (Some 2)]].
Proof. vm_compute. intuition; discriminate. Qed.

Print Assumptions C18_skeleton_register.
Print Assumptions C18_skeleton_close.
Print Assumptions C18_skeleton_monitor.
Print Assumptions C18_thread_at_most_once.
Print Assumptions C18_close_after_monitor.
Print Assumptions C18_monitor_exit_kinds.
Print Assumptions C18_refuted_lost_update.
Print Assumptions C18_refuted_iteration.
Print Assumptions C18_refuted_exit_race.
Print Assumptions C18_refuted_exception_lost.
Print Assumptions C18_thread_statement_false.
Print Assumptions C18_thread_partial.
Print Assumptions C18_close_waits_partial.
Print Assumptions C18_exception_reraised_partial.
Print Assumptions C18_no_iteration_error_partial.
Print Assumptions C18_task_exactly_once.
Print Assumptions C18_task_close_waits.
Print Assumptions C18_example_nonvacuous.
Print Assumptions C18_example_task_nonvacuous.
