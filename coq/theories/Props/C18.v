(** C18 -- done-callbacks fire exactly once for every registered thread and task.
    Property theorems only; each is closed by [exact] of a lemma proved in
    DoneCb/{Safety,Inv,Main,TaskProofs}.v.

    Thread half.  Model: DoneCb/Model.v (thread.py WITH the lock) -- the monitor
    thread, the thread calling close() and ANY NUMBER of registering threads, each
    executing the shared accesses of its bytecode (Gen/DoneCbSkeleton.v, regenerated
    from /repo on every run), interleaved by an adversarial scheduler: every statement
    quantifies over EVERY label list [ls] (Step who / Arrive t / Die t / CloseCall) and
    every choice [raises] of callbacks that raise.  A thread at a LockAcquire is disabled
    while the lock is held; the scheduler may pick any thread at every step.
    No usage contract is built into the labels (a thread may start registering at any
    time, close() may be called at any time): the contract of close() appears in the
    statements as [registered_before_close] = the threads whose register() had RETURNED
    when close() was called.  Structural assumptions of the model (listed in
    harness/props/c18.py ASSUMPTIONS): a thread registers itself, once, and ends only
    after its register() returned; close() is called at most once and not from a
    registered thread.
    [called], [registered], [registered_before_close], [ended], [close_results],
    [monitor_exits], [first_raised] are functions of the observable history alone
    (Inv.ghost_of); so is [registered_while_close_waits] (Late.late_of): the threads that
    registered after close() was called while it was still waiting for an earlier one.
    Task half.  Model: DoneCb/Task.v (sequential); every operation sequence = every
    completion order; hypothesis [twf]: no task is registered again after it ended. *)
From NL Require Import DoneCb.Model DoneCb.Safety DoneCb.Inv DoneCb.Main
                       DoneCb.Live DoneCb.Term DoneCb.Progress DoneCb.Late
                       DoneCb.Task DoneCb.TaskProofs.

(** tie: the model's programs are exactly the shared accesses of the regenerated skeleton *)
Theorem C18_skeleton_register : filter shared register_skeleton = register_prog.
Proof. exact register_skeleton_ok. Qed.
Theorem C18_skeleton_close : filter shared close_skeleton = close_prog.
Proof. exact close_skeleton_ok. Qed.
Theorem C18_skeleton_monitor : filter shared monitor_skeleton = monitor_prog.
Proof. exact monitor_skeleton_ok. Qed.

(** at any time, for every schedule: never twice, never for an unregistered thread, never
    before the thread ended *)
Theorem C18_thread_at_most_once : forall raises ls,
  NoDup (called raises ls) /\
  forall t, In t (called raises ls) -> In t (ended raises ls) /\ In t (registered raises ls).
Proof. exact thread_at_most_once. Qed.

(** once close() has returned, every thread registered before close() was called has ended and
    its callback was invoked exactly once *)
Theorem C18_thread_exactly_once : forall raises ls e,
  In e (close_results raises ls) ->
  forall t, In t (registered_before_close raises ls) ->
    count_occ Nat.eq_dec (called raises ls) t = 1 /\ In t (ended raises ls).
Proof. exact thread_exactly_once. Qed.

(** close() returns only after all of them have ended and been called back ... *)
Theorem C18_close_waits : forall raises ls e,
  In e (close_results raises ls) ->
  forall t, In t (registered_before_close raises ls) -> In t (called raises ls) /\ In t (ended raises ls).
Proof. exact close_waits. Qed.

(** ... and only after the monitor thread ended, reporting how it ended *)
Theorem C18_close_after_monitor : forall raises ls e,
  In e (close_results raises ls) -> In e (monitor_exits raises ls).
Proof. exact close_after_monitor. Qed.

(** close() re-raises exactly the first callback exception (returns normally if none raised) *)
Theorem C18_exception_reraised : forall raises ls e,
  In e (close_results raises ls) -> e = first_raised raises ls.
Proof. exact exception_reraised. Qed.

(** the monitor thread never dies of "Set changed size during iteration": it ends only with the
    first callback exception or normally -- so no callback exception can be lost that way *)
Theorem C18_no_iteration_error : forall raises ls e,
  In e (monitor_exits raises ls) -> e = first_raised raises ls /\ e <> Some ExSetChanged.
Proof. exact no_iteration_error. Qed.

(** the lock: a thread inside register()'s `with` block excludes the monitor's scan, rebuild and
    exit check, and every other registering thread *)
Theorem C18_lock_excludes : forall raises ls t,
  let s := run raises ls in
  reg_locked (regs s t) -> ~ mon_locked (m_pc s) /\ forall t', reg_locked (regs s t') -> t' = t.
Proof. exact lock_excludes. Qed.

(** ---- progress ("every trace that starts is eventually reported as ended").

    [unfinished s w]: thread w of the program has started its method and not finished it (the
    monitor thread has not ended / close() was called and has not returned / thread t is inside
    register()).  [enabled s w]: w's next access can be executed now.
    Legitimate waits, and the only ones: (a) a thread about to acquire the lock while it is held --
    then the holder is inside its critical section, unfinished and ENABLED (it can always proceed
    to its release); (b) close() in join() while the monitor thread has not ended -- then the
    monitor is itself enabled or in case (a).  The monitor thread loops until close() is called,
    so it is "unfinished" by design; that is not a deadlock. *)
Theorem C18_no_deadlock : forall raises ls w,
  let s := run raises ls in
  unfinished s w ->
    enabled raises s w
    \/ (at_acquire s w /\ exists h, lock s = Some h /\ h <> w /\ unfinished s h /\ enabled raises s h)
    \/ (w = Closer /\ closer s = CJoining /\ unfinished s Mon).
Proof. exact no_deadlock. Qed.

(** hence in every reachable state with an unfinished thread, some unfinished thread has an enabled
    step, and that step changes the state: no state in which every unfinished thread is blocked *)
Theorem C18_no_deadlock_some : forall raises ls,
  let s := run raises ls in
  (exists w, unfinished s w) ->
  exists w, unfinished s w /\ enabled raises s w /\ fst (step raises s (Step w)) <> s.
Proof. exact no_deadlock_some. Qed.

(** the termination measure [mu] (DoneCb/Term.v: remaining accesses of the monitor's current
    iteration + one more iteration over the elements its scan has passed as alive + remaining
    accesses of close()) strictly decreases on every effective step, once every thread that
    started has ended ([all_ended]) and `_closed` is set *)
Theorem C18_step_decreases : forall raises g s w,
  Inv g s -> Inv2 g s -> all_ended s -> closed s = true -> enabled raises s w ->
  mu (fst (step raises s (Step w))) < mu s.
Proof. exact step_decreases. Qed.

(** under ANY scheduler: after the threads have ended and `_closed` is set, a continuation of Step
    labels contains at most [mu] effective steps (no fairness assumption) ... *)
Theorem C18_bounded_after_end : forall raises ls ls',
  steps_only ls' -> all_ended (run raises ls) -> closed (run raises ls) = true ->
  effective raises (run raises ls) ls' <= mu (run raises ls).
Proof. exact bounded_after_end. Qed.

(** ... and when nothing is enabled any more, close() has returned: every maximal schedule is
    finite and ends with close() returned *)
Theorem C18_stuck_means_returned : forall raises ls ls',
  steps_only ls' -> closer (run raises ls) <> CNone ->
  (forall w, ~ enabled raises (run raises (ls ++ ls')) w) ->
  exists e, closer (run raises (ls ++ ls')) = CDone e.
Proof. exact stuck_means_returned. Qed.

(** close() can always return: from every reachable state in which close() has been called and
    every thread that started has ended, SOME continuation of Step labels makes close() return, and
    then every thread registered before close() was called has been called back exactly once.
    (Before `self._closed = True` is executed the monitor may loop any number of times, so
    "eventually" needs the scheduler to run the <= 3 remaining lock-free accesses of close():
    weak fairness towards the closing thread is the ONLY fairness assumption; after that
    C18_bounded_after_end needs none.) *)
Theorem C18_close_can_return : forall raises ls,
  closer (run raises ls) <> CNone -> all_ended (run raises ls) ->
  exists ls', steps_only ls' /\ close_results raises (ls ++ ls') <> [] /\
    forall t, In t (registered_before_close raises ls) ->
      count_occ Nat.eq_dec (called raises (ls ++ ls')) t = 1 /\ In t (ended raises (ls ++ ls')).
Proof. exact close_can_return. Qed.

(** non-vacuity of the progress hypotheses: the former lost-update schedule cut where close() is
    called (threads 1, 2 ended) and where close() waits in join(): measure 20, the remaining 19
    steps are all effective, close() returns; close() itself is legitimately blocked there *)
Example C18_example_progress :
  (all_ended (run nobody pre_close) /\ all_ended (run nobody pre_closed)) /\
  steps_only rest_closed /\
  closer (run nobody pre_close) = CLoad /\ closed (run nobody pre_close) = false
  /\ closer (run nobody pre_closed) = CJoining /\ closed (run nobody pre_closed) = true
  /\ mu (run nobody pre_closed) = 20
  /\ effective nobody (run nobody pre_closed) rest_closed = 19
  /\ pre_closed ++ rest_closed = w_lost_update
  /\ close_results nobody w_lost_update = [None]
  /\ unfinished (run nobody pre_closed) Closer /\ ~ enabled nobody (run nobody pre_closed) Closer
  /\ enabled nobody (run nobody pre_closed) Mon.
Proof. exact (conj all_ended_example (conj steps_only_rest example_progress)). Qed.

(** ---- late registrations ("no matter when other threads register").
    [registered_while_close_waits raises ls] (DoneCb/Late.v, a function of the observable history
    alone): the threads whose register() returned after close() was called, at a point of the
    history where some thread registered before the call had not yet been called back -- i.e.
    while close() was still waiting.  C18_late_registration_spec restates the definition with
    prefixes of the schedule, without the ghost. *)
Theorem C18_late_registration_spec : forall raises ls t,
  In t (registered_while_close_waits raises ls) <->
  exists ls1 ls2, ls = ls1 ++ Step (Reg t) :: ls2 /\
    In (EvRegistered t) (evs_of (snd (step raises (run raises ls1) (Step (Reg t))))) /\
    exists u, In u (registered_before_close raises ls1) /\ ~ In u (called raises ls1).
Proof. exact late_spec. Qed.

(** they are registered threads, distinct from those registered before the call *)
Theorem C18_late_registration_disjoint : forall raises ls t,
  In t (registered_while_close_waits raises ls) ->
  In t (registered raises ls) /\ ~ In t (registered_before_close raises ls).
Proof. exact late_registered. Qed.

(** once close() has returned, every thread registered before close() was called AND every thread
    that registered while close() was still waiting for one of those has ended and its callback
    was invoked exactly once (for every schedule, every number of threads, every [raises]) *)
Theorem C18_late_registration_exactly_once : forall raises ls e,
  In e (close_results raises ls) ->
  forall t, In t (registered_before_close raises ls ++ registered_while_close_waits raises ls) ->
    count_occ Nat.eq_dec (called raises ls) t = 1 /\ In t (ended raises ls).
Proof. exact all_exactly_once. Qed.

(** close() returns only after all of them have ended and been called back ... *)
Theorem C18_late_registration_close_waits : forall raises ls e,
  In e (close_results raises ls) ->
  forall t, In t (registered_before_close raises ls ++ registered_while_close_waits raises ls) ->
    In t (called raises ls) /\ In t (ended raises ls).
Proof. exact all_close_waits. Qed.

(** ... because the monitor thread itself does not end before *)
Theorem C18_late_registration_monitor_waits : forall raises ls e,
  In e (monitor_exits raises ls) ->
  forall t, In t (registered_before_close raises ls ++ registered_while_close_waits raises ls) ->
    In t (called raises ls) /\ In t (ended raises ls).
Proof. exact late_monitor_waits. Qed.

(** non-vacuity: thread 2 registers during close()'s wait -- while the callback for thread 1 is
    pending (1 already removed from `_active`), resp. while 1 is still alive -- and is called back
    before close() returns; if its callback raises, close() re-raises that *)
Example C18_late_registration_example_nonvacuous :
  (m_pc (run nobody (reg4 1 ++ [Die 1] ++ close4 ++ mon 10)) = MCallback
   /\ close_results nobody w_late_pending = [None]
   /\ registered_before_close nobody w_late_pending = [1]
   /\ registered_while_close_waits nobody w_late_pending = [2]
   /\ called nobody w_late_pending = [2; 1] /\ ended nobody w_late_pending = [2; 1])
  /\ (close_results nobody w_late_alive = [None]
      /\ registered_before_close nobody w_late_alive = [1]
      /\ registered_while_close_waits nobody w_late_alive = [2]
      /\ called nobody w_late_alive = [2; 1] /\ ended nobody w_late_alive = [2; 1])
  /\ (close_results only2 w_late_pending = [Some (ExCb 2)]
      /\ registered_while_close_waits only2 w_late_pending = [2]
      /\ called only2 w_late_pending = [2; 1]).
Proof. exact example_late. Qed.

(** the hypothesis is needed: a thread whose register() returns after everything close() waited for
    was called back and the monitor thread ended is never called back (outside close()'s contract) *)
Example C18_late_registration_example_boundary :
  close_results nobody w_after_exit = [None]
  /\ registered_before_close nobody w_after_exit = [1]
  /\ registered_while_close_waits nobody w_after_exit = []
  /\ registered nobody w_after_exit = [2; 1] /\ ended nobody w_after_exit = [2; 1]
  /\ called nobody w_after_exit = [1].
Proof. exact example_after_exit. Qed.

(** ---- the GENERAL form (any number of generations of late threads, close() with nothing registered):
    [registered_before_monitor_exit raises ls] (DoneCb/Late.v, a function of the observable history
    alone) = the threads whose register() returned before the monitor thread ended (t is recorded at its
    EvRegistered iff no EvMonExit has occurred).  That is the exact boundary: the monitor's final exit
    check runs under the lock up to the release that ends the thread, a register() returns with the
    release of the same lock after its `add` (C18_late_registration_general_example_boundary). *)
Theorem C18_late_registration_general_spec : forall raises ls t,
  In t (registered_before_monitor_exit raises ls) <->
  exists ls1 ls2, ls = ls1 ++ Step (Reg t) :: ls2 /\
    In (EvRegistered t) (evs_of (snd (step raises (run raises ls1) (Step (Reg t))))) /\
    monitor_exits raises ls1 = [].
Proof. exact general_spec. Qed.

(** it includes the threads registered before close() was called and the one-generation late threads *)
Theorem C18_late_registration_general_includes : forall raises ls t,
  In t (registered_before_close raises ls ++ registered_while_close_waits raises ls) ->
  In t (registered_before_monitor_exit raises ls).
Proof. exact general_includes. Qed.

(** only registered threads; and as long as the monitor thread runs, EVERY registered thread *)
Theorem C18_late_registration_general_registered : forall raises ls t,
  In t (registered_before_monitor_exit raises ls) -> In t (registered raises ls).
Proof. exact general_registered. Qed.

Theorem C18_late_registration_general_all_while_running : forall raises ls,
  monitor_exits raises ls = [] ->
  forall t, In t (registered raises ls) -> In t (registered_before_monitor_exit raises ls).
Proof. exact general_all_while_running. Qed.

(** once close() has returned, every thread whose register() returned before the monitor thread ended
    has ended and its callback was invoked exactly once (every schedule, every number of threads and
    of generations of late threads, every [raises]) *)
Theorem C18_late_registration_general_exactly_once : forall raises ls e,
  In e (close_results raises ls) ->
  forall t, In t (registered_before_monitor_exit raises ls) ->
    count_occ Nat.eq_dec (called raises ls) t = 1 /\ In t (ended raises ls).
Proof. exact general_exactly_once. Qed.

Theorem C18_late_registration_general_close_waits : forall raises ls e,
  In e (close_results raises ls) ->
  forall t, In t (registered_before_monitor_exit raises ls) ->
    In t (called raises ls) /\ In t (ended raises ls).
Proof. exact general_close_waits. Qed.

(** the monitor thread itself does not end before (exactly once, at the moment it ends) *)
Theorem C18_late_registration_general_monitor_waits : forall raises ls e,
  In e (monitor_exits raises ls) ->
  forall t, In t (registered_before_monitor_exit raises ls) ->
    count_occ Nat.eq_dec (called raises ls) t = 1 /\ In t (ended raises ls).
Proof. exact general_monitor_exactly_once. Qed.

(** non-vacuity: a CHAIN of two late threads (3 registers while close() waits only for the late
    thread 2: outside [registered_while_close_waits], inside the general set, called back); close()
    called with nothing registered yet; a raising callback of the chain-late thread is re-raised *)
Example C18_late_registration_general_example_nonvacuous :
  (close_results nobody w_chain = [None]
   /\ registered_before_close nobody w_chain = [1]
   /\ registered_while_close_waits nobody w_chain = [2]
   /\ registered_before_monitor_exit nobody w_chain = [3; 2; 1]
   /\ called nobody w_chain = [3; 2; 1] /\ ended nobody w_chain = [3; 2; 1])
  /\ (close_results nobody w_close_first = [None]
      /\ registered_before_close nobody w_close_first = []
      /\ registered_while_close_waits nobody w_close_first = []
      /\ registered_before_monitor_exit nobody w_close_first = [1]
      /\ called nobody w_close_first = [1] /\ ended nobody w_close_first = [1])
  /\ (close_results (fun t => t =? 3) w_chain = [Some (ExCb 3)]
      /\ called (fun t => t =? 3) w_chain = [3; 2; 1]).
Proof. exact example_general. Qed.

(** the boundary witness: a register() that returns after the monitor thread ended is not in the set
    and is never called back *)
Example C18_late_registration_general_example_boundary :
  close_results nobody w_after_exit = [None] /\ monitor_exits nobody w_after_exit = [None]
  /\ registered nobody w_after_exit = [2; 1] /\ ended nobody w_after_exit = [2; 1]
  /\ registered_before_monitor_exit nobody w_after_exit = [1]
  /\ called nobody w_after_exit = [1].
Proof. exact example_general_boundary. Qed.

(** task half: exactly once for every task registered and ended, for every completion order *)
Theorem C18_task_exactly_once : forall raises os, twf os ->
  NoDup (tcalled (touts raises os)) /\
  forall t, In t (tcalled (touts raises os)) <-> In (TReg t) os /\ In (TComplete t) os.
Proof. exact task_exactly_once. Qed.

(** task half: callbacks only in the step in which the task ends; close() returns only when all
    tasks registered so far have ended, with the first exception raised so far *)
Theorem C18_task_close_waits : forall raises os, twf os -> steps_ok [] [] [] os (touts raises os).
Proof. exact task_steps_ok. Qed.

(** non-vacuity: the three schedules on which the unrepaired code lost a callback (as executed on
    the repaired class, drain included): close() returns, every thread is called back *)
Example C18_example_former_witnesses :
  (close_results nobody w_iteration = [None] /\ registered_before_close nobody w_iteration = [1]
   /\ called nobody w_iteration = [1] /\ monitor_exits nobody w_iteration = [None])
  /\ (close_results nobody w_lost_update = [None] /\ registered_before_close nobody w_lost_update = [2; 1]
      /\ called nobody w_lost_update = [2; 1])
  /\ (close_results nobody w_exit_race = [None] /\ registered nobody w_exit_race = [1]
      /\ called nobody w_exit_race = [1]).
Proof. exact example_former_witnesses. Qed.

(** the same races aimed at the repaired code: the registering thread is blocked (2-3 disabled
    steps) while the monitor is inside the scan / between `-` and the store / in the exit check *)
Example C18_example_nonvacuous :
  (close_results nobody w_iteration_locked = [None] /\ called nobody w_iteration_locked = [1]
   /\ blocked_steps w_iteration_locked = 3)
  /\ (close_results nobody w_lost_update_locked = [None] /\ called nobody w_lost_update_locked = [2; 1]
      /\ blocked_steps w_lost_update_locked = 3)
  /\ (close_results nobody w_exit_race_locked = [None] /\ called nobody w_exit_race_locked = [1]
      /\ registered_before_close nobody w_exit_race_locked = [1] /\ blocked_steps w_exit_race_locked = 2).
Proof. exact example_locked. Qed.

Example C18_example_raises :
  close_results only1 w_lost_update = [Some (ExCb 1)] /\ first_raised only1 w_lost_update = Some (ExCb 1)
  /\ called only1 w_lost_update = [2; 1] /\ ended only1 w_lost_update = [2; 1].
Proof. exact example_raises. Qed.

Example C18_example_task_nonvacuous :
  twf [TReg 1; TReg 2; TReg 1; TComplete 2; TClose; TComplete 3; TComplete 1] /\
  touts (fun t => t =? 2) [TReg 1; TReg 2; TReg 1; TComplete 2; TClose; TComplete 3; TComplete 1]
  = [[]; []; []; [TCb 2 true]; []; []; [TCb 1 false; TCloseRet (Some 2)]].
Proof. vm_compute. intuition; discriminate. Qed.

(** ---- tie of the asyncio-task half to the source (DoneCb/TaskTie.v).
    translate/taskdone_funs.py regenerates Gen/TaskDoneFuns.v on every run: every method of
    TaskDoneCallback (task.py), ThreadTaskDoneCallback (union.py), ExcThread (thread_exception.py) and
    current_task_or_thread (aio.py) as a statement AST (DoneCb/TaskSyntax.v).  DoneCb/TaskInterp.v
    interprets the regenerated bodies (method lookup by name, frames, `time.sleep` as the suspension
    point of the close methods, asyncio's add_done_callback / call_soon as primitives) under a driver
    with the operations of DoneCb/Task.v.  [u] = false: TaskDoneCallback, true: ThreadTaskDoneCallback;
    [m]: close / aclose / __exit__ / __aexit__; [cur]: who calls the close method (no loop / a loop but
    no task / task t); [thr_exc]: how the (primitive) thread helper's close() ends;
    [op_ok cur o]: the task that calls the close method is not the one being registered. *)
From NL Require Import DoneCb.TaskInterp DoneCb.TaskTie.

(** step equality: for EVERY well-formed state and EVERY operation one step of the interpreter on the
    regenerated bodies yields the model's next state and the model's events, and stays well-formed *)
Theorem C18_tie_task_step : forall raises cur cur_thread thr_exc u m st k o,
  (needs_loop m = true -> cur <> NoLoop) ->
  WF raises cur cur_thread thr_exc None u (st, k) -> op_ok cur o ->
  let r := step_of raises cur cur_thread thr_exc u m (st, k) o in
  let mo := tstep raises (abs (st, k)) o in
  WF raises cur cur_thread thr_exc None u (fst r) /\ abs (fst r) = fst mo
  /\ snd r = flat_map (evmap thr_exc u) (snd mo).
Proof. exact tie_task_step. Qed.

Theorem C18_tie_task_wf_reachable : forall raises cur cur_thread thr_exc u m os,
  (needs_loop m = true -> cur <> NoLoop) -> Forall (op_ok cur) os ->
  WF raises cur cur_thread thr_exc None u (final_of raises cur cur_thread thr_exc u m os).
Proof. exact tie_task_wf_reachable. Qed.

(** whole histories: for ALL operation sequences (every completion order, any number of tasks,
    re-registrations and unregistered tasks included) outputs and final state = DoneCb/Task.v *)
Theorem C18_tie_task_outputs : forall raises cur cur_thread thr_exc u m os,
  (needs_loop m = true -> cur <> NoLoop) -> Forall (op_ok cur) os ->
  outs_of raises cur cur_thread thr_exc u m os = map (flat_map (evmap thr_exc u)) (touts raises os)
  /\ abs (final_of raises cur cur_thread thr_exc u m os) = trun raises os.
Proof. exact tie_task_outputs. Qed.

(** C18_task_exactly_once OF THE REGENERATED CODE (either helper, any of the four close methods) *)
Theorem C18_tie_task_exactly_once : forall raises cur cur_thread thr_exc u m os,
  (needs_loop m = true -> cur <> NoLoop) -> Forall (op_ok cur) os -> twf os ->
  NoDup (icalled (outs_of raises cur cur_thread thr_exc u m os)) /\
  forall t, In t (icalled (outs_of raises cur cur_thread thr_exc u m os)) <-> In (TReg t) os /\ In (TComplete t) os.
Proof. exact tie_task_exactly_once. Qed.

(** C18_task_close_waits OF THE REGENERATED CODE: a callback only in the step in which its task ends;
    the close method ends only when every task registered so far has ended and been called back, with
    the FIRST callback exception (for the union: the thread helper's close() is invoked in that very step,
    on every path, and its exception, if any, takes precedence) *)
Theorem C18_tie_task_close_waits : forall raises cur cur_thread thr_exc u m os,
  (needs_loop m = true -> cur <> NoLoop) -> Forall (op_ok cur) os -> twf os ->
  isteps_ok thr_exc u [] [] [] os (outs_of raises cur cur_thread thr_exc u m os).
Proof. exact tie_task_close_waits. Qed.

(** the close method never ends with an exception of the helper's own making: the thread helper's
    exception (union), else that of a task callback, else a normal return *)
Theorem C18_tie_task_close_result : forall raises cur cur_thread thr_exc u m os e,
  (needs_loop m = true -> cur <> NoLoop) -> Forall (op_ok cur) os ->
  In (ICloseRet e) (List.concat (outs_of raises cur cur_thread thr_exc u m os)) ->
  match (if u then thr_exc else None) with
  | Some y => e = Some y
  | None => (exists t, e = Some (PXCb t)) \/ e = None
  end.
Proof. exact tie_task_close_result. Qed.

(** the guard: called from a registered task every close method of TaskDoneCallback raises RuntimeError
    at once and nothing else happens ... *)
Theorem C18_tie_task_guard : forall raises cur_thread thr_exc m st t,
  mem t (i_active st) = true ->
  invoke raises true (InTask t) cur_thread thr_exc None (PVMeth ObTask (close_name m)) (close_args m) st
  = (st, QRaise PXRuntime).
Proof. exact tie_task_guard. Qed.

(** ... and of the union: the same RuntimeError, through the `finally` -- the thread helper is closed
    first (its exception, if any, replaces the RuntimeError) *)
Theorem C18_tie_task_union_guard : forall raises cur_thread thr_exc m st t,
  mem t (i_active st) = true ->
  invoke raises true (InTask t) cur_thread thr_exc None (PVMeth ObUnion (close_name m)) (close_args m) st
  = (add_log (with_thr st (i_thr_reg st) true) IThrClose,
     match thr_exc with Some y => QRaise y | None => QRaise PXRuntime end).
Proof. exact tie_union_guard. Qed.

(** the union's dispatch *)
Theorem C18_tie_task_union_register_task : forall raises cur cur_thread thr_exc st t,
  invoke raises true cur cur_thread thr_exc None (PVMeth ObUnion "register"%string) [PVTask t] st
  = invoke raises true cur cur_thread thr_exc None (PVMeth ObTask "register"%string) [PVTask t] st
  /\ i_thr_reg (fst (invoke raises true cur cur_thread thr_exc None (PVMeth ObUnion "register"%string) [PVTask t] st))
     = i_thr_reg st.
Proof. exact tie_union_register_task. Qed.

Theorem C18_tie_task_union_register_thread : forall raises cur cur_thread thr_exc st v,
  invoke raises true cur cur_thread thr_exc None (PVMeth ObUnion "register"%string) [PVThread v] st
  = (with_thr st (i_thr_reg st ++ [v]) (i_thr_closed st), QNormal).
Proof. exact tie_union_register_thread. Qed.

Theorem C18_tie_task_union_register_default : forall raises cur cur_thread thr_exc st,
  invoke raises true cur cur_thread thr_exc None (PVMeth ObUnion "register"%string) [] st
  = match cur with
    | InTask t => invoke raises true cur cur_thread thr_exc None (PVMeth ObTask "register"%string) [PVTask t] st
    | _ => (with_thr st (i_thr_reg st ++ [cur_thread]) (i_thr_closed st), QNormal)
    end.
Proof. exact tie_union_register_default. Qed.

(** the union's close methods once every registered task has ended
    (`try: <task helper close> finally: <thread helper close>`) *)
Theorem C18_tie_task_union_close_outcome : forall raises cur cur_thread thr_exc m st,
  (needs_loop m = true -> cur <> NoLoop) -> cur_ok cur st -> i_active st = [] ->
  invoke raises true cur cur_thread thr_exc None (PVMeth ObUnion (close_name m)) (close_args m) st
  = (add_log (with_thr st (i_thr_reg st) true) IThrClose,
     match thr_exc with
     | Some y => QRaise y
     | None => match i_excs st with x :: _ => QRaise x | [] => QNormal end
     end).
Proof. exact tie_union_close_outcome. Qed.

(** it raises IFF one of the helpers raised *)
Theorem C18_tie_task_union_close_reraises : forall raises cur cur_thread thr_exc m st,
  (needs_loop m = true -> cur <> NoLoop) -> cur_ok cur st -> i_active st = [] ->
  ((exists x, snd (invoke raises true cur cur_thread thr_exc None (PVMeth ObUnion (close_name m)) (close_args m) st)
              = QRaise x)
   <-> (i_excs st <> [] \/ thr_exc <> None))
  /\ (snd (invoke raises true cur cur_thread thr_exc None (PVMeth ObUnion (close_name m)) (close_args m) st) = QNormal
      <-> (i_excs st = [] /\ thr_exc = None)).
Proof. exact tie_union_close_reraises. Qed.

(** "close closes both", IN FULL (the repaired union.py): every close method of the union closes BOTH
    helpers on every path -- the thread helper's close() is invoked, once, whether or not a task callback
    raised -- and it raises iff one of them raised: the thread helper's exception if it raised, else the
    task helper's.  (Along whole histories: C18_tie_task_close_waits with u = true -- IThrClose in the
    very step in which the close method ends.) *)
Theorem C18_tie_task_union_close_both : forall raises cur cur_thread thr_exc m st,
  (needs_loop m = true -> cur <> NoLoop) -> cur_ok cur st -> i_active st = [] ->
  let r := invoke raises true cur cur_thread thr_exc None (PVMeth ObUnion (close_name m)) (close_args m) st in
  i_thr_closed (fst r) = true
  /\ i_log (fst r) = i_log st ++ [IThrClose]
  /\ i_active (fst r) = [] /\ i_excs (fst r) = i_excs st
  /\ snd r = match thr_exc, i_excs st with
             | Some y, _ => QRaise y
             | None, x :: _ => QRaise x
             | None, [] => QNormal
             end.
Proof. exact tie_union_close_both. Qed.

(** ExcThread: join() re-raises what run() caught *)
Theorem C18_tie_task_excthread_join_reraises : forall raises cur cur_thread thr_exc target_exc st,
  let st1 := fst (invoke raises true cur cur_thread thr_exc target_exc (PVMeth ObExcThread "run"%string) [] st) in
  snd (invoke raises true cur cur_thread thr_exc target_exc (PVMeth ObExcThread "run"%string) [] st) = QNormal
  /\ snd (invoke raises true cur cur_thread thr_exc target_exc (PVMeth ObExcThread "join"%string) [] st1)
     = match target_exc with Some x => QRaise x | None => QNormal end.
Proof. exact tie_excthread_join_reraises. Qed.

(** the __init__ tables: the tracked attributes and their initial values; both helpers of the union get
    the same `done` *)
Theorem C18_tie_task_init : exists d,
  task_init_params = [(d, Some ENone)] /\
  forall f e, In (f, e) task_init <->
    (f, e) = (FDone, EVar d) \/ (f, e) = (FActive, ENewSet) \/ (f, e) = (FExceptions, ENewList).
Proof. exact tie_task_init. Qed.

Theorem C18_tie_task_union_init : exists d i,
  union_init_params = [(d, Some ENone); (i, Some EOpaque)] /\
  forall f e, In (f, e) union_init <->
    (f, e) = (FThreadCb, ENew "ThreadDoneCallback" [("done"%string, EVar d); ("interval"%string, EVar i)])
    \/ (f, e) = (FTaskCb, ENew "TaskDoneCallback" [("done"%string, EVar d)]).
Proof. exact tie_union_init. Qed.

(** non-vacuity (interpreter on the regenerated bodies, by computation): the history of
    C18_example_task_nonvacuous under TaskDoneCallback.close from a thread, TaskDoneCallback.__aexit__
    from an unregistered task, the union's aclose with a thread-helper exception (re-raised), the
    union's __exit__ with BOTH a task-callback and a thread-helper exception (the thread helper is closed,
    its exception wins), with a task-callback exception only (thread helper closed, the task callback's
    exception re-raised), and close from the registered task 1 (thread helper closed, RuntimeError) *)
Example C18_tie_task_example_nonvacuous :
  Forall (op_ok (InTask 7)) ex_os /\ twf ex_os
  /\ outs_of (fun t => t =? 2) NoLoop 0 None false MClose ex_os
     = [[]; []; []; [ICb 2 true]; []; []; [ICb 1 false; ICloseRet (Some (PXCb 2))]]
  /\ outs_of (fun t => t =? 2) (InTask 7) 0 None false MAexit ex_os
     = [[]; []; []; [ICb 2 true]; []; []; [ICb 1 false; ICloseRet (Some (PXCb 2))]]
  /\ outs_of (fun _ => false) (InTask 7) 0 (Some (PXOther 5)) true MAclose ex_os
     = [[]; []; []; [ICb 2 false]; []; []; [ICb 1 false; IThrClose; ICloseRet (Some (PXOther 5))]]
  /\ outs_of (fun t => t =? 2) LoopNoTask 0 (Some (PXOther 5)) true MExit ex_os
     = [[]; []; []; [ICb 2 true]; []; []; [ICb 1 false; IThrClose; ICloseRet (Some (PXOther 5))]]
  /\ outs_of (fun t => t =? 2) LoopNoTask 0 None true MExit ex_os
     = [[]; []; []; [ICb 2 true]; []; []; [ICb 1 false; IThrClose; ICloseRet (Some (PXCb 2))]]
  /\ outs_of (fun _ => false) (InTask 1) 0 None true MClose ex_os
     = [[]; []; []; [ICb 2 false]; [IThrClose; ICloseRet (Some PXRuntime)]; []; [ICb 1 false]].
Proof. exact tie_task_example. Qed.

(** ---- tie, thread half, second layer: polarity, stored values, call arguments, __init__.
    translate/donecb_skeleton.py also regenerates (with `ast`) every method of ThreadDoneCallback as a
    statement tree (Gen/DoneCbSkeleton.v: init_ast, register_ast, close_ast, monitor_ast, enter_ast,
    exit_ast; syntax DoneCb/SkelSyntax.v).  DoneCb/SkelFacts.v pins the control SHAPE of each method with
    a matcher and INTERPRETS THE LEAVES over the model's state: [step_mon_ast], [step_reg_ast],
    [step_closer_ast] are the model's step functions in which every data-dependent decision (the filter
    `not t.is_alive()` of the scan, the exit test `not self._active and self._closed` and its `break`,
    `while True`, `if self._done`, `if exc`, the guard of close()), every stored value (`self._active -
    done`, `_closed = True`), every iterated expression and every call argument (`self._done(d)`,
    `exc.append(e)`, `add(thread)`, `join()`, `exc[0]`) is computed from the regenerated expression.
    Kind: pin of the control shape + interpretation of the leaves, for ALL states. *)
From NL Require DoneCb.SkelSyntax DoneCb.SkelFacts.

(** __init__ interpreted = Model.init: a new empty builtin set, _closed False, a new lock, the monitor
    thread ExcThread(target=self._monitor, daemon=True) started after all stores; _monitor's `exc = []` *)
Theorem C18_skelfacts_init :
  match SkelFacts.exec_init (SkelSyntax.pm_body init_ast) (fun _ => None, false),
        SkelFacts.monitor_facts (SkelSyntax.pm_body monitor_ast) with
  | Some o, Some f => SkelFacts.state_of o (SkelFacts.mf_exc_init f)
  | _, _ => None
  end = Some DoneCb.Model.init.
Proof. exact SkelFacts.skel_init. Qed.

(** defaults (pin): done=None, interval=0.001; register(thread=None) *)
Theorem C18_skelfacts_defaults :
  SkelSyntax.pm_defaults init_ast = [Some SkelSyntax.PNone; Some (SkelSyntax.PFloat "0.001")]
  /\ SkelSyntax.pm_defaults register_ast = [Some SkelSyntax.PNone] /\ SkelSyntax.pm_nparams register_ast = 1
  /\ SkelSyntax.pm_nparams close_ast = 0 /\ SkelSyntax.pm_nparams monitor_ast = 0.
Proof. exact SkelFacts.skel_defaults. Qed.

(** __enter__ returns self, __exit__ calls self.close() (pin) *)
Theorem C18_skelfacts_enter_exit :
  enter_ast = SkelSyntax.mkMeth 0 [] [SkelSyntax.KReturn SkelSyntax.PSelfObj]
  /\ exit_ast = SkelSyntax.mkMeth 3 [None; None; None]
       [SkelSyntax.KDel [0; 1; 2];
        SkelSyntax.KExpr (SkelSyntax.PCall (SkelSyntax.PSelf SkelSyntax.FClose) [] [])].
Proof. exact SkelFacts.skel_enter_exit. Qed.

(** _monitor: at EVERY program point, for EVERY state and every [raises], the step computed from the
    regenerated leaves is the model's step *)
Theorem C18_skelfacts_monitor_step : forall raises s,
  SkelFacts.step_mon_ast raises s = DoneCb.Model.step_mon raises s.
Proof. exact SkelFacts.skel_monitor_step. Qed.

(** register(arg) in thread cur adds (and returns) arg, or cur by default *)
Theorem C18_skelfacts_register_value : forall cur arg,
  SkelFacts.reg_value_ast cur arg = Some (match arg with Some u => u | None => cur end).
Proof. exact SkelFacts.skel_register_value. Qed.

(** register called by thread t for itself: the model's step, for every state *)
Theorem C18_skelfacts_register_step : forall arg s t, (arg = None \/ arg = Some t) ->
  SkelFacts.step_reg_ast arg s t = DoneCb.Model.step_reg s t.
Proof. exact SkelFacts.skel_register_step. Qed.

(** close() called by a thread that is not registered: the model's step, for every state *)
Theorem C18_skelfacts_close_step : forall s,
  SkelFacts.step_closer_ast false s = DoneCb.Model.step_closer s.
Proof. exact SkelFacts.skel_close_step. Qed.

(** close() called by a registered thread raises at the membership test; _closed is not stored *)
Theorem C18_skelfacts_close_registered : forall s r, closer s = CContains r ->
  SkelFacts.step_closer_ast true s =
  (with_closer s (CDone (Some ExRegistered)), OAcc Contains [EvCloseRet (Some ExRegistered)]).
Proof. exact SkelFacts.skel_close_registered. Qed.

(** the labelled step and every run: the theorems above about [run]/[outs]/[history] of the
    hand-written model are theorems about the runs of the interpreted regenerated code *)
Theorem C18_skelfacts_step : forall raises s l,
  SkelFacts.step_ast raises s l = DoneCb.Model.step raises s l.
Proof. exact SkelFacts.skel_step. Qed.
Theorem C18_skelfacts_run : forall raises ls s,
  SkelFacts.run_from_ast raises s ls = DoneCb.Model.run_from raises s ls.
Proof. exact SkelFacts.skel_run. Qed.

(** ---- no callback given (`done=None`, the default): `if self._done:` is false.  [SkelFacts.step_mon_ast_nocb] is
    the monitor step computed from the regenerated leaves with `self._done` falsy; [SkelFacts.step_mon_nocb] is the
    model's monitor step with the one difference that after the scan section (MRel1) the monitor goes straight to the
    exit check.  Step-level statements, for ALL states; run-level: no callback is ever invoked.  (That close() waits
    for the registered threads in whole runs is proved for the model WITH a callback, C18_close_waits; for the
    no-callback system only the step-level exit path below is proved.) *)
Theorem C18_skelfacts_no_callback_step : forall raises s,
  SkelFacts.step_mon_ast_nocb raises s = SkelFacts.step_mon_nocb raises s.
Proof. exact SkelFacts.skel_nocb_step. Qed.

(** the scanned thread goes into `done` iff it is NOT alive; the set stored is the loaded one minus exactly `done` *)
Theorem C18_skelfacts_no_callback_removes_ended : forall raises s,
  (forall t, m_pc s = MIsAlive t ->
     m_done (fst (SkelFacts.step_mon_ast_nocb raises s))
       = (if DoneCb.Model.is_alive (regs s t) then m_done s else ins t (m_done s))
     /\ m_pc (fst (SkelFacts.step_mon_ast_nocb raises s)) = MIterNext)
  /\ (forall r, m_pc s = MSetDiff r ->
     heap (fst (SkelFacts.step_mon_ast_nocb raises s)) = heap s ++ [diff (obj (heap s) r) (m_done s)]
     /\ m_pc (fst (SkelFacts.step_mon_ast_nocb raises s)) = MStore (List.length (heap s)))
  /\ (forall n, m_pc s = MStore n -> active (fst (SkelFacts.step_mon_ast_nocb raises s)) = n).
Proof. exact SkelFacts.skel_nocb_removes_ended. Qed.

(** the monitor thread ends only from the `break` of the exit check (reached only with _closed read True after
    the set was found empty) or from the exception of the scan: join() in close() still waits for that *)
Theorem C18_skelfacts_no_callback_exit_path : forall raises s,
  let s' := fst (SkelFacts.step_mon_ast_nocb raises s) in
  ((exists e, m_pc s' = MExited e) -> m_pc s = MRelBreak \/ m_pc s = MRelExc \/ exists e, m_pc s = MExited e)
  /\ (m_pc s' = MRelBreak -> (m_pc s = MLoadClosed /\ closed s = true) \/ m_pc s = MRelBreak)
  /\ (m_pc s' = MLoadClosed -> (exists r, m_pc s = MTruth r /\ obj (heap s) r = []) \/ m_pc s = MLoadClosed).
Proof. exact SkelFacts.skel_nocb_exit_path. Qed.

(** in EVERY run (every label list, from every state that is not at the call) no callback is invoked *)
Theorem C18_skelfacts_no_callback_never_calls : forall raises ls s, m_pc s <> MCallback ->
  m_pc (fst (SkelFacts.run_from_nocb raises s ls)) <> MCallback
  /\ forallb (fun o => negb (SkelFacts.is_cb_out o)) (snd (SkelFacts.run_from_nocb raises s ls)) = true.
Proof. exact SkelFacts.skel_nocb_never_calls. Qed.

Print Assumptions C18_skeleton_register.
Print Assumptions C18_skeleton_close.
Print Assumptions C18_skeleton_monitor.
Print Assumptions C18_thread_at_most_once.
Print Assumptions C18_thread_exactly_once.
Print Assumptions C18_close_waits.
Print Assumptions C18_close_after_monitor.
Print Assumptions C18_exception_reraised.
Print Assumptions C18_no_iteration_error.
Print Assumptions C18_lock_excludes.
Print Assumptions C18_no_deadlock.
Print Assumptions C18_no_deadlock_some.
Print Assumptions C18_step_decreases.
Print Assumptions C18_bounded_after_end.
Print Assumptions C18_stuck_means_returned.
Print Assumptions C18_close_can_return.
Print Assumptions C18_example_progress.
Print Assumptions C18_late_registration_spec.
Print Assumptions C18_late_registration_disjoint.
Print Assumptions C18_late_registration_exactly_once.
Print Assumptions C18_late_registration_close_waits.
Print Assumptions C18_late_registration_monitor_waits.
Print Assumptions C18_late_registration_example_nonvacuous.
Print Assumptions C18_late_registration_example_boundary.
Print Assumptions C18_late_registration_general_spec.
Print Assumptions C18_late_registration_general_includes.
Print Assumptions C18_late_registration_general_registered.
Print Assumptions C18_late_registration_general_all_while_running.
Print Assumptions C18_late_registration_general_exactly_once.
Print Assumptions C18_late_registration_general_close_waits.
Print Assumptions C18_late_registration_general_monitor_waits.
Print Assumptions C18_late_registration_general_example_nonvacuous.
Print Assumptions C18_late_registration_general_example_boundary.
Print Assumptions C18_task_exactly_once.
Print Assumptions C18_task_close_waits.
Print Assumptions C18_example_former_witnesses.
Print Assumptions C18_example_nonvacuous.
Print Assumptions C18_example_raises.
Print Assumptions C18_example_task_nonvacuous.
Print Assumptions C18_tie_task_step.
Print Assumptions C18_tie_task_wf_reachable.
Print Assumptions C18_tie_task_outputs.
Print Assumptions C18_tie_task_exactly_once.
Print Assumptions C18_tie_task_close_waits.
Print Assumptions C18_tie_task_close_result.
Print Assumptions C18_tie_task_guard.
Print Assumptions C18_tie_task_union_guard.
Print Assumptions C18_tie_task_union_register_task.
Print Assumptions C18_tie_task_union_register_thread.
Print Assumptions C18_tie_task_union_register_default.
Print Assumptions C18_tie_task_union_close_outcome.
Print Assumptions C18_tie_task_union_close_reraises.
Print Assumptions C18_tie_task_union_close_both.
Print Assumptions C18_tie_task_excthread_join_reraises.
Print Assumptions C18_tie_task_init.
Print Assumptions C18_tie_task_union_init.
Print Assumptions C18_tie_task_example_nonvacuous.
Print Assumptions C18_skelfacts_init.
Print Assumptions C18_skelfacts_defaults.
Print Assumptions C18_skelfacts_enter_exit.
Print Assumptions C18_skelfacts_monitor_step.
Print Assumptions C18_skelfacts_register_value.
Print Assumptions C18_skelfacts_register_step.
Print Assumptions C18_skelfacts_close_step.
Print Assumptions C18_skelfacts_close_registered.
Print Assumptions C18_skelfacts_step.
Print Assumptions C18_skelfacts_run.
Print Assumptions C18_skelfacts_no_callback_step.
Print Assumptions C18_skelfacts_no_callback_removes_ended.
Print Assumptions C18_skelfacts_no_callback_exit_path.
Print Assumptions C18_skelfacts_no_callback_never_calls.
