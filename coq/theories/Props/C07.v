(** C07 -- a command reaches exactly the prompt it addresses, exactly once.
    Property theorems only; each is closed by [exact] of a lemma proved in
    Prompt/{Inv,Once,Erase}.v.

    Model: Prompt/Model.v (queue_in, relay thread with try_again_on_error,
    per-trace queues, the Prompt.prompt loop, the run-unique prompt counter).
    History functions: Prompt/Hist.v, Prompt/Spec.v.
    All statements quantify over EVERY label sequence [ls] (every interleaving
    of sender, relay thread, trace start/end and the traces' prompt loops).

    TWO LEVELS.
    * CHILD level (Prompt/Model.v: queue_in, relay thread, per-trace queues,
      the Prompt.prompt loop): theorems about EVERY sequence of child labels,
      whoever puts commands into queue_in.  At this level a command addressed
      to a prompt number that has not been issued yet IS executed when that
      prompt opens (C07_decoys_discarded_refuted, C07_no_disturbance_refuted:
      child level only); the _partial forms and the delivery theorems say what
      holds.
    * SYSTEM level (Prompt/System.v: the child composed with the main process'
      filter -- context.open_prompts maintained from the relayed OnStartPrompt /
      OnEndPrompt events, CommandSender.send_command forwards a command only
      for a prompt in that set; added in /repo by 5be87b5): the C07_system_*
      theorems, about EVERY sequence of system labels.  The only sender is the
      API, every forwarded command is addressed to an issued prompt
      (C07_system_no_future_queued), so the child-level refutation cannot
      occur and the property holds at full strength
      (C07_system_decoys_discarded).  The three code facts the filter model
      rests on are pinned by translate/prompt_filter.py (Gen/PromptFilter.v). *)
From NL Require Import Prompt.Model Prompt.Hist Prompt.Spec Prompt.Inv Prompt.Once Prompt.Erase Prompt.Deliver.
From NL Require Import Prompt.System Prompt.SysProofs.
From NL Require Prompt.FilterTie.       (* tie obligation: the code facts of the filter (translate/prompt_filter.py) *)
Open Scope Z_scope.

(** the command that closes prompt (t, p) is a sent command carrying exactly
    (t, p), sent and queued before, and (t, p) is t's open prompt at that moment *)
Theorem C07_exactly_once_addressed : forall ls pre t p i c post,
  trace ls = pre ++ (Take t, OExec p i c) :: post ->
  nth_error (sends (trace ls)) i = Some c /\ nth_error (sends pre) i = Some c /\
  c_trace c = t /\ c_prompt c = p /\ open_in pre t = Some p /\ In i (relayed pre).
Proof. exact exec_is_addressed. Qed.

(** no sent command instance is executed twice, no prompt is closed twice *)
Theorem C07_exactly_once : forall ls,
  NoDup (exec_ids (trace ls)) /\ NoDup (exec_prompts (trace ls)).
Proof. exact exec_once. Qed.

(** CHILD LEVEL ONLY (excluded at system level by C07_system_no_future_queued):
    full strength (classification when sent) is refuted for an arbitrary sender *)
Definition refuting_run : list label :=
  [StartTrace 1; OpenPrompt 1; Send (mkCmd 1 1 1); Relay; Take 1;
   Send (mkCmd 1 2 999); Relay; OpenPrompt 1; Take 1;
   Send (mkCmd 1 2 1); Relay; OpenPrompt 1; Take 1].

Theorem C07_decoys_discarded_refuted :
  exists ls i, decoy_at_send (trace ls) i /\ In i (exec_ids (trace ls)).
Proof.
  exists refuting_run, 1%nat. split.
  - exists (trace (firstn 5 refuting_run)), (mkCmd 1 2 999). split.
    + eexists. vm_compute. reflexivity.
    + vm_compute. discriminate.
  - vm_compute. auto.
Qed.

(** PARTIAL: hypothesis added = the addressed prompt is not the open one at any
    moment from the instance's arrival in its trace's queue on *)
Theorem C07_decoys_discarded_partial : forall ls i c,
  nth_error (sends (trace ls)) i = Some c ->
  decoy_after_arrival (trace ls) i c ->
  ~ In i (exec_ids (trace ls)).
Proof. exact discarded_if_never_open_after_arrival. Qed.

(** the other three classes of the property text hold as stated *)
Theorem C07_already_answered_discarded : forall ls pre c i post,
  trace ls = pre ++ (Send c, OSent i) :: post ->
  In (c_prompt c) (exec_prompts pre) ->
  ~ In i (exec_ids (trace ls)).
Proof. exact stale_discarded. Qed.

Theorem C07_other_trace_discarded : forall ls i c t',
  nth_error (sends (trace ls)) i = Some c ->
  In (t', c_prompt c) (opens (trace ls)) -> t' <> c_trace c ->
  ~ In i (exec_ids (trace ls)).
Proof. exact other_trace_discarded. Qed.

Theorem C07_nonexistent_discarded : forall ls i c,
  nth_error (sends (trace ls)) i = Some c ->
  ~ In (c_trace c, c_prompt c) (opens (trace ls)) ->
  ~ In i (exec_ids (trace ls)).
Proof. exact nonexistent_discarded. Qed.

(** CHILD LEVEL ONLY: deleting the send-time decoys changes what is executed *)
Theorem C07_no_disturbance_refuted :
  exists ls D, (forall i, D i = true -> decoy_at_send (trace ls) i) /\
               vexecs (trace (erase D (trace ls))) <> vexecs (trace ls).
Proof.
  exists refuting_run, (Nat.eqb 1). split.
  - intros i H. apply Nat.eqb_eq in H. subst i.
    exists (trace (firstn 5 refuting_run)), (mkCmd 1 2 999). split.
    + eexists. vm_compute. reflexivity.
    + vm_compute. discriminate.
  - vm_compute. discriminate.
Qed.

(** PARTIAL: deleting any set of never-executed commands (each with the relay
    step that moved it and the loop iteration that discarded it) leaves every
    remaining label doing exactly what it did -- no discarded command disturbs
    the delivery of the others *)
Theorem C07_no_disturbance_partial : forall ls D,
  (forall i, D i = true -> ~ In i (exec_ids (trace ls))) ->
  map strip_ev (trace (erase D (trace ls))) = map strip_ev (kept D (trace ls)) /\
  vexecs (trace (erase D (trace ls))) = vexecs (trace ls).
Proof. intros ls D H. split; [exact (erase_never_executed ls D H)|exact (erase_same_execs ls D H)]. Qed.

(** DELIVERY.  In any reachable state: prompt (t, n) is open and t's queue is
    front ++ (i, c) :: back where c carries number n and no command of [front]
    does (stale, duplicate of an older prompt, wrong or FUTURE numbers: the
    model -- like the code -- discards a command for a future prompt number that
    sits in front, it is not kept for later).  Then exactly [length front + 1]
    iterations of t's prompt loop discard exactly the commands of [front], in
    order, execute (i, c), and the prompt closes; [back] stays queued;
    [frame]: queue_in, counter and every other trace's queue and prompt are
    unchanged. *)
Theorem C07_genuine_answer_executed : forall ls t n front i c back,
  s_open (final ls) t = Some n ->
  s_map (final ls) t = Some (front ++ (i, c) :: back) ->
  c_prompt c = n ->
  (forall j d, In (j, d) front -> c_prompt d <> n) ->
  let k := S (length front) in
  let ls' := ls ++ repeat (Take t) k in
  exists tail,
    trace ls' = trace ls ++ tail /\
    map fst tail = repeat (Take t) k /\
    map snd tail = map (discard_out n) front ++ [OExec n i c] /\
    s_open (final ls') t = None /\ s_map (final ls') t = Some back /\
    frame t (final ls) (final ls').
Proof. exact genuine_answer_executed. Qed.

(** Whole runs.  Hypothesis [no_future_queued]: no command for a not-yet-issued
    prompt number ever reaches a queue (this excludes exactly the known
    finding).  Then a prompt that is open and whose answer has been relayed
    closes after at most (length of its queue) further iterations of its loop,
    by a command carrying exactly its numbers, the iterations before it only
    discarding other numbers, no other trace touched ... *)
Theorem C07_answered_prompt_closes : forall ls t n i c,
  no_future_queued (trace ls) ->
  s_open (final ls) t = Some n ->
  In i (relayed (trace ls)) -> nth_error (sends (trace ls)) i = Some c ->
  c_trace c = t -> c_prompt c = n ->
  exists q front j cj back tail,
    s_map (final ls) t = Some q /\ q = front ++ (j, cj) :: back /\
    c_trace cj = t /\ c_prompt cj = n /\ (forall j' d, In (j', d) front -> c_prompt d <> n) /\
    let ls' := ls ++ repeat (Take t) (S (length front)) in
    trace ls' = trace ls ++ tail /\
    map snd tail = map (discard_out n) front ++ [OExec n j cj] /\
    s_open (final ls') t = None /\ In n (exec_prompts (trace ls')) /\
    frame t (final ls) (final ls').
Proof. exact answered_prompt_closes. Qed.

(** ... and every command that closes a prompt is a GENUINE answer: it reached
    the queue while that very prompt was already open *)
Theorem C07_executed_arrived_while_open : forall ls pre1 i mid t n c post,
  no_future_queued (trace ls) ->
  trace ls = pre1 ++ (Relay, ORelayed i) :: mid ++ (Take t, OExec n i c) :: post ->
  open_in pre1 t = Some n.
Proof. exact executed_arrived_while_open. Qed.

(** the hypothesis is needed: in the refuting run the command that closes
    prompt 2 was queued when no prompt of trace 1 was open *)
Theorem C07_no_future_queued_is_needed :
  exists ls pre1 i mid t n c post,
    trace ls = pre1 ++ (Relay, ORelayed i) :: mid ++ (Take t, OExec n i c) :: post /\
    open_in pre1 t <> Some n /\ ~ no_future_queued (trace ls).
Proof.
  exists refuting_run, (trace (firstn 6 refuting_run)), 1%nat,
         [(OpenPrompt 1, OOpened 2)], 1, 2, (mkCmd 1 2 999).
  eexists. split; [vm_compute; reflexivity|]. split; [vm_compute; discriminate|].
  intros NF.
  assert (H : c_prompt (mkCmd 1 2 999) < 1 + Z.of_nat (length (opens (trace (firstn 6 refuting_run))))).
  { eapply (NF (trace (firstn 6 refuting_run)) 1%nat); vm_compute; reflexivity. }
  vm_compute in H. discriminate.
Qed.

(** non-vacuity of delivery: the genuine answer to prompt 1 sits behind a
    command for a future number, a stale-looking number and a command with a
    non-existent number; trace 2 has a prompt open and a queued command *)
Definition ex_deliver : list label :=
  [StartTrace 1; StartTrace 2; OpenPrompt 1; OpenPrompt 2;
   Send (mkCmd 1 7 901); Send (mkCmd 1 0 902); Send (mkCmd 1 (-3) 903); Send (mkCmd 1 1 5); Send (mkCmd 1 1 904);
   Send (mkCmd 2 9 905); Relay; Relay; Relay; Relay; Relay; Relay].

Example C07_example_delivery :
  no_future_queued (trace [StartTrace 1; OpenPrompt 1; Send (mkCmd 1 1 5); Relay]) /\
  s_open (final ex_deliver) 1 = Some 1 /\
  s_map (final ex_deliver) 1 =
    Some ([(0%nat, mkCmd 1 7 901); (1%nat, mkCmd 1 0 902); (2%nat, mkCmd 1 (-3) 903)] ++ (3%nat, mkCmd 1 1 5) :: [(4%nat, mkCmd 1 1 904)]) /\
  outs (ex_deliver ++ repeat (Take 1) 4) = outs ex_deliver ++
    [ODiscard 1 0 (mkCmd 1 7 901); ODiscard 1 1 (mkCmd 1 0 902); ODiscard 1 2 (mkCmd 1 (-3) 903); OExec 1 3 (mkCmd 1 1 5)] /\
  s_map (final (ex_deliver ++ repeat (Take 1) 4)) 2 = Some [(5%nat, mkCmd 2 9 905)] /\
  s_open (final (ex_deliver ++ repeat (Take 1) 4)) 2 = Some 2.
Proof.
  split.
  - intros pre i post c E Hn.
    assert (Hl : (length pre <= 3)%nat).
    { assert (Hlen : length (trace [StartTrace 1; OpenPrompt 1; Send (mkCmd 1 1 5); Relay]) = 4%nat) by reflexivity.
      rewrite E, app_length in Hlen. simpl in Hlen. lia. }
    destruct pre as [|e0 [|e1 [|e2 [|e3 pre]]]]; try (vm_compute in E; discriminate); [|simpl in Hl; lia].
    vm_compute in E. inversion E; subst. vm_compute in Hn. inversion Hn; subst. vm_compute. reflexivity.
  - vm_compute. repeat split; reflexivity.
Qed.

(** ================= the composed system (child + main-process filter) *)

(** (a) every command the main process forwards carries a prompt number the
    child has already issued *)
Theorem C07_system_no_future_queued : forall sls, no_future_queued (ctrace sls).
Proof. exact system_no_future_queued. Qed.

(** hence, with NO hypothesis: an open prompt whose answer has been relayed closes ... *)
Theorem C07_system_answered_prompt_closes : forall sls t n i c,
  s_open (final (sproj sls)) t = Some n ->
  In i (relayed (ctrace sls)) -> nth_error (sends (ctrace sls)) i = Some c ->
  c_trace c = t -> c_prompt c = n ->
  exists q front j cj back tail,
    s_map (final (sproj sls)) t = Some q /\ q = front ++ (j, cj) :: back /\
    c_trace cj = t /\ c_prompt cj = n /\ (forall j' d, In (j', d) front -> c_prompt d <> n) /\
    let ls' := sproj sls ++ repeat (Take t) (S (length front)) in
    trace ls' = ctrace sls ++ tail /\
    map snd tail = map (discard_out n) front ++ [OExec n j cj] /\
    s_open (final ls') t = None /\ In n (exec_prompts (trace ls')) /\
    frame t (final (sproj sls)) (final ls').
Proof. intros sls t n i c. exact (answered_prompt_closes (sproj sls) t n i c (system_no_future_queued sls)). Qed.

(** ... and every command that closes a prompt reached the queue while that prompt was open *)
Theorem C07_system_executed_arrived_while_open : forall sls pre1 i mid t n c post,
  ctrace sls = pre1 ++ (Relay, ORelayed i) :: mid ++ (Take t, OExec n i c) :: post ->
  open_in pre1 t = Some n.
Proof. intros sls pre1 i mid t n c post. exact (executed_arrived_while_open (sproj sls) pre1 i mid t n c post (system_no_future_queued sls)). Qed.

(** (b) full strength: an API call made while the addressed prompt is not open
    in the child (already answered, not yet issued, another trace's, unknown
    trace; [l1] = the system labels performed before the call) is dropped by the
    main process or, if forwarded, never executed *)
Theorem C07_system_decoys_discarded : forall sls pre c o post,
  strace sls = pre ++ (SApi c, o) :: post ->
  forall l1, pre = strace l1 ->
  open_in (ctrace l1) (c_trace c) <> Some (c_prompt c) ->
  o = SDropped \/ exists i, o = SForwarded i /\ ~ In i (exec_ids (ctrace sls)).
Proof. exact system_decoys_discarded. Qed.

(** each prompt is closed by exactly one command, addressed to it
    (C07_exactly_once_addressed, C07_exactly_once on [ctrace sls]), and that
    command was sent while the main process saw the prompt open *)
Theorem C07_system_forwarded_seen_open : forall sls pre c i post,
  strace sls = pre ++ (SApi c, SForwarded i) :: post ->
  In (c_trace c, c_prompt c) (seen_open pre).
Proof. exact forwarded_seen_open. Qed.

(** (d) the history of the old finding replayed in the composed system:
    ('next', prompt 1), ('step', prompt 2), then a command for prompt 3 while
    prompt 2 is open -- the third is dropped by the main process; prompt 3 is
    closed by its own answer *)
Definition ex_system : list slabel :=
  [SChild (StartTrace 1); SChild (OpenPrompt 1); SMain; SApi (mkCmd 1 1 1); SChild Relay; SChild (Take 1); SMain;
   SChild (OpenPrompt 1); SMain; SApi (mkCmd 1 2 2); SApi (mkCmd 1 3 999);
   SChild Relay; SChild (Take 1); SChild Relay; SMain; SChild (OpenPrompt 1); SChild (Take 1); SMain;
   SApi (mkCmd 1 3 1); SChild Relay; SChild (Take 1)].

Example C07_example_system :
  map snd (strace ex_system) =
  [SOut OStarted; SOut (OOpened 1); SSaw (MStart 1 1); SForwarded 0; SOut (ORelayed 0); SOut (OExec 1 0 (mkCmd 1 1 1)); SSaw (MEnd 1 1);
   SOut (OOpened 2); SSaw (MStart 1 2); SForwarded 1; SDropped;
   SOut (ORelayed 1); SOut (OExec 2 1 (mkCmd 1 2 2)); SOut OIdle; SSaw (MEnd 1 2); SOut (OOpened 3); SOut OBlocked; SSaw (MStart 1 3);
   SForwarded 2; SOut (ORelayed 2); SOut (OExec 3 2 (mkCmd 1 3 1))] /\
  vexecs (ctrace ex_system) = [(1, 1, mkCmd 1 1 1); (1, 2, mkCmd 1 2 2); (1, 3, mkCmd 1 3 1)].
Proof. vm_compute. split; reflexivity. Qed.

(** the assertion `pdb_command.trace_no == trace_no` in Prompt.prompt never fails *)
Theorem C07_no_assertion_failure : forall ls l i, ~ In (l, OAssert i) (trace ls).
Proof. exact no_assertion_failure. Qed.

(** non-vacuity: two traces with prompts open at the same time, decoys of every
    kind; both genuine answers are executed, every decoy is discarded or dropped *)
Definition ex_run : list label :=
  [StartTrace 1; StartTrace 2; OpenPrompt 1; OpenPrompt 2;
   Send (mkCmd 1 2 901); Send (mkCmd 7 1 902); Send (mkCmd 2 9 903); Send (mkCmd 2 2 5);
   Send (mkCmd 2 2 904); Send (mkCmd 1 1 6); Send (mkCmd 1 1 905);
   Relay; Relay; Relay; Relay; Relay; Relay; Relay;
   Take 1; Take 2; Take 2; Take 1; OpenPrompt 2; Take 2; Take 2; EndTrace 1].

Example C07_example_nonvacuous :
  vexecs (trace ex_run) = [(2, 2, mkCmd 2 2 5); (1, 1, mkCmd 1 1 6)] /\
  exec_ids (trace ex_run) = [3; 5]%nat /\
  decoy_after_arrival (trace ex_run) 0 (mkCmd 1 2 901) /\
  vexecs (trace (erase (fun i => negb (Nat.eqb i 3 || Nat.eqb i 5)) (trace ex_run))) = vexecs (trace ex_run).
Proof.
  split; [vm_compute; reflexivity|]. split; [vm_compute; reflexivity|]. split; [|vm_compute; reflexivity].
  apply arrival_check_sound. vm_compute. reflexivity.
Qed.

Print Assumptions C07_exactly_once_addressed.
Print Assumptions C07_exactly_once.
Print Assumptions C07_decoys_discarded_refuted.
Print Assumptions C07_decoys_discarded_partial.
Print Assumptions C07_already_answered_discarded.
Print Assumptions C07_other_trace_discarded.
Print Assumptions C07_nonexistent_discarded.
Print Assumptions C07_no_disturbance_refuted.
Print Assumptions C07_no_disturbance_partial.
Print Assumptions C07_no_assertion_failure.
Print Assumptions C07_genuine_answer_executed.
Print Assumptions C07_answered_prompt_closes.
Print Assumptions C07_executed_arrived_while_open.
Print Assumptions C07_no_future_queued_is_needed.
Print Assumptions C07_system_no_future_queued.
Print Assumptions C07_system_answered_prompt_closes.
Print Assumptions C07_system_executed_arrived_while_open.
Print Assumptions C07_system_decoys_discarded.
Print Assumptions C07_system_forwarded_seen_open.

(** ================= the tie of the two models to the REGENERATED code
    Gen/PromptFuns.v (translate/prompt_funs.py, fail closed) holds the statement trees of the
    functions of /repo the command path consists of, regenerated at every check; Prompt/Interp.v
    is their small-step semantics; Prompt/Tie.v (child) and Prompt/TieSys.v (system, main
    process) drive it by the labels of Prompt/Model.v / System.v.  Everything below is about
    [itrace] / [ihist] / [ifinal] (child) and [istrace] / [ishist] / [isfinal] (system): what
    the interpreter of the regenerated code does. *)
From NL Require Import Prompt.Interp Prompt.Tie Prompt.TieSys Prompt.TieFactory.

(** THE TIE, child level: for EVERY label sequence the regenerated code and Prompt/Model.v
    produce the same output at every label and end in related states (simulation, by induction
    over the label list) *)
Theorem C07_tie_simulation : forall ls, itrace ls = map some_out (trace ls) /\ R (ifinal ls) (final ls).
Proof. exact sim. Qed.

Theorem C07_tie_same_history : forall ls,
  ihist ls = trace ls /\ map fst (itrace ls) = ls /\ forall e, In e (itrace ls) -> snd e <> None.
Proof. exact tie_same_history. Qed.

(** same executed-command log, same queues (queue_in and every trace's), same counter and open prompts *)
Theorem C07_tie_same_executed : forall ls, execs (ihist ls) = execs (trace ls).
Proof. exact tie_same_executed. Qed.

Theorem C07_tie_same_queues : forall ls,
  h_in (i_sh (ifinal ls)) = s_in (final ls) /\ forall t, iqueue (ifinal ls) t = s_map (final ls) t.
Proof. exact tie_same_queues. Qed.

Theorem C07_tie_same_prompts : forall ls t,
  h_ctr (i_sh (ifinal ls)) = s_ctr (final ls) /\
  match i_threads (ifinal ls) t with Some (_, p) => s_open (final ls) t = Some p | None => s_open (final ls) t = None end.
Proof. exact tie_same_prompts. Qed.

(** hence the child-level theorems above hold of the regenerated code *)
Theorem C07_tie_exactly_once : forall ls, NoDup (exec_ids (ihist ls)) /\ NoDup (exec_prompts (ihist ls)).
Proof. exact tie_exactly_once. Qed.

Theorem C07_tie_exactly_once_addressed : forall ls pre t p i c post,
  ihist ls = pre ++ (Take t, OExec p i c) :: post ->
  nth_error (sends (ihist ls)) i = Some c /\ nth_error (sends pre) i = Some c /\
  c_trace c = t /\ c_prompt c = p /\ open_in pre t = Some p /\ In i (relayed pre).
Proof. exact tie_exactly_once_addressed. Qed.

Theorem C07_tie_no_assertion_failure : forall ls l i, ~ In (l, OAssert i) (ihist ls).
Proof. exact tie_no_assertion_failure. Qed.

Theorem C07_tie_decoys_discarded_partial : forall ls i c,
  nth_error (sends (ihist ls)) i = Some c -> decoy_after_arrival (ihist ls) i c -> ~ In i (exec_ids (ihist ls)).
Proof. exact tie_decoys_discarded_partial. Qed.

Theorem C07_tie_already_answered_discarded : forall ls pre c i post,
  ihist ls = pre ++ (Send c, OSent i) :: post -> In (c_prompt c) (exec_prompts pre) -> ~ In i (exec_ids (ihist ls)).
Proof. exact tie_already_answered_discarded. Qed.

Theorem C07_tie_other_trace_discarded : forall ls i c t',
  nth_error (sends (ihist ls)) i = Some c -> In (t', c_prompt c) (opens (ihist ls)) -> t' <> c_trace c ->
  ~ In i (exec_ids (ihist ls)).
Proof. exact tie_other_trace_discarded. Qed.

Theorem C07_tie_nonexistent_discarded : forall ls i c,
  nth_error (sends (ihist ls)) i = Some c -> ~ In (c_trace c, c_prompt c) (opens (ihist ls)) -> ~ In i (exec_ids (ihist ls)).
Proof. exact tie_nonexistent_discarded. Qed.

(** direct corollaries on the regenerated code.
    (1) relay_commands.fn puts a command only on the queue object the map holds under the
    command's OWN trace number (and under no other); for a number the map does not hold nothing
    is put (KeyError; try_again_on_error calls fn again: the thread is back at its get, the map
    is still a plain dict) *)
Theorem C07_tie_put_on_own_queue : forall ls,
  let s := ifinal ls in
  match resume FUEL (i_sh s) (i_relay s) with
  | RBlocked => h_in (i_sh s) = []
  | RAtGet sh' th' evs =>
      t_k th' = K_relay /\ h_kind sh' = DPlain /\
      exists i c r, h_in (i_sh s) = (i, c) :: r /\
        match h_dict (i_sh s) (c_trace c) with
        | Some id => evs = [IGot i c; IPut id i c] /\ (forall t, h_dict (i_sh s) t = Some id -> t = c_trace c)
        | None => evs = [IGot i c]
        end
  | _ => False
  end.
Proof. exact tie_put_on_own_queue. Qed.

(** the map holds a queue exactly for the live trace numbers (created by on_start_trace, deleted by
    on_end_trace; nothing else creates one), distinct objects for distinct numbers *)
Theorem C07_tie_queue_iff_live : forall ls t,
  (i_live (ifinal ls) t = true <-> iqueue (ifinal ls) t <> None) /\
  forall t' id, h_dict (i_sh (ifinal ls)) t = Some id -> h_dict (i_sh (ifinal ls)) t' = Some id -> t = t'.
Proof. exact tie_queue_iff_live. Qed.

(** (2) a command taken while prompt p is open is executed iff its prompt number EQUALS p
    (by value), else discarded with the prompt still open *)
Theorem C07_tie_executed_iff_equal : forall ls t th p i c r,
  i_threads (ifinal ls) t = Some (th, p) -> iqueue (ifinal ls) t = Some ((i, c) :: r) ->
  snd (istep (ifinal ls) (Take t)) = Some (if Z.eqb (c_prompt c) p then OExec p i c else ODiscard p i c) /\
  (snd (istep (ifinal ls) (Take t)) = Some (OExec p i c) <-> c_prompt c = p).
Proof. exact tie_executed_iff_equal. Qed.

Theorem C07_tie_prompt_numbers_unique : forall ls, NoDup (map snd (opens (ihist ls))).
Proof. exact tie_prompt_numbers_unique. Qed.

(** THE TIE, system level: send_pdb_command -> Imp.send_command -> CommandSender.send_command
    [-> SendCommand._send_command], the cases of on_event_in_process, and the child, against
    Prompt/System.v, for EVERY sequence of system labels *)
Theorem C07_tie_system_simulation : forall sls, istrace sls = map ssome (strace sls) /\ RS (isfinal sls) (sfinal sls).
Proof. exact ssim. Qed.

Theorem C07_tie_system_same_history : forall sls, ishist sls = strace sls /\ forall e, In e (istrace sls) -> snd e <> None.
Proof. exact tie_system_same_history. Qed.

Theorem C07_tie_system_same_state : forall sls,
  si_evq (isfinal sls) = evq (sfinal sls) /\ h_open (i_sh (si_ch (isfinal sls))) = mopen (sfinal sls) /\
  h_in (i_sh (si_ch (isfinal sls))) = s_in (ch (sfinal sls)) /\
  forall t, iqueue (si_ch (isfinal sls)) t = s_map (ch (sfinal sls)) t.
Proof. exact tie_system_same_state. Qed.

Theorem C07_tie_system_decoys_discarded : forall sls pre c o post,
  ishist sls = pre ++ (SApi c, o) :: post ->
  forall l1, pre = ishist l1 ->
  open_in (ctrace l1) (c_trace c) <> Some (c_prompt c) ->
  o = SDropped \/ exists i, o = SForwarded i /\ ~ In i (exec_ids (ctrace sls)).
Proof. exact tie_system_decoys_discarded. Qed.

Theorem C07_tie_system_forwarded_seen_open : forall sls pre c i post,
  ishist sls = pre ++ (SApi c, SForwarded i) :: post -> In (c_trace c, c_prompt c) (seen_open pre).
Proof. exact tie_system_forwarded_seen_open. Qed.

(** (3) the main process over SEVERAL runs of one Nextline object (labels: an event is handled,
    RunSession.run is entered, an API call): context.open_prompts is, after every history, the set
    computed from the history by "emptied at a run start, +pair at OnStartPrompt, -pair at
    OnEndPrompt"; send_pdb_command forwards iff the pair is a member; and membership means:
    started and not ended IN THE CURRENT RUN *)
Theorem C07_tie_main_open_prompts : forall mls,
  h_open (mmfinal mls) = spec_open mls /\ MInv (mmfinal mls) (existsb is_run_start mls).
Proof. exact main_open_prompts. Qed.

(** hypothesis "a run has started" added in the hardening round: `assert context.send_command` is
    now translated as the raising branch it is (next theorem) *)
Theorem C07_tie_main_forwards_iff_member : forall mls c, existsb is_run_start mls = true ->
  let sh := mmfinal mls in
  if mem (c_trace c, c_prompt c) (spec_open mls)
  then snd (mmstep sh (MApi c)) = Some (MForwarded (h_nsent sh)) /\ h_in (fst (mmstep sh (MApi c))) = h_in sh ++ [(h_nsent sh, c)]
  else snd (mmstep sh (MApi c)) = Some MDropped /\ fst (mmstep sh (MApi c)) = sh.
Proof. exact main_forwards_iff_member. Qed.

Theorem C07_tie_main_before_first_run_raises : forall mls c, existsb is_run_start mls = false ->
  snd (mmstep (mmfinal mls) (MApi c)) = Some MRaised /\ fst (mmstep (mmfinal mls) (MApi c)) = mmfinal mls.
Proof. exact main_before_first_run_raises. Qed.

(** MODEL-DEFINITIONAL (about [spec_open], the history function of Prompt/TieSys.v; no generated
    term occurs in it): what membership in the set means *)
Theorem C07_tie_main_set_exact : forall mls t p, In (t, p) (spec_open mls) <-> started_not_ended mls t p.
Proof. exact spec_open_exact. Qed.

Theorem C07_tie_main_forwards_iff_open_in_current_run : forall mls c, existsb is_run_start mls = true ->
  (snd (mmstep (mmfinal mls) (MApi c)) = Some (MForwarded (h_nsent (mmfinal mls))) <-> started_not_ended mls (c_trace c) (c_prompt c)).
Proof. exact main_forwards_iff_open_in_current_run. Qed.

Theorem C07_tie_main_stale_pair_dropped : forall ls1 ls2 c,
  ~ In (MEv (MStart (c_trace c) (c_prompt c))) ls2 ->
  snd (mmstep (mmfinal (ls1 ++ MRunStart :: ls2)) (MApi c)) = Some MDropped.
Proof. exact main_stale_pair_dropped. Qed.

(** PINS (computed booleans / numerals of the generated file, by reflexivity): RunSession.run empties
    the set before it spawns the child; the queue the main process puts commands on is the one handed
    to the child as its queue_in.  The EFFECT of the run-start statements is interpreted, not pinned:
    [run_start_exec] inside C07_tie_main_open_prompts. *)
Theorem C07_tie_cleared_before_spawn :
  existsb (fun s => match s with SSetClear (EAttr AOpenPrompts) => true | _ => false end) (before_spawn run_tracked) = true /\
  existsb (fun s => match s with SSpawn => true | _ => false end) run_tracked = true.
Proof. exact cleared_before_spawn. Qed.

Theorem C07_tie_queue_in_wiring : session_in_pos = set_queues_in_pos.
Proof. exact queue_in_wiring. Qed.

(** START-UP AND SHUT-DOWN of the relay thread, on the regenerated relay_commands (a generator
    context manager, interpreted with a real try/finally and the None sentinel -- not flattened).
    Entering Prompt.context() submits exactly try_again_on_error(fn) and stops at the yield; the
    relay thread of the simulation IS that call. *)
Theorem C07_tie_boot_submits :
  exists sh cx, resume FUEL init_shared ctx0 = RAtGet sh cx [ISubmit FnTryAgain [VFun FnFn]] /\ t_k cx = K_ctx /\
                sh = init_shared /\ at_get (t_k cx) = true.
Proof. exact boot_submits. Qed.

(** the finally body of relay_commands (queue_in.put(None); future.result()) is reached from the only
    suspension point of its protected body (the yield): when the context is left normally ... *)
Theorem C07_tie_ctx_exit_normal : forall sh tno en th,
  h_sentinel sh = false -> after_yield (mkT tno en K_ctx) None = Some th ->
  resume FUEL sh th = RAtGet (hset_sentinel sh true) (mkT tno en K_ctx_wait) [ISentinel].
Proof. exact ctx_exit_normal. Qed.

(** ... and when the body raised x (thrown into the generator at its yield): same finally, x goes on behind it *)
Theorem C07_tie_ctx_exit_raising : forall sh tno en th x,
  h_sentinel sh = false -> after_yield (mkT tno en K_ctx) (Some x) = Some th ->
  resume FUEL sh th = RAtGet (hset_sentinel sh true) (mkT tno en (K_ctx_wait_raising x)) [ISentinel].
Proof. exact ctx_exit_raising. Qed.

Theorem C07_tie_ctx_ends : forall sh tno en, h_relay_done sh = true ->
  (exists th' v, resume FUEL sh (mkT tno en K_ctx_wait) = RAtGet sh th' [] /\ resume FUEL sh th' = RDone sh v []) /\
  forall x, exists th', resume FUEL sh (mkT tno en (K_ctx_wait_raising x)) = RAtGet sh th' [] /\ resume FUEL sh th' = RDied sh x [].
Proof. exact ctx_ends. Qed.

(** from ANY reachable state, with the sentinel behind the commands of queue_in, the relay thread
    relays those commands exactly as the model's Relay does, then takes the sentinel and ends *)
Theorem C07_tie_relay_drains_and_ends : forall n s m, R s m -> n = List.length (s_in m) ->
  let s' := relay_n n (with_sentinel s true) in
  R (with_sentinel s' false) (exec_from m (repeat Relay n)) /\
  h_in (i_sh s') = [] /\ h_sentinel (i_sh s') = true /\
  resume FUEL (i_sh s') (i_relay s') = RDone (hset_sentinel (i_sh s') false) VNone [].
Proof. exact relay_drains_and_ends. Qed.

(** ONE prompt counter per run: PdbInstanceFactory.init creates one PromptFunc; every
    create_local_trace_func() afterwards hands out a trace function whose stdin leads to it *)
Theorem C07_tie_one_prompt_func_per_run : forall hook st0,
  exists pf self st1,
    wrun WFUEL pif_init_body [("hook"%string, hook)] [] st0 = Some (None, self, st1) /\
    (forall st, exists v st', wrun WFUEL pif_create_body [] self st = Some (Some v, self, st') /\ prompt_func_of v = Some pf) /\
    is_prompt_func pf = true.
Proof. exact one_prompt_func_per_run. Qed.

Theorem C07_tie_factory_closure : assigned_after_def false factory_body = false.
Proof. exact factory_closure_reads_earlier_locals. Qed.

(** non-vacuity: the interpreter runs the regenerated code through the examples above *)
Example C07_tie_example_nonvacuous :
  execs (ihist tie_ex_run) = [(2, 2, 3%nat, mkCmd 2 2 5); (1, 1, 5%nat, mkCmd 1 1 6)] /\
  map snd (itrace [StartTrace 1; OpenPrompt 1; Send (mkCmd 2 1 7); Send (mkCmd 1 1 8); Relay; Relay; Take 1]) =
    [Some OStarted; Some (OOpened 1); Some (OSent 0); Some (OSent 1); Some (ODropped 0); Some (ORelayed 1);
     Some (OExec 1 1 (mkCmd 1 1 8))].
Proof. exact tie_example. Qed.

Example C07_tie_example_system : map snd (istrace ex_system) = map Some (map snd (strace ex_system)).
Proof. vm_compute. reflexivity. Qed.

Example C07_tie_example_main :
  map (fun ls => snd (mmstep (mmfinal ls) (MApi (mkCmd 1 4 7))))
    [[MRunStart; MEv (MStart 1 4)];
     [MRunStart; MEv (MStart 1 4); MRunStart];
     [MRunStart; MEv (MStart 1 4); MRunStart; MEv (MStart 1 3)];
     [MRunStart; MEv (MStart 1 4); MRunStart; MEv (MStart 1 3); MEv (MEnd 1 3); MEv (MStart 1 4)];
     [MRunStart; MEv (MStart 1 4); MEv (MEnd 1 4)]]
  = [Some (MForwarded 0); Some MDropped; Some MDropped; Some (MForwarded 0); Some MDropped].
Proof. exact main_example. Qed.

Print Assumptions C07_tie_simulation.
Print Assumptions C07_tie_same_history.
Print Assumptions C07_tie_same_executed.
Print Assumptions C07_tie_same_queues.
Print Assumptions C07_tie_same_prompts.
Print Assumptions C07_tie_exactly_once.
Print Assumptions C07_tie_exactly_once_addressed.
Print Assumptions C07_tie_no_assertion_failure.
Print Assumptions C07_tie_decoys_discarded_partial.
Print Assumptions C07_tie_already_answered_discarded.
Print Assumptions C07_tie_other_trace_discarded.
Print Assumptions C07_tie_nonexistent_discarded.
Print Assumptions C07_tie_put_on_own_queue.
Print Assumptions C07_tie_queue_iff_live.
Print Assumptions C07_tie_executed_iff_equal.
Print Assumptions C07_tie_prompt_numbers_unique.
Print Assumptions C07_tie_system_simulation.
Print Assumptions C07_tie_system_same_history.
Print Assumptions C07_tie_system_same_state.
Print Assumptions C07_tie_system_decoys_discarded.
Print Assumptions C07_tie_system_forwarded_seen_open.
Print Assumptions C07_tie_main_open_prompts.
Print Assumptions C07_tie_main_forwards_iff_member.
Print Assumptions C07_tie_main_set_exact.
Print Assumptions C07_tie_main_forwards_iff_open_in_current_run.
Print Assumptions C07_tie_main_stale_pair_dropped.
Print Assumptions C07_tie_cleared_before_spawn.
Print Assumptions C07_tie_queue_in_wiring.
Print Assumptions C07_tie_main_before_first_run_raises.
Print Assumptions C07_tie_boot_submits.
Print Assumptions C07_tie_ctx_exit_normal.
Print Assumptions C07_tie_ctx_exit_raising.
Print Assumptions C07_tie_ctx_ends.
Print Assumptions C07_tie_relay_drains_and_ends.
Print Assumptions C07_tie_one_prompt_func_per_run.
Print Assumptions C07_tie_factory_closure.
