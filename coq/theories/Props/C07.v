(** C07 -- a command reaches exactly the prompt it addresses, exactly once.
    Property theorems only; each is closed by [exact] of a lemma proved in
    Prompt/{Inv,Once,Erase}.v.

    Model: Prompt/Model.v (queue_in, relay thread with try_again_on_error,
    per-trace queues, the Prompt.prompt loop, the run-unique prompt counter).
    History functions: Prompt/Hist.v, Prompt/Spec.v.
    All statements quantify over EVERY label sequence [ls] (every interleaving
    of sender, relay thread, trace start/end and the traces' prompt loops).

    FINDING.  The second sentence of the property ("commands addressed to ... a
    future ... prompt are discarded without being executed") is FALSE for the
    code as it is: a command addressed to a prompt its trace has not opened yet
    stays in the trace's queue and is executed when that prompt opens
    (C07_decoys_discarded_refuted, C07_no_disturbance_refuted; reproduced on
    the real code by harness/props/c07.py, signature future-command-executed).
    The _partial theorems classify a command from its arrival in the queue
    on instead of at the moment it is sent; the three other classes of the
    property text (already answered, another trace's, non-existent) hold at
    full strength. *)
From NL Require Import Prompt.Model Prompt.Hist Prompt.Spec Prompt.Inv Prompt.Once Prompt.Erase.
Open Scope Z_scope.

(** the command that closes prompt (t, p) is a sent command carrying exactly
    (t, p), sent and queued before, and (t, p) is t's open prompt at that moment *)
Theorem C07_exactly_once_addressed : forall ls pre t p i c post,
  trace ls = pre ++ (Take t, OExec p i c) :: post ->
  nth_error (sends (trace ls)) i = Some c /\ nth_error (sends pre) i = Some c /\
  c_trace c = t /\ c_prompt c = p /\ open_in pre t = Some p /\ In i (relayed pre).
Proof. exact exec_is_addressed. Qed.

(** no sent command instance is executed twice, no prompt is closed twice *)
Theorem C07_exactly_once : forall ls,
  NoDup (exec_ids (trace ls)) /\ NoDup (exec_prompts (trace ls)).
Proof. exact exec_once. Qed.

(** full strength (classification when sent, as in the property text): REFUTED *)
Definition refuting_run : list label :=
  [StartTrace 1; OpenPrompt 1; Send (mkCmd 1 1 1); Relay; Take 1;
   Send (mkCmd 1 2 999); Relay; OpenPrompt 1; Take 1;
   Send (mkCmd 1 2 1); Relay; OpenPrompt 1; Take 1].

Theorem C07_decoys_discarded_refuted :
  exists ls i, decoy_at_send (trace ls) i /\ In i (exec_ids (trace ls)).
Proof.
  exists refuting_run, 1%nat. split.
  - exists (trace (firstn 5 refuting_run)), (mkCmd 1 2 999). split.
    + eexists. vm_compute. reflexivity.
    + vm_compute. discriminate.
  - vm_compute. auto.
Qed.

(** PARTIAL: hypothesis added = the addressed prompt is not the open one at any
    moment from the instance's arrival in its trace's queue on *)
Theorem C07_decoys_discarded_partial : forall ls i c,
  nth_error (sends (trace ls)) i = Some c ->
  decoy_after_arrival (trace ls) i c ->
  ~ In i (exec_ids (trace ls)).
Proof. exact discarded_if_never_open_after_arrival. Qed.

(** the other three classes of the property text hold as stated *)
Theorem C07_already_answered_discarded : forall ls pre c i post,
  trace ls = pre ++ (Send c, OSent i) :: post ->
  In (c_prompt c) (exec_prompts pre) ->
  ~ In i (exec_ids (trace ls)).
Proof. exact stale_discarded. Qed.

Theorem C07_other_trace_discarded : forall ls i c t',
  nth_error (sends (trace ls)) i = Some c ->
  In (t', c_prompt c) (opens (trace ls)) -> t' <> c_trace c ->
  ~ In i (exec_ids (trace ls)).
Proof. exact other_trace_discarded. Qed.

Theorem C07_nonexistent_discarded : forall ls i c,
  nth_error (sends (trace ls)) i = Some c ->
  ~ In (c_trace c, c_prompt c) (opens (trace ls)) ->
  ~ In i (exec_ids (trace ls)).
Proof. exact nonexistent_discarded. Qed.

(** deleting the send-time decoys changes what is executed: REFUTED *)
Theorem C07_no_disturbance_refuted :
  exists ls D, (forall i, D i = true -> decoy_at_send (trace ls) i) /\
               vexecs (trace (erase D (trace ls))) <> vexecs (trace ls).
Proof.
  exists refuting_run, (Nat.eqb 1). split.
  - intros i H. apply Nat.eqb_eq in H. subst i.
    exists (trace (firstn 5 refuting_run)), (mkCmd 1 2 999). split.
    + eexists. vm_compute. reflexivity.
    + vm_compute. discriminate.
  - vm_compute. discriminate.
Qed.

(** PARTIAL: deleting any set of never-executed commands (each with the relay
    step that moved it and the loop iteration that discarded it) leaves every
    remaining label doing exactly what it did -- no discarded command disturbs
    the delivery of the others *)
Theorem C07_no_disturbance_partial : forall ls D,
  (forall i, D i = true -> ~ In i (exec_ids (trace ls))) ->
  map strip_ev (trace (erase D (trace ls))) = map strip_ev (kept D (trace ls)) /\
  vexecs (trace (erase D (trace ls))) = vexecs (trace ls).
Proof. intros ls D H. split; [exact (erase_never_executed ls D H)|exact (erase_same_execs ls D H)]. Qed.

(** the assertion `pdb_command.trace_no == trace_no` in Prompt.prompt never fails *)
Theorem C07_no_assertion_failure : forall ls l i, ~ In (l, OAssert i) (trace ls).
Proof. exact no_assertion_failure. Qed.

(** non-vacuity: two traces with prompts open at the same time, decoys of every
    kind; both genuine answers are executed, every decoy is discarded or dropped *)
Definition ex_run : list label :=
  [StartTrace 1; StartTrace 2; OpenPrompt 1; OpenPrompt 2;
   Send (mkCmd 1 2 901); Send (mkCmd 7 1 902); Send (mkCmd 2 9 903); Send (mkCmd 2 2 5);
   Send (mkCmd 2 2 904); Send (mkCmd 1 1 6); Send (mkCmd 1 1 905);
   Relay; Relay; Relay; Relay; Relay; Relay; Relay;
   Take 1; Take 2; Take 2; Take 1; OpenPrompt 2; Take 2; Take 2; EndTrace 1].

Example C07_example_nonvacuous :
  vexecs (trace ex_run) = [(2, 2, mkCmd 2 2 5); (1, 1, mkCmd 1 1 6)] /\
  exec_ids (trace ex_run) = [3; 5]%nat /\
  decoy_after_arrival (trace ex_run) 0 (mkCmd 1 2 901) /\
  vexecs (trace (erase (fun i => negb (Nat.eqb i 3 || Nat.eqb i 5)) (trace ex_run))) = vexecs (trace ex_run).
Proof.
  split; [vm_compute; reflexivity|]. split; [vm_compute; reflexivity|]. split; [|vm_compute; reflexivity].
  apply arrival_check_sound. vm_compute. reflexivity.
Qed.

Print Assumptions C07_exactly_once_addressed.
Print Assumptions C07_exactly_once.
Print Assumptions C07_decoys_discarded_refuted.
Print Assumptions C07_decoys_discarded_partial.
Print Assumptions C07_already_answered_discarded.
Print Assumptions C07_other_trace_discarded.
Print Assumptions C07_nonexistent_discarded.
Print Assumptions C07_no_disturbance_refuted.
Print Assumptions C07_no_disturbance_partial.
Print Assumptions C07_no_assertion_failure.
