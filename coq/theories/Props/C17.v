(** C17 -- waiting on a child process always yields its outcome and reaps it.
    Property theorems only; each is closed by [exact] of a lemma of Proc/Proofs.v.

    Model: Proc/Model.v interprets the control skeleton of
    nextline/utils/run.py (run_in_process._run, RunningProcess.__await__,
    interrupt/terminate/kill/send_signal) and of the exit path of
    multiprocessing_logging.py; Gen/RunSkeleton.v is regenerated from the source
    at every check and [C17_skeleton_tie] states that the interpreted programs
    are the extracted ones.

    PARTIAL: the executor and the OS are an oracle.  [w : world] = (log
    collection on/off, the answer of `await future`: the worker's value, the
    worker's exception, or BrokenProcessPool; and one fact about the worker's
    log traffic, see Proc/Model.v).  All statements quantify over
    EVERY world; [consistent sc a] says which answers a worker behaviour
    [sc = (behaviour, optional (signal, instant))] allows -- that relation and
    "shutdown(wait=True) joins the process" are validated by the real matrix
    of harness/props/c17.py (spawn context), not proved. *)
From NL Require Import Proc.Model Proc.Proofs.
Open Scope Z_scope.

(** the programs the model interprets are the ones extracted from /repo *)
Theorem C17_skeleton_tie :
  run_prog = run_skeleton /\ outer_prog = outer_skeleton /\ init_prog = init_skeleton /\
  await_prog = await_skeleton /\ interrupt_prog = interrupt_skeleton /\
  send_signal_prog = send_signal_skeleton /\ terminate_prog = terminate_skeleton /\
  kill_prog = kill_skeleton /\ logging_prog = logging_skeleton /\ exited_prog = exited_fields /\
  call_prog = call_skeleton.
Proof. exact tie_all. Qed.

(** starting returns a handle (event.set() happens, with `process` assigned, before
    `_run` first waits for the future) *)
Theorem C17_handle_returned : forall w, exists c, start w = SHandle c.
Proof. exact handle_returned. Qed.

(** awaiting the handle never raises, whatever the future answers (full strength) *)
Theorem C17_never_raises : forall w e, await_handle w <> Raises e.
Proof. exact never_raises. Qed.

(** "ALWAYS yields its outcome" is REFUTED by the faithful model (and by the real code: known
    finding `hang:log-listener-never-ends`): with log collection on, a worker that dies
    (os._exit / SIGTERM / SIGKILL) while its feeder thread writes a log record leaves the
    queue's write lock taken: the listener's sentinel is never written and `await task` never
    completes.
    (The other refutation of the first build, a worker ending normally with a backlog of log
    records, is gone with the repair 5c07918: the executor shutdown no longer blocks the loop.) *)
Theorem C17_yields_refuted_killed_while_logging :
  exists w, ans w = ARaise EBrokenPool /\ await_handle w = Hangs HListener.
Proof. exact yields_refuted_killed_while_logging. Qed.

(** exactly that situation: the added hypothesis of the partial theorems below is
    [stuck w = None], i.e. no log collection, or the worker did not die inside a log write *)
Theorem C17_hang_iff : forall w h, await_handle w = Hangs h <-> stuck w = Some h.
Proof. exact hang_iff. Qed.

Theorem C17_yields_partial : forall w, stuck w = None -> exists x, await_handle w = Yields x.
Proof. exact yields_partial. Qed.

Theorem C17_yields_without_logging : forall w,
  collect_logging w = false -> exists x, await_handle w = Yields x.
Proof. exact yields_without_logging. Qed.

(** however much the worker logged and whatever it raised: if it was not killed inside a log
    write the handle yields *)
Theorem C17_yields_when_not_killed_logging : forall w,
  died_in_log_write w = false -> exists x, await_handle w = Yields x.
Proof. exact yields_when_not_killed_logging. Qed.

(** the exception the function raised is yielded EXACTLY, whatever its class: it travels as data
    in the result of the wrapper `_call`, not through Future.set_exception (which refuses
    StopIteration and converts concurrent.futures.CancelledError) -- repaired findings
    hang:future-never-completes, wrong-exception-class:cf_cancelled, exception-lost:unloadable_exc *)
Theorem C17_exception_yielded_exactly : forall w e,
  ans w = AData e -> stuck w = None ->
  exists c t, await_handle w = Yields (mkExited None (Some e) c t).
Proof. exact exception_yielded_exactly. Qed.

(** value xor exception xor neither, matching the behaviour:
    return -> that value; raise -> that exception (any class); a return value or an exception
    that cannot be pickled or rebuilt -> the pickling error as `raised`; SystemExit ->
    `raised` = that SystemExit; hard exit, SIGTERM, SIGKILL, SIGINT before the function
    runs -> neither; SIGINT while the function runs -> `raised` = KeyboardInterrupt;
    a signal racing completion -> one of: the natural outcome, the signal's outcome, neither *)
Theorem C17_outcome_shape : forall w sc x,
  consistent sc (ans w) -> await_handle w = Yields x ->
  In (returned x, raised x)
     match sc with
     | (Ret v, None) => [(Some v, None)]
     | (Exn e, None) => [(None, Some (EWorker e))]
     | (Unpicklable, None) => [(None, Some EPickle)]
     | (SysExit n, None) => [(None, Some (ESysExit n))]
     | (HardExit _, None) => [(None, None)]
     | (_, Some (SInt, Running)) => [(None, Some EKeyboardInt)]
     | (_, Some (_, Boot)) => [(None, None)]
     | (_, Some (_, Running)) => [(None, None)]
     | (b, Some (s, Racing)) =>
         [ match b with
           | Ret v => (Some v, None) | Exn e => (None, Some (EWorker e)) | Unpicklable => (None, Some EPickle)
           | SysExit n => (None, Some (ESysExit n)) | HardExit _ => (None, None) end;
           match s with SInt => (None, Some EKeyboardInt) | _ => (None, None) end;
           (None, None) ]
     end.
Proof. exact outcome_shape. Qed.

(** never both a value and an exception *)
Theorem C17_value_xor_exception : forall w x,
  await_handle w = Yields x -> returned x = None \/ raised x = None.
Proof. exact value_xor_exception. Qed.

(** cleanup.  Unconditionally the effects are a prefix of the full sequence (nothing out of
    order, nothing twice) ... *)
Theorem C17_cleanup_prefix : forall w,
  exists rest,
    (if collect_logging w then [VListenerStarted; VInitializerWrapped] else [])
    ++ [VExecutorCreated; VSubmitted; VProcessKnown; VEventSet; VFutureAwaited; VExecutorShutdown]
    ++ (if collect_logging w then [VListenerSentinel; VListenerAwaited] else [])
    = run_trace w ++ rest.
Proof. exact cleanup_prefix. Qed.

(** ... the worker process is joined (exit code set) in EVERY world ... *)
Theorem C17_process_always_joined : forall w, joined (run_trace w) = true.
Proof. exact process_always_joined. Qed.

(** ... and, outside the stuck situation, on every path: the executor is shut down (wait=True, in
    a helper thread that is awaited: the process is joined, exit code set) after the future was awaited, then --
    with log collection -- the listener is sent its sentinel and awaited; nothing is left open *)
Theorem C17_cleanup_partial : forall w, stuck w = None ->
  run_trace w =
    (if collect_logging w then [VListenerStarted; VInitializerWrapped] else [])
    ++ [VExecutorCreated; VSubmitted; VProcessKnown; VEventSet; VFutureAwaited; VExecutorShutdown]
    ++ (if collect_logging w then [VListenerSentinel; VListenerAwaited] else []) /\
  helpers_left (run_trace w) = 0%nat /\
  joined (run_trace w) = true.
Proof. exact cleanup_partial. Qed.

(** in the stuck situation the process is joined but the listener task is left pending *)
Theorem C17_cleanup_refuted :
  exists w, joined (run_trace w) = true /\ helpers_left (run_trace w) = 1%nat.
Proof. exact cleanup_refuted. Qed.

(** any number of awaiters, at any time: every further await of the handle (started before
    completion, in the loop iteration in which the helper task finished, after the process exited,
    much later) never raises and yields the same returned / raised / creation time, with an exit
    time that is not earlier ([late] = how much later it completes).  Holds because __await__
    takes the exit time itself after the task result is there (part of the skeleton tie). *)
Theorem C17_await_idempotent : forall w late x,
  await_handle w = Yields x ->
  await_late w late = Yields (mkExited (returned x) (raised x) (created_at x) (exited_at x + late)).
Proof. exact await_idempotent. Qed.

Theorem C17_late_await_never_raises : forall w late e, await_late w late <> Raises e.
Proof. exact late_await_never_raises. Qed.

(** creation and exit times are present and ordered *)
Theorem C17_times_ordered : forall w x, await_handle w = Yields x -> (created_at x < exited_at x)%nat.
Proof. exact times_ordered. Qed.

(** interrupt / terminate / kill / send_signal never raise while the process has not
    been reaped (booting, running, or exited-but-not-yet-waited-for) *)
Theorem C17_signals_before_exit : forall m p, p <> PReaped -> call m p = MDelivered (sig_of m).
Proof. exact signals_before_exit. Qed.

(** non-vacuity: a worker that returns 7 while SIGTERM races it, with log collection:
    the allowed answers give different, allowed outcomes; the trace is the full one *)
Example C17_example_nonvacuous :
  let sc := (Ret 7, Some (STerm, Racing)) in
  consistent sc (AValue 7) /\ consistent sc (ARaise EBrokenPool) /\
  stuck (mkWorld true (AValue 7) false) = None /\
  await_handle (mkWorld true (AValue 7) false) = Yields (mkExited (Some 7) None 6 10) /\
  await_handle (mkWorld true (ARaise EBrokenPool) false) = Yields (mkExited None None 6 10) /\
  await_handle (mkWorld false (AData (EWorker 3)) true) = Yields (mkExited None (Some (EWorker 3)) 4 6) /\
  run_trace (mkWorld true (AData EKeyboardInt) false) =
    [VListenerStarted; VInitializerWrapped; VExecutorCreated; VSubmitted; VProcessKnown; VEventSet;
     VFutureAwaited; VExecutorShutdown; VListenerSentinel; VListenerAwaited] /\
  run_trace (mkWorld true (ARaise EBrokenPool) true) =
    [VListenerStarted; VInitializerWrapped; VExecutorCreated; VSubmitted; VProcessKnown; VEventSet;
     VFutureAwaited; VExecutorShutdown; VListenerSentinel] /\
  call MInterrupt PZombie = MDelivered SInt.
Proof. vm_compute. repeat split; auto. Qed.

Print Assumptions C17_skeleton_tie.
Print Assumptions C17_handle_returned.
Print Assumptions C17_never_raises.
Print Assumptions C17_yields_refuted_killed_while_logging.
Print Assumptions C17_hang_iff.
Print Assumptions C17_yields_partial.
Print Assumptions C17_yields_without_logging.
Print Assumptions C17_yields_when_not_killed_logging.
Print Assumptions C17_exception_yielded_exactly.
Print Assumptions C17_outcome_shape.
Print Assumptions C17_value_xor_exception.
Print Assumptions C17_cleanup_prefix.
Print Assumptions C17_process_always_joined.
Print Assumptions C17_cleanup_partial.
Print Assumptions C17_cleanup_refuted.
Print Assumptions C17_await_idempotent.
Print Assumptions C17_late_await_never_raises.
Print Assumptions C17_times_ordered.
Print Assumptions C17_signals_before_exit.

(** ======================================================================================
    TIE of the helper code around `_run` (second tie, regenerated source with proofs).
    Gen/ProcHelpers.v = the statement trees of MultiprocessingLogging, _listen, _initializer,
    RunningProcess.__init__/_log_created/_log_exited/_format_time/interrupt/send_signal/terminate/
    kill/__await__, _call_all, _call, run_in_process and _run, regenerated at every check by
    translate/proc_helpers.py; Proc/HelperInterp.v interprets them over an environment [env]
    (the child's log records before / after the sentinel, died inside a queue write, the parent's
    logger levels and raising handlers, the with-body's outcome incl. cancellation, the future's
    answer, the function's and the initializer's outcome, pickle.dumps / loads succeeding, pid,
    exit code incl. positive ones, the name table, the OS state of the process, the clock).
    Everything below is proved in Proc/HelperTie.v for ALL environments.
    LABELS (harness/HARDEN_TASK.md item 4).  Genuine = a statement about the interpretation of a REGENERATED term, proved
    by evaluating that term.  C17_tie_signatures is a PIN (reflexivity against hand-copied parameter lists / field
    names / method names / default expressions).  Three programs are HAND-WRITTEN, not regenerated: [client_prog] (the
    client `async with MultiprocessingLogging() as initializer: BODY`, written with an exit stack holding that one
    context), [worker_init_prog] (one line of concurrent.futures.process._process_worker) and the mapping of Model's
    worlds to environments ([realises], [proj_ev], [proj_result]); what they CALL is regenerated.  The meaning of the
    known callables (executor, queue, logging, pickle, os.kill, Process.terminate/kill, the clock) and of the two
    concurrency abstractions (the listener task and the `_run` task are run when they are awaited; `await
    event.wait()` peeks at the prefix of `_run` up to its first real wait) is the interpreter's, i.e. hand-written and
    trusted; a second cancellation arriving INSIDE the context manager's `finally` is not modelled.  try / except /
    else / finally, `async with AsyncExitStack()`, asynccontextmanager's enter / exit protocol and the bare `raise` have
    their real meaning: a raise or a cancellation at the with-body reaches the `finally`; a hang does not.
    (From here on the names of Proc/HelperInterp.v shadow those of Proc/Model.v; the model's are
    written Model.x.) *)
From Coq Require Import String.
From NL Require Import Proc.HelperSyntax Gen.ProcHelpers Proc.HelperInterp Proc.HelperTie.
Open Scope string_scope.
Open Scope list_scope.

(** signatures of the translated functions, the fields of ExitedProcess, the shape of the keys of
    _exitcode_to_name (kind c: pinned) *)
Theorem C17_tie_signatures :
  logging_params = ["mp_context"] /\ initializer_params = ["queue"] /\
  rp_init_params = ["process"; "task"] /\ rp_log_exited_params = ["exited_at"] /\
  rp_send_signal_params = ["sig"] /\ rp_await_params = [] /\ rp_interrupt_params = [] /\
  rp_terminate_params = [] /\ rp_kill_params = [] /\
  call_all_params = ["*funcs"] /\ call_params = ["func"] /\
  outer_params = ["func"; "mp_context"; "initializer"; "collect_logging"] /\
  exited_fields = ["returned"; "raised"; "process"; "process_created_at"; "process_exited_at"] /\
  exitcode_keys_negated = true /\
  rp_methods = ["__init__"; "__repr__"; "_log_created"; "_log_exited"; "_format_time"; "interrupt"; "send_signal";
                "terminate"; "kill"; "__await__"] /\
  logging_defaults = [("mp_context", ENone)] /\
  outer_defaults = [("mp_context", ENone); ("initializer", ENone); ("collect_logging", EBool false)].
Proof. exact signatures. Qed.

(** the default argument values are regenerated and EVALUATED: `run_in_process(func)` runs without a given
    context, without an initializer and WITHOUT log collection; `MultiprocessingLogging()` without a given context *)
Theorem C17_tie_default_call_frames : forall E,
  call_frame E outer_params outer_defaults [("func", VUserFunc)] = Some (outer_args false VNone VNone) /\
  call_frame E logging_params logging_defaults [] = Some [("mp_context", VNone)].
Proof. exact default_call_frames. Qed.

Theorem C17_tie_start_with_defaults : forall E f,
  call_frame E outer_params outer_defaults [("func", VUserFunc)] = Some f ->
  fst (run E outer_prog (st0 f)) = CReturn (VHandle (handle_attrs (e_tick E 0))) /\
  task_frame (snd (run E outer_prog (st0 f))) = run_frame false VNone VNone.
Proof. exact start_with_defaults. Qed.

(** the regenerated coroutine `_listen`, at EVERY state in which its closure variable `queue` is the
    queue: completion, remaining queue and handled records are the closed form (induction over the
    queue content); nothing else changes *)
Theorem C17_tie_listener_closed_form : forall E s, has_queue s ->
  listen_real E s =
  let q := listener_queue E (putq s) in
  (listen_result E q,
   mkSt (vars s) (selfa s) (putq s) (listen_rest E q) (handled s ++ listen_handled E q) (trace s)
        (listener s) (cms s) (clock s) (reads s) (cur s) (task_frame s)).
Proof. exact listen_real_spec. Qed.

(** (1) `async with MultiprocessingLogging() as initializer: BODY`, for every environment:
    the listener task is started exactly once ... *)
Theorem C17_tie_listener_started_once : forall E, count_started (trace (snd (client_run E))) = 1%nat.
Proof. exact listener_started_once. Qed.

(** ... on EVERY exit path of the block (BODY ends normally, raises an exception of any class, is
    cancelled) the effects are: queue, initializer, listener started, BODY, sentinel put, and then
    nothing more or the listener awaited to its end ... *)
Theorem C17_tie_sentinel_on_every_exit_path : forall E,
  exists rest,
    trace (snd (client_run E)) =
      [HQueueCreated; HPartial "_initializer"; HListenerStarted; HClientBody; HSentinelPut] ++ rest /\
    (rest = [] \/ rest = [HListenerAwaited]).
Proof. exact sentinel_on_every_exit_path. Qed.

(** ... and whenever the block is left at all (normally or by an exception), no listener task is left running *)
Theorem C17_tie_no_listener_left_when_block_exits : forall E,
  (forall h, fst (client_run E) <> CHang h) -> listener (snd (client_run E)) <> LRunning.
Proof. exact no_listener_left_when_block_exits. Qed.

(** exactly when it is left, and how: a raising handler of the parent's logger comes out of the block;
    a child that died inside a queue write makes `await task` wait for ever (known finding
    hang:log-listener-never-ends); otherwise the block's outcome is BODY's *)
Theorem C17_tie_client_outcome : forall E,
  fst (client_run E) =
  match first_bad E (e_before E) with
  | Some x => CRaise x
  | None => if e_killed E then CHang HgListener else match e_body E with None => CNormal | Some x => CRaise x end
  end.
Proof. exact client_outcome. Qed.

Theorem C17_tie_listener_awaited_on_every_exit_path : forall E,
  no_bad_records E -> e_killed E = false ->
  fst (client_run E) = match e_body E with None => CNormal | Some x => CRaise x end /\
  trace (snd (client_run E)) =
    [HQueueCreated; HPartial "_initializer"; HListenerStarted; HClientBody; HSentinelPut] ++ [HListenerAwaited] /\
  listener (snd (client_run E)) = LDone.
Proof. exact listener_awaited_on_every_exit_path. Qed.

Theorem C17_tie_block_exit_refuted_killed_mid_write :
  exists E, no_bad_records E /\ e_body E = None /\
            fst (client_run E) = CHang HgListener /\ listener (snd (client_run E)) = LRunning.
Proof. exact block_exit_refuted_killed_mid_write. Qed.

(** (2) every record put before the sentinel is handled exactly once, in order -- those the level test
    of `_listen` lets through -- whatever BODY does; records put after the sentinel are not handled *)
Theorem C17_tie_handled_in_order_exactly_once : forall E, no_bad_records E ->
  handled (snd (client_run E)) = filter (fun r => Z.leb (e_loglevel E (Some (r_name r))) (r_level r)) (e_before E).
Proof. exact handled_in_order_exactly_once. Qed.

Theorem C17_tie_handled_exact : forall E, handled (snd (client_run E)) = handled_of E (e_before E).
Proof. exact handled_exact. Qed.

(** (3) `_call` returns exactly one of (value, None) / (None, wrapped exception) and calls the function
    once; it raises only the pickling error, exactly when the exception does not survive the round
    trip (commit 957cca5); with that answer `_run` returns (None, the pickling error) *)
Theorem C17_tie_call_exact : forall E,
  fst (call_run E) =
  match e_func E with
  | FRet v => CReturn (VTuple [VInt v; VNone])
  | FExn x => if e_dumps E && e_loads E then CReturn (VTuple [VNone; VWrapped x]) else CRaise XPickle
  end.
Proof. exact call_exact. Qed.

Theorem C17_tie_call_calls_once : forall E, trace (snd (call_run E)) = [HFuncCalled].
Proof. exact call_calls_once. Qed.

Theorem C17_tie_call_never_raises_when_picklable : forall E, e_dumps E = true -> e_loads E = true ->
  forall x, fst (call_run E) <> CRaise x.
Proof. exact call_never_raises_when_picklable. Qed.

Theorem C17_tie_call_raises_only_pickling_error : forall E x, fst (call_run E) = CRaise x ->
  x = XPickle /\ exists y, e_func E = FExn y /\ (e_dumps E = false \/ e_loads E = false).
Proof. exact call_raises_only_pickling_error. Qed.

Theorem C17_tie_call_then_run_outcome : forall E,
  run_outcome (transport (fst (call_run E))) =
  Some match e_func E with
       | FRet v => (VInt v, VNone)
       | FExn x => if e_dumps E && e_loads E then (VNone, VExn x) else (VNone, VExn XPickle)
       end.
Proof. exact call_then_run_outcome. Qed.

(** the regenerated `_run` (exit stack, MultiprocessingLogging entered on it when collect_logging,
    executor, submit, event, await of the future with its handlers, shutdown in a thread, return):
    completion, effects in order, handled records, state of the listener -- for every environment
    whose future answers with a pair / raises / never completes *)
Theorem C17_tie_run_exact : forall E clog given_ctx ini, wf_answer (e_answer E) ->
  obs4 (run_run E clog given_ctx ini) = run_spec E clog ini.
Proof. exact run_exact. Qed.

(** the executor has max_workers=1 and, with log collection, the initializer
    `_call_all(logging_initializer, initializer)`, else the user's *)
Theorem C17_tie_executor_construction : forall E (clog : bool) given_ctx ini, wf_answer (e_answer E) ->
  In (HExecutorCreated (VInt 1) (if clog then VPartial "_call_all" [VPartial "_initializer" [VObj OQueue]; ini] else ini))
     (trace (snd (run_run E clog given_ctx ini))).
Proof. exact executor_construction. Qed.

(** ... which in the child installs the QueueHandler BEFORE the user's initializer runs (also when
    that one then raises) *)
Theorem C17_tie_initializer_chain : forall E,
  worker_init E (init_value true VUserInit) = (user_init_outcome E, [HSetLevel (VInt 10); HHandlerInstalled; HUserInit]) /\
  worker_init E (init_value true VNone) = (CNormal, [HSetLevel (VInt 10); HHandlerInstalled]) /\
  worker_init E (init_value false VUserInit) = (user_init_outcome E, [HUserInit]) /\
  worker_init E (init_value false VNone) = (CNormal, []).
Proof. exact initializer_chain. Qed.

(** (6) the skeleton interpreter of Proc/Model.v is justified by the regenerated code: for every world of
    the model and every environment realising it, the regenerated `_run` with the regenerated
    context manager on its exit stack and the regenerated `_listen` behind `await task` produces the
    model's trace (Listener started / sentinel / awaited included) and the model's task result.
    Every theorem above about [run_trace] / [run_task] / [await_handle] of the model is thereby
    about what the source says now. *)
Theorem C17_tie_run_simulates_model : forall E w given_ctx ini, realises E w ->
  let r := run_run E (Model.collect_logging w) given_ctx ini in
  flat_map proj_ev (trace (snd r)) = Model.run_trace w /\ proj_result (fst r) = Model.run_task w.
Proof. exact run_simulates_model. Qed.

(** run_in_process returns a handle in every environment, created at the first clock reading, whose
    task is `_run` over the closure [run_frame] *)
Theorem C17_tie_start_returns_handle : forall E clog given_ctx ini,
  let r := start E clog given_ctx ini in
  fst r = CReturn (VHandle (handle_attrs (e_tick E 0))) /\
  trace (snd r) = [HRunTaskCreated] /\ task_frame (snd r) = run_frame clog (ctxv given_ctx) ini /\
  clock (snd r) = e_tick E 0 /\ reads (snd r) = 1%nat /\ selfa (snd r) = [] /\ cms (snd r) = [] /\
  listener (snd r) = LNotStarted /\ putq (snd r) = [] /\ handled (snd r) = [].
Proof. exact start_exact. Qed.

(** (4) RunningProcess.__await__ on that handle, for EVERY exit code (None, 0, negative, positive),
    pid and content of _exitcode_to_name *)
Theorem C17_tie_await_exact : forall E clog given_ctx ini, wf_answer (e_answer E) ->
  fst (await_handle E clog given_ctx ini) = await_spec E clog.
Proof. exact await_exact. Qed.

Theorem C17_tie_await_never_raises : forall E clog given_ctx ini, wf_answer (e_answer E) -> no_bad_records E ->
  forall x, fst (await_handle E clog given_ctx ini) <> CRaise x.
Proof. exact await_never_raises. Qed.

Theorem C17_tie_await_times_ordered : forall E clog given_ctx ini v,
  wf_answer (e_answer E) -> fst (await_handle E clog given_ctx ini) = CReturn v ->
  exists u w t0 t1, v = VExited [("returned", u); ("raised", w); ("process", VObj OProcess);
                                 ("process_created_at", VTime t0); ("process_exited_at", VTime t1)] /\
                    run_outcome (e_answer E) = Some (u, w) /\ (t0 <= t1)%nat.
Proof. exact await_yields_times_ordered. Qed.

(** added hypothesis of C17_tie_await_never_raises: no handler / filter of the parent's loggers raises.
    Without it the statement is refuted by the faithful interpretation *)
Theorem C17_tie_await_raises_refuted_raising_log_filter :
  exists E, wf_answer (e_answer E) /\ e_answer E = AResult (VTuple [VInt 7; VNone]) /\
            fst (await_handle E true false VNone) = CRaise (XUser KdException 1).
Proof. exact await_raises_refuted_raising_log_filter. Qed.

(** (5) interrupt / send_signal / terminate / kill: exactly what the code does in each state *)
Theorem C17_tie_signal_table_started : forall E q sg, e_pid E = Some (Zpos q) -> e_pstate E <> PNotCreated ->
  sig_call E "interrupt" [] =
    match e_pstate E with PReaped => (CRaise XProcessLookup, []) | _ => (CReturn VNone, [HOsKill (VInt 2)]) end /\
  sig_call E "send_signal" [VInt sg] =
    match e_pstate E with PReaped => (CRaise XProcessLookup, []) | _ => (CReturn VNone, [HOsKill (VInt sg)]) end /\
  sig_call E "terminate" [] =
    match e_pstate E with PReaped => (CReturn VNone, []) | _ => (CReturn VNone, [HTerminate]) end /\
  sig_call E "kill" [] =
    match e_pstate E with PReaped => (CReturn VNone, []) | _ => (CReturn VNone, [HKill]) end.
Proof. exact signal_table_started. Qed.

Theorem C17_tie_signal_table_not_created : forall E sg, e_pid E = None -> e_pstate E = PNotCreated ->
  sig_call E "interrupt" [] = (CReturn VNone, []) /\
  sig_call E "send_signal" [VInt sg] = (CReturn VNone, []) /\
  sig_call E "terminate" [] = (CRaise XAttribute, []) /\
  sig_call E "kill" [] = (CRaise XAttribute, []).
Proof. exact signal_table_not_created. Qed.

Theorem C17_tie_signals_never_raise_before_exit : forall E q sg m args x,
  e_pid E = Some (Zpos q) -> (e_pstate E = PAlive \/ e_pstate E = PZombie) ->
  In (m, args) [("interrupt", []); ("send_signal", [VInt sg]); ("terminate", []); ("kill", [])] ->
  fst (sig_call E m args) <> CRaise x.
Proof. exact signals_never_raise_before_exit. Qed.

Theorem C17_tie_signals_refuted_after_reaping :
  exists E, e_pid E = Some 4242%Z /\ e_pstate E = PReaped /\ fst (sig_call E "interrupt" []) = CRaise XProcessLookup.
Proof. exact signals_refuted_after_reaping. Qed.

(** the table [call] of Proc/Model.v is what the regenerated methods do *)
Theorem C17_tie_signals_agree_with_model : forall E q m p, e_pid E = Some (Zpos q) -> e_pstate E = inj_pstate p ->
  mres_of (sig_call E (fst (method_call m)) (snd (method_call m))) = Some (Model.call m p).
Proof. exact signals_agree_with_model. Qed.

(** non-vacuity of the tie: a child that logged three records (one below the level of the parent's
    logger) before the sentinel and one after it, a body that is cancelled; and a realised world *)
Example C17_tie_example_nonvacuous :
  let E := mkEnv [mkRec 1 20 1; mkRec 1 5 2; mkRec 2 30 3] [mkRec 1 40 4] false (fun _ => 10%Z) (fun _ => None)
                 (Some (XUser KdCancelled 0)) None (AResult (VTuple [VInt 7; VNone])) (FRet 7) true true
                 (Some 4242%Z) (Some 3%Z) None PReaped (fun k => k) in
  no_bad_records E /\
  fst (client_run E) = CRaise (XUser KdCancelled 0) /\
  handled (snd (client_run E)) = [mkRec 1 20 1; mkRec 2 30 3] /\
  listener (snd (client_run E)) = LDone /\
  realises E (Model.mkWorld true (Model.AValue 7) false) /\
  fst (await_handle E true false VUserInit) =
    CReturn (VExited [("returned", VInt 7); ("raised", VNone); ("process", VObj OProcess);
                      ("process_created_at", VTime 0%nat); ("process_exited_at", VTime 1%nat)]).
Proof. cbv zeta. repeat split; try (intros r; reflexivity); vm_compute; reflexivity. Qed.

Print Assumptions C17_tie_signatures.
Print Assumptions C17_tie_default_call_frames.
Print Assumptions C17_tie_start_with_defaults.
Print Assumptions C17_tie_listener_closed_form.
Print Assumptions C17_tie_listener_started_once.
Print Assumptions C17_tie_sentinel_on_every_exit_path.
Print Assumptions C17_tie_no_listener_left_when_block_exits.
Print Assumptions C17_tie_client_outcome.
Print Assumptions C17_tie_listener_awaited_on_every_exit_path.
Print Assumptions C17_tie_block_exit_refuted_killed_mid_write.
Print Assumptions C17_tie_handled_in_order_exactly_once.
Print Assumptions C17_tie_handled_exact.
Print Assumptions C17_tie_call_exact.
Print Assumptions C17_tie_call_calls_once.
Print Assumptions C17_tie_call_never_raises_when_picklable.
Print Assumptions C17_tie_call_raises_only_pickling_error.
Print Assumptions C17_tie_call_then_run_outcome.
Print Assumptions C17_tie_run_exact.
Print Assumptions C17_tie_executor_construction.
Print Assumptions C17_tie_initializer_chain.
Print Assumptions C17_tie_run_simulates_model.
Print Assumptions C17_tie_start_returns_handle.
Print Assumptions C17_tie_await_exact.
Print Assumptions C17_tie_await_never_raises.
Print Assumptions C17_tie_await_times_ordered.
Print Assumptions C17_tie_await_raises_refuted_raising_log_filter.
Print Assumptions C17_tie_signal_table_started.
Print Assumptions C17_tie_signal_table_not_created.
Print Assumptions C17_tie_signals_never_raise_before_exit.
Print Assumptions C17_tie_signals_refuted_after_reaping.
Print Assumptions C17_tie_signals_agree_with_model.
