(** C17 -- waiting on a child process always yields its outcome and reaps it.
    Property theorems only; each is closed by [exact] of a lemma of Proc/Proofs.v.

    Model: Proc/Model.v interprets the control skeleton of
    nextline/utils/run.py (run_in_process._run, RunningProcess.__await__,
    interrupt/terminate/kill/send_signal) and of the exit path of
    multiprocessing_logging.py; Gen/RunSkeleton.v is regenerated from the source
    at every check and [C17_skeleton_tie] states that the interpreted programs
    are the extracted ones.

    PARTIAL: the executor and the OS are an oracle.  [w : world] = (log
    collection on/off, the answer of `await future`: the worker's value, the
    worker's exception, or BrokenProcessPool; and one fact about the worker's
    log traffic, see Proc/Model.v).  All statements quantify over
    EVERY world; [consistent sc a] says which answers a worker behaviour
    [sc = (behaviour, optional (signal, instant))] allows -- that relation and
    "shutdown(wait=True) joins the process" are validated by the real matrix
    of harness/props/c17.py (spawn context), not proved. *)
From NL Require Import Proc.Model Proc.Proofs.
Open Scope Z_scope.

(** the programs the model interprets are the ones extracted from /repo *)
Theorem C17_skeleton_tie :
  run_prog = run_skeleton /\ outer_prog = outer_skeleton /\ init_prog = init_skeleton /\
  await_prog = await_skeleton /\ interrupt_prog = interrupt_skeleton /\
  send_signal_prog = send_signal_skeleton /\ terminate_prog = terminate_skeleton /\
  kill_prog = kill_skeleton /\ logging_prog = logging_skeleton /\ exited_prog = exited_fields /\
  call_prog = call_skeleton.
Proof. exact tie_all. Qed.

(** starting returns a handle (event.set() happens, with `process` assigned, before
    `_run` first waits for the future) *)
Theorem C17_handle_returned : forall w, exists c, start w = SHandle c.
Proof. exact handle_returned. Qed.

(** awaiting the handle never raises, whatever the future answers (full strength) *)
Theorem C17_never_raises : forall w e, await_handle w <> Raises e.
Proof. exact never_raises. Qed.

(** "ALWAYS yields its outcome" is REFUTED by the faithful model (and by the real code: known
    finding `hang:log-listener-never-ends`): with log collection on, a worker that dies
    (os._exit / SIGTERM / SIGKILL) while its feeder thread writes a log record leaves the
    queue's write lock taken: the listener's sentinel is never written and `await task` never
    completes.
    (The other refutation of the first build, a worker ending normally with a backlog of log
    records, is gone with the repair 5c07918: the executor shutdown no longer blocks the loop.) *)
Theorem C17_yields_refuted_killed_while_logging :
  exists w, ans w = ARaise EBrokenPool /\ await_handle w = Hangs HListener.
Proof. exact yields_refuted_killed_while_logging. Qed.

(** exactly that situation: the added hypothesis of the partial theorems below is
    [stuck w = None], i.e. no log collection, or the worker did not die inside a log write *)
Theorem C17_hang_iff : forall w h, await_handle w = Hangs h <-> stuck w = Some h.
Proof. exact hang_iff. Qed.

Theorem C17_yields_partial : forall w, stuck w = None -> exists x, await_handle w = Yields x.
Proof. exact yields_partial. Qed.

Theorem C17_yields_without_logging : forall w,
  collect_logging w = false -> exists x, await_handle w = Yields x.
Proof. exact yields_without_logging. Qed.

(** however much the worker logged and whatever it raised: if it was not killed inside a log
    write the handle yields *)
Theorem C17_yields_when_not_killed_logging : forall w,
  died_in_log_write w = false -> exists x, await_handle w = Yields x.
Proof. exact yields_when_not_killed_logging. Qed.

(** the exception the function raised is yielded EXACTLY, whatever its class: it travels as data
    in the result of the wrapper `_call`, not through Future.set_exception (which refuses
    StopIteration and converts concurrent.futures.CancelledError) -- repaired findings
    hang:future-never-completes, wrong-exception-class:cf_cancelled, exception-lost:unloadable_exc *)
Theorem C17_exception_yielded_exactly : forall w e,
  ans w = AData e -> stuck w = None ->
  exists c t, await_handle w = Yields (mkExited None (Some e) c t).
Proof. exact exception_yielded_exactly. Qed.

(** value xor exception xor neither, matching the behaviour:
    return -> that value; raise -> that exception (any class); a return value or an exception
    that cannot be pickled or rebuilt -> the pickling error as `raised`; SystemExit ->
    `raised` = that SystemExit; hard exit, SIGTERM, SIGKILL, SIGINT before the function
    runs -> neither; SIGINT while the function runs -> `raised` = KeyboardInterrupt;
    a signal racing completion -> one of: the natural outcome, the signal's outcome, neither *)
Theorem C17_outcome_shape : forall w sc x,
  consistent sc (ans w) -> await_handle w = Yields x ->
  In (returned x, raised x)
     match sc with
     | (Ret v, None) => [(Some v, None)]
     | (Exn e, None) => [(None, Some (EWorker e))]
     | (Unpicklable, None) => [(None, Some EPickle)]
     | (SysExit n, None) => [(None, Some (ESysExit n))]
     | (HardExit _, None) => [(None, None)]
     | (_, Some (SInt, Running)) => [(None, Some EKeyboardInt)]
     | (_, Some (_, Boot)) => [(None, None)]
     | (_, Some (_, Running)) => [(None, None)]
     | (b, Some (s, Racing)) =>
         [ match b with
           | Ret v => (Some v, None) | Exn e => (None, Some (EWorker e)) | Unpicklable => (None, Some EPickle)
           | SysExit n => (None, Some (ESysExit n)) | HardExit _ => (None, None) end;
           match s with SInt => (None, Some EKeyboardInt) | _ => (None, None) end;
           (None, None) ]
     end.
Proof. exact outcome_shape. Qed.

(** never both a value and an exception *)
Theorem C17_value_xor_exception : forall w x,
  await_handle w = Yields x -> returned x = None \/ raised x = None.
Proof. exact value_xor_exception. Qed.

(** cleanup.  Unconditionally the effects are a prefix of the full sequence (nothing out of
    order, nothing twice) ... *)
Theorem C17_cleanup_prefix : forall w,
  exists rest,
    (if collect_logging w then [VListenerStarted; VInitializerWrapped] else [])
    ++ [VExecutorCreated; VSubmitted; VProcessKnown; VEventSet; VFutureAwaited; VExecutorShutdown]
    ++ (if collect_logging w then [VListenerSentinel; VListenerAwaited] else [])
    = run_trace w ++ rest.
Proof. exact cleanup_prefix. Qed.

(** ... the worker process is joined (exit code set) in EVERY world ... *)
Theorem C17_process_always_joined : forall w, joined (run_trace w) = true.
Proof. exact process_always_joined. Qed.

(** ... and, outside the stuck situation, on every path: the executor is shut down (wait=True, in
    a helper thread that is awaited: the process is joined, exit code set) after the future was awaited, then --
    with log collection -- the listener is sent its sentinel and awaited; nothing is left open *)
Theorem C17_cleanup_partial : forall w, stuck w = None ->
  run_trace w =
    (if collect_logging w then [VListenerStarted; VInitializerWrapped] else [])
    ++ [VExecutorCreated; VSubmitted; VProcessKnown; VEventSet; VFutureAwaited; VExecutorShutdown]
    ++ (if collect_logging w then [VListenerSentinel; VListenerAwaited] else []) /\
  helpers_left (run_trace w) = 0%nat /\
  joined (run_trace w) = true.
Proof. exact cleanup_partial. Qed.

(** in the stuck situation the process is joined but the listener task is left pending *)
Theorem C17_cleanup_refuted :
  exists w, joined (run_trace w) = true /\ helpers_left (run_trace w) = 1%nat.
Proof. exact cleanup_refuted. Qed.

(** any number of awaiters, at any time: every further await of the handle (started before
    completion, in the loop iteration in which the helper task finished, after the process exited,
    much later) never raises and yields the same returned / raised / creation time, with an exit
    time that is not earlier ([late] = how much later it completes).  Holds because __await__
    takes the exit time itself after the task result is there (part of the skeleton tie). *)
Theorem C17_await_idempotent : forall w late x,
  await_handle w = Yields x ->
  await_late w late = Yields (mkExited (returned x) (raised x) (created_at x) (exited_at x + late)).
Proof. exact await_idempotent. Qed.

Theorem C17_late_await_never_raises : forall w late e, await_late w late <> Raises e.
Proof. exact late_await_never_raises. Qed.

(** creation and exit times are present and ordered *)
Theorem C17_times_ordered : forall w x, await_handle w = Yields x -> (created_at x < exited_at x)%nat.
Proof. exact times_ordered. Qed.

(** interrupt / terminate / kill / send_signal never raise while the process has not
    been reaped (booting, running, or exited-but-not-yet-waited-for) *)
Theorem C17_signals_before_exit : forall m p, p <> PReaped -> call m p = MDelivered (sig_of m).
Proof. exact signals_before_exit. Qed.

(** non-vacuity: a worker that returns 7 while SIGTERM races it, with log collection:
    the allowed answers give different, allowed outcomes; the trace is the full one *)
Example C17_example_nonvacuous :
  let sc := (Ret 7, Some (STerm, Racing)) in
  consistent sc (AValue 7) /\ consistent sc (ARaise EBrokenPool) /\
  stuck (mkWorld true (AValue 7) false) = None /\
  await_handle (mkWorld true (AValue 7) false) = Yields (mkExited (Some 7) None 6 10) /\
  await_handle (mkWorld true (ARaise EBrokenPool) false) = Yields (mkExited None None 6 10) /\
  await_handle (mkWorld false (AData (EWorker 3)) true) = Yields (mkExited None (Some (EWorker 3)) 4 6) /\
  run_trace (mkWorld true (AData EKeyboardInt) false) =
    [VListenerStarted; VInitializerWrapped; VExecutorCreated; VSubmitted; VProcessKnown; VEventSet;
     VFutureAwaited; VExecutorShutdown; VListenerSentinel; VListenerAwaited] /\
  run_trace (mkWorld true (ARaise EBrokenPool) true) =
    [VListenerStarted; VInitializerWrapped; VExecutorCreated; VSubmitted; VProcessKnown; VEventSet;
     VFutureAwaited; VExecutorShutdown; VListenerSentinel] /\
  call MInterrupt PZombie = MDelivered SInt.
Proof. vm_compute. repeat split; auto. Qed.

Print Assumptions C17_skeleton_tie.
Print Assumptions C17_handle_returned.
Print Assumptions C17_never_raises.
Print Assumptions C17_yields_refuted_killed_while_logging.
Print Assumptions C17_hang_iff.
Print Assumptions C17_yields_partial.
Print Assumptions C17_yields_without_logging.
Print Assumptions C17_yields_when_not_killed_logging.
Print Assumptions C17_exception_yielded_exactly.
Print Assumptions C17_outcome_shape.
Print Assumptions C17_value_xor_exception.
Print Assumptions C17_cleanup_prefix.
Print Assumptions C17_process_always_joined.
Print Assumptions C17_cleanup_partial.
Print Assumptions C17_cleanup_refuted.
Print Assumptions C17_await_idempotent.
Print Assumptions C17_late_await_never_raises.
Print Assumptions C17_times_ordered.
Print Assumptions C17_signals_before_exit.
