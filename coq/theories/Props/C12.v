(** C12 -- plugins see each run's hooks in protocol order with a valid context.
    Property theorems only; each is closed by [exact] of a lemma proved in
    Life/Protocol.v about the lifecycle model Life/Model.v.

    [proto] (Life/Protocol.v) is the run-protocol automaton over the hook
    records of the history, a function of the history alone:
      PN --init_run n--> PI n --start_run n--> PS n --end_run n (state running)-->
      PE n --finished (state finished, run_arg None)--> PF --init_run n'--> PI n' ...
      (PI n --init_run n'--> PI n' is a reset without a run); anything else -> PBad.
    All statements quantify over EVERY label sequence [ls] = every history of
    calls and every schedule of the tasks, the run task and the child's exit.
    The registration part of C12 (plugins (un)registered between hook calls)
    is not about the lifecycle model: it is stated on the registry model
    Life/Registry.v (a hook call is an atomic snapshot of the registry).
    A run that FAILS TO START (an exception anywhere in the run session) is not a
    label of the lifecycle model: that part of C12's quantifier is stated on the
    skeleton model Life/FailStart.v, regenerated from the source, at the end of
    this file. *)
From NL Require Import Life.Model Life.LockInv Life.FsmInv Life.Hist Life.Protocol Life.Registry.
From NL Require Relay.Model Relay.Proofs.
From NL Require Life.FailStart Life.FailStartProofs.
Open Scope Z_scope.

(** per run: initialise-run, start-run, end-run while the state is still
    'running', finished once the state is 'finished'; each once, in that
    order; never start/end/finished for a run that was not initialised/started
    (holds for every prefix too: [proto_prefix], PBad is absorbing) *)
Theorem C12_order : forall stmt start th md ls,
  let s := run_labels (init_state stmt start th md) ls in
  proto (hooks_of (history s)) <> PBad.
Proof. exact all_order. Qed.

(** the run's arguments are in the context from initialise-run through
    end-run and withdrawn at finished *)
Theorem C12_run_arg_window : forall stmt start th md ls,
  let s := run_labels (init_state stmt start th md) ls in
  Forall (fun h => match h_hook h with
                   | HInitRun | HStartRun | HEndRun => h_runno h <> None
                   | HFinished => h_runno h = None
                   | _ => True
                   end) (hooks_of (history s)).
Proof. exact all_window. Qed.

(** the exact correspondence between the protocol state and the state of the
    object; in particular once the run task is gone every started run has been
    closed out *)
Theorem C12_complete : forall stmt start th md ls,
  let s := run_labels (init_state stmt start th md) ls in
  let p := proto (hooks_of (history s)) in
  hook_corr p (st_fsm s) (runt s) (run_arg s) /\
  (runt s = None -> p = PN \/ (exists n, p = PI n) \/ p = PF) /\
  (forall n, p = PS n -> runt s = Some RT_G_start \/ runt s = Some RT_WaitChild) /\
  (forall n, p = PE n -> runt s = Some RT_G_end) /\
  (p = PF -> runt s = Some RT_G_fin \/ runt s = Some RT_G_cs \/
             (runt s = None /\ (st_fsm s = Finished \/ st_fsm s = Closed))) /\
  (p = PN -> runt s = None /\ (st_fsm s = Created \/ st_fsm s = Closed)) /\
  (forall n, p = PI n -> runt s = Some RT_New \/ runt s = Some RT_Created \/
                         (runt s = None /\ (st_fsm s = Initialized \/ st_fsm s = Closed))).
Proof. exact all_complete. Qed.

(** a refused request (MachineError) adds nothing to the hook log *)
Theorem C12_not_for_refused : forall stmt start th md ls l t c,
  let s := run_labels (init_state stmt start th md) ls in
  In (EvRet t c RMachineError) (appended s (step s l)) ->
  forall h, ~ In (EvHook h) (appended s (step s l)).
Proof. exact all_not_for_refused. Qed.

(** a full history: start; run (returns); reset; run_and_continue (raises);
    close.  [proto] reaches PF twice, never PBad; in the middle of the first
    run a second run request and a reset are refused and append only the call
    and its MachineError. *)
Example C12_example_nonvacuous :
  ex_proto_states =
    [PN; PN; PI 1; PI 1; PI 1; PI 1; PI 1; PS 1; PS 1; PS 1; PS 1; PS 1; PE 1; PF; PF; PF; PF;
     PI 2; PI 2; PI 2; PI 2; PI 2; PS 2; PS 2; PS 2; PS 2; PS 2; PE 2; PF; PF; PF; PF; PF; PF]
  /\ st_fsm (run_labels ex_init ex_labels) = Closed
  /\ runt ex_mid = Some RT_WaitChild
  /\ appended ex_mid (step ex_mid (Call 9%nat CRun)) = [EvCall 9%nat CRun; EvRet 9%nat CRun RMachineError]
  /\ appended ex_mid (step ex_mid (Call 9%nat (CReset ex_no_opts)))
     = [EvCall 9%nat (CReset ex_no_opts); EvRet 9%nat (CReset ex_no_opts) RMachineError].
Proof. vm_compute. repeat split; reflexivity. Qed.

(** the automaton does reject: start-run without initialise-run, end-run twice,
    finished while the state is still 'running', end-run for another run number *)
Example C12_example_automaton_rejects :
  let h k f n := mkHook k f n None None in
  proto [h HStartRun Running (Some 1)] = PBad
  /\ proto [h HInitRun Initialized (Some 1); h HStartRun Running (Some 1); h HEndRun Running (Some 1);
            h HEndRun Running (Some 1)] = PBad
  /\ proto [h HInitRun Initialized (Some 1); h HStartRun Running (Some 1); h HEndRun Running (Some 1);
            h HFinished Running None] = PBad
  /\ proto [h HInitRun Initialized (Some 1); h HStartRun Running (Some 1); h HEndRun Running (Some 2)] = PBad
  /\ proto [h HInitRun Initialized (Some 1); h HStartRun Running (Some 1); h HInitRun Initialized (Some 2)] = PBad
  /\ proto [h HInitRun Initialized (Some 1); h HStartRun Running (Some 1); h HEndRun Running (Some 1);
            h HFinished Finished None] = PF.
Proof. vm_compute. repeat split; reflexivity. Qed.

(** registration: a plugin receives exactly the hook calls made while it is registered,
    i.e. those for which its last (un)registration so far was a registration: it starts /
    stops receiving hooks from the next hook call on; each call reaches it once *)
Theorem C12_registration : forall p ops s, NoDup s ->
  received p (rrun s ops) = expected p (mem p s) ops /\
  mem p (rstate s ops) = last_says p (mem p s) ops /\
  NoDup (rstate s ops).
Proof.
  intros p ops s H. split; [exact (received_expected p ops s H)|].
  split; [exact (registered_is_last_says p ops s) | exact (registry_nodup ops s H)].
Qed.

Example C12_registration_example :
  let ops := [Hook 1; Reg 5; Hook 2; Reg 6; Hook 3; Unreg 5; Hook 4; Unreg 5; Reg 5; Hook 9] in
  received 5%nat (rrun [] ops) = [2; 3; 9]%nat /\ received 6%nat (rrun [] ops) = [3; 4; 9]%nat
  /\ rrun [] ops = [Delivered []; Done; Delivered [(5, 2)%nat]; Done; Delivered [(6, 3)%nat; (5, 3)%nat]; Done;
                    Delivered [(6, 4)%nat]; Refused; Done; Delivered [(5, 9)%nat; (6, 9)%nat]].
Proof. vm_compute. repeat split; reflexivity. Qed.

(** "... then the run's in-process events, then end-run": the relay of the child's events is
    not part of the lifecycle model; it is the subject of the relay model Relay/Model.v (C10), whose
    plugin log has the start-run call, every delivery (call and completion of the event hooks) and the
    end-run call.  Restated here so that every clause of C12 has its theorem in this file: for every
    event script of the child, every interleaving of the child, the queue, the monitor and slow hooks,
    and an early timeout of the final drain, every delivery lies after the start-run call and before the
    end-run call; calls and completions alternate (one event at a time); once end-run has been called the
    log never changes.  (Assumption `boot = true`, as in C10: the child emits nothing before start-run.) *)
Theorem C12_events_between_start_and_end : forall script ls,
  NL.Relay.Model.bracketed (NL.Relay.Model.log (NL.Relay.Model.run true script ls)) = true /\
  NL.Relay.Model.alternating None (NL.Relay.Model.log (NL.Relay.Model.run true script ls)) = true /\
  (forall l, NL.Relay.Model.main (NL.Relay.Model.run true script ls) = NL.Relay.Model.PEndRun ->
     NL.Relay.Model.log (NL.Relay.Model.run true script (ls ++ [l])) = NL.Relay.Model.log (NL.Relay.Model.run true script ls)).
Proof.
  intros script ls. split; [exact (NL.Relay.Proofs.bracketed_always script ls)|].
  split; [exact (NL.Relay.Proofs.hooks_never_overlap true script ls)|].
  intros l H. exact (NL.Relay.Proofs.nothing_after_end true script ls l H).
Qed.

(** ---- "every way the run ends, including a FAILURE TO START" ----
    Life/FailStart.v interprets the control-flow skeletons of Callback._run/_finish,
    RunSession.run and relay_events, REGENERATED from /repo at every check
    (Gen/CallbackSkeleton.v).  Every await of the run session (entry/exit of a user plugin's
    `run` context, spawn, on_start_run, the process wait, drain, sentinel, the monitor,
    on_end_run, the finish trigger with its on_finished hooks) returns or raises as the oracle
    [o] says ([true] = raises, in execution order); the statements hold for EVERY oracle:
    whichever awaits raise, none, or several (in finally blocks). *)

(** run_arg is set to None before the transition to `finished`, which happens exactly once;
    the event wait()/close() wait for is set after it even when it raises; the run() call
    is always unblocked *)
Theorem C12_run_arg_withdrawn_before_finished : forall o,
  FailStart.run_arg_withdrawn_before_finished (FailStart.trace o) = true.
Proof. exact FailStartProofs.run_arg_withdrawn. Qed.

(** nothing after the transition to `finished` except setting that event: no hook of the run *)
Theorem C12_no_hook_after_finished : forall o,
  FailStart.nothing_after_finished (FailStart.trace o) = true.
Proof. exact FailStartProofs.no_hook_after_finished. Qed.

(** what the code guarantees about on_start_run / on_end_run under failures: on_end_run is
    called iff EVERY earlier await of the session returned (user context entered, process
    spawned, on_start_run, the process wait, drain, sentinel, monitor); on_start_run is called
    iff the user context was entered and the process spawned; each at most once, in this order *)
Theorem C12_end_run_iff_start_run_completed : forall o,
  FailStart.end_run_iff (FailStart.trace o) = true.
Proof. exact FailStartProofs.end_run_iff_all_returned. Qed.

(** a spawned process is awaited provided on_start_run returned ... *)
Theorem C12_process_awaited_partial : forall o,
  FailStart.process_awaited_if_started (FailStart.trace o) = true.
Proof. exact FailStartProofs.process_awaited_partial. Qed.

(** ... and NOT otherwise: when on_start_run raises (third await) the process has been spawned
    and is never awaited (the child is left alive at `finished`; DESIGN 6.1: an observation
    about faulty plugins).  Added hypothesis of the partial statement: on_start_run returned *)
Theorem C12_process_awaited_refuted :
  exists o, FailStart.returned CallbackSkeleton.Spawn (FailStart.trace o) = true /\
            FailStart.called CallbackSkeleton.AwaitProcess (FailStart.trace o) = false /\
            FailStart.run_arg_withdrawn_before_finished (FailStart.trace o) = true.
Proof. exact FailStartProofs.process_awaited_refuted. Qed.

(** the monitor task, once created, is always driven towards its end; it is awaited iff the
    drain and the sentinel put returned *)
Theorem C12_monitor_closed : forall o, FailStart.monitor_closed (FailStart.trace o) = true.
Proof. exact FailStartProofs.monitor_always_closed. Qed.

(** four oracles: no failure; the user plugin's run context raises on entry (before any
    spawn); the process wait raises; the finish trigger (an on_finished hook) raises.
    observation = (hooks seen: 1 on_start_run, 2 on_end_run, 3 on_finished; run_arg None at
    on_finished; run() unblocked; finished-event set) *)
Example C12_failstart_example :
  FailStart.observe [] = ([1; 2; 3], true, true, true)%nat /\
  FailStart.observe [true] = ([3], true, true, true)%nat /\
  FailStart.observe [false; false; false; true] = ([1; 3], true, true, true)%nat /\
  FailStart.observe [false; false; false; false; false; false; false; false; false; true] = ([1; 2; 3], true, true, true)%nat /\
  FailStart.raises [] = false /\ FailStart.raises [true] = true /\
  FailStart.raises [false; false; false; false; false; false; false; false; false; true] = true /\
  length (FailStart.outcomes FailStart.program) = 70%nat.
Proof. vm_compute. repeat split. Qed.

Print Assumptions C12_order.
Print Assumptions C12_run_arg_window.
Print Assumptions C12_complete.
Print Assumptions C12_not_for_refused.
Print Assumptions C12_example_nonvacuous.
Print Assumptions C12_example_automaton_rejects.
Print Assumptions C12_registration.
Print Assumptions C12_registration_example.
Print Assumptions C12_events_between_start_and_end.
Print Assumptions C12_run_arg_withdrawn_before_finished.
Print Assumptions C12_no_hook_after_finished.
Print Assumptions C12_end_run_iff_start_run_completed.
Print Assumptions C12_process_awaited_partial.
Print Assumptions C12_process_awaited_refuted.
Print Assumptions C12_monitor_closed.
Print Assumptions C12_failstart_example.

(** ---- tie of the hook order per transition (session 5): Gen/MachineWiring.v (translate/machine_wiring.py),
    Life/MachineTie.v.  [api_hook_order]: the hooks one trigger calls, oldest first, each with the lifecycle
    state it sees, obtained by running the program DERIVED FROM THE REGENERATED CODE (CONFIG rows, StateMachine
    method set and bodies, Callback bodies; order of the transitions library trusted) on the model state;
    the theorems tie_* of Life/MachineTie.v (Props/C01.v, C03.v) show the model's segments are that program. *)
From NL Require Gen.FsmConfig Life.MachineSyntax Gen.MachineWiring Life.MachineTie.

Theorem C12_tie_machine_hook_order_initialize : forall s t c,
  MachineTie.api_hook_order t c FsmConfig.TInitialize s =
  match st_fsm s with
  | Created => Some [(HStart, Created); (HChangeScript, Created); (HInitRun, Initialized); (HChangeState, Initialized)]
  | _ => None
  end.
Proof. exact MachineTie.hook_order_initialize. Qed.

Theorem C12_tie_machine_hook_order_run : forall s t c,
  MachineTie.api_hook_order t c FsmConfig.TRun s =
  match st_fsm s with Initialized => Some [(HChangeState, Running)] | _ => None end.
Proof. exact MachineTie.hook_order_run. Qed.

Theorem C12_tie_machine_hook_order_reset : forall s t o,
  MachineTie.api_hook_order t (CReset o) FsmConfig.TReset s =
  match st_fsm s with
  | Initialized | Finished =>
    Some ((HReset, st_fsm s) :: (match o_stmt o with Some _ => [(HChangeScript, st_fsm s)] | None => [] end)
          ++ [(HInitRun, Initialized); (HChangeState, Initialized)])
  | _ => None
  end.
Proof. exact MachineTie.hook_order_reset. Qed.

Theorem C12_tie_machine_hook_order_close : forall s t,
  MachineTie.api_hook_order t CClose FsmConfig.TClose s =
  match st_fsm s with
  | Created => Some [(HStart, Created); (HChangeScript, Created); (HClose, Closed); (HChangeState, Closed)]
  | Closed => Some []
  | _ => Some [(HClose, Closed); (HChangeState, Closed)]
  end.
Proof. exact MachineTie.hook_order_close. Qed.

(** the run task (no Continue plugin registered): on_finished sees `finished`, then on_change_state; a refused
    `finish` calls nothing *)
Theorem C12_tie_machine_hook_order_finish : forall s, cont_plugins s = [] ->
  match MachineTie.run_tail (st_fsm s) with Some k => Some (MachineTie.hook_order k s) | None => None end =
  match st_fsm s with
  | Running => Some [(HFinished, Finished); (HChangeState, Finished)]
  | _ => Some []
  end.
Proof. exact MachineTie.hook_order_finish. Qed.

(** the expansion of every accepted trigger down to hooks / waits / assignments, in order *)
From Coq Require Import String.
Local Open Scope string_scope.
Theorem C12_tie_machine_expansion :
  MachineTie.expand Created FsmConfig.TInitialize = Some [MachineTie.UHook "start" MachineTie.kwc; MachineTie.USetState Initialized; MachineTie.UCompose; MachineTie.UHook "on_initialize_run" MachineTie.kwc;
                                      MachineTie.UHook "on_change_state" [("context", MachineTie.VContext); ("state_name", MachineTie.VState)]] /\
  MachineTie.expand Initialized FsmConfig.TRun = Some [MachineTie.USetState Running; MachineTie.UNewRunFinished; MachineTie.UNewStarted; MachineTie.UCreateRunTask; MachineTie.UWaitStarted;
                                  MachineTie.UHook "on_change_state" [("context", MachineTie.VContext); ("state_name", MachineTie.VState)]] /\
  MachineTie.expand Running FsmConfig.TFinish = Some [MachineTie.USetState Finished; MachineTie.UHook "on_finished" MachineTie.kwc;
                                 MachineTie.UHook "on_change_state" [("context", MachineTie.VContext); ("state_name", MachineTie.VState)]] /\
  MachineTie.expand Finished FsmConfig.TReset = Some [MachineTie.UHook "reset" [("context", MachineTie.VContext); ("reset_options", MachineTie.VTrigKwarg "reset_options")];
                                 MachineTie.UAwaitRunTask; MachineTie.USetState Initialized; MachineTie.UCompose; MachineTie.UHook "on_initialize_run" MachineTie.kwc;
                                 MachineTie.UHook "on_change_state" [("context", MachineTie.VContext); ("state_name", MachineTie.VState)]] /\
  MachineTie.expand Initialized FsmConfig.TReset = Some [MachineTie.UHook "reset" [("context", MachineTie.VContext); ("reset_options", MachineTie.VTrigKwarg "reset_options")];
                                 MachineTie.USetState Initialized; MachineTie.UCompose; MachineTie.UHook "on_initialize_run" MachineTie.kwc;
                                 MachineTie.UHook "on_change_state" [("context", MachineTie.VContext); ("state_name", MachineTie.VState)]] /\
  MachineTie.expand Running FsmConfig.TClose = Some [MachineTie.UWaitRunFinished; MachineTie.USetState Closed; MachineTie.UHook "close" MachineTie.kwc;
                                MachineTie.UHook "on_change_state" [("context", MachineTie.VContext); ("state_name", MachineTie.VState)]] /\
  MachineTie.expand Finished FsmConfig.TClose = Some [MachineTie.UAwaitRunTask; MachineTie.USetState Closed; MachineTie.UHook "close" MachineTie.kwc;
                                 MachineTie.UHook "on_change_state" [("context", MachineTie.VContext); ("state_name", MachineTie.VState)]] /\
  MachineTie.expand Initialized FsmConfig.TClose = Some [MachineTie.USetState Closed; MachineTie.UHook "close" MachineTie.kwc;
                                 MachineTie.UHook "on_change_state" [("context", MachineTie.VContext); ("state_name", MachineTie.VState)]] /\
  MachineTie.expand Closed FsmConfig.TClose = Some [].
Proof. exact MachineTie.expand_table. Qed.

(** no construct of the regenerated code is left uninterpreted *)
Theorem C12_tie_machine_expand_total : forall src tr, MachineTie.script src tr <> None -> MachineTie.expand src tr <> None.
Proof. exact MachineTie.expand_total. Qed.

Print Assumptions C12_tie_machine_hook_order_initialize.
Print Assumptions C12_tie_machine_hook_order_run.
Print Assumptions C12_tie_machine_hook_order_reset.
Print Assumptions C12_tie_machine_hook_order_close.
Print Assumptions C12_tie_machine_hook_order_finish.
Print Assumptions C12_tie_machine_expansion.
Print Assumptions C12_tie_machine_expand_total.

(** stage 2: the same with any number of Continue plugins registered (their built-in on_finished, [cont_finished], runs
    inside the on_finished gate, publishes only: no hook, no state change) *)
Theorem C12_tie_machine_hook_order_finish_all : forall s,
  match MachineTie.run_tail (st_fsm s) with Some k => Some (MachineTie.hook_order k s) | None => None end =
  match st_fsm s with
  | Running => Some [(HFinished, Finished); (HChangeState, Finished)]
  | _ => Some []
  end.
Proof. exact MachineTie.hook_order_finish_all. Qed.
Print Assumptions C12_tie_machine_hook_order_finish_all.
