(** C08 -- pub/sub delivers every item to every subscriber once, in order,
    and ends cleanly.  Property theorems only; each is closed by [exact] of a
    lemma proved in PubSub/{Refine,Delivery,Main}.v.

    Model: PubSub/Model.v (queues, indices, cache, sentinels of PubSubItem).
    Spec:  PubSub/Spec.v ([expected] is a function of the history alone).
    All statements quantify over EVERY operation sequence [ops] (every
    interleaving of publishers, subscribers joining/leaving, clear/close). *)
From NL Require Import PubSub.Model PubSub.Spec PubSub.Refine PubSub.Delivery PubSub.Main PubSub.Broker.
Open Scope Z_scope.

(** the implementation model and the 40-line specification produce the same
    outputs, operation by operation *)
Theorem C08_refines_spec : forall cache ops, outs cache ops = aouts cache ops.
Proof. exact refinement. Qed.

(** no loss, no duplication, no reordering; replay as requested *)
Theorem C08_exact_delivery : forall cache ops s,
  let h := history cache ops in
  left_sub h s = false ->
  got h s ++ owed_of (run cache ops) s = expected cache h s.
Proof. exact model_exact_delivery. Qed.

(** a subscriber whose iteration terminated has received everything *)
Theorem C08_complete_when_finished : forall cache ops s sb,
  let h := history cache ops in
  left_sub h s = false ->
  nth_error (i_subs (run cache ops)) s = Some sb -> s_phase sb = Finished ->
  got h s = expected cache h s.
Proof. exact model_complete_when_finished. Qed.

(** after the end of the topic every subscriber's iteration terminates and
    never blocks *)
Theorem C08_termination : forall cache ops s,
  i_closed (run cache ops) = true -> (s < length (i_subs (run cache ops)))%nat ->
  exists n,
    let tail := skipn (length ops) (outs cache (ops ++ repeat (Next s) (S n))) in
    last tail OBlocked = OStop /\ ~ In OBlocked tail.
Proof. exact model_termination. Qed.

(** 'latest' is the most recent item of the current lifetime *)
Theorem C08_latest : forall cache ops,
  snd (step (run cache ops) Latest) =
  match rev (since_clear (history cache ops)) with v :: _ => OLatest (Some v) | [] => OErr end.
Proof. exact model_latest. Qed.

(** all subscribers agree on one order: each one's new items are a suffix of
    the single publication log of the lifetime *)
Theorem C08_one_order : forall cache ops s b af,
  let h := history cache ops in
  split_start h s = Some (b, af) -> has_close b = false ->
  expected cache h s =
    (match sub_opts h s with Some (l, c) => replay cache (since_clear b) l c | None => [] end)
    ++ match sub_opts h s with Some _ => pubs (until_close af) | None => [] end
  /\ exists pre, pubs (until_close h) = pre ++ pubs (until_close af).
Proof. exact model_one_order. Qed.

(** the broker (PubSub): for EVERY sequence of broker operations, every topic lifetime
    (instance) that is no longer bound to a key has been ended, and keys are bound at most once *)
Theorem C08_broker_unbound_is_ended : forall ops,
  NoDup (map fst (b_map (bfinal ops))) /\
  forall i it, nth_error (b_items (bfinal ops)) i = Some it ->
    (exists k, In (k, i) (b_map (bfinal ops))) \/ i_closed it = true.
Proof. exact BInv_reachable. Qed.

(** PubSub.close() ends every lifetime that exists: with C08_termination, every iterator
    handed out before close() terminates *)
Theorem C08_broker_close_ends_everything : forall ops i it,
  nth_error (b_items (bfinal (ops ++ [BClose]))) i = Some it -> i_closed it = true.
Proof. exact close_ends_everything. Qed.

(** non-vacuity: a run with two subscribers (one leaving early), a clear, a
    cache replay and a close, on which the hypotheses hold and the sequences
    are non-trivial *)
Definition ex_ops : list op :=
  [Publish 1; Publish 2; Sub true true; Sub true false; Next 0%nat; Publish 3; Next 1%nat;
   Next 0%nat; Next 0%nat; Leave 1%nat; Publish 4; Close; Next 0%nat; Next 0%nat; Publish 5; Next 0%nat].

Example C08_example_nonvacuous :
  left_sub (history true ex_ops) 0 = false /\
  expected true (history true ex_ops) 0 = [1; 2; 3; 4] /\
  got (history true ex_ops) 0 = [1; 2; 3; 4] /\
  expected true (history true ex_ops) 1 = [3; 4] /\
  got (history true ex_ops) 1 = [3] /\
  i_closed (run true ex_ops) = true.
Proof. vm_compute. repeat split; reflexivity. Qed.

(** ---- tie to the source (translate/pubsub_funs.py -> Gen/PubSubFuns.v) ----
    The method bodies of PubSubItem / PubSub are REGENERATED from /repo on every run as terms of
    PubSub/Syntax.v; PubSub/Interp.v, PubSub/TieBroker.v interpret them ([istep], [ibstep]);
    [abs]/[babs] map the interpreter's state (attributes + one frame per generator: rest of the
    body, locals, queue) onto the model's state; [wf]/[bwf] hold of every reachable state. *)
From NL Require Import PubSub.Syntax Gen.PubSubFuns PubSub.Interp PubSub.Tie PubSub.TieBroker.

(** every operation of a PubSubItem: the regenerated code makes the step of the model *)
Theorem C08_tie_item_ops : forall ps o, wf ps ->
  exists ps', istep ps o = Some (ps', snd (step (abs ps) o)) /\
              abs ps' = fst (step (abs ps) o) /\ wf ps'.
Proof. exact tie_step. Qed.

(** `await self._enumerate(e)`: stamps, caches and distributes to every registered queue *)
Theorem C08_tie_enumerate : forall ps e, wf ps ->
  exists ps', enum_sem ps (VEnt (Some e)) = Some ps' /\ abs ps' = enumerate (abs ps) e /\ wf ps'
              /\ p_closed ps' = p_closed ps /\ p_last_item ps' = p_last_item ps.
Proof. exact enum_spec. Qed.

Theorem C08_tie_publish : forall ps v, wf ps -> tied ps (Publish v).
Proof. exact tie_publish. Qed.

Theorem C08_tie_clear : forall ps, wf ps -> tied ps Clear.
Proof. exact tie_clear. Qed.

Theorem C08_tie_aclose : forall ps, wf ps -> tied ps Close.
Proof. exact tie_close. Qed.

Theorem C08_tie_latest : forall ps, wf ps -> tied ps Latest.
Proof. exact tie_latest. Qed.

(** the call `subscribe(last=l, cache=c)` runs nothing of the body (async generator) *)
Theorem C08_tie_subscribe_call : forall ps l c, wf ps -> tied ps (Sub l c).
Proof. exact tie_sub. Qed.

(** the DEFAULTS of the regenerated signature are load-bearing: `subscribe()` with arguments omitted
    (any subset, keyword or positional) is the model's [Sub] with `last=True`, `cache=True` *)
Theorem C08_tie_subscribe_defaults : forall ps,
  isub_call ps [] [] = isub ps true true /\
  (forall l, isub_call ps [] [("last"%string, VBool l)] = isub ps l true) /\
  (forall c, isub_call ps [] [("cache"%string, VBool c)] = isub ps true c) /\
  (forall l, isub_call ps [VBool l] [] = isub ps l true) /\
  (forall l c, isub_call ps [VBool l; VBool c] [] = isub ps l c).
Proof. exact isub_defaults. Qed.

Theorem C08_tie_subscribe_no_arguments : forall ps, wf ps ->
  exists ps', isub_call ps [] [] = Some (ps', snd (step (abs ps) (Sub true true))) /\
              abs ps' = fst (step (abs ps) (Sub true true)) /\ wf ps'.
Proof. exact tie_sub_defaults. Qed.

(** the first `__anext__`: snapshot, `_END` check, queue registration, then replay / last / queue *)
Theorem C08_tie_first_next : forall ps s g,
  wf ps -> nth_error (p_gens ps) s = Some g -> g_status g = GFresh -> tied ps (Next s).
Proof. exact tie_next_fresh. Qed.

(** a later `__anext__`, from each of the four places the body can be suspended at *)
Theorem C08_tie_later_next : forall ps s g k,
  wf ps -> nth_error (p_gens ps) s = Some g -> g_status g = GSusp k -> tied ps (Next s).
Proof. exact tie_next_susp. Qed.

(** the queue loop of the regenerated body is [read_queue] of the model *)
Theorem C08_tie_queue_loop : forall s F li qu n ps en g,
  nth_error (p_gens ps) s = Some g -> g_queue g = qu ->
  en "q"%string = VQueue s -> en "last_idx"%string = VInt li -> (length qu < n)%nat ->
  exists en', agree en en' /\
    while_loop (exec enum_sem s F sub_wbody) sub_wbody n ps en =
    match read_queue li qu with
    | (q', OItem v, _) => RYield (VEnt (Some (It v))) (SWhileRun SSkip sub_wbody) (put_gen ps s (gen_set_queue g q')) en'
    | (q', OStop, _) => RRet VNone (put_gen ps s (gen_set_queue g q')) en'
    | (q', _, _) => RBlock (SWhileRun sub_wbody sub_wbody) (put_gen ps s (gen_set_queue g q')) en'
    end.
Proof. exact while_spec. Qed.

(** leaving early: `aclose()` of the generator, or cancellation of a pending `__anext__` (GeneratorExit /
    CancelledError raised AT the suspension point): the `finally` clause runs from EACH of the four places the
    protected body can be suspended at (the three `yield`s and `await q.get()`) and removes the queue.
    NOT modelled (excluded, see TRUSTED_BASE): `athrow()` of another exception into the generator, a second
    `__anext__` while one is running, finalisation by the garbage collector; the user item's own
    `__bool__`/`__eq__` never matters (only `is` and integer comparisons occur). *)
Theorem C08_tie_leave : forall ps s, wf ps -> tied ps (Leave s).
Proof. exact tie_leave. Qed.

(** `PubSubItem(cache=c)` *)
Theorem C08_tie_init : forall cache,
  exists ps, iinit [("cache"%string, VBool cache)] = Some ps /\ abs ps = new_item cache /\ wf ps.
Proof. exact tie_init. Qed.

(** for EVERY history the regenerated code of PubSubItem produces the outputs of the model ... *)
Theorem C08_tie_item_histories : forall cache ops, iouts cache ops = Some (outs cache ops).
Proof. exact tie_outs. Qed.

(** ... hence (C08_refines_spec) the outputs of the specification: every theorem above about
    [outs] is a theorem about the regenerated code *)
Theorem C08_tie_item_refines_spec : forall cache ops, iouts cache ops = Some (aouts cache ops).
Proof. exact tie_refines_spec. Qed.

(** every operation of the broker PubSub (publish / end / close / latest / subscribe, and
    next / leave on the generators it handed out) *)
Theorem C08_tie_broker_ops : forall ib o, bwf ib ->
  exists ib', ibstep ib o = Some (ib', snd (bstep (babs ib) o)) /\
              babs ib' = fst (bstep (babs ib) o) /\ bwf ib'.
Proof. exact btie_step. Qed.

Theorem C08_tie_broker_publish : forall ib k v, bwf ib -> btied ib (BPublish k v).
Proof. exact btie_publish. Qed.

(** `subscribe(key)` looks the item up AT THE CALL *)
Theorem C08_tie_broker_subscribe : forall ib k l, bwf ib -> btied ib (BSub k l).
Proof. exact btie_sub. Qed.

(** `subscribe(key)` with `last` omitted = the model's `BSub key true` (default of `last` in the broker's
    signature, default of `cache` in the item's) *)
Theorem C08_tie_broker_subscribe_default : forall ib k, bwf ib ->
  exists ib', ibsub ib k [] = Some (ib', snd (bstep (babs ib) (BSub k true))) /\
              babs ib' = fst (bstep (babs ib) (BSub k true)) /\ bwf ib'.
Proof. exact btie_sub_default. Qed.

(** `end(key)`: pop, then aclose of the popped item *)
Theorem C08_tie_broker_end : forall ib k, bwf ib -> btied ib (BEnd k).
Proof. exact btie_end. Qed.

(** `close()`: popitem + aclose until the dict is empty *)
Theorem C08_tie_broker_close : forall ib, bwf ib -> btied ib BClose.
Proof. exact btie_close. Qed.

Theorem C08_tie_broker_histories : forall ops, ibouts ops = Some (bouts ops).
Proof. exact btie_outs. Qed.

(** non-vacuity of the tie: the interpreter really runs the regenerated bodies (it is not stuck)
    on the example history, through replay, last item, queue loop, early leave and end *)
Example C08_example_tie_nonvacuous :
  iouts true ex_ops =
  Some [OUnit; OUnit; OSid 0; OSid 1; OItem 1; OUnit; OItem 3; OItem 2; OItem 3; OUnit; OUnit; OUnit;
        OItem 4; OStop; OErr; OStop].
Proof. vm_compute. reflexivity. Qed.

Print Assumptions C08_refines_spec.
Print Assumptions C08_exact_delivery.
Print Assumptions C08_complete_when_finished.
Print Assumptions C08_termination.
Print Assumptions C08_latest.
Print Assumptions C08_one_order.
Print Assumptions C08_broker_unbound_is_ended.
Print Assumptions C08_broker_close_ends_everything.
Print Assumptions C08_tie_item_ops.
Print Assumptions C08_tie_enumerate.
Print Assumptions C08_tie_publish.
Print Assumptions C08_tie_clear.
Print Assumptions C08_tie_aclose.
Print Assumptions C08_tie_latest.
Print Assumptions C08_tie_subscribe_call.
Print Assumptions C08_tie_subscribe_defaults.
Print Assumptions C08_tie_subscribe_no_arguments.
Print Assumptions C08_tie_broker_subscribe_default.
Print Assumptions C08_tie_first_next.
Print Assumptions C08_tie_later_next.
Print Assumptions C08_tie_queue_loop.
Print Assumptions C08_tie_leave.
Print Assumptions C08_tie_init.
Print Assumptions C08_tie_item_histories.
Print Assumptions C08_tie_item_refines_spec.
Print Assumptions C08_tie_broker_ops.
Print Assumptions C08_tie_broker_publish.
Print Assumptions C08_tie_broker_subscribe.
Print Assumptions C08_tie_broker_end.
Print Assumptions C08_tie_broker_close.
Print Assumptions C08_tie_broker_histories.
