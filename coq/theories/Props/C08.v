(** C08 -- pub/sub delivers every item to every subscriber once, in order,
    and ends cleanly.  Property theorems only; each is closed by [exact] of a
    lemma proved in PubSub/{Refine,Delivery,Main}.v.

    Model: PubSub/Model.v (queues, indices, cache, sentinels of PubSubItem).
    Spec:  PubSub/Spec.v ([expected] is a function of the history alone).
    All statements quantify over EVERY operation sequence [ops] (every
    interleaving of publishers, subscribers joining/leaving, clear/close). *)
From NL Require Import PubSub.Model PubSub.Spec PubSub.Refine PubSub.Delivery PubSub.Main PubSub.Broker.
Open Scope Z_scope.

(** the implementation model and the 40-line specification produce the same
    outputs, operation by operation *)
Theorem C08_refines_spec : forall cache ops, outs cache ops = aouts cache ops.
Proof. exact refinement. Qed.

(** no loss, no duplication, no reordering; replay as requested *)
Theorem C08_exact_delivery : forall cache ops s,
  let h := history cache ops in
  left_sub h s = false ->
  got h s ++ owed_of (run cache ops) s = expected cache h s.
Proof. exact model_exact_delivery. Qed.

(** a subscriber whose iteration terminated has received everything *)
Theorem C08_complete_when_finished : forall cache ops s sb,
  let h := history cache ops in
  left_sub h s = false ->
  nth_error (i_subs (run cache ops)) s = Some sb -> s_phase sb = Finished ->
  got h s = expected cache h s.
Proof. exact model_complete_when_finished. Qed.

(** after the end of the topic every subscriber's iteration terminates and
    never blocks *)
Theorem C08_termination : forall cache ops s,
  i_closed (run cache ops) = true -> (s < length (i_subs (run cache ops)))%nat ->
  exists n,
    let tail := skipn (length ops) (outs cache (ops ++ repeat (Next s) (S n))) in
    last tail OBlocked = OStop /\ ~ In OBlocked tail.
Proof. exact model_termination. Qed.

(** 'latest' is the most recent item of the current lifetime *)
Theorem C08_latest : forall cache ops,
  snd (step (run cache ops) Latest) =
  match rev (since_clear (history cache ops)) with v :: _ => OLatest (Some v) | [] => OErr end.
Proof. exact model_latest. Qed.

(** all subscribers agree on one order: each one's new items are a suffix of
    the single publication log of the lifetime *)
Theorem C08_one_order : forall cache ops s b af,
  let h := history cache ops in
  split_start h s = Some (b, af) -> has_close b = false ->
  expected cache h s =
    (match sub_opts h s with Some (l, c) => replay cache (since_clear b) l c | None => [] end)
    ++ match sub_opts h s with Some _ => pubs (until_close af) | None => [] end
  /\ exists pre, pubs (until_close h) = pre ++ pubs (until_close af).
Proof. exact model_one_order. Qed.

(** the broker (PubSub): for EVERY sequence of broker operations, every topic lifetime
    (instance) that is no longer bound to a key has been ended, and keys are bound at most once *)
Theorem C08_broker_unbound_is_ended : forall ops,
  NoDup (map fst (b_map (bfinal ops))) /\
  forall i it, nth_error (b_items (bfinal ops)) i = Some it ->
    (exists k, In (k, i) (b_map (bfinal ops))) \/ i_closed it = true.
Proof. exact BInv_reachable. Qed.

(** PubSub.close() ends every lifetime that exists: with C08_termination, every iterator
    handed out before close() terminates *)
Theorem C08_broker_close_ends_everything : forall ops i it,
  nth_error (b_items (bfinal (ops ++ [BClose]))) i = Some it -> i_closed it = true.
Proof. exact close_ends_everything. Qed.

(** non-vacuity: a run with two subscribers (one leaving early), a clear, a
    cache replay and a close, on which the hypotheses hold and the sequences
    are non-trivial *)
Definition ex_ops : list op :=
  [Publish 1; Publish 2; Sub true true; Sub true false; Next 0%nat; Publish 3; Next 1%nat;
   Next 0%nat; Next 0%nat; Leave 1%nat; Publish 4; Close; Next 0%nat; Next 0%nat; Publish 5; Next 0%nat].

Example C08_example_nonvacuous :
  left_sub (history true ex_ops) 0 = false /\
  expected true (history true ex_ops) 0 = [1; 2; 3; 4] /\
  got (history true ex_ops) 0 = [1; 2; 3; 4] /\
  expected true (history true ex_ops) 1 = [3; 4] /\
  got (history true ex_ops) 1 = [3] /\
  i_closed (run true ex_ops) = true.
Proof. vm_compute. repeat split; reflexivity. Qed.

Print Assumptions C08_refines_spec.
Print Assumptions C08_exact_delivery.
Print Assumptions C08_complete_when_finished.
Print Assumptions C08_termination.
Print Assumptions C08_latest.
Print Assumptions C08_one_order.
Print Assumptions C08_broker_unbound_is_ended.
Print Assumptions C08_broker_close_ends_everything.
