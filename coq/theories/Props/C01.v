(** C01 -- the lifecycle state only moves along the documented state diagram.

    Spec (written by hand, independent of the code): [edge] in Life/Hist.v --
    created->initialized, initialized->running, running->finished,
    initialized|finished->initialized (reset), any->closed, closed never left.
    Table: Gen/FsmConfig.v, REGENERATED from nextline/fsm/config.py on every run.
    Model: Life/Model.v; "for every history and schedule" = for every label list. *)
From NL Require Import Life.Model Life.LockInv Life.FsmInv Life.Hist Life.Single Life.FsmMoves Life.Table Life.StatePubs Gen.FsmConfig.

(** the configured transition table is exactly the documented diagram *)
Theorem C01_table_sound : forall tr a d b, In (tr, a, d, b) table ->
  match d with Some x => edge a x | None => a = Closed /\ tr = TClose end.
Proof. exact table_sound. Qed.

Theorem C01_table_complete : forall a b, edge a b ->
  (exists tr bf, In (tr, a, Some b, bf) table) \/ (a = Closed /\ b = Closed /\ lookup TClose Closed = Some (None, BNone)).
Proof. exact table_complete. Qed.

(** the model accepts a trigger exactly where the table has an entry, moves to the table's
    destination, and an invalid trigger is an error (`ignore_invalid_triggers`, `queued` off) *)
Theorem C01_model_follows_table :
  (forall f, accepts TRun f = true <-> f = Initialized) /\
  (forall f, accepts TReset f = true <-> f = Initialized \/ f = Finished) /\
  (forall f, accepts TInitialize f = true <-> f = Created) /\
  (forall f, accepts TFinish f = true <-> f = Running) /\
  (forall f, accepts TClose f = true) /\
  lookup TRun Initialized = Some (Some Running, BNone) /\
  lookup TReset Initialized = Some (Some Initialized, BReset) /\
  lookup TReset Finished = Some (Some Initialized, BReset) /\
  lookup TInitialize Created = Some (Some Initialized, BNone) /\
  lookup TFinish Running = Some (Some Finished, BNone) /\
  lookup TClose Created = Some (Some Closed, BNone) /\
  lookup TClose Initialized = Some (Some Closed, BNone) /\
  lookup TClose Finished = Some (Some Closed, BNone) /\
  lookup TClose Running = Some (Some Closed, BCloseWhileRunning) /\
  lookup TClose Closed = Some (None, BNone) /\
  initial = Created /\ queued = false /\ ignore_invalid_triggers = false.
Proof.
  exact (conj accepts_run (conj accepts_reset (conj accepts_initialize (conj accepts_finish (conj accepts_close dests))))).
Qed.

(** the state attribute: in EVERY reachable state, whatever happens next (any call from any
    task, any task resuming at any suspension point, the run completing, the child exiting),
    the state stays or moves along an edge of the diagram *)
Theorem C01_state_attr : forall stmt start th md ls l,
  let s := run_labels (init_state stmt start th md) ls in
  st_fsm (step s l) = st_fsm s \/ edge (st_fsm s) (st_fsm (step s l)).
Proof. exact state_attr_edges. Qed.

(** 'closed' is never left *)
Theorem C01_closed_absorbing : forall stmt start th md ls l,
  let s := run_labels (init_state stmt start th md) ls in
  st_fsm s = Closed -> st_fsm (step s l) = Closed.
Proof. exact closed_absorbing. Qed.

(** the state subscription: for every history and schedule, what `subscribe_state()` yields
    starts at 'initialized' and every two consecutive values are equal or an edge of the diagram
    (assumption F of the model is what keeps the run's completion from overtaking 'running') *)
Theorem C01_subscription : forall stmt start th md ls,
  let s := run_labels (init_state stmt start th md) ls in
  path_from_initialized (states_of (pubs_of (history s))).
Proof. exact state_pubs_path. Qed.

(** a run request that the state does not allow is refused ... *)
Theorem C01_invalid_run_refused : forall s t c part2,
  runlike c = true -> st_fsm s <> Initialized -> enter s t c part2 = refuse s t c.
Proof. exact second_run_refused. Qed.

(** ... so is a reset ... *)
Theorem C01_invalid_reset_refused : forall s t o,
  st_fsm s <> Initialized -> st_fsm s <> Finished -> enter s t (CReset o) false = refuse s t (CReset o).
Proof. exact no_reset_during_run. Qed.

(** ... with an error, and it changes nothing (state, run task, run arguments, script,
    numbering, child, hooks) except the record of the call itself *)
Theorem C01_refused_changes_nothing : forall s t c,
  st_fsm (refuse s t c) = st_fsm s /\ runt (refuse s t c) = runt s /\ run_finished (refuse s t c) = run_finished s
  /\ run_arg (refuse s t c) = run_arg s /\ alive (refuse s t c) = alive s /\ pending_exit (refuse s t c) = pending_exit s
  /\ c_stmt (refuse s t c) = c_stmt s /\ c_next (refuse s t c) = c_next s
  /\ c_threads (refuse s t c) = c_threads s /\ c_modules (refuse s t c) = c_modules s
  /\ (exists r, hd_error (trace (refuse s t c)) = Some (EvRet t c r) /\ r <> ROk)
  /\ hooks_of (trace (refuse s t c)) = hooks_of (trace s).
Proof. exact refuse_effect. Qed.

(** non-vacuity: a history through every state, with refused requests on the way *)
Example C01_example_nonvacuous :
  let ls := [Call 1 CRun; Call 1 CStart; Step 1; Step 1; Step 1; Call 2 (CReset (mkOpts None None None None)); Step 2; Step 2; Step 2;
             Call 1 CRun; StepRun; StepRun; StepRun; Step 1; Step 1; Call 3 CRun; ChildExit OReturn; StepRun; StepRun; StepRun; StepRun;
             Call 2 (CReset (mkOpts (Some 2%Z) None None None)); Step 2; Step 2; Step 2; Step 2; Step 2; Call 1 CClose; Step 1; Step 1; Call 2 CRun] in
  let s := run_labels (init_state 1 1 false false) ls in
  states_of (pubs_of (history s)) = [Initialized; Initialized; Running; Finished; Initialized; Closed]
  /\ st_fsm s = Closed
  /\ length (filter (fun e => match e with EvRet _ _ RMachineError => true | _ => false end) (trace s)) = 3%nat.
Proof. vm_compute. repeat split; reflexivity. Qed.

Print Assumptions C01_table_sound.
Print Assumptions C01_table_complete.
Print Assumptions C01_model_follows_table.
Print Assumptions C01_state_attr.
Print Assumptions C01_closed_absorbing.
Print Assumptions C01_subscription.
Print Assumptions C01_invalid_run_refused.
Print Assumptions C01_invalid_reset_refused.
Print Assumptions C01_refused_changes_nothing.
