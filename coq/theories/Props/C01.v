(** C01 -- the lifecycle state only moves along the documented state diagram.

    Spec (written by hand, independent of the code): [edge] in Life/Hist.v --
    created->initialized, initialized->running, running->finished,
    initialized|finished->initialized (reset), any->closed, closed never left.
    Table: Gen/FsmConfig.v, REGENERATED from nextline/fsm/config.py on every run.
    Model: Life/Model.v; "for every history and schedule" = for every label list. *)
From NL Require Import Life.Close Life.Protocol Life.Refusal.
From NL Require Import Life.Model Life.LockInv Life.FsmInv Life.Hist Life.Single Life.FsmMoves Life.Table Life.StatePubs Gen.FsmConfig.

(** the configured transition table is exactly the documented diagram *)
Theorem C01_table_sound : forall tr a d b, In (tr, a, d, b) table ->
  match d with Some x => edge a x | None => a = Closed /\ tr = TClose end.
Proof. exact table_sound. Qed.

Theorem C01_table_complete : forall a b, edge a b ->
  (exists tr bf, In (tr, a, Some b, bf) table) \/ (a = Closed /\ b = Closed /\ lookup TClose Closed = Some (None, BNone)).
Proof. exact table_complete. Qed.

(** the model accepts a trigger exactly where the table has an entry, moves to the table's
    destination, and an invalid trigger is an error (`ignore_invalid_triggers`, `queued` off) *)
Theorem C01_model_follows_table :
  (forall f, accepts TRun f = true <-> f = Initialized) /\
  (forall f, accepts TReset f = true <-> f = Initialized \/ f = Finished) /\
  (forall f, accepts TInitialize f = true <-> f = Created) /\
  (forall f, accepts TFinish f = true <-> f = Running) /\
  (forall f, accepts TClose f = true) /\
  lookup TRun Initialized = Some (Some Running, BNone) /\
  lookup TReset Initialized = Some (Some Initialized, BReset) /\
  lookup TReset Finished = Some (Some Initialized, BReset) /\
  lookup TInitialize Created = Some (Some Initialized, BNone) /\
  lookup TFinish Running = Some (Some Finished, BNone) /\
  lookup TClose Created = Some (Some Closed, BNone) /\
  lookup TClose Initialized = Some (Some Closed, BNone) /\
  lookup TClose Finished = Some (Some Closed, BNone) /\
  lookup TClose Running = Some (Some Closed, BCloseWhileRunning) /\
  lookup TClose Closed = Some (None, BNone) /\
  initial = Created /\ queued = false /\ ignore_invalid_triggers = false.
Proof.
  exact (conj accepts_run (conj accepts_reset (conj accepts_initialize (conj accepts_finish (conj accepts_close dests))))).
Qed.

(** the state attribute: in EVERY reachable state, whatever happens next (any call from any
    task, any task resuming at any suspension point, the run completing, the child exiting),
    the state stays or moves along an edge of the diagram *)
Theorem C01_state_attr : forall stmt start th md ls l,
  let s := run_labels (init_state stmt start th md) ls in
  st_fsm (step s l) = st_fsm s \/ edge (st_fsm s) (st_fsm (step s l)).
Proof. exact state_attr_edges. Qed.

(** 'closed' is never left *)
Theorem C01_closed_absorbing : forall stmt start th md ls l,
  let s := run_labels (init_state stmt start th md) ls in
  st_fsm s = Closed -> st_fsm (step s l) = Closed.
Proof. exact closed_absorbing. Qed.

(** the state subscription: for every history and schedule, what `subscribe_state()` yields
    starts at 'initialized' and every two consecutive values are equal or an edge of the diagram
    (assumption F of the model is what keeps the run's completion from overtaking 'running') *)
Theorem C01_subscription : forall stmt start th md ls,
  let s := run_labels (init_state stmt start th md) ls in
  path_from_initialized (states_of (pubs_of (history s))).
Proof. exact state_pubs_path. Qed.

(** a run request that the state does not allow is refused ... *)
Theorem C01_invalid_run_refused : forall s t c part2,
  runlike c = true -> st_fsm s <> Initialized -> enter s t c part2 = refuse s t c.
Proof. exact second_run_refused. Qed.

(** ... so is a reset ... *)
Theorem C01_invalid_reset_refused : forall s t o,
  st_fsm s <> Initialized -> st_fsm s <> Finished -> enter s t (CReset o) false = refuse s t (CReset o).
Proof. exact no_reset_during_run. Qed.

(** ... with an error, and it changes nothing (state, run task, run arguments, script,
    numbering, child, hooks) except the record of the call itself *)
Theorem C01_refused_changes_nothing : forall s t c,
  st_fsm (refuse s t c) = st_fsm s /\ runt (refuse s t c) = runt s /\ run_finished (refuse s t c) = run_finished s
  /\ run_arg (refuse s t c) = run_arg s /\ alive (refuse s t c) = alive s /\ pending_exit (refuse s t c) = pending_exit s
  /\ c_stmt (refuse s t c) = c_stmt s /\ c_next (refuse s t c) = c_next s
  /\ c_threads (refuse s t c) = c_threads s /\ c_modules (refuse s t c) = c_modules s
  /\ (exists r, hd_error (trace (refuse s t c)) = Some (EvRet t c r) /\ r <> ROk)
  /\ hooks_of (trace (refuse s t c)) = hooks_of (trace s).
Proof. exact refuse_effect. Qed.

(** ---- refusal stated on HISTORIES (Life/Refusal.v) ----
    A request is judged when it gets the lifecycle lock: at its own [Step] when it had to
    queue (pc [Granted1]), inside its [Call] label when the lock was free. *)

(** a step that appends `EvRet t c MachineError`, in any reachable state: it is the request's
    own label; it appends exactly that return (after the call record when judged inside [Call];
    for a continuous request also the re-publication of the flag); the state did not allow the
    request; and NOTHING else changes -- state, run task, run arguments, child, result, script
    and numbering, every flag, the hook log -- except the lock hand-over, the task table entry
    of the call and, for a continuous request, its own (never started) registration *)
Theorem C01_refused_on_history : forall stmt start th md ls l t c,
  let s := run_labels (init_state stmt start th md) ls in
  let s' := step s l in
  let r := EvRet t c RMachineError in
  In r (appended s s') ->
  ((l = Step t /\ holder s = Some t /\ find_task (tasks s) t = Some (c, Granted1) /\
    (appended s s' = [r] \/ (is_cont c = true /\ exists b, appended s s' = [EvPub (PCont b); r])) /\
    holder s' = rel_holder (lockq s) /\ lockq s' = tl (lockq s) /\
    tasks s' = remove_task (rel_tasks (lockq s) (tasks s)) t)
   \/
   (l = Call t c /\ holder s = None /\ lockq s = [] /\ find_task (tasks s) t = None /\
    ((is_cont c = false /\ appended s s' = [EvCall t c; r]) \/
     (is_cont c = true /\ exists b, appended s s' = [EvCall t c; EvPub (PCont true); EvPub (PCont b); r])) /\
    holder s' = None /\ lockq s' = [] /\ tasks s' = tasks s))
  /\ disallowed c false (st_fsm s)
  /\ (st_fsm s' = st_fsm s /\ runt s' = runt s /\ run_finished s' = run_finished s /\ alive s' = alive s /\
      pending_exit s' = pending_exit s /\ run_arg s' = run_arg s /\ exited_proc s' = exited_proc s /\
      started_ev s' = started_ev s /\
      c_stmt s' = c_stmt s /\ c_next s' = c_next s /\ c_threads s' = c_threads s /\ c_modules s' = c_modules s /\
      nl_started s' = nl_started s /\ nl_closed s' = nl_closed s /\ run_owner s' = run_owner s /\
      run_cont s' = run_cont s /\ running_process s' = running_process s /\ send_command s' = send_command s /\
      cont_closed s' = cont_closed s)
  /\ cont_plugins s' = (if is_cont c then filter (unreg t) (cont_plugins s) else cont_plugins s)
  /\ hooks_of (history s') = hooks_of (history s).
Proof. exact Refusal.all_refused_on_history. Qed.

(** WHEN: a run request (run, run_and_continue, run_continue_and_wait, run_session) that has
    the lock ends in MachineError at its next step iff the state is not 'initialized' (so also
    after close); otherwise it becomes the run in progress *)
Theorem C01_error_iff_state_disallows : forall stmt start th md ls t c,
  let s := run_labels (init_state stmt start th md) ls in
  runlike c = true -> find_task (tasks s) t = Some (c, Granted1) ->
  let s' := step s (Step t) in
  holder s = Some t /\
  (In (EvRet t c RMachineError) (appended s s') <-> st_fsm s <> Initialized) /\
  (st_fsm s = Initialized ->
   st_fsm s' = Running /\ runt s' = Some RT_New /\ run_finished s' = Some false /\ run_owner s' = t /\
   find_task (tasks s') t = Some (c, R_WaitStarted) /\ trace s' = trace s).
Proof. exact Refusal.all_run_error_iff. Qed.

(** a reset that has the lock ends in MachineError iff the state is neither 'initialized' nor
    'finished'; otherwise it proceeds (to its first gates) *)
Theorem C01_reset_error_iff_state_disallows : forall stmt start th md ls t o,
  let s := run_labels (init_state stmt start th md) ls in
  find_task (tasks s) t = Some (CReset o, Granted1) ->
  let s' := step s (Step t) in
  holder s = Some t /\
  (In (EvRet t (CReset o) RMachineError) (appended s s') <-> (st_fsm s <> Initialized /\ st_fsm s <> Finished)) /\
  (st_fsm s = Initialized \/ st_fsm s = Finished ->
   st_fsm s' = st_fsm s /\ runt s' = runt s /\
   exists p, (p = Z_G1 \/ p = Z_G1b) /\ find_task (tasks s') t = Some (CReset o, p)).
Proof. exact Refusal.all_reset_error_iff. Qed.

(** the same when the lock is free and the request is judged inside its [Call] label
    ([disallowed c false f] is `f <> Initialized` for a run request and
    `f <> Initialized /\ f <> Finished` for a reset); with the lock busy it only queues *)
Theorem C01_error_iff_state_disallows_call : forall stmt start th md ls t c,
  let s := run_labels (init_state stmt start th md) ls in
  find_task (tasks s) t = None -> (runlike c = true \/ exists o, c = CReset o) ->
  (is_cont c = true -> cont_closed s = false) ->
  let s' := step s (Call t c) in
  (holder s = None -> lockq s = [] ->
   (In (EvRet t c RMachineError) (appended s s') <-> disallowed c false (st_fsm s)) /\
   (~ disallowed c false (st_fsm s) ->
    match c with
    | CReset o => st_fsm s' = st_fsm s /\ runt s' = runt s /\
                  exists p, (p = Z_G1 \/ p = Z_G1b) /\ find_task (tasks s') t = Some (c, p)
    | _ => st_fsm s' = Running /\ runt s' = Some RT_New /\ run_finished s' = Some false /\ run_owner s' = t /\
           find_task (tasks s') t = Some (c, R_WaitStarted)
    end)) /\
  (holder s <> None \/ lockq s <> [] ->
   find_task (tasks s') t = Some (c, WaitLock1) /\
   forall t0 c0 r, ~ In (EvRet t0 c0 r) (appended s s')).
Proof. exact Refusal.all_direct_error_iff. Qed.

(** a refused request in the middle of a history (run_and_continue that queued behind run()
    and gets its turn while the child is running), refused requests judged inside [Call], and
    an accepted one (the run() of task 1, accepted inside its [Call] in state 'initialized') *)
Example C01_example_refusal_nonvacuous :
  let s := refusal_state in
  st_fsm s = Running /\ runt s = Some RT_WaitChild /\ find_task (tasks s) 2%nat = Some (CRunCont, Granted1)
  /\ appended s (step s (Step 2%nat)) = [EvPub (PCont false); EvRet 2%nat CRunCont RMachineError]
  /\ (let s2 := step s (Step 2%nat) in
      appended s2 (step s2 (Call 3%nat CRun)) = [EvCall 3%nat CRun; EvRet 3%nat CRun RMachineError]
      /\ appended s2 (step s2 (Call 3%nat CRunCont))
         = [EvCall 3%nat CRunCont; EvPub (PCont true); EvPub (PCont false); EvRet 3%nat CRunCont RMachineError])
  /\ (let s0 := run_labels (init_state 7 1 false false) (firstn 4 refusal_labels) in
      st_fsm s0 = Initialized /\
      find_task (tasks (step s0 (Call 1%nat CRun))) 1%nat = Some (CRun, R_WaitStarted) /\
      st_fsm (step s0 (Call 1%nat CRun)) = Running).
Proof. vm_compute. repeat split; reflexivity. Qed.

(** non-vacuity: a history through every state, with refused requests on the way *)
Example C01_example_nonvacuous :
  let ls := [Call 1 CRun; Call 1 CStart; Step 1; Step 1; Step 1; Call 2 (CReset (mkOpts None None None None)); Step 2; Step 2; Step 2;
             Call 1 CRun; StepRun; StepRun; StepRun; Step 1; Step 1; Call 3 CRun; ChildExit OReturn; StepRun; StepRun; StepRun; StepRun;
             Call 2 (CReset (mkOpts (Some 2%Z) None None None)); Step 2; Step 2; Step 2; Step 2; Step 2; Call 1 CClose; Step 1; Step 1; Call 2 CRun] in
  let s := run_labels (init_state 1 1 false false) ls in
  states_of (pubs_of (history s)) = [Initialized; Initialized; Running; Finished; Initialized; Closed]
  /\ st_fsm s = Closed
  /\ length (filter (fun e => match e with EvRet _ _ RMachineError => true | _ => false end) (trace s)) = 3%nat.
Proof. vm_compute. repeat split; reflexivity. Qed.

Print Assumptions C01_table_sound.
Print Assumptions C01_table_complete.
Print Assumptions C01_model_follows_table.
Print Assumptions C01_state_attr.
Print Assumptions C01_closed_absorbing.
Print Assumptions C01_subscription.
Print Assumptions C01_invalid_run_refused.
Print Assumptions C01_invalid_reset_refused.
Print Assumptions C01_refused_changes_nothing.
Print Assumptions C01_refused_on_history.
Print Assumptions C01_error_iff_state_disallows.
Print Assumptions C01_reset_error_iff_state_disallows.
Print Assumptions C01_error_iff_state_disallows_call.
Print Assumptions C01_example_refusal_nonvacuous.

(** ---- tie of the serialised transitions of the model to nextline/imp.py + nextline/main.py ----
    Gen/ImpSkeleton.v is REGENERATED from the source by translate/imp_skeleton.py at every check;
    Life/ImpTie.v interprets it ([exec]: an oracle decides at every await whether it raises and
    the value of every untracked condition).  All statements are for every oracle. *)
From Coq Require Import String.
From NL Require Import Life.ImpSyntax Gen.ImpSkeleton Life.ImpTie.

(** no transition is triggered BY A METHOD OF Imp / Nextline outside the lock (so no API request can
    cancel another half way); the run task's own `finish` trigger (fsm/callback.py) is outside the
    lock by design and not covered here; the lock is free at the end of every path *)
Theorem C01_tie_lock_discipline : forall ob m, In m (names ob) -> forall st cl o,
  let x := exec ob m st cl o in
  res_of x <> RBad /\ lock_ok false (trace_of x) = true /\ lk_held (cfg_of x) = false.
Proof. exact lock_discipline. Qed.

(** each API call fires the trigger whose transition the model puts it in *)
Theorem C01_tie_call_trigger : forall c m, In m (nl_methods_of c) ->
  code_first_trigger true false m = model_first_trigger st_initialized c /\
  (c = CStart \/ c = CClose -> code_first_trigger false false m = model_first_trigger st_created c).
Proof. exact call_trigger_agrees. Qed.

(** the tests and assignments of `_started` / `_closed` are in one atomic segment ([do_call]) *)
Theorem C01_tie_flags_atomic : forall m, In m (names ONextline) -> forall st cl o,
  sets_atomic false (trace_of (exec ONextline m st cl o)) = true.
Proof. exact flags_set_atomically. Qed.

(** a second start() returns at the `_started` guard *)
Theorem C01_tie_second_start_does_nothing : forall cl o,
  exec ONextline "start"%string true cl o =
    (RNorm, mkCfg true cl false, [EEnter ONextline "start"%string; EGuard (GFlag FStarted) true]).
Proof. exact second_start_does_nothing. Qed.

(** Imp.aopen: the `init` hook, then the `initialize` transition, under the lock (a pin of the shape) *)
Theorem C01_tie_aopen_shape :
  trace_of (exec OImp "aopen"%string false false []) =
    [EEnter OImp "aopen"%string; EAcq true; EHook false "init"%string true; ETrig TAopen true; ERel].
Proof. exact aopen_shape. Qed.

(** Nextline reaches the machine only through Imp's methods *)
Theorem C01_tie_only_through_imp :
  forallb (fun x => no_direct (snd x)) nextline_methods = true /\
  forallb flag_sets_ok nextline_methods = true /\
  forallb (fun x => locked_text false (snd x)) imp_methods = true /\
  imp_locks = ["_lock"%string] /\
  (forall a b c d, nextline_init_flags =
     [(FStarted, nl_started (init_state a b c d)); (FClosed, nl_closed (init_state a b c d))]).
Proof. exact nextline_reaches_machine_only_through_imp. Qed.

(** per-call refinement against Model.do_call / do_step (Life/ImpTie.v section 5), every oracle *)
Theorem C01_tie_call_refinement : forall s c m, In s ref_states -> In c ref_calls -> In m (nl_methods_of c) ->
  (forall o, let x := exec ONextline m (nl_started s) (nl_closed s) o in
     verdict_of s c x <> VMismatch /\ (verdict_of s c x = VEqual -> end_agrees s c x = true)) /\
  (exists o, verdict_of s c (exec ONextline m (nl_started s) (nl_closed s) o) = VEqual).
Proof. exact call_refinement. Qed.

(** fsm/machine.py (a pin of names): aopen = initialize, aclose = close, callbacks -> Callback methods *)
Theorem C01_tie_machine_wrappers_pin :
  machine_wrappers = [("aclose", "close"); ("aopen", "initialize")]%string /\
  machine_callbacks =
    [("after_state_change", ["on_change_state"]); ("on_exit_created", ["start"]);
     ("on_enter_initialized", ["initialize_run"]); ("on_enter_running", ["start_run"]);
     ("on_close_while_running", ["wait_for_run_finish"]); ("on_enter_finished", ["finish"]);
     ("on_exit_finished", ["on_exit_finished"]); ("on_enter_closed", ["close"]); ("on_reset", ["reset"])]%string.
Proof. exact machine_wrappers_pin. Qed.

Print Assumptions C01_tie_lock_discipline.
Print Assumptions C01_tie_call_trigger.
Print Assumptions C01_tie_flags_atomic.
Print Assumptions C01_tie_second_start_does_nothing.
Print Assumptions C01_tie_aopen_shape.
Print Assumptions C01_tie_only_through_imp.
Print Assumptions C01_tie_call_refinement.
Print Assumptions C01_tie_machine_wrappers_pin.

(** ---- tie of the callback wiring (session 5): nextline/fsm/machine.py + callback.py regenerated as
    Gen/MachineWiring.v by translate/machine_wiring.py; Life/MachineTie.v derives, from the regenerated
    CONFIG FsmConfig.table and method set, the callbacks the `transitions` library runs for one trigger (trusted:
    the order written there, with references to the installed source), expands them through the
    regenerated method bodies and proves, for ALL model states, that the model's segments are that program. *)
From NL Require Life.MachineSyntax Gen.MachineWiring Life.MachineTie.

(** the scripts of all ten rows, derived by computation from the regenerated files *)
Theorem C01_tie_machine_script_table :
  MachineTie.script Created FsmConfig.TInitialize = Some (Some Initialized, [MachineTie.Cb "on_exit_created"; MachineTie.SetState Initialized; MachineTie.Cb "on_enter_initialized"; MachineTie.Cb "after_state_change"]) /\
  MachineTie.script Initialized FsmConfig.TRun = Some (Some Running, [MachineTie.SetState Running; MachineTie.Cb "on_enter_running"; MachineTie.Cb "after_state_change"]) /\
  MachineTie.script Running FsmConfig.TFinish = Some (Some Finished, [MachineTie.SetState Finished; MachineTie.Cb "on_enter_finished"; MachineTie.Cb "after_state_change"]) /\
  MachineTie.script Initialized FsmConfig.TReset = Some (Some Initialized, [MachineTie.Cb "on_reset"; MachineTie.SetState Initialized; MachineTie.Cb "on_enter_initialized"; MachineTie.Cb "after_state_change"]) /\
  MachineTie.script Finished FsmConfig.TReset = Some (Some Initialized, [MachineTie.Cb "on_reset"; MachineTie.Cb "on_exit_finished"; MachineTie.SetState Initialized; MachineTie.Cb "on_enter_initialized"; MachineTie.Cb "after_state_change"]) /\
  MachineTie.script Created FsmConfig.TClose = Some (Some Closed, [MachineTie.Cb "on_exit_created"; MachineTie.SetState Closed; MachineTie.Cb "on_enter_closed"; MachineTie.Cb "after_state_change"]) /\
  MachineTie.script Initialized FsmConfig.TClose = Some (Some Closed, [MachineTie.SetState Closed; MachineTie.Cb "on_enter_closed"; MachineTie.Cb "after_state_change"]) /\
  MachineTie.script Running FsmConfig.TClose = Some (Some Closed, [MachineTie.Cb "on_close_while_running"; MachineTie.SetState Closed; MachineTie.Cb "on_enter_closed"; MachineTie.Cb "after_state_change"]) /\
  MachineTie.script Finished FsmConfig.TClose = Some (Some Closed, [MachineTie.Cb "on_exit_finished"; MachineTie.SetState Closed; MachineTie.Cb "on_enter_closed"; MachineTie.Cb "after_state_change"]) /\
  MachineTie.script Closed FsmConfig.TClose = Some (None, [MachineTie.Cb "after_state_change"]).
Proof. exact MachineTie.script_table. Qed.

(** a trigger is refused (MachineError) exactly for the (trigger, state) pairs without a row *)
Theorem C01_tie_machine_refused : forall src tr,
  MachineTie.script src tr = None <->
  match tr, src with
  | FsmConfig.TInitialize, Created | FsmConfig.TRun, Initialized | FsmConfig.TFinish, Running | FsmConfig.TClose, _
  | FsmConfig.TReset, Initialized | FsmConfig.TReset, Finished => False
  | _, _ => True
  end.
Proof. exact MachineTie.script_refused. Qed.

(** every state change of every script goes along a row of CONFIG: exactly one per accepted trigger, none for the internal one *)
Theorem C01_tie_machine_moves : forall src tr dest acts, MachineTie.script src tr = Some (dest, acts) ->
  exists b, In (tr, src, dest, b) FsmConfig.table /\
  filter (fun a => match a with MachineTie.SetState _ => true | _ => false end) acts =
  match dest with Some d => [MachineTie.SetState d] | None => [] end.
Proof. exact MachineTie.script_moves_along_table. Qed.

(** the model's first segment of start / run / reset = the program derived from the regenerated code, all states *)
Theorem C01_tie_machine_enter_start : forall s t c, enter_start s t c = MachineTie.api_trigger t c FsmConfig.TInitialize s.
Proof. exact MachineTie.tie_enter_start. Qed.
Theorem C01_tie_machine_enter_run : forall s t c, enter_run s t c = MachineTie.api_trigger t c FsmConfig.TRun s.
Proof. exact MachineTie.tie_enter_run. Qed.
Theorem C01_tie_machine_enter_reset : forall s t o, enter_reset s t o = MachineTie.api_trigger t (CReset o) FsmConfig.TReset s.
Proof. exact MachineTie.tie_enter_reset. Qed.

(** ... and every later segment of the same trigger (the task stepped at a gate / wait inside it) *)
Theorem C01_tie_machine_step_initialize : forall s t c p, find_task (tasks s) t = Some (c, p) ->
  In p [S_G1; S_G2; S_G3] ->
  do_step s t = MachineTie.api_resume t c FsmConfig.TInitialize p (MachineTie.api_cont t c FsmConfig.TInitialize Created p) s.
Proof. exact MachineTie.tie_step_initialize. Qed.
Theorem C01_tie_machine_step_run : forall s t c p, find_task (tasks s) t = Some (c, p) ->
  In p [R_WaitStarted; R_G] ->
  do_step s t = MachineTie.api_resume t c FsmConfig.TRun p (MachineTie.api_cont t c FsmConfig.TRun Initialized p) s.
Proof. exact MachineTie.tie_step_run. Qed.
Theorem C01_tie_machine_step_reset_before : forall s t o p, find_task (tasks s) t = Some (CReset o, p) ->
  (st_fsm s = Initialized \/ st_fsm s = Finished) ->
  (p = Z_G1 /\ o_stmt o <> None) \/ p = Z_G1b \/ (p = Z_WaitRunTask /\ st_fsm s = Finished) ->
  do_step s t = MachineTie.api_resume t (CReset o) FsmConfig.TReset p (MachineTie.api_cont t (CReset o) FsmConfig.TReset (st_fsm s) p) s.
Proof. exact MachineTie.tie_step_reset_before. Qed.
Theorem C01_tie_machine_step_reset_after : forall s t o p src, find_task (tasks s) t = Some (CReset o, p) ->
  (src = Initialized \/ src = Finished) -> In p [Z_G3; Z_G4] ->
  do_step s t = MachineTie.api_resume t (CReset o) FsmConfig.TReset p (MachineTie.api_cont t (CReset o) FsmConfig.TReset src p) s.
Proof. exact MachineTie.tie_step_reset_after. Qed.

(** the run task: finally of Callback._run + Callback._finish + the trigger `finish` inside try/finally *)
Theorem C01_tie_machine_run_finish : forall s,
  exists k, MachineTie.run_tail (st_fsm s) = Some k /\ run_finish s = MachineTie.run_embed (MachineTie.run k s).
Proof. exact MachineTie.tie_run_finish. Qed.
Theorem C01_tie_machine_step_run_task : forall s p, runt s = Some p -> In p [RT_G_fin; RT_G_cs] ->
  exists k, MachineTie.run_tail Running = Some k /\
            do_step_run s = MachineTie.run_embed (MachineTie.run (MachineTie.after_rpc p k) s).
Proof. exact MachineTie.tie_step_run_task. Qed.

(** what __init__ wires and what CONFIG sets: no queueing, invalid triggers raise, model=self, the one after_state_change *)
Theorem C01_tie_machine_wiring : FsmConfig.ignore_invalid_triggers = false /\ FsmConfig.queued = false /\ MachineTie.model_is_self = true /\
  MachineTie.wired_after_state_change = ["after_state_change"%string] /\ MachineTie.callback_backref = true.
Proof. exact MachineTie.config_flags. Qed.

Print Assumptions C01_tie_machine_script_table.
Print Assumptions C01_tie_machine_refused.
Print Assumptions C01_tie_machine_moves.
Print Assumptions C01_tie_machine_enter_start.
Print Assumptions C01_tie_machine_enter_run.
Print Assumptions C01_tie_machine_enter_reset.
Print Assumptions C01_tie_machine_step_initialize.
Print Assumptions C01_tie_machine_step_run.
Print Assumptions C01_tie_machine_step_reset_before.
Print Assumptions C01_tie_machine_step_reset_after.
Print Assumptions C01_tie_machine_run_finish.
Print Assumptions C01_tie_machine_step_run_task.
Print Assumptions C01_tie_machine_wiring.

(** ---- stage 2: composition of Gen/ImpSkeleton.v with Gen/MachineWiring.v (Life/MachineImpTie.v).  The regenerated tree
    of an Imp method is compiled to effects / waits / ONE trigger (resolved through the regenerated StateMachine) / the
    release of the lock; [MachineImpTie.imp_run m t c s] runs it from the moment the lock is held.  What remains copied from
    the model: [MachineImpTie.after_imp] (what the Nextline wrapper does with the returned call), see the header there. *)
From NL Require Life.MachineImpTie.

(** which trigger each Imp method fires under the lock, what precedes and follows it *)
Theorem C01_tie_machine_imp_shapes :
  (exists r, MachineImpTie.imp_prog "aopen"%string = Some r /\
     MachineImpTie.split_trigger r = Some ([], FsmConfig.TInitialize, [MachineImpTie.IDo release])) /\
  (exists r, MachineImpTie.imp_prog "run"%string = Some r /\
     MachineImpTie.split_trigger r = Some ([], FsmConfig.TRun, [MachineImpTie.IDo release])) /\
  (exists r, MachineImpTie.imp_prog "reset"%string = Some r /\
     MachineImpTie.split_trigger r = Some ([], FsmConfig.TReset, [MachineImpTie.IDo release])) /\
  (exists r a rd, MachineImpTie.imp_prog "aclose"%string = Some r /\
     MachineTie.wait_for_run_finish_prims = Some [MachineTie.PWait a rd C_WaitRunFinished] /\
     MachineImpTie.split_trigger r =
       Some ([MachineImpTie.IDo (fun s => publish s PEndAll);
              MachineImpTie.IWait (fun s => if MachineImpTie.state_is "running"%string s then a s else MachineTie.WPass) rd C_WaitRunFinished],
             FsmConfig.TClose,
             [MachineImpTie.IDo (fun s => publish s PEndAll); MachineImpTie.IDo release])) /\
  MachineImpTie.nextline_close_tail = Some [MachineImpTie.IDo close_cont].
Proof. exact MachineImpTie.imp_method_shapes. Qed.

(** the trigger calls of the regenerated Imp pass exactly the event data the tie assumes (reset: reset_options=; others none) *)
Theorem C01_tie_machine_imp_event_data :
  forallb MachineImpTie.call_agrees MachineWiring.imp_trigger_calls = true /\
  map (fun x => fst (fst (fst x))) MachineWiring.imp_trigger_calls = ["run"; "reset"; "aopen"; "aclose"]%string.
Proof. exact MachineImpTie.imp_event_data. Qed.

(** the model's first segment under the lock = the regenerated Imp method (lock held; trigger; release), all states *)
Theorem C01_tie_machine_imp_aopen : forall s t c, enter_start s t c = MachineImpTie.imp_run "aopen"%string t c s.
Proof. exact MachineImpTie.imp_run_aopen. Qed.
Theorem C01_tie_machine_imp_reset : forall s t o, enter_reset s t o = MachineImpTie.imp_run "reset"%string t (CReset o) s.
Proof. exact MachineImpTie.imp_run_reset. Qed.

(** the epilogue after the trigger, which stage 1 copied from the model, IS the regenerated rest of the Imp method *)
Theorem C01_tie_machine_imp_epilogue_aopen : forall s t c,
  MachineTie.epilogue t c FsmConfig.TInitialize s = MachineImpTie.derived_epilogue "aopen"%string t c s.
Proof. exact MachineImpTie.imp_epilogue_aopen. Qed.
Theorem C01_tie_machine_imp_epilogue_reset : forall s t c,
  MachineTie.epilogue t c FsmConfig.TReset s = MachineImpTie.derived_epilogue "reset"%string t c s.
Proof. exact MachineImpTie.imp_epilogue_reset. Qed.

Print Assumptions C01_tie_machine_imp_shapes.
Print Assumptions C01_tie_machine_imp_event_data.
Print Assumptions C01_tie_machine_imp_aopen.
Print Assumptions C01_tie_machine_imp_reset.
Print Assumptions C01_tie_machine_imp_epilogue_aopen.
Print Assumptions C01_tie_machine_imp_epilogue_reset.

(** ---- stage 2 (3): the continuation a task stores when it parks is [api_cont] = [after_pc p] of the ONE program of the
    trigger -- at the first park and at every later one (Life/MachineCont.v: generic in the program, needs only pairwise
    distinct program counters, proved for every program [api_prog] produces).  With C01_tie_machine_step_* (which start
    from [api_cont ... p]) the successive segments of the model follow the one program derived from the regenerated code. *)
From NL Require Life.MachineCont.
Theorem C01_tie_machine_continuations : forall t c tr src k, MachineTie.api_prog t c tr src = Some k ->
  (forall s s' p k', MachineTie.run k s = (s', MachineTie.KPark p k') -> k' = MachineTie.api_cont t c tr src p) /\
  (forall p s s' p2 k2, MachineTie.run (MachineTie.api_cont t c tr src p) s = (s', MachineTie.KPark p2 k2) ->
     k2 = MachineTie.api_cont t c tr src p2) /\
  (forall p a r q rest s s' p2 k2, MachineTie.api_cont t c tr src p = MachineTie.PWait a r q :: rest ->
     MachineTie.run rest s = (s', MachineTie.KPark p2 k2) -> k2 = MachineTie.api_cont t c tr src p2).
Proof. exact MachineCont.api_continuations. Qed.
Print Assumptions C01_tie_machine_continuations.
