(** C04 -- tracing is transparent: the script computes what it would untraced.   PARTIAL.

    C04 is decided MAINLY BY THE DIFFERENTIAL RUNS of harness/props/c04.py: generated programs (and the
    compile-flag / exec-environment sensitive family) executed by the real nextline.spawned.main and,
    in the same interpreter, directly; standard output (whole and per thread/task), return value,
    exception type/message and traceback frames are compared.  None of that is a theorem: "a trace
    function only observes" is a CPython guarantee, not a consequence of anything proved here.

    The small part that IS a theorem:
      - what the three traceback-cleaning functions (GENERATED transcription Gen/TbFuns.v) do to the raw
        tracebacks of the three shapes Tb/Model.v assumes to occur (runner frame + user traceback;
        runner + pluggy + compose frames for a compile-time SyntaxError; runner + user stack +
        WithContext... for a Ctrl-C during a line/return/exception trace call), over a six-letter alphabet
        of frame classes.  C04_traceback_user_only's first clause, clean Ordinary (Runner :: u) = u, is
        [reflexivity]: _remove_frame drops the head and nothing else applies.  Which raw shapes occur is
        an assumption, validated by the cases.v comparison with fmt_exc on every run;
      - C04_interrupt_at_call: the shape of a Ctrl-C during a CALL trace call (global_.py, pluggy and local_.py frames
        between the user's frames and WithContext) is cleaned to the user prefix as well;
      - C04_prompts_prefix_monotone: the debugger model is a transducer over a stream fixed in advance.
        This is prefix-monotonicity of a fold for ONE policy -- true of any transducer.  It does NOT
        prove that the script's behaviour is independent of the commands; it only makes the modelling
        assumption of Bdb/Model.v visible: the event stream is an INPUT of the run, never a function of
        the commands. *)
From NL Require Import Tb.Model Tb.Proofs.
From NL Require Bdb.Model Bdb.Causal.
Open Scope list_scope.

(** the cleaned traceback is the user's traceback: an exception escaping the script loses exactly the
    runner's frame; a SyntaxError raised by compile() in compose.py has no traceback; a KeyboardInterrupt
    raised inside a trace call keeps the program's stack and nothing of WithContext or the plugins *)
Theorem C04_traceback_user_only :
  (forall u, clean Ordinary (raw_ordinary u) = u) /\
  (forall plug comp, clean SyntaxErr (raw_syntax plug comp) = []) /\
  (forall f u inner, forallb user_frame (f :: u) = true -> clean KbdInterrupt (raw_kbd (f :: u) inner) = f :: u).
Proof. exact (conj clean_ordinary (conj clean_syntax_compiled_here clean_kbd_user_prefix)). Qed.

(** an exception raised at run time from the user's code, whatever its class (a SyntaxError / IndentationError / TabError
    raised by exec, eval, compile, ast.parse, import or `raise` included; a KeyboardInterrupt raised by the program too):
    the cleaned traceback is exactly the user's frames *)
Theorem C04_runtime_exception_any_class : forall k u,
  forallb user_frame u = true -> clean k (raw_ordinary u) = u.
Proof. exact clean_runtime_any_class. Qed.

Theorem C04_no_nextline_frames :
  (forall u, forallb user_frame u = true -> existsb nextline_frame (clean Ordinary (raw_ordinary u)) = false) /\
  (forall f u inner, forallb user_frame (f :: u) = true ->
     existsb nextline_frame (clean KbdInterrupt (raw_kbd (f :: u) inner)) = false).
Proof. exact (conj no_nextline_ordinary no_nextline_kbd). Qed.

(** Ctrl-C while the prompt of a CALL event is open (repaired in /repo, was a known finding): a call event reaches
    WithContext through the global trace function (global_.py -> pluggy -> local_.py); the cleaner cuts at the first
    frame of global_.py or of WithContext's module, so the frames in between go too: the user prefix remains *)
Theorem C04_interrupt_at_call : forall f u mid inner,
  forallb user_frame (f :: u) = true ->
  clean KbdInterrupt (raw_kbd_call (f :: u) mid inner) = f :: u /\
  existsb nextline_frame (clean KbdInterrupt (raw_kbd_call (f :: u) mid inner)) = false.
Proof. intros f u mid inner H. split; [apply clean_kbd_call_user_prefix | apply no_nextline_kbd_call]; exact H. Qed.

(** prefix-monotonicity (one policy): what was prompted for [evs] is unchanged when the stream goes on *)
Theorem C04_prompts_prefix_monotone : forall c pol evs later,
  exists rest_p rest_c,
    Bdb.Model.prompts c pol (evs ++ later) = Bdb.Model.prompts c pol evs ++ rest_p /\
    Bdb.Model.trace_calls c pol (evs ++ later) = Bdb.Model.trace_calls c pol evs ++ rest_c.
Proof. exact Bdb.Causal.commands_do_not_feed_back. Qed.

Example C04_example_nonvacuous :
  clean Ordinary (raw_ordinary [User; Lib; User]) = [User; Lib; User] /\
  clean SyntaxErr (raw_syntax [Plugin; Plugin] [Compose]) = [] /\
  clean KbdInterrupt (raw_kbd [User; User] [Plugin; Plugin; Lib]) = [User; User] /\
  clean KbdInterrupt (raw_kbd_call [User; User] [Plugin; Plugin; Plugin] [Plugin; Lib]) = [User; User] /\
  clean SyntaxErr (raw_ordinary [User; User]) = [User; User].
Proof. vm_compute. repeat split; reflexivity. Qed.

Print Assumptions C04_traceback_user_only.
Print Assumptions C04_no_nextline_frames.
Print Assumptions C04_runtime_exception_any_class.
Print Assumptions C04_prompts_prefix_monotone.
Print Assumptions C04_interrupt_at_call.
