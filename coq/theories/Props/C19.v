(** C19 -- async-iterator helpers neither lose, duplicate nor reorder items.
    Property theorems only; each is closed by [exact] of a lemma proved in
    Aio/{Merge,Agen,ToAiter}.v.

    Model: Aio/Model.v (transcription of nextline/utils/aio.py).  All
    statements quantify over EVERY label sequence [ls]: every order in which
    the sources' pending `__anext__` complete, every moment at which
    `asyncio.wait(FIRST_COMPLETED)` returns (with one or SEVERAL done tasks),
    every pop/iteration order of the returned set (it is part of the label),
    every moment at which the consumer resumes -- and over every number and
    length of sources.  No bounds. *)
From NL Require Import Aio.Model Aio.Merge Aio.Agen Aio.ToAiter.
Open Scope Z_scope.

(** ---- merge_aiters ---- *)

(** every yielded pair carries the tag of an existing source, and the items
    yielded with tag i are, in order and without gap or repetition, a prefix of
    source i's items *)
Theorem C19_merge_projection : forall (items : list (list V)) (ls : list mlabel) (i : nat),
  (forall j v, In (j, v) (yields (mouts items ls)) -> (j < length items)%nat) /\
  exists rest, nth i items [] = proj i (yields (mouts items ls)) ++ rest.
Proof. exact merge_projection. Qed.

(** exact accounting at every moment: items of source i = yielded with tag i ++
    (at most one item whose anext is done but which is not yielded yet) ++ not produced yet *)
Theorem C19_merge_accounting : forall items ls i s,
  nth_error (m_srcs (mrun items ls)) i = Some s ->
  nth i items [] = proj i (yields (mouts items ls)) ++ inflight s ++ fst s.
Proof. exact merge_accounting. Qed.

(** the merged iterator is finished exactly when it has been started and every
    source's StopAsyncIteration has been consumed; then the projection on every
    tag is the whole source: nothing lost *)
Theorem C19_merge_terminates : forall items ls,
  (m_phase (mrun items ls) = MFin <->
   (m_phase (mrun items ls) <> MFresh /\ forall s, In s (m_srcs (mrun items ls)) -> s = ([], LDropped))) /\
  (m_phase (mrun items ls) = MFin -> forall i, proj i (yields (mouts items ls)) = nth i items []).
Proof. exact merge_terminates. Qed.

(** it cannot get stuck: every run has a continuation after which it has finished;
    and once finished it stays finished and yields nothing more *)
Theorem C19_merge_can_finish : forall items ls, exists ls', m_phase (mrun items (ls ++ ls')) = MFin.
Proof. exact merge_can_finish. Qed.

Theorem C19_merge_finished_stays : forall items ls ls',
  m_phase (mrun items ls) = MFin ->
  m_phase (mrun items (ls ++ ls')) = MFin /\ yields (mouts items (ls ++ ls')) = yields (mouts items ls).
Proof. exact merge_finished_stays. Qed.

(** ---- agen_with_wait ---- *)

(** the items yielded are a prefix of the wrapped iterator's items (exact
    accounting), and a normally finished iteration has yielded all of them *)
Theorem C19_agen_items : forall (items : list V) (ls : list glabel),
  items = gitems (gouts items ls) ++ ainfl (g_anext (grun items ls)) ++ g_rest (grun items ls) /\
  (g_phase (grun items ls) = GFin -> gitems (gouts items ls) = items).
Proof. exact agen_items_full. Qed.

(** exceptions of awaited tasks are surfaced:
    (1) a return of asyncio.wait while an awaited task has failed raises -- for
        every iteration order of the done-set -- the exception of an awaited failed task;
    (2) so no item and no normal end is produced while an awaited task has failed;
    (3) a task stays awaited until it has ended without exception;
    (4) whatever is raised is the exception with which a task handed over by asend ended;
    (5) without a failing task the iteration never raises. *)
Theorem C19_agen_first_exception :
  (forall st ord t e, g_phase st = GWait -> In t (g_pending st) -> texc (g_tasks st) t = Some e ->
     exists e' t', snd (snd (gstep st (GWake ord))) = GVRaise e' /\ g_phase (fst (gstep st (GWake ord))) = GRaised /\
                   In t' (g_pending st) /\ texc (g_tasks st) t' = Some e') /\
  (forall st ord, g_phase st = GWait ->
     (forall v, snd (snd (gstep st (GWake ord))) <> GVItem v) /\ snd (snd (gstep st (GWake ord))) <> GVStop \/
     forall t, In t (g_pending st) -> texc (g_tasks st) t = None) /\
  (forall st l t, In t (g_pending st) ->
     In t (g_pending (fst (gstep st l))) \/ (tdone (g_tasks st) t = true /\ texc (g_tasks st) t = None)) /\
  (forall items ls x e, In (x, GVRaise e) (gouts items ls) ->
     exists t ts, In (GTaskEnd t (TExc e)) ls /\ In (GSend (Some ts)) ls /\ In t ts) /\
  (forall items ls, (forall t e, ~ In (GTaskEnd t (TExc e)) ls) ->
     g_phase (grun items ls) <> GRaised /\ forall x e, ~ In (x, GVRaise e) (gouts items ls)).
Proof. exact agen_first_exception. Qed.

(** "first" read chronologically is NOT what the code does: two awaited tasks
    fail one after the other while the generator is suspended at its yield; the
    next wake-up sees both in one done-set and raises whichever the set iterates
    first -- here the LATER failure.  (witness schedule; the same schedule is
    reproduced against the real code by the harness, see evidence
    strict_first_exception_deviations) *)
Definition chrono_ls : list glabel :=
  [GSend None; GSrc; GWake []; GSpawn; GSpawn; GSend (Some [0%nat; 1%nat]);
   GTaskEnd 0 (TExc 1); GTaskEnd 1 (TExc 2); GSend None; GWake [1%nat; 0%nat]].

Theorem C19_agen_chronological_refuted :
  exists items pre mid post t1 e1 t2 e2,
    pre ++ GTaskEnd t1 (TExc e1) :: mid ++ GTaskEnd t2 (TExc e2) :: post = chrono_ls /\
    (forall t e, ~ In (GTaskEnd t (TExc e)) pre) /\ e1 <> e2 /\
    In t1 (g_pending (grun items (pre ++ [GTaskEnd t1 (TExc e1)]))) /\
    last (gouts items chrono_ls) ((false, []), GVNone) = ((false, [0%nat; 1%nat]), GVRaise e2).
Proof.
  exists [10; 11], [GSend None; GSrc; GWake []; GSpawn; GSpawn; GSend (Some [0%nat; 1%nat])],
         [], [GSend None; GWake [1%nat; 0%nat]], 0%nat, 1, 1%nat, 2.
  split; [reflexivity|]. split.
  - intros t e H. simpl in H. repeat (destruct H as [H|H]; [discriminate|]). exact H.
  - split; [discriminate|]. vm_compute. auto.
Qed.

(** ... strongest chronological statement that holds (added hypothesis: the
    failed awaited tasks visible at the wake-up all carry the same exception,
    e.g. there is exactly one): then exactly that exception is raised *)
Theorem C19_agen_chronological_partial : forall st ord t e,
  g_phase st = GWait -> In t (g_pending st) -> texc (g_tasks st) t = Some e ->
  (forall t' e', In t' (g_pending st) -> texc (g_tasks st) t' = Some e' -> e' = e) ->
  snd (snd (gstep st (GWake ord))) = GVRaise e.
Proof. exact agen_single_failure. Qed.

(** ---- to_aiter ---- *)

(** thread and no-thread variants, any interleaving of anext calls, worker
    executions and deliveries: the successive executions of next() obtain exactly
    the iterable's items in order, then StopIteration; every call delivers what
    its own execution obtained *)
Theorem C19_to_aiter_items : forall (thread : bool) (items : list V) (ls : list tlabel),
  let st := trun thread items ls in
  map snd (t_log st) = map (res_at items) (seq 0 (length (t_log st))) /\
  t_rest st = skipn (length (t_log st)) items /\
  forall c r, In (TORes c r) (touts thread items ls) -> In (c, r) (t_log st).
Proof. exact to_aiter_items. Qed.

(** `async for` (each anext awaited before the next): exactly the items, then the end *)
Theorem C19_to_aiter_sequential : forall thread items k,
  delivered (touts thread items (seq_labels thread k)) = map (res_at items) (seq 0 k).
Proof. exact to_aiter_sequential. Qed.

(** ---- non-vacuity ---- *)

(** three sources (one empty); sources 0 and 1 complete in the same step and the
    done-set is popped in the order 1, 0; the consumer is slow; the run ends *)
Definition ex_items : list (list V) := [[1; 2]; [3]; []].
Definition ex_ls : list mlabel :=
  [MNext; MComplete 0; MComplete 1; MWake [1%nat; 0%nat]; MComplete 2; MNext; MNext;
   MWake []; MComplete 0; MComplete 1; MWake [1%nat]; MNext; MComplete 0; MWake []].

Example C19_example_nonvacuous :
  yields (mouts ex_items ex_ls) = [(1%nat, 3); (0%nat, 1); (0%nat, 2)] /\
  map fst (mouts ex_items ex_ls) =
    [[]; []; []; [0%nat; 1%nat]; []; []; []; [2%nat]; []; []; [0%nat; 1%nat]; []; []; [0%nat]] /\
  m_phase (mrun ex_items ex_ls) = MFin /\
  proj 0 (yields (mouts ex_items ex_ls)) = [1; 2] /\
  gitems (gouts [10; 11] chrono_ls) = [10] /\
  delivered (touts true [7; 8] (seq_labels true 3)) = [RItem 7; RItem 8; RStop].
Proof. vm_compute. repeat split; reflexivity. Qed.

(** ---- tie of the hand-written model to the source (second kind; harness/TIE_TASK.md) ----

    translate/aio_funs.py regenerates Gen/AioFuns.v from nextline/utils/aio.py on every run: the bodies of
    merge_aiters / agen_with_wait and the methods of to_aiter as terms of the statement AST of Aio/Syntax.v
    (`x = e`, `x |= e`, `x &= e`, `x = y`, `.add/.remove/.pop/.clear`, `m[k] = v`, arming an anext,
    `await asyncio.wait(.., FIRST_COMPLETED)`, `yield`, `t.result()` under `except StopAsyncIteration`,
    `t.exception()`, `cancel`, `raise`, if/while/for/break/continue are all DIFFERENT constructors).
    Aio/Interp.v runs those terms on a small continuation machine whose nondeterminism is driven by the SAME
    labels as Model.v.  The theorems below are about the REGENERATED definitions [merge_aiters_body],
    [agen_with_wait_body], [to_aiter_methods]/[to_aiter_selector]: for ALL label sequences the machine
    produces exactly the outputs of the model's step functions and remains in a state related to the model's
    ([MR], [GR]: same sources / tasks / sets `pending`, `done`, matching program point; never stuck).
    Obligation kind (b) of the brief, proved by a simulation relation and induction over the label list --
    with this HONEST LABEL: for merge_aiters and agen_with_wait it is "PIN + SIMULATION OF THE PINNED TERM":
    Aio/TieMerge.v and TieAgen.v pin the regenerated bodies to hand-copied terms ([merge_body_shape],
    [agen_body_shape], by reflexivity) and simulate the pinned term, so every change of their AST, also a
    behaviour-preserving one, breaks the obligation.  The to_aiter theorems are symbolic executions of the
    regenerated methods themselves.  The translator fails closed on class bases other than AsyncIterator[T],
    class-level statements, other methods, decorators, a rewritten `aiterable`, re-bound / monkeypatched names
    (`asyncio`, `set`, `next`, the translated definitions) and on ignored statements that contain calls or
    mention tracked names.
    Not covered by any label: sources raising something else than StopAsyncIteration, cancelled awaited tasks,
    athrow(); an early stop of the consumer (aclose / cancellation) only through C19_tie_*_close_loss. *)
From NL Require Import Aio.Tie.

Theorem C19_tie_merge : forall (items : list (list V)) (ls : list mlabel),
  imouts items ls = mouts items ls /\ MR (mrun items ls) (imrun items ls).
Proof. exact merge_tie. Qed.

Theorem C19_tie_merge_never_stuck : forall items ls, stuck (imrun items ls) = false.
Proof. exact tie_merge_never_stuck. Qed.

(** the projection property transferred to what the regenerated body yields *)
Theorem C19_tie_merge_projection : forall (items : list (list V)) (ls : list mlabel) (i : nat),
  (forall j v, In (j, v) (yields (imouts items ls)) -> (j < List.length items)%nat) /\
  exists rest, nth i items [] = proj i (yields (imouts items ls)) ++ rest.
Proof. exact tie_merge_projection. Qed.

Theorem C19_tie_merge_complete : forall items ls i,
  c_st (imrun items ls) = StFinished -> proj i (yields (imouts items ls)) = nth i items [].
Proof. exact tie_merge_complete. Qed.

Theorem C19_tie_agen : forall (items : list V) (ls : list glabel),
  igouts items ls = gouts items ls /\ GR (grun items ls) (igrun items ls).
Proof. exact agen_tie. Qed.

Theorem C19_tie_agen_never_stuck : forall items ls, stuck (igrun items ls) = false.
Proof. exact tie_agen_never_stuck. Qed.

Theorem C19_tie_agen_items : forall items ls, exists rest, items = gitems (igouts items ls) ++ rest.
Proof. exact tie_agen_items. Qed.

Theorem C19_tie_agen_raise_identity : forall items ls x e,
  In (x, GVRaise e) (igouts items ls) ->
  exists t ts, In (GTaskEnd t (TExc e)) ls /\ In (GSend (Some ts)) ls /\ In t ts.
Proof. exact tie_agen_raise_identity. Qed.

Theorem C19_tie_to_aiter : forall (thread : bool) (items : list V) (ls : list tlabel),
  itouts thread items ls = touts thread items ls /\
  it_rest (itrun thread items ls) = t_rest (trun thread items ls) /\
  it_log (itrun thread items ls) = t_log (trun thread items ls) /\
  map abs_call (it_calls (itrun thread items ls)) = t_calls (trun thread items ls) /\
  it_stuck (itrun thread items ls) = false.
Proof. exact to_aiter_tie. Qed.

Theorem C19_tie_to_aiter_sequential : forall thread items k,
  delivered (itouts thread items (seq_labels thread k)) = map (res_at items) (seq 0 k).
Proof. exact tie_to_aiter_sequential. Qed.

(** the sync-to-async wrapper is usable with `async for` (only base AsyncIterator[T], inherited __aiter__: the
    translator refuses anything else), its default is the thread variant, and its deprecated alias `aiterable(it)`
    is `to_aiter(it, thread=False)` with the iterable passed unchanged *)
Theorem C19_tie_to_aiter_class_facts :
  to_aiter_aiter_inherited = true /\ to_aiter_flag_default = true /\ aiterable_thread = Some false.
Proof. exact (conj to_aiter_async_iterable (conj to_aiter_default_thread eq_refl)). Qed.

Theorem C19_tie_aiterable_sequential : forall items k,
  delivered (snd (itrun_from to_aiter_methods to_aiter_selector (flag_of aiterable_thread) (itinit items)
                             (seq_labels false k))) = map (res_at items) (seq 0 k).
Proof. exact tie_aiterable_sequential. Qed.

Theorem C19_tie_to_aiter_default_sequential : forall items k,
  delivered (itouts (flag_of None) items (seq_labels true k)) = map (res_at items) (seq 0 k).
Proof. exact tie_to_aiter_default_sequential. Qed.

(** early stop of the consumer (aclose / cancellation at ANY moment; Model.v has no label for it, the machine
    has [iclose]): the generator ends at its suspension point, the armed anext tasks are not cancelled and may
    still complete in any number and order; per source, items = yielded before the close ++ AT MOST ONE item
    consumed and never yielded ++ what the source still holds *)
Theorem C19_tie_merge_close_loss : forall items ls ks i s,
  nth_error (m_srcs (mrun items (ls ++ map MComplete ks))) i = Some s ->
  let c' := fst (imrun_from (iclose (imrun items ls)) (map MComplete ks)) in
  c_st c' = StFinished /\
  nth i items [] = proj i (yields (imouts items ls)) ++ inflight s ++ nth i (w_srcs (i_w (c_m c'))) [] /\
  (List.length (inflight s) <= 1)%nat.
Proof. exact merge_close_loss. Qed.

Theorem C19_tie_agen_close_loss : forall items ls es,
  Forall (fun l => glabel_env l = true) es ->
  let c' := fst (igrun_from (iclose (igrun items ls)) es) in
  let lost := ainfl (g_anext (grun items (ls ++ es))) in
  (c_st c' = StFinished \/ c_st c' = StRaised) /\
  items = gitems (igouts items ls) ++ lost ++ nth 0 (w_srcs (i_w (c_m c'))) [] /\
  (List.length lost <= 1)%nat.
Proof. exact agen_close_loss. Qed.

(** the machine really runs the regenerated bodies (not a vacuous equality of two empty lists) *)
Example C19_tie_example_nonvacuous :
  yields (imouts ex_items ex_ls) = [(1%nat, 3); (0%nat, 1); (0%nat, 2)] /\
  c_st (imrun ex_items ex_ls) = StFinished /\
  last (igouts [10; 11] chrono_ls) ((false, []), GVNone) = ((false, [0%nat; 1%nat]), GVRaise 2) /\
  delivered (itouts true [7; 8] (seq_labels true 3)) = [RItem 7; RItem 8; RStop].
Proof. vm_compute. repeat split; reflexivity. Qed.

Print Assumptions C19_merge_projection.
Print Assumptions C19_merge_accounting.
Print Assumptions C19_merge_terminates.
Print Assumptions C19_merge_can_finish.
Print Assumptions C19_merge_finished_stays.
Print Assumptions C19_agen_items.
Print Assumptions C19_agen_first_exception.
Print Assumptions C19_agen_chronological_refuted.
Print Assumptions C19_agen_chronological_partial.
Print Assumptions C19_to_aiter_items.
Print Assumptions C19_to_aiter_sequential.
Print Assumptions C19_tie_merge.
Print Assumptions C19_tie_merge_never_stuck.
Print Assumptions C19_tie_merge_projection.
Print Assumptions C19_tie_merge_complete.
Print Assumptions C19_tie_agen.
Print Assumptions C19_tie_agen_never_stuck.
Print Assumptions C19_tie_agen_items.
Print Assumptions C19_tie_agen_raise_identity.
Print Assumptions C19_tie_to_aiter.
Print Assumptions C19_tie_to_aiter_sequential.
Print Assumptions C19_tie_to_aiter_class_facts.
Print Assumptions C19_tie_aiterable_sequential.
Print Assumptions C19_tie_to_aiter_default_sequential.
Print Assumptions C19_tie_merge_close_loss.
Print Assumptions C19_tie_agen_close_loss.
