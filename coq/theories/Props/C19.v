From NL Require Import Aio.Model.
Open Scope Z_scope.
Example C19_example_nonvacuous :
  yields (mouts [[1;2];[3]] [MNext; MComplete 0; MComplete 1; MWake [1%nat;0%nat]; MNext; MNext]) = [(1%nat,3);(0%nat,1)].
Proof. vm_compute. reflexivity. Qed.
