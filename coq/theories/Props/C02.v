(** C02 -- every started run finishes and is reported exactly once (the
    bookkeeping part, on the lifecycle model Life/Model.v).  Property theorems
    only; each is closed by [exact] of a lemma proved in Life/Protocol.v.

    [rinfo] (Life/Protocol.v) is the run-record automaton over the
    publications of the history, a function of the history alone:
      QN --initialized n st--> QI n st --running n st--> QR n st
         --finished n st (Some o)--> QF n st o --initialized n' st'--> QI n' st' ...
      (QI --initialized--> QI is a reset without a run); anything else -> QBad.
    All statements quantify over EVERY label sequence [ls] = every history of
    calls, every schedule, every outcome and moment of the child's exit. *)
From NL Require Import Life.Close Life.RunLive.
From NL Require Import Life.Model Life.LockInv Life.FsmInv Life.Hist Life.Protocol.
Open Scope Z_scope.

(** the record of a run goes initialized, running, finished, each once, in
    that order, under one run number and script; the exact correspondence with
    the state; once the run task has ended no record is left at `running` *)
Theorem C02_run_info_once : forall stmt start th md ls,
  let s := run_labels (init_state stmt start th md) ls in
  let q := rinfo (pubs_of (history s)) in
  q <> QBad /\
  rec_corr q (st_fsm s) (runt s) (run_arg s) (exited_proc s) /\
  (runt s = None -> q = QN \/ (exists n st, q = QI n st) \/ (exists n st o, q = QF n st o)) /\
  (forall n st, q = QR n st -> runt s = Some RT_G_start \/ runt s = Some RT_WaitChild).
Proof. exact all_run_info_once. Qed.

(** the same, spelled out per publication: a `running` (`finished`) record
    carries the run number and script of the `initialized` (`running`) record
    that is the last record before it; `initialized` follows nothing, an
    `initialized` (reset without a run) or a `finished` record *)
Theorem C02_run_info_numbering : forall stmt start th md ls l1 l2 n ph st r,
  let s := run_labels (init_state stmt start th md) ls in
  pubs_of (history s) = l1 ++ PRunInfo n ph st r :: l2 ->
  match ph with
  | RInitialized => r = None /\ (last_rec l1 = None \/ (exists m st', last_rec l1 = Some (m, RInitialized, st'))
                                \/ exists m st', last_rec l1 = Some (m, RFinished, st'))
  | RRunning => r = None /\ last_rec l1 = Some (n, RInitialized, st)
  | RFinished => r <> None /\ last_rec l1 = Some (n, RRunning, st)
  end.
Proof. exact all_run_info_numbering. Qed.

(** from end-run until the next run starts, Context.exited_process (what
    result()/format_exception() read) is the result of the last `finished`
    record *)
Theorem C02_result_matches : forall stmt start th md ls,
  let s := run_labels (init_state stmt start th md) ls in
  (runt s = Some RT_G_end \/ runt s = Some RT_G_fin \/ runt s = Some RT_G_cs \/
   (runt s = None /\ proto (hooks_of (history s)) = PF)) ->
  exists o, exited_proc s = Some o /\ last_result (pubs_of (history s)) = Some o.
Proof. exact all_result_matches. Qed.

(** a `finished` record is published only by the run task when it observes the
    child's exit, with the pending outcome, which becomes exited_process *)
Theorem C02_result_from_child : forall stmt start th md ls l n st r,
  let s := run_labels (init_state stmt start th md) ls in
  In (EvPub (PRunInfo n RFinished st r)) (appended s (step s l)) ->
  l = StepRun /\ runt s = Some RT_WaitChild /\ runt (step s l) = Some RT_G_end /\
  exists o a, r = Some o /\ pending_exit s = Some o /\ exited_proc (step s l) = Some o /\
              run_arg s = Some a /\ n = ra_no a /\ st = ra_stmt a.
Proof. exact all_result_from_child. Qed.

(** the pending outcome is the one delivered by the environment *)
Theorem C02_pending_exit_source : forall stmt start th md ls l o,
  let s := run_labels (init_state stmt start th md) ls in
  pending_exit (step s l) = Some o -> pending_exit s = Some o \/ l = ChildExit o.
Proof. exact all_pending_exit_source. Qed.

(** exited_process changes only when a run starts its process or observes its exit *)
Theorem C02_exited_proc_kept : forall stmt start th md ls l,
  let s := run_labels (init_state stmt start th md) ls in
  exited_proc (step s l) = exited_proc s \/
  (l = StepRun /\ (runt s = Some RT_New \/ runt s = Some RT_WaitChild)).
Proof. exact all_exited_proc_kept. Qed.

(** anything waiting for the run is released exactly when the run task has ended *)
Theorem C02_finished_set_in_finally : forall stmt start th md ls,
  let s := run_labels (init_state stmt start th md) ls in
  (runt s = None -> run_finished s <> Some false) /\ (runt s <> None -> run_finished s = Some false).
Proof. exact all_finished_set. Qed.

(** measure: an effective step of the run task decreases [rank (runt s)] by one *)
Theorem C02_measure : forall stmt start th md ls,
  let s := run_labels (init_state stmt start th md) ls in
  step s StepRun <> s -> S (rank (runt (step s StepRun))) = rank (runt s).
Proof. exact all_measure_decreases. Qed.

(** nobody else moves the run task backwards while it exists *)
Theorem C02_measure_nonincreasing : forall stmt start th md ls l,
  let s := run_labels (init_state stmt start th md) ls in
  runt s <> None -> (rank (runt (step s l)) <= rank (runt s))%nat.
Proof. exact all_measure_nonincreasing. Qed.

(** progress: with a run task, either its step is effective, or it waits for
    the child (environment), or for the state notification of the run() call
    that holds the lock (assumption F), whose step is then effective and
    discharges the guard *)
Theorem C02_progress : forall stmt start th md ls r,
  let s := run_labels (init_state stmt start th md) ls in
  runt s = Some r ->
  step s StepRun <> s
  \/ (r = RT_WaitChild /\ run_call_pending s = false /\ pending_exit s = None)
  \/ (r = RT_WaitChild /\ run_call_pending s = true /\
      exists t, holder s = Some t /\ step s (Step t) <> s /\ run_call_pending (step s (Step t)) = false).
Proof. exact all_progress. Qed.

(** under any schedule, while the run task exists: (effective steps of the run
    task) + (remaining rank) <= (rank at the beginning); so the run task takes at
    most 7 effective steps and [C02_progress] says when a step is effective *)
Theorem C02_bounded_steps : forall stmt start th md ls ls',
  let s := run_labels (init_state stmt start th md) ls in
  run_exists s ls' -> (eff s ls' + rank (runt (run_labels s ls')) <= rank (runt s))%nat.
Proof. exact all_eff_bound. Qed.

(** once the child has exited and the gates are released the run task ends:
    state 'finished', everything waiting for the run released *)
Theorem C02_run_to_end : forall stmt start th md ls n,
  let s := run_labels (init_state stmt start th md) ls in
  rank (runt s) = S n -> (S n <= 4)%nat ->
  (runt s = Some RT_WaitChild -> run_call_pending s = false /\ pending_exit s <> None) ->
  let s' := run_labels s (repeat StepRun (S n)) in
  runt s' = None /\ st_fsm s' = Finished /\ run_finished s' = Some true.
Proof. exact all_run_to_end. Qed.

(** LIVENESS, as one theorem (the mirror of C03_close_completes): from EVERY reachable state
    in which a run task exists (an accepted run: starting, running or finishing) there is a
    continuation consisting only of internal labels -- steps of API tasks at their gates,
    steps of the run task, and the exit of the child (that the child exits, with whatever
    outcome and whenever, is the environment's part; DESIGN 4.2) -- after which the run task
    has ended, everything waiting for the run is released (run_finished set, no task left
    at the wait for the run or at started.wait()), no child is left, the state is 'finished',
    the hook protocol is complete (PF) and the run_info record of THAT run (its number and
    script) is closed with `finished` carrying the result that result() reports.
    With C02_measure / C02_bounded_steps (no schedule can postpone this for ever by internal
    steps of the run task) this is the progress half of the property. *)
Theorem C02_accepted_run_finishes : forall stmt start th md ls,
  let s := run_labels (init_state stmt start th md) ls in
  runt s <> None ->
  exists ls', Forall (fun l => Close.internal l = true) ls' /\
    let s' := run_labels s ls' in
    runt s' = None /\ run_finished s' = Some true /\ alive s' = 0%nat /\ pending_exit s' = None /\
    st_fsm s' = Finished /\
    (forall t c p, find_task (tasks s') t = Some (c, p) -> p <> P_WaitRunFinished /\ p <> R_WaitStarted) /\
    proto (hooks_of (history s')) = PF /\
    exists n st o,
      rinfo (pubs_of (history s')) = QF n st o /\ exited_proc s' = Some o /\
      last_result (pubs_of (history s')) = Some o /\
      (forall a, run_arg s = Some a -> n = ra_no a /\ st = ra_stmt a).
Proof. exact accepted_run_finishes. Qed.

(** in the middle of a run_session request (the run task has published `running`, the call
    still has its state notification to do, the child is alive, the caller will wait for the
    run): the hypothesis holds and a concrete continuation ends as the theorem says *)
Example C02_example_liveness_nonvacuous :
  let s := run_labels ex_init [Call 0%nat CStart; Step 0%nat; Step 0%nat; Step 0%nat;
                               Call 1%nat CRunSession; StepRun; StepRun] in
  let s' := run_labels s [StepRun; Step 1%nat; Step 1%nat; ChildExit OInterrupt; StepRun; StepRun; StepRun; StepRun;
                          Step 1%nat] in
  runt s = Some RT_G_start /\ alive s = 1%nat /\ find_task (tasks s) 1%nat = Some (CRunSession, R_WaitStarted)
  /\ find_task (tasks (run_labels s [StepRun; Step 1%nat; Step 1%nat])) 1%nat = Some (CRunSession, P_WaitRunFinished)
  /\ runt s' = None /\ run_finished s' = Some true /\ alive s' = 0%nat /\ st_fsm s' = Finished /\ tasks s' = []
  /\ proto (hooks_of (history s')) = PF /\ rinfo (pubs_of (history s')) = QF 1 7 OInterrupt
  /\ exited_proc s' = Some OInterrupt
  /\ hd_error (trace s') = Some (EvRet 1%nat CRunSession ROk).
Proof. vm_compute. repeat split; reflexivity. Qed.

(** the history of C12's example: two runs (return, raise) with a reset in
    between, then close: the run_info sequence is init 1, running 1,
    finished 1 (return), init 2, running 2, finished 2 (raise); the hypotheses
    of C02_run_to_end hold right after the first child's exit *)
Example C02_example_nonvacuous :
  filter is_run_info (pubs_of (history (run_labels ex_init ex_labels)))
  = [PRunInfo 1 RInitialized 7 None; PRunInfo 1 RRunning 7 None; PRunInfo 1 RFinished 7 (Some OReturn);
     PRunInfo 2 RInitialized 7 None; PRunInfo 2 RRunning 7 None; PRunInfo 2 RFinished 7 (Some ORaise)]
  /\ rinfo (pubs_of (history (run_labels ex_init ex_labels))) = QF 2 7 ORaise
  /\ exited_proc (run_labels ex_init ex_labels) = Some ORaise
  /\ (let s := run_labels ex_init (firstn 11 ex_labels) in
      (runt s, run_call_pending s, pending_exit s, rank (runt s))
      = (Some RT_WaitChild, false, Some OReturn, 4%nat)).
Proof. vm_compute. repeat split; reflexivity. Qed.

(** the automaton does reject: running without initialized, finished twice,
    another run number, a new initialized while a record is at running *)
Example C02_example_automaton_rejects :
  rinfo [PRunInfo 1 RRunning 7 None] = QBad
  /\ rinfo [PRunInfo 1 RInitialized 7 None; PRunInfo 1 RRunning 7 None; PRunInfo 1 RFinished 7 (Some OReturn);
            PRunInfo 1 RFinished 7 (Some OReturn)] = QBad
  /\ rinfo [PRunInfo 1 RInitialized 7 None; PRunInfo 2 RRunning 7 None] = QBad
  /\ rinfo [PRunInfo 1 RInitialized 7 None; PRunInfo 1 RRunning 7 None; PRunInfo 2 RInitialized 7 None] = QBad
  /\ rinfo [PRunInfo 1 RInitialized 7 None; PRunInfo 1 RRunning 7 None; PRunInfo 1 RFinished 7 None] = QBad
  /\ rinfo [PRunInfo 1 RInitialized 7 None; PRunInfo 1 RRunning 7 None; PRunInfo 1 RFinished 7 (Some ODied)]
     = QF 1 7 ODied.
Proof. vm_compute. repeat split; reflexivity. Qed.

(** ================= tie to the REGENERATED code (translate/run_record.py -> Gen/RunRecord.v,
    translate/callback_skeleton.py -> Gen/CallbackSkeleton.v; Life/RecordSyntax.v, RecordInterp.v,
    RecordRun.v, RecordTie.v).  The record-keeping code of /repo is translated statement by
    statement at every check; the theorems below are about THOSE definitions:
    control = the skeleton of Callback._run/_finish and RunSession.run under any raising await
    (oracle [o], Life/FailStart.v), data = the statements of RunInfoRegistrar, RunSession.run,
    _on_start_run/_on_end_run, RunningProcess.__await__/_log_exited, RunResult, Result, Imp and
    Nextline interpreted along the trace of control points, for every world [w] = (outcome of the
    child, exit code, whether the exit code is a key of _exitcode_to_name, run number, script,
    and whether the implementations of a hook whose await raised had run -- cancellation in the
    hook window -- or not).  "An await raises" includes a CancelledError delivered there. *)
From Coq Require Import String List.
From NL Require Import Life.RecordSyntax Life.RecordInterp Gen.RunRecord Life.RecordTie.
Import ListNotations.
Open Scope string_scope.

(** (1) `_run_finished.set()` is executed on every path out of `_finish`, whether the `finish`
    trigger raises or not ... *)
Theorem C02_tie_finish_sets_event : forall o,
  FS.acts (snd (fst (FS.exec CS.finish_skeleton o))) = [CS.SetRunArgNone; CS.Finish; CS.SetRunFinished].
Proof. exact finish_skeleton_sets. Qed.

(** ... in the whole of Callback._run, whichever awaits raise: exactly once, after the single
    `finish` trigger, with nothing after it *)
Theorem C02_tie_run_finished_set_once_last : forall o,
  FS.run_arg_withdrawn_before_finished (FS.trace o) = true /\ FS.nothing_after_finished (FS.trace o) = true.
Proof. exact run_finished_set_once_last. Qed.

(** ... and it is THE event wait_for_run_finish (Imp.wait, close) waits for: created by start_run
    first, set on every path out of `_finish` and of `_run`, by no other method of Callback;
    on_exit_finished swallows whatever the run task raised *)
Theorem C02_tie_run_finished_event :
  exists t, cb_method "wait_for_run_finish" = [CbWaitEvent t] /\
    (exists rest, cb_method "start_run" = CbNewEvent t :: rest) /\
    (forall o set, is_set t (cexec 20%nat (cb_method "_finish") set o) = true) /\
    (forall o set, is_set t (cexec 20%nat (cb_method "_run") set o) = true) /\
    forallb (fun m => String.eqb (fst m) "_finish" || negb (sets 20%nat t (snd m))) callback = true /\
    (forall o set, fst (fst (cexec 20%nat (cb_method "on_exit_finished") set o)) = false).
Proof. exact run_finished_event. Qed.

(** the two translations of Callback agree; the data statements of RunSession.run are keyed by
    the control points of the skeleton, in its order, continuations on awaits.
    (Honest label: agreements between two REGENERATED artefacts -- both sides change with the
    source -- through hand-written dictionaries; what they protect is that the data statements are
    attached to the right control points of the skeleton the exception analysis runs on.) *)
Theorem C02_tie_callback_translations_agree :
  erase 20%nat (cb_method "start_run") = Some CS.start_run_skeleton /\
  erase 20%nat (cb_method "_run") = Some CS.run_skeleton /\
  erase 20%nat (cb_method "_finish") = Some CS.finish_skeleton.
Proof. exact callback_translations_agree. Qed.

Theorem C02_tie_session_positions_agree :
  map (fun x => fst (fst x)) session = map fst skeleton_positions /\
  forallb (fun x => match x with
                    | (p, Returned, _) => existsb (fun y => pos_eqb p (fst y) && snd y) skeleton_positions
                    | _ => true
                    end) session = true.
Proof. exact session_positions_agree. Qed.

(** THE statement about the data, for every world and every oracle: no data statement raises by
    itself (in particular not the await of the process handle), the run_info publications are
    exactly [expected_pubs] (a function of the world and the history), and result() /
    format_exception() afterwards are exactly [expected_api] *)
Theorem C02_tie_every_run_good : forall w o, good_run w (FS.trace o).
Proof. exact every_run_good. Qed.

(** (2) the run_info publications of one run: exactly [expected_pubs] ... *)
Theorem C02_tie_run_info_exact : forall w o,
  exists d, data_run w (FS.trace o) = Ok d /\ d_raised d = None /\ d_eff d = expected_pubs w (FS.trace o).
Proof. exact run_info_exact. Qed.

(** ... i.e. a prefix of initialized, running, finished under one run number and script:
    `running` iff the implementations of on_start_run ran, `finished` iff those of on_end_run ran
    ([hook_ran]: the await returned, or raised after they had run), nothing twice ... *)
Theorem C02_tie_run_info_prefix : forall w o,
  exists d, data_run w (FS.trace o) = Ok d /\
    d_eff d = firstn (1 + (if hook_ran (rw_ran w) CS.StartRunHook (FS.trace o) then 1 else 0)
                        + (if hook_ran (rw_ran w) CS.EndRunHook (FS.trace o) then 1 else 0))%nat (full_record w).
Proof. exact run_info_prefix. Qed.

(** ... and when no await raises: exactly the three, each once, for EVERY outcome of the child
    and EVERY exit code (zero, negative = signal, positive = os._exit(n); in the dict or not) *)
Theorem C02_tie_run_info_once : forall w,
  exists d, data_run w (FS.trace []) = Ok d /\ d_raised d = None /\ d_eff d = full_record w.
Proof. exact run_info_once. Qed.

(** (3) whenever the `finished` record is published it carries the result / exception of THIS
    run's child, result() and format_exception() afterwards report the same, and the record's
    result is the JSON of what result() returns *)
Theorem C02_tie_result_matches : forall w o,
  hook_ran (rw_ran w) CS.EndRunHook (FS.trace o) = true ->
  exists d, data_run w (FS.trace o) = Ok d /\
    In (rec_finished w (spec_result (rw_child w)) (spec_exception (rw_child w))) (d_eff d) /\
    api d "result" = Ok (spec_value (rw_child w)) /\
    api d "format_exception" = Ok (spec_exception (rw_child w)) /\
    spec_result (rw_child w) = VJson (spec_value (rw_child w)).
Proof. exact result_matches. Qed.

(** empty (JSON null, '', None) when the process died, whatever the exit code *)
Theorem C02_tie_result_empty_when_died : forall w o,
  rw_child w = ChDied \/ (exists e, rw_child w = ChRaised e) ->
  hook_ran (rw_ran w) CS.EndRunHook (FS.trace o) = true ->
  exists d, data_run w (FS.trace o) = Ok d /\
    In (rec_finished w (VJson VNone) (VStr "")) (d_eff d) /\
    api d "result" = Ok VNone /\ api d "format_exception" = Ok (VStr "").
Proof. exact result_empty_when_died. Qed.

(** a session whose process was never awaited to the end reports nothing (not the previous run's) *)
Theorem C02_tie_result_none_when_not_awaited : forall w o,
  FS.called CS.InitSession (FS.trace o) = true -> FS.returned CS.AwaitProcess (FS.trace o) = false ->
  exists d, data_run w (FS.trace o) = Ok d /\ api d "result" = Ok VNone /\ api d "format_exception" = Ok VNone.
Proof. exact result_none_when_not_awaited. Qed.

(** (3') CANCELLATION (or an exception) at the two awaits that end a run.  `_finish` still runs
    ([C02_tie_run_finished_set_once_last]): state `finished`, waiters released -- but the record of
    the run is never closed.  (i) at `await context.running_process`: the record stops at
    `running`, on_end_run is never called, result()/format_exception() report None *)
Theorem C02_tie_cancelled_at_process_wait : forall w o,
  FS.called CS.AwaitProcess (FS.trace o) = true -> FS.returned CS.AwaitProcess (FS.trace o) = false ->
  exists d, data_run w (FS.trace o) = Ok d /\ d_eff d = [rec_initialized w; rec_running w] /\
    api d "result" = Ok VNone /\ api d "format_exception" = Ok VNone /\
    FS.called CS.EndRunHook (FS.trace o) = false.
Proof. exact cancelled_at_process_wait. Qed.

(** (ii) inside `_on_end_run`, at the await of the on_end_run hook, before its implementations
    had a step (apluggy gathers them as tasks): the record stops at `running` although
    result()/format_exception() already report the outcome *)
Theorem C02_tie_cancelled_in_on_end_run : forall w o,
  FS.called CS.EndRunHook (FS.trace o) = true -> FS.returned CS.EndRunHook (FS.trace o) = false -> rw_ran w = false ->
  exists d, data_run w (FS.trace o) = Ok d /\ d_eff d = [rec_initialized w; rec_running w] /\
    api d "result" = Ok (spec_value (rw_child w)) /\ api d "format_exception" = Ok (spec_exception (rw_child w)).
Proof. exact cancelled_in_on_end_run. Qed.

(** (4) awaiting the process handle (RunningProcess.__await__, _log_exited, _format_time) raises
    for NO task result, NO exit code, whether or not the code is a key of _exitcode_to_name, and
    yields ExitedProcess(returned, raised) = the task's pair (Proc/Model.v [await_handle]) *)
Theorem C02_tie_await_never_raises : forall a b code look,
  await_handle a b code look =
  Ok (VObj "ExitedProcess" [("returned", a); ("raised", b); ("process", process_of code);
                            ("process_created_at", VTime true); ("process_exited_at", VTime true)]).
Proof. exact await_never_raises. Qed.

Theorem C02_tie_await_in_run_never_raises : forall w o,
  exists d, data_run w (FS.trace o) = Ok d /\ d_raised d = None.
Proof. exact await_in_run_never_raises. Qed.

(** what the abstraction of the child rests on (Proc/Model.v = C17's model of run_in_process, tied
    to Gen/RunSkeleton.v): the task awaited by __await__ never raises, always returns, and its
    pair has one of the three shapes of [child]; (None, None) when the process died *)
Theorem C02_tie_task_of_run_in_process : forall w,
  PM.run_prog = RS.run_skeleton /\ PM.call_prog = RS.call_skeleton /\ PM.await_prog = RS.await_skeleton /\
  (forall e, PM.run_task w <> PM.TRaised e) /\ PM.run_task w <> PM.TNoReturn /\
  (forall r e, PM.run_task w = PM.TDone r e ->
     exists ch, (is_some r, is_some e) = task_shape ch /\ (PM.process_died w = true -> ch = ChDied)).
Proof. exact task_of_run_in_process. Qed.

(** simulation with Life/Model.v (of ONE quiet run, the three publishing steps; not an induction
    over label lists: the model has no raising / cancelled await -- see (3')): the publications of
    the regenerated code are, through
    [abs_pub], the run_info publications of the model's initialize_run / RT_Created step /
    RT_WaitChild step; where the model stores the outcome token in exited_proc, the code's
    result()/format_exception() report what its finished record shows *)
Theorem C02_tie_model_simulation : forall w sid o (s1 s2 s3 : M.state) ra,
  rw_no w = M.ra_no ra -> sid (script_val w) = M.ra_stmt ra ->
  M.c_next s1 = M.ra_no ra -> M.c_stmt s1 = M.ra_stmt ra ->
  M.runt s2 = Some M.RT_Created -> M.run_arg s2 = Some ra ->
  M.runt s3 = Some M.RT_WaitChild -> M.run_call_pending s3 = false -> M.pending_exit s3 = Some o -> M.run_arg s3 = Some ra ->
  exists d, data_run w (FS.trace []) = Ok d /\
    map (abs_pub sid o) (d_eff d) =
      [hd_error (ri_of (M.trace (M.initialize_run s1)));
       hd_error (ri_of (M.trace (M.do_step_run s2)));
       hd_error (ri_of (M.trace (M.do_step_run s3)))] /\
    M.exited_proc (M.do_step_run s3) = Some o /\
    exists res exc, nth_error (d_eff d) 2%nat = Some (rec_finished w res exc) /\
      api d "format_exception" = Ok exc /\ (r <- api d "result" ;; Ok (VJson r)) = Ok res.
Proof. exact model_simulation. Qed.

(** non-vacuity: os._exit(3) -- initialized, running, finished ('null', ''), result() None,
    format_exception() '' ... *)
Example C02_tie_example_died_exit_3 :
  let w := mkRun ChDied 3 false 1 (Some "import os; os._exit(3)") VNone true in
  (d <- data_run w (FS.trace []) ;; r <- api d "result" ;; f <- api d "format_exception" ;; Ok (d_eff d, r, f))
  = Ok ([rec_initialized w; rec_running w; rec_finished w (VJson VNone) (VStr "")], VNone, VStr "").
Proof. exact example_died_exit_3. Qed.

(** ... the await of the process itself raising (oracle): the record stops at `running` ... *)
Example C02_tie_example_wait_cancelled :
  let w := mkRun ChDied (-2) true 1 None VNone false in
  let t := FS.trace [false; false; false; true] in
  FS.called CS.AwaitProcess t = true /\ FS.returned CS.AwaitProcess t = false /\
  (d <- data_run w t ;; f <- api d "format_exception" ;; Ok (d_eff d, f))
  = Ok ([rec_initialized w; rec_running w], VNone).
Proof. exact example_wait_cancelled. Qed.

(** ... a cancellation inside `_on_end_run` before the hook implementations had a step: the
    outcome is reported, the record stays at `running`, `_run_finished` is set all the same ... *)
Example C02_tie_example_cancelled_in_on_end_run :
  let w := mkRun (ChReturned (VOpaque 5) None) 0 false 1 None VNone false in
  let t := FS.trace [false; false; false; false; false; false; false; true] in
  FS.called CS.EndRunHook t = true /\ FS.returned CS.EndRunHook t = false /\
  FS.count CS.SetRunFinished (FS.acts t) = 1%nat /\
  (d <- data_run w t ;; r <- api d "result" ;; Ok (d_eff d, r))
  = Ok ([rec_initialized w; rec_running w], VOpaque 5).
Proof. exact example_cancelled_in_on_end_run. Qed.

(** ... and the interpreter does tell `d[k]` from `d.get(k)`: with the former in _log_exited the
    await raises KeyError for exit code 3 (seed C02-4) *)
Example C02_tie_example_indexing_would_raise :
  (h <- handle_of (VTuple [VNone; VNone]) 3 ;;
   eval prog_indexing (mkWorld h false true) FUEL (mkCfg [("h", h)] [] []) (EAwaitHandle (EName "h"))) = Exn XKey
  /\ await_handle VNone VNone 3 false <> Exn XKey.
Proof. exact indexing_would_raise. Qed.

Print Assumptions C02_run_info_once.
Print Assumptions C02_run_info_numbering.
Print Assumptions C02_result_matches.
Print Assumptions C02_result_from_child.
Print Assumptions C02_pending_exit_source.
Print Assumptions C02_exited_proc_kept.
Print Assumptions C02_finished_set_in_finally.
Print Assumptions C02_measure.
Print Assumptions C02_measure_nonincreasing.
Print Assumptions C02_progress.
Print Assumptions C02_bounded_steps.
Print Assumptions C02_run_to_end.
Print Assumptions C02_accepted_run_finishes.
Print Assumptions C02_example_liveness_nonvacuous.
Print Assumptions C02_example_nonvacuous.
Print Assumptions C02_example_automaton_rejects.
Print Assumptions C02_tie_finish_sets_event.
Print Assumptions C02_tie_run_finished_set_once_last.
Print Assumptions C02_tie_run_finished_event.
Print Assumptions C02_tie_callback_translations_agree.
Print Assumptions C02_tie_session_positions_agree.
Print Assumptions C02_tie_every_run_good.
Print Assumptions C02_tie_run_info_exact.
Print Assumptions C02_tie_run_info_prefix.
Print Assumptions C02_tie_run_info_once.
Print Assumptions C02_tie_result_matches.
Print Assumptions C02_tie_result_empty_when_died.
Print Assumptions C02_tie_result_none_when_not_awaited.
Print Assumptions C02_tie_cancelled_at_process_wait.
Print Assumptions C02_tie_cancelled_in_on_end_run.
Print Assumptions C02_tie_await_never_raises.
Print Assumptions C02_tie_await_in_run_never_raises.
Print Assumptions C02_tie_task_of_run_in_process.
Print Assumptions C02_tie_model_simulation.
Print Assumptions C02_tie_example_died_exit_3.
Print Assumptions C02_tie_example_wait_cancelled.
Print Assumptions C02_tie_example_cancelled_in_on_end_run.
Print Assumptions C02_tie_example_indexing_would_raise.
