(** C02 -- every started run finishes and is reported exactly once (the
    bookkeeping part, on the lifecycle model Life/Model.v).  Property theorems
    only; each is closed by [exact] of a lemma proved in Life/Protocol.v.

    [rinfo] (Life/Protocol.v) is the run-record automaton over the
    publications of the history, a function of the history alone:
      QN --initialized n st--> QI n st --running n st--> QR n st
         --finished n st (Some o)--> QF n st o --initialized n' st'--> QI n' st' ...
      (QI --initialized--> QI is a reset without a run); anything else -> QBad.
    All statements quantify over EVERY label sequence [ls] = every history of
    calls, every schedule, every outcome and moment of the child's exit. *)
From NL Require Import Life.Close Life.RunLive.
From NL Require Import Life.Model Life.LockInv Life.FsmInv Life.Hist Life.Protocol.
Open Scope Z_scope.

(** the record of a run goes initialized, running, finished, each once, in
    that order, under one run number and script; the exact correspondence with
    the state; once the run task has ended no record is left at `running` *)
Theorem C02_run_info_once : forall stmt start th md ls,
  let s := run_labels (init_state stmt start th md) ls in
  let q := rinfo (pubs_of (history s)) in
  q <> QBad /\
  rec_corr q (st_fsm s) (runt s) (run_arg s) (exited_proc s) /\
  (runt s = None -> q = QN \/ (exists n st, q = QI n st) \/ (exists n st o, q = QF n st o)) /\
  (forall n st, q = QR n st -> runt s = Some RT_G_start \/ runt s = Some RT_WaitChild).
Proof. exact all_run_info_once. Qed.

(** the same, spelled out per publication: a `running` (`finished`) record
    carries the run number and script of the `initialized` (`running`) record
    that is the last record before it; `initialized` follows nothing, an
    `initialized` (reset without a run) or a `finished` record *)
Theorem C02_run_info_numbering : forall stmt start th md ls l1 l2 n ph st r,
  let s := run_labels (init_state stmt start th md) ls in
  pubs_of (history s) = l1 ++ PRunInfo n ph st r :: l2 ->
  match ph with
  | RInitialized => r = None /\ (last_rec l1 = None \/ (exists m st', last_rec l1 = Some (m, RInitialized, st'))
                                \/ exists m st', last_rec l1 = Some (m, RFinished, st'))
  | RRunning => r = None /\ last_rec l1 = Some (n, RInitialized, st)
  | RFinished => r <> None /\ last_rec l1 = Some (n, RRunning, st)
  end.
Proof. exact all_run_info_numbering. Qed.

(** from end-run until the next run starts, Context.exited_process (what
    result()/format_exception() read) is the result of the last `finished`
    record *)
Theorem C02_result_matches : forall stmt start th md ls,
  let s := run_labels (init_state stmt start th md) ls in
  (runt s = Some RT_G_end \/ runt s = Some RT_G_fin \/ runt s = Some RT_G_cs \/
   (runt s = None /\ proto (hooks_of (history s)) = PF)) ->
  exists o, exited_proc s = Some o /\ last_result (pubs_of (history s)) = Some o.
Proof. exact all_result_matches. Qed.

(** a `finished` record is published only by the run task when it observes the
    child's exit, with the pending outcome, which becomes exited_process *)
Theorem C02_result_from_child : forall stmt start th md ls l n st r,
  let s := run_labels (init_state stmt start th md) ls in
  In (EvPub (PRunInfo n RFinished st r)) (appended s (step s l)) ->
  l = StepRun /\ runt s = Some RT_WaitChild /\ runt (step s l) = Some RT_G_end /\
  exists o a, r = Some o /\ pending_exit s = Some o /\ exited_proc (step s l) = Some o /\
              run_arg s = Some a /\ n = ra_no a /\ st = ra_stmt a.
Proof. exact all_result_from_child. Qed.

(** the pending outcome is the one delivered by the environment *)
Theorem C02_pending_exit_source : forall stmt start th md ls l o,
  let s := run_labels (init_state stmt start th md) ls in
  pending_exit (step s l) = Some o -> pending_exit s = Some o \/ l = ChildExit o.
Proof. exact all_pending_exit_source. Qed.

(** exited_process changes only when a run starts its process or observes its exit *)
Theorem C02_exited_proc_kept : forall stmt start th md ls l,
  let s := run_labels (init_state stmt start th md) ls in
  exited_proc (step s l) = exited_proc s \/
  (l = StepRun /\ (runt s = Some RT_New \/ runt s = Some RT_WaitChild)).
Proof. exact all_exited_proc_kept. Qed.

(** anything waiting for the run is released exactly when the run task has ended *)
Theorem C02_finished_set_in_finally : forall stmt start th md ls,
  let s := run_labels (init_state stmt start th md) ls in
  (runt s = None -> run_finished s <> Some false) /\ (runt s <> None -> run_finished s = Some false).
Proof. exact all_finished_set. Qed.

(** measure: an effective step of the run task decreases [rank (runt s)] by one *)
Theorem C02_measure : forall stmt start th md ls,
  let s := run_labels (init_state stmt start th md) ls in
  step s StepRun <> s -> S (rank (runt (step s StepRun))) = rank (runt s).
Proof. exact all_measure_decreases. Qed.

(** nobody else moves the run task backwards while it exists *)
Theorem C02_measure_nonincreasing : forall stmt start th md ls l,
  let s := run_labels (init_state stmt start th md) ls in
  runt s <> None -> (rank (runt (step s l)) <= rank (runt s))%nat.
Proof. exact all_measure_nonincreasing. Qed.

(** progress: with a run task, either its step is effective, or it waits for
    the child (environment), or for the state notification of the run() call
    that holds the lock (assumption F), whose step is then effective and
    discharges the guard *)
Theorem C02_progress : forall stmt start th md ls r,
  let s := run_labels (init_state stmt start th md) ls in
  runt s = Some r ->
  step s StepRun <> s
  \/ (r = RT_WaitChild /\ run_call_pending s = false /\ pending_exit s = None)
  \/ (r = RT_WaitChild /\ run_call_pending s = true /\
      exists t, holder s = Some t /\ step s (Step t) <> s /\ run_call_pending (step s (Step t)) = false).
Proof. exact all_progress. Qed.

(** under any schedule, while the run task exists: (effective steps of the run
    task) + (remaining rank) <= (rank at the beginning); so the run task takes at
    most 7 effective steps and [C02_progress] says when a step is effective *)
Theorem C02_bounded_steps : forall stmt start th md ls ls',
  let s := run_labels (init_state stmt start th md) ls in
  run_exists s ls' -> (eff s ls' + rank (runt (run_labels s ls')) <= rank (runt s))%nat.
Proof. exact all_eff_bound. Qed.

(** once the child has exited and the gates are released the run task ends:
    state 'finished', everything waiting for the run released *)
Theorem C02_run_to_end : forall stmt start th md ls n,
  let s := run_labels (init_state stmt start th md) ls in
  rank (runt s) = S n -> (S n <= 4)%nat ->
  (runt s = Some RT_WaitChild -> run_call_pending s = false /\ pending_exit s <> None) ->
  let s' := run_labels s (repeat StepRun (S n)) in
  runt s' = None /\ st_fsm s' = Finished /\ run_finished s' = Some true.
Proof. exact all_run_to_end. Qed.

(** LIVENESS, as one theorem (the mirror of C03_close_completes): from EVERY reachable state
    in which a run task exists (an accepted run: starting, running or finishing) there is a
    continuation consisting only of internal labels -- steps of API tasks at their gates,
    steps of the run task, and the exit of the child (that the child exits, with whatever
    outcome and whenever, is the environment's part; DESIGN 4.2) -- after which the run task
    has ended, everything waiting for the run is released (run_finished set, no task left
    at the wait for the run or at started.wait()), no child is left, the state is 'finished',
    the hook protocol is complete (PF) and the run_info record of THAT run (its number and
    script) is closed with `finished` carrying the result that result() reports.
    With C02_measure / C02_bounded_steps (no schedule can postpone this for ever by internal
    steps of the run task) this is the progress half of the property. *)
Theorem C02_accepted_run_finishes : forall stmt start th md ls,
  let s := run_labels (init_state stmt start th md) ls in
  runt s <> None ->
  exists ls', Forall (fun l => Close.internal l = true) ls' /\
    let s' := run_labels s ls' in
    runt s' = None /\ run_finished s' = Some true /\ alive s' = 0%nat /\ pending_exit s' = None /\
    st_fsm s' = Finished /\
    (forall t c p, find_task (tasks s') t = Some (c, p) -> p <> P_WaitRunFinished /\ p <> R_WaitStarted) /\
    proto (hooks_of (history s')) = PF /\
    exists n st o,
      rinfo (pubs_of (history s')) = QF n st o /\ exited_proc s' = Some o /\
      last_result (pubs_of (history s')) = Some o /\
      (forall a, run_arg s = Some a -> n = ra_no a /\ st = ra_stmt a).
Proof. exact accepted_run_finishes. Qed.

(** in the middle of a run_session request (the run task has published `running`, the call
    still has its state notification to do, the child is alive, the caller will wait for the
    run): the hypothesis holds and a concrete continuation ends as the theorem says *)
Example C02_example_liveness_nonvacuous :
  let s := run_labels ex_init [Call 0%nat CStart; Step 0%nat; Step 0%nat; Step 0%nat;
                               Call 1%nat CRunSession; StepRun; StepRun] in
  let s' := run_labels s [StepRun; Step 1%nat; Step 1%nat; ChildExit OInterrupt; StepRun; StepRun; StepRun; StepRun;
                          Step 1%nat] in
  runt s = Some RT_G_start /\ alive s = 1%nat /\ find_task (tasks s) 1%nat = Some (CRunSession, R_WaitStarted)
  /\ find_task (tasks (run_labels s [StepRun; Step 1%nat; Step 1%nat])) 1%nat = Some (CRunSession, P_WaitRunFinished)
  /\ runt s' = None /\ run_finished s' = Some true /\ alive s' = 0%nat /\ st_fsm s' = Finished /\ tasks s' = []
  /\ proto (hooks_of (history s')) = PF /\ rinfo (pubs_of (history s')) = QF 1 7 OInterrupt
  /\ exited_proc s' = Some OInterrupt
  /\ hd_error (trace s') = Some (EvRet 1%nat CRunSession ROk).
Proof. vm_compute. repeat split; reflexivity. Qed.

(** the history of C12's example: two runs (return, raise) with a reset in
    between, then close: the run_info sequence is init 1, running 1,
    finished 1 (return), init 2, running 2, finished 2 (raise); the hypotheses
    of C02_run_to_end hold right after the first child's exit *)
Example C02_example_nonvacuous :
  filter is_run_info (pubs_of (history (run_labels ex_init ex_labels)))
  = [PRunInfo 1 RInitialized 7 None; PRunInfo 1 RRunning 7 None; PRunInfo 1 RFinished 7 (Some OReturn);
     PRunInfo 2 RInitialized 7 None; PRunInfo 2 RRunning 7 None; PRunInfo 2 RFinished 7 (Some ORaise)]
  /\ rinfo (pubs_of (history (run_labels ex_init ex_labels))) = QF 2 7 ORaise
  /\ exited_proc (run_labels ex_init ex_labels) = Some ORaise
  /\ (let s := run_labels ex_init (firstn 11 ex_labels) in
      (runt s, run_call_pending s, pending_exit s, rank (runt s))
      = (Some RT_WaitChild, false, Some OReturn, 4%nat)).
Proof. vm_compute. repeat split; reflexivity. Qed.

(** the automaton does reject: running without initialized, finished twice,
    another run number, a new initialized while a record is at running *)
Example C02_example_automaton_rejects :
  rinfo [PRunInfo 1 RRunning 7 None] = QBad
  /\ rinfo [PRunInfo 1 RInitialized 7 None; PRunInfo 1 RRunning 7 None; PRunInfo 1 RFinished 7 (Some OReturn);
            PRunInfo 1 RFinished 7 (Some OReturn)] = QBad
  /\ rinfo [PRunInfo 1 RInitialized 7 None; PRunInfo 2 RRunning 7 None] = QBad
  /\ rinfo [PRunInfo 1 RInitialized 7 None; PRunInfo 1 RRunning 7 None; PRunInfo 2 RInitialized 7 None] = QBad
  /\ rinfo [PRunInfo 1 RInitialized 7 None; PRunInfo 1 RRunning 7 None; PRunInfo 1 RFinished 7 None] = QBad
  /\ rinfo [PRunInfo 1 RInitialized 7 None; PRunInfo 1 RRunning 7 None; PRunInfo 1 RFinished 7 (Some ODied)]
     = QF 1 7 ODied.
Proof. vm_compute. repeat split; reflexivity. Qed.

Print Assumptions C02_run_info_once.
Print Assumptions C02_run_info_numbering.
Print Assumptions C02_result_matches.
Print Assumptions C02_result_from_child.
Print Assumptions C02_pending_exit_source.
Print Assumptions C02_exited_proc_kept.
Print Assumptions C02_finished_set_in_finally.
Print Assumptions C02_measure.
Print Assumptions C02_measure_nonincreasing.
Print Assumptions C02_progress.
Print Assumptions C02_bounded_steps.
Print Assumptions C02_run_to_end.
Print Assumptions C02_accepted_run_finishes.
Print Assumptions C02_example_liveness_nonvacuous.
Print Assumptions C02_example_nonvacuous.
Print Assumptions C02_example_automaton_rejects.
