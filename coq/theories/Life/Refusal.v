(** Refused requests, stated on histories: WHEN a request that reaches its turn
    ends in MachineError, WHAT such a step appends and that it changes nothing
    else, and that an accepted run request found the object idle.
    Every statement is for every reachable state (every label sequence). *)
From NL Require Import Life.Model Life.LockInv Life.FsmInv Life.Hist Life.Close Life.Protocol.
From Coq Require Import Lia.

(** ---- when does the first segment of a call refuse ---- *)
Definition disallowed (c : call) (part2 : bool) (f : fsm) : Prop :=
  match c with
  | CStart => f <> Created
  | CClose => part2 = false /\ f <> Created
  | CReset _ => f <> Initialized /\ f <> Finished
  | CRun | CRunCont | CRunContWait | CRunSession => f <> Initialized
  | CSignal | CSend => False
  end.

Lemma enter_cases s t c b :
  (disallowed c b (st_fsm s) /\ enter s t c b = refuse s t c)
  \/ (~ disallowed c b (st_fsm s) /\ grows no_me s (enter s t c b)).
Proof.
  unfold enter, enter_start, enter_run, enter_reset, disallowed.
  destruct c.
  - destruct (st_fsm s); try (left; split; [discriminate | reflexivity]). right. split; [tauto | leaf].
  - destruct (st_fsm s); try (left; split; [discriminate | reflexivity]). right. split; [tauto | leaf].
  - destruct (st_fsm s); try (left; split; [split; discriminate | reflexivity]);
      (right; split; [tauto | destruct (o_stmt o); leaf]).
  - destruct b.
    + right. split; [intros (? & _); discriminate | apply g_enter_close].
    + destruct (st_fsm s); try (left; split; [split; [reflexivity | discriminate] | reflexivity]).
      right. split; [tauto | leaf].
  - destruct (st_fsm s); try (left; split; [discriminate | reflexivity]). right. split; [tauto | leaf].
  - destruct (st_fsm s); try (left; split; [discriminate | reflexivity]). right. split; [tauto | leaf].
  - destruct (st_fsm s); try (left; split; [discriminate | reflexivity]). right. split; [tauto | leaf].
  - right. split; [tauto | leaf].
  - right. split; [tauto | leaf].
Qed.

(** ---- what [refuse] appends and what it leaves alone ---- *)
Definition unreg (t : nat) (x : nat * bool) : bool := negb (Nat.eqb (fst x) t && negb (snd x)).

Definition rest_of (s : state) :=
  (nl_started s, nl_closed s, run_owner s, run_cont s, running_process s, send_command s,
   c_stmt s, c_next s, c_threads s, c_modules s, cont_closed s).

Lemma release_rest s : rest_of (release s) = rest_of s /\ cont_plugins (release s) = cont_plugins s.
Proof.
  unfold release, rest_of. destruct (lockq s) as [|t q]; simpl; auto.
  destruct (find_task (tasks s) t) as [[c p]|]; auto.
Qed.

Lemma refuse_new s t c :
  exists new, trace (refuse s t c) = new ++ trace s /\
    (new = [EvRet t c RMachineError]
     \/ (is_cont c = true /\ exists b, new = [EvRet t c RMachineError; EvPub (PCont b)])).
Proof.
  unfold refuse. destruct (is_cont c); [destruct (cont_closed (release s))|]; simpl; rewrite ?rl_trace.
  - exists [EvRet t c RMachineError]. auto.
  - eexists [_; _]. split; [reflexivity|]. right. eauto.
  - exists [EvRet t c RMachineError]. auto.
Qed.

Lemma core_refuse s t c : core_of (refuse s t c) = core_of s.
Proof. unfold refuse. destruct (is_cont c); [destruct (cont_closed (release s))|]; core_simpl; reflexivity. Qed.

Lemma refuse_rest s t c :
  rest_of (refuse s t c) = rest_of s /\
  cont_plugins (refuse s t c) = (if is_cont c then filter (unreg t) (cont_plugins s) else cont_plugins s) /\
  holder (refuse s t c) = rel_holder (lockq s) /\ lockq (refuse s t c) = tl (lockq s) /\
  tasks (refuse s t c) = remove_task (rel_tasks (lockq s) (tasks s)) t.
Proof.
  destruct (release_rest s) as (R1 & R2).
  unfold refuse. destruct (is_cont c); [destruct (cont_closed (release s))|];
    (split; [exact R1 |]); simpl; rewrite ?R2, ?release_holder, ?release_lockq, ?release_tasks; auto.
Qed.

Lemma new_unique {A} (n1 n2 tr l : list A) : l = n1 ++ tr -> l = n2 ++ tr -> n1 = n2.
Proof. intros -> E. apply app_inv_tail in E. auto. Qed.

Lemma no_me_not_in s s' t c : grows no_me s s' -> ~ In (EvRet t c RMachineError) (appended s s').
Proof.
  intros (new & E & H) Hin. rewrite (appended_ext _ _ _ E) in Hin. apply in_rev in Hin.
  apply has_me_In in Hin. unfold no_me in H. congruence.
Qed.

(** ---- steps that cannot end in MachineError ---- *)
Lemma g_acquire_close s t : grows no_me s (acquire s t CClose true).
Proof.
  unfold acquire. destruct (holder s); [leaf|]. destruct (lockq s); [|leaf].
  eapply (grows_pre _ s (set_pc (set_holder s (Some t)) t CClose Granted2) _ []);
    [reflexivity | apply g_enter_close |]. intros n. rewrite app_nil_r. auto.
Qed.

Lemma do_step_nome s t : LkS s ->
  (forall c, find_task (tasks s) t <> Some (c, Granted1)) -> grows no_me s (do_step s t).
Proof.
  intros HL Hng. unfold do_step. destruct (find_task (tasks s) t) as [[c p]|] eqn:Ef; [|leaf].
  pose proof (lk_compat _ _ _ HL _ _ _ Ef) as Hc.
  destruct p; try leaf.
  - exfalso. apply (Hng c). reflexivity.
  - destruct c; simpl in Hc; try discriminate. apply g_enter_close.
  - destruct c; try leaf.
    eapply (grows_pre _ s (release s) _ []); [rewrite rl_trace; reflexivity | apply g_acquire_close |].
    intros n. rewrite app_nil_r. auto.
  - destruct (started_ev s); leaf.
  - destruct c; leaf.
  - destruct c; leaf.
  - unfold reset_reinit. destruct (st_fsm s); try leaf. destruct (runt s); leaf.
  - unfold reset_reinit. destruct (runt s); leaf.
  - destruct (run_finished s) as [[|]|]; try leaf. apply g_close_trigger.
  - unfold close_enter_closed. destruct (runt s); leaf.
  - unfold close_cont, cont_off_events;
      match goal with |- context [match cont_plugins ?x with _ => _ end] => destruct (cont_plugins x) end; leaf.
  - destruct (run_finished s) as [[|]|]; leaf.
Qed.

Lemma hooks_rev_nohook new : has_hook new = false -> hooks_of (rev new) = [].
Proof.
  induction new as [|e new IH]; simpl; auto. intros H. rewrite hooks_of_app.
  destruct e; try discriminate; simpl; rewrite IH; auto.
Qed.

Lemma hooks_same s s' new : trace s' = new ++ trace s -> has_hook new = false ->
  hooks_of (history s') = hooks_of (history s).
Proof.
  intros E H. unfold history. rewrite E, rev_app_distr, hooks_of_app, (hooks_rev_nohook _ H), app_nil_r. reflexivity.
Qed.

Lemma remove_put_absent ts t x : find_task ts t = None -> remove_task (put_task ts t x) t = ts.
Proof.
  induction ts as [|[t' y] ts IH]; simpl.
  - rewrite Nat.eqb_refl. reflexivity.
  - destruct (Nat.eqb t t') eqn:E; [discriminate|]. intros H. simpl. rewrite E, IH; auto.
Qed.

(** ---- A1: a step that appends a MachineError return ---- *)
Definition refused_step (s s' : state) (l : label) (t : nat) (c : call) : Prop :=
  let r := EvRet t c RMachineError in
  ((l = Step t /\ holder s = Some t /\ find_task (tasks s) t = Some (c, Granted1) /\
    (appended s s' = [r] \/ (is_cont c = true /\ exists b, appended s s' = [EvPub (PCont b); r])) /\
    holder s' = rel_holder (lockq s) /\ lockq s' = tl (lockq s) /\
    tasks s' = remove_task (rel_tasks (lockq s) (tasks s)) t)
   \/
   (l = Call t c /\ holder s = None /\ lockq s = [] /\ find_task (tasks s) t = None /\
    ((is_cont c = false /\ appended s s' = [EvCall t c; r]) \/
     (is_cont c = true /\ exists b, appended s s' = [EvCall t c; EvPub (PCont true); EvPub (PCont b); r])) /\
    holder s' = None /\ lockq s' = [] /\ tasks s' = tasks s))
  /\ disallowed c false (st_fsm s)
  /\ core_of s' = core_of s /\ rest_of s' = rest_of s
  /\ cont_plugins s' = (if is_cont c then filter (unreg t) (cont_plugins s) else cont_plugins s)
  /\ hooks_of (history s') = hooks_of (history s).

Lemma refused_by_step s t c t0 c0 :
  LkS s -> find_task (tasks s) t = Some (c, Granted1) ->
  In (EvRet t0 c0 RMachineError) (appended s (do_step s t)) ->
  t0 = t /\ c0 = c /\ refused_step s (do_step s t) (Step t) t c.
Proof.
  intros HL Ef Hin.
  assert (Hh : holder s = Some t) by (eapply (lk_holder_of _ _ _ HL); eauto).
  assert (Ed : do_step s t = enter s t c false) by (unfold do_step; rewrite Ef; reflexivity).
  rewrite Ed in *.
  destruct (enter_cases s t c false) as [(Hd & Er) | (_ & Hg)]; [|exfalso; eapply no_me_not_in; eauto].
  rewrite Er in *.
  destruct (refuse_new s t c) as (new & En & Hnew).
  destruct (refuse_rest s t c) as (R1 & R2 & R3 & R4 & R5).
  rewrite (appended_ext _ _ _ En) in *.
  assert (Hid : t0 = t /\ c0 = c).
  { apply in_rev in Hin. destruct Hnew as [-> | (_ & b & ->)]; simpl in Hin.
    - destruct Hin as [E | []]. inversion E. auto.
    - destruct Hin as [E | [E | []]]; inversion E. auto. }
  destruct Hid as (-> & ->). repeat split; auto.
  - left. repeat split; auto. rewrite (appended_ext _ _ _ En).
    destruct Hnew as [-> | (Hc & b & ->)]; [left; reflexivity | right; split; auto; exists b; reflexivity].
  - apply core_refuse.
  - eapply hooks_same; [exact En|]. destruct Hnew as [-> | (_ & b & ->)]; reflexivity.
Qed.
