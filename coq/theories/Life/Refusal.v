(** Refused requests, stated on histories: WHEN a request that reaches its turn
    ends in MachineError, WHAT such a step appends and that it changes nothing
    else, and that an accepted run request found the object idle.
    Every statement is for every reachable state (every label sequence). *)
From NL Require Import Life.Model Life.LockInv Life.FsmInv Life.Hist Life.Close Life.Protocol.
From Coq Require Import Lia.

(** ---- when does the first segment of a call refuse ---- *)
Definition disallowed (c : call) (part2 : bool) (f : fsm) : Prop :=
  match c with
  | CStart => f <> Created
  | CClose => part2 = false /\ f <> Created
  | CReset _ => f <> Initialized /\ f <> Finished
  | CRun | CRunCont | CRunContWait | CRunSession => f <> Initialized
  | CSignal | CSend => False
  end.

Lemma enter_cases s t c b :
  (disallowed c b (st_fsm s) /\ enter s t c b = refuse s t c)
  \/ (~ disallowed c b (st_fsm s) /\ grows no_me s (enter s t c b)).
Proof.
  unfold enter, enter_start, enter_run, enter_reset, disallowed.
  destruct c.
  - destruct (st_fsm s); try (left; split; [discriminate | reflexivity]). right. split; [tauto | leaf].
  - destruct (st_fsm s); try (left; split; [discriminate | reflexivity]). right. split; [tauto | leaf].
  - destruct (st_fsm s); try (left; split; [split; discriminate | reflexivity]);
      (right; split; [tauto | destruct (o_stmt o); leaf]).
  - destruct b.
    + right. split; [intros (? & _); discriminate | apply g_enter_close].
    + destruct (st_fsm s); try (left; split; [split; [reflexivity | discriminate] | reflexivity]).
      right. split; [tauto | leaf].
  - destruct (st_fsm s); try (left; split; [discriminate | reflexivity]). right. split; [tauto | leaf].
  - destruct (st_fsm s); try (left; split; [discriminate | reflexivity]). right. split; [tauto | leaf].
  - destruct (st_fsm s); try (left; split; [discriminate | reflexivity]). right. split; [tauto | leaf].
  - right. split; [tauto | leaf].
  - right. split; [tauto | leaf].
Qed.

(** ---- what [refuse] appends and what it leaves alone ---- *)
Definition unreg (t : nat) (x : nat * bool) : bool := negb (Nat.eqb (fst x) t && negb (snd x)).

Definition rest_of (s : state) :=
  (nl_started s, nl_closed s, run_owner s, run_cont s, running_process s, send_command s,
   c_stmt s, c_next s, c_threads s, c_modules s, cont_closed s).

Lemma release_rest s : rest_of (release s) = rest_of s /\ cont_plugins (release s) = cont_plugins s.
Proof.
  unfold release, rest_of. destruct (lockq s) as [|t q]; simpl; auto.
  destruct (find_task (tasks s) t) as [[c p]|]; auto.
Qed.

Lemma refuse_new s t c :
  exists new, trace (refuse s t c) = new ++ trace s /\
    ((new = [EvRet t c RMachineError] /\ (is_cont c = false \/ cont_closed s = true))
     \/ (is_cont c = true /\ cont_closed s = false /\ exists b, new = [EvRet t c RMachineError; EvPub (PCont b)])).
Proof.
  unfold refuse. rewrite rl_cont_closed.
  destruct (is_cont c); [destruct (cont_closed s)|]; simpl; rewrite ?rl_trace.
  - exists [EvRet t c RMachineError]. auto.
  - eexists [_; _]. split; [reflexivity|]. right. eauto.
  - exists [EvRet t c RMachineError]. auto.
Qed.

Lemma core_refuse s t c : core_of (refuse s t c) = core_of s.
Proof. unfold refuse. destruct (is_cont c); [destruct (cont_closed (release s))|]; core_simpl; reflexivity. Qed.

Lemma refuse_rest s t c :
  rest_of (refuse s t c) = rest_of s /\
  cont_plugins (refuse s t c) = (if is_cont c then filter (unreg t) (cont_plugins s) else cont_plugins s) /\
  holder (refuse s t c) = rel_holder (lockq s) /\ lockq (refuse s t c) = tl (lockq s) /\
  tasks (refuse s t c) = remove_task (rel_tasks (lockq s) (tasks s)) t.
Proof.
  destruct (release_rest s) as (R1 & R2).
  unfold refuse. destruct (is_cont c); [destruct (cont_closed (release s))|];
    (split; [exact R1 |]); simpl; rewrite ?R2, ?release_holder, ?release_lockq, ?release_tasks; auto.
Qed.

Lemma new_unique {A} (n1 n2 tr l : list A) : l = n1 ++ tr -> l = n2 ++ tr -> n1 = n2.
Proof. intros -> E. apply app_inv_tail in E. auto. Qed.

Lemma no_me_not_in s s' t c : grows no_me s s' -> ~ In (EvRet t c RMachineError) (appended s s').
Proof.
  intros (new & E & H) Hin. rewrite (appended_ext _ _ _ E) in Hin. apply in_rev in Hin.
  apply has_me_In in Hin. unfold no_me in H. congruence.
Qed.

(** ---- steps that cannot end in MachineError ---- *)
Lemma g_acquire_close s t : grows no_me s (acquire s t CClose true).
Proof.
  unfold acquire. destruct (holder s); [leaf|]. destruct (lockq s); [|leaf].
  eapply (grows_pre _ s (set_pc (set_holder s (Some t)) t CClose Granted2) _ []);
    [reflexivity | apply g_enter_close |]. intros n. rewrite app_nil_r. auto.
Qed.

Lemma do_step_nome s t : LkS s ->
  (forall c, find_task (tasks s) t <> Some (c, Granted1)) -> grows no_me s (do_step s t).
Proof.
  intros HL Hng. unfold do_step. destruct (find_task (tasks s) t) as [[c p]|] eqn:Ef; [|leaf].
  pose proof (lk_compat _ _ _ HL _ _ _ Ef) as Hc.
  destruct p; try leaf.
  - exfalso. apply (Hng c). reflexivity.
  - destruct c; simpl in Hc; try discriminate. apply g_enter_close.
  - destruct c; try leaf.
    eapply (grows_pre _ s (release s) _ []); [rewrite rl_trace; reflexivity | apply g_acquire_close |].
    intros n. rewrite app_nil_r. auto.
  - destruct (started_ev s); leaf.
  - destruct c; leaf.
  - destruct c; leaf.
  - unfold reset_reinit. destruct (st_fsm s); try leaf. destruct (runt s); leaf.
  - unfold reset_reinit. destruct (runt s); leaf.
  - destruct (run_finished s) as [[|]|]; try leaf. apply g_close_trigger.
  - unfold close_enter_closed. destruct (runt s); leaf.
  - unfold close_cont, cont_off_events;
      match goal with |- context [match cont_plugins ?x with _ => _ end] => destruct (cont_plugins x) end; leaf.
  - destruct (run_finished s) as [[|]|]; leaf.
Qed.

Lemma hooks_rev_nohook new : has_hook new = false -> hooks_of (rev new) = [].
Proof.
  induction new as [|e new IH]; simpl; auto. intros H. rewrite hooks_of_app.
  destruct e; try discriminate; simpl; rewrite IH; auto.
Qed.

Lemma hooks_same s s' new : trace s' = new ++ trace s -> has_hook new = false ->
  hooks_of (history s') = hooks_of (history s).
Proof.
  intros E H. unfold history. rewrite E, rev_app_distr, hooks_of_app, (hooks_rev_nohook _ H), app_nil_r. reflexivity.
Qed.

Lemma remove_put_absent ts t x : find_task ts t = None -> remove_task (put_task ts t x) t = ts.
Proof.
  induction ts as [|[t' y] ts IH]; simpl.
  - rewrite Nat.eqb_refl. reflexivity.
  - destruct (Nat.eqb t t') eqn:E; [discriminate|]. intros H. simpl. rewrite E, IH; auto.
Qed.

(** ---- A1: a step that appends a MachineError return ---- *)
Definition refused_step (s s' : state) (l : label) (t : nat) (c : call) : Prop :=
  let r := EvRet t c RMachineError in
  ((l = Step t /\ holder s = Some t /\ find_task (tasks s) t = Some (c, Granted1) /\
    (appended s s' = [r] \/ (is_cont c = true /\ exists b, appended s s' = [EvPub (PCont b); r])) /\
    holder s' = rel_holder (lockq s) /\ lockq s' = tl (lockq s) /\
    tasks s' = remove_task (rel_tasks (lockq s) (tasks s)) t)
   \/
   (l = Call t c /\ holder s = None /\ lockq s = [] /\ find_task (tasks s) t = None /\
    ((is_cont c = false /\ appended s s' = [EvCall t c; r]) \/
     (is_cont c = true /\ exists b, appended s s' = [EvCall t c; EvPub (PCont true); EvPub (PCont b); r])) /\
    holder s' = None /\ lockq s' = [] /\ tasks s' = tasks s))
  /\ disallowed c false (st_fsm s)
  /\ core_of s' = core_of s /\ rest_of s' = rest_of s
  /\ cont_plugins s' = (if is_cont c then filter (unreg t) (cont_plugins s) else cont_plugins s)
  /\ hooks_of (history s') = hooks_of (history s).

Lemma refused_by_step s t c t0 c0 :
  LkS s -> find_task (tasks s) t = Some (c, Granted1) ->
  In (EvRet t0 c0 RMachineError) (appended s (do_step s t)) ->
  t0 = t /\ c0 = c /\ refused_step s (do_step s t) (Step t) t c.
Proof.
  intros HL Ef Hin.
  assert (Hh : holder s = Some t) by (eapply (lk_holder_of _ _ _ HL); eauto).
  assert (Ed : do_step s t = enter s t c false) by (unfold do_step; rewrite Ef; reflexivity).
  rewrite Ed in *.
  destruct (enter_cases s t c false) as [(Hd & Er) | (_ & Hg)]; [|exfalso; eapply no_me_not_in; eauto].
  rewrite Er in *.
  destruct (refuse_new s t c) as (new & En & Hnew).
  destruct (refuse_rest s t c) as (R1 & R2 & R3 & R4 & R5).
  rewrite (appended_ext _ _ _ En) in *.
  assert (Hid : t0 = t /\ c0 = c).
  { apply in_rev in Hin. destruct Hnew as [(-> & _) | (_ & _ & b & ->)]; simpl in Hin.
    - destruct Hin as [E | []]. inversion E. auto.
    - destruct Hin as [E | [E | []]]; inversion E. auto. }
  destruct Hid as (-> & ->). repeat split; auto.
  - left. repeat split; auto. rewrite (appended_ext _ _ _ En).
    destruct Hnew as [(-> & _) | (Hc & _ & b & ->)]; [left; reflexivity | right; split; auto; exists b; reflexivity].
  - apply core_refuse.
  - eapply hooks_same; [exact En|]. destruct Hnew as [(-> & _) | (_ & _ & b & ->)]; reflexivity.
Qed.

Lemma acquire_refused s0 s1 t c b t0 c0 pre :
  trace s1 = pre ++ trace s0 -> has_me pre = false ->
  In (EvRet t0 c0 RMachineError) (appended s0 (acquire s1 t c b)) ->
  holder s1 = None /\ lockq s1 = [] /\ disallowed c b (st_fsm s1) /\
  acquire s1 t c b = refuse (set_pc (set_holder s1 (Some t)) t c (if b then Granted2 else Granted1)) t c.
Proof.
  intros E Hp Hin. unfold acquire in *.
  assert (Hq : forall x, trace x = trace s1 -> grows no_me s0 x).
  { intros x Ex. exists pre. rewrite Ex. auto. }
  destruct (holder s1); [exfalso; eapply no_me_not_in; [apply Hq | exact Hin]; reflexivity|].
  destruct (lockq s1); [|exfalso; eapply no_me_not_in; [apply Hq | exact Hin]; reflexivity].
  set (s2 := set_pc (set_holder s1 (Some t)) t c (if b then Granted2 else Granted1)) in *.
  destruct (enter_cases s2 t c b) as [(Hd & Er) | (_ & Hg)]; [auto|].
  exfalso. eapply no_me_not_in; [|exact Hin].
  eapply (grows_pre _ s0 s2 _ pre); [exact E | exact Hg |]. intros n. apply no_me_plain. exact Hp.
Qed.

Lemma call_refused_finish s s2 t c pre t0 c0 :
  trace s2 = pre ++ trace s -> core_of s2 = core_of s -> rest_of s2 = rest_of s ->
  lockq s2 = [] -> tasks s2 = put_task (tasks s) t (c, Granted1) ->
  find_task (tasks s) t = None -> holder s = None -> lockq s = [] -> disallowed c false (st_fsm s) ->
  ((is_cont c = false /\ pre = [EvCall t c] /\ cont_plugins s2 = cont_plugins s) \/
   (is_cont c = true /\ pre = [EvPub (PCont true); EvCall t c] /\
    cont_plugins s2 = cont_plugins s ++ [(t, false)] /\ cont_closed s2 = false)) ->
  In (EvRet t0 c0 RMachineError) (appended s (refuse s2 t c)) ->
  t0 = t /\ c0 = c /\ refused_step s (refuse s2 t c) (Call t c) t c.
Proof.
  intros Et Ec Er Eq Ets Ef Hh Hq Hd Hk Hin.
  destruct (refuse_new s2 t c) as (new & En & Hnew).
  destruct (refuse_rest s2 t c) as (R1 & R2 & R3 & R4 & R5).
  assert (En' : trace (refuse s2 t c) = (new ++ pre) ++ trace s) by (rewrite En, Et, app_assoc; reflexivity).
  rewrite (appended_ext _ _ _ En') in *. rewrite rev_app_distr in *.
  assert (Hshape : (is_cont c = false /\ new = [EvRet t c RMachineError] /\ pre = [EvCall t c]) \/
                   (is_cont c = true /\ exists b, new = [EvRet t c RMachineError; EvPub (PCont b)] /\
                                                  pre = [EvPub (PCont true); EvCall t c])).
  { destruct Hk as [(Hc & -> & _) | (Hc & -> & _ & Hcc)].
    - left. destruct Hnew as [(-> & _) | (Hc' & _)]; [auto | congruence].
    - right. split; auto. destruct Hnew as [(_ & [Hc' | Hc']) | (_ & _ & b & ->)]; try congruence. eauto. }
  assert (Hid : t0 = t /\ c0 = c).
  { apply in_app_or in Hin.
    destruct Hshape as [(_ & -> & ->) | (_ & b & -> & ->)]; simpl in Hin;
      destruct Hin as [Hin | Hin]; repeat (destruct Hin as [Hin | Hin]; try discriminate Hin; try contradiction);
      inversion Hin; auto. }
  destruct Hid as (-> & ->).
  assert (Ecore : core_of (refuse s2 t c) = core_of s) by (rewrite core_refuse; exact Ec).
  split; auto. split; auto. unfold refused_step. repeat split; auto.
  - right. repeat split; auto.
    + rewrite (appended_ext _ _ _ En').
      destruct Hshape as [(Hc & -> & ->) | (Hc & b & -> & ->)]; [left; auto | right; split; auto; exists b; reflexivity].
    + rewrite R3, Eq. reflexivity.
    + rewrite R4, Eq. reflexivity.
    + rewrite R5, Eq, Ets. simpl. apply remove_put_absent. exact Ef.
  - congruence.
  - rewrite R2. destruct Hk as [(Hc & _ & ->) | (Hc & _ & -> & _)]; rewrite Hc; auto.
    rewrite filter_app. simpl. unfold unreg at 2. simpl. rewrite Nat.eqb_refl. simpl. rewrite app_nil_r. reflexivity.
  - eapply hooks_same; [exact En'|].
    destruct Hshape as [(_ & -> & ->) | (_ & b & -> & ->)]; reflexivity.
Qed.

Lemma refused_by_call s t c t0 c0 :
  CI s -> find_task (tasks s) t = None ->
  In (EvRet t0 c0 RMachineError) (appended s (do_call s t c)) ->
  t0 = t /\ c0 = c /\ refused_step s (do_call s t c) (Call t c) t c.
Proof.
  intros HC Ef Hin. unfold do_call in *. rewrite Ef in *.
  assert (Hno : forall x, grows no_me s x -> In (EvRet t0 c0 RMachineError) (appended s x) -> False)
    by (intros x Hg Hi; eapply no_me_not_in; eauto).
  Ltac by_acquire Hin pre :=
    match type of Hin with In _ (appended ?s (acquire ?s1 ?t ?c ?b)) =>
      let A := fresh "A" in
      destruct (acquire_refused s s1 t c b _ _ pre eq_refl eq_refl Hin) as (A1 & A2 & A3 & A4);
      simpl in A1, A2, A3; rewrite A4 in *
    end.
  destruct c; cbn [nl_started nl_closed cont_closed running_process send_command set_trace] in *.
  - (* CStart *)
    destruct (nl_started s) eqn:En; [exfalso; eapply Hno; [|exact Hin]; leaf|].
    by_acquire Hin [EvPub (PCont false); EvCall t CStart].
    exfalso. apply A3. apply (ci_fresh _ HC En).
  - by_acquire Hin [EvCall t CRun].
    eapply call_refused_finish; eauto; try reflexivity; auto 10.
  - by_acquire Hin [EvCall t (CReset o)].
    eapply call_refused_finish; eauto; try reflexivity; auto 10.
  - (* CClose *)
    destruct (nl_closed s); [exfalso; eapply Hno; [|exact Hin]; leaf|]. simpl in Hin.
    destruct (nl_started s) eqn:En.
    + by_acquire Hin [EvCall t CClose]. destruct A3 as (? & _). discriminate.
    + by_acquire Hin [EvPub (PCont false); EvCall t CClose].
      exfalso. apply A3. apply (ci_fresh _ HC En).
  - destruct (cont_closed s) eqn:Ecc; [exfalso; eapply Hno; [|exact Hin]; leaf|].
    by_acquire Hin [EvPub (PCont true); EvCall t CRunCont].
    eapply call_refused_finish; eauto; try reflexivity; auto 10.
  - destruct (cont_closed s) eqn:Ecc; [exfalso; eapply Hno; [|exact Hin]; leaf|].
    by_acquire Hin [EvPub (PCont true); EvCall t CRunContWait].
    eapply call_refused_finish; eauto; try reflexivity; auto 10.
  - by_acquire Hin [EvCall t CRunSession].
    eapply call_refused_finish; eauto; try reflexivity; auto 10.
  - exfalso. eapply Hno; [|exact Hin]. destruct (running_process s); leaf.
  - exfalso. eapply Hno; [|exact Hin]. destruct (send_command s); leaf.
Qed.

Lemma appended_same s s' : trace s' = trace s -> appended s s' = [].
Proof. intros E. apply (appended_ext s s' []). exact E. Qed.

Theorem refused_on_history s l t c :
  LkS s -> CI s -> In (EvRet t c RMachineError) (appended s (step s l)) -> refused_step s (step s l) l t c.
Proof.
  intros HL HC Hin. destruct l as [t' c' | t' | | o]; simpl in *.
  - destruct (find_task (tasks s) t') eqn:Ef.
    + unfold do_call in Hin. rewrite Ef in Hin. rewrite appended_same in Hin by reflexivity. destruct Hin.
    + destruct (refused_by_call s t' c' t c HC Ef Hin) as (-> & -> & H). exact H.
  - destruct (find_task (tasks s) t') as [[c' p]|] eqn:Ef.
    + destruct p; try (exfalso; eapply no_me_not_in; [|exact Hin]; apply do_step_nome; auto; intros c0 E; congruence).
      destruct (refused_by_step s t' c' t c HL Ef Hin) as (-> & -> & H). exact H.
    + exfalso. eapply no_me_not_in; [|exact Hin]; apply do_step_nome; auto; intros c0 E; congruence.
  - exfalso. eapply no_me_not_in; [apply g_step_run | exact Hin].
  - exfalso. eapply no_me_not_in; [|exact Hin]. unfold do_child_exit. destruct (alive s); leaf.
Qed.

(** ---- A2: when a request that has the lock ends in MachineError ---- *)
Definition accepted_effect (s s' : state) (t : nat) (c : call) : Prop :=
  match c with
  | CReset o =>
    st_fsm s' = st_fsm s /\ runt s' = runt s /\
    exists p, (p = Z_G1 \/ p = Z_G1b) /\ find_task (tasks s') t = Some (c, p)
  | _ =>
    st_fsm s' = Running /\ runt s' = Some RT_New /\ run_finished s' = Some false /\ run_owner s' = t /\
    find_task (tasks s') t = Some (c, R_WaitStarted) /\ trace s' = trace s
  end.

Lemma disallowed_dec c b f : disallowed c b f \/ ~ disallowed c b f.
Proof.
  unfold disallowed. destruct c, f, b; try tauto; try (left; discriminate); try (right; intros H; apply H; reflexivity);
    try (left; split; [reflexivity | discriminate]); try (left; split; discriminate);
    try (right; intros (H & _); discriminate); try (right; intros (_ & H); apply H; reflexivity);
    try (right; intros (H & _); apply H; reflexivity).
Qed.

Lemma refuse_has_ret s0 s t c pre : trace s = pre ++ trace s0 ->
  In (EvRet t c RMachineError) (appended s0 (refuse s t c)).
Proof.
  intros E. destruct (refuse_new s t c) as (new & En & Hnew).
  assert (En' : trace (refuse s t c) = (new ++ pre) ++ trace s0) by (rewrite En, E, app_assoc; reflexivity).
  rewrite (appended_ext _ _ _ En'). apply -> in_rev. apply in_or_app. left.
  destruct Hnew as [(-> & _) | (_ & _ & b & ->)]; left; reflexivity.
Qed.

Lemma enter_accept s t c :
  (runlike c = true \/ exists o, c = CReset o) -> ~ disallowed c false (st_fsm s) ->
  accepted_effect s (enter s t c false) t c.
Proof.
  intros Hc Hnd. unfold enter, enter_run, enter_reset, accepted_effect, disallowed in *.
  destruct c; try (destruct Hc as [Hc | (o' & Hc)]; discriminate);
    try (destruct (st_fsm s); try (exfalso; apply Hnd; discriminate); simpl; rewrite find_put_eq; auto 10; fail).
  destruct (st_fsm s) eqn:Ef; try (exfalso; apply Hnd; split; discriminate);
    destruct (o_stmt o); simpl; rewrite ?ar_fsm, ?ar_runt, ?apply_rest_tasks; simpl; rewrite ?Ef, find_put_eq; eauto 10.
Qed.

Theorem granted_outcome s t c :
  LkS s -> find_task (tasks s) t = Some (c, Granted1) -> (runlike c = true \/ exists o, c = CReset o) ->
  let s' := step s (Step t) in
  holder s = Some t /\
  (In (EvRet t c RMachineError) (appended s s') <-> disallowed c false (st_fsm s)) /\
  (~ disallowed c false (st_fsm s) -> accepted_effect s s' t c).
Proof.
  intros HL Ef Hc. cbv zeta. simpl.
  assert (Ed : do_step s t = enter s t c false) by (unfold do_step; rewrite Ef; reflexivity).
  split; [eapply (lk_holder_of _ _ _ HL); eauto|]. split; [split|].
  - intros Hin. destruct (refused_by_step s t c t c HL Ef Hin) as (_ & _ & H). apply H.
  - intros Hd. rewrite Ed. destruct (enter_cases s t c false) as [(_ & Er) | (Hnd & _)]; [|contradiction].
    rewrite Er. apply (refuse_has_ret s s t c []). reflexivity.
  - intros Hnd. rewrite Ed. apply enter_accept; auto.
Qed.

(** the same when the lock is free and the request is judged inside the [Call] label;
    when the lock is busy the request only queues *)
Theorem direct_outcome s t c :
  find_task (tasks s) t = None -> (runlike c = true \/ exists o, c = CReset o) ->
  (is_cont c = true -> cont_closed s = false) ->
  let s' := step s (Call t c) in
  (holder s = None -> lockq s = [] ->
   (disallowed c false (st_fsm s) -> In (EvRet t c RMachineError) (appended s s')) /\
   (~ disallowed c false (st_fsm s) ->
    match c with
    | CReset o => st_fsm s' = st_fsm s /\ runt s' = runt s /\
                  exists p, (p = Z_G1 \/ p = Z_G1b) /\ find_task (tasks s') t = Some (c, p)
    | _ => st_fsm s' = Running /\ runt s' = Some RT_New /\ run_finished s' = Some false /\ run_owner s' = t /\
           find_task (tasks s') t = Some (c, R_WaitStarted)
    end)) /\
  (holder s <> None \/ lockq s <> [] ->
   find_task (tasks s') t = Some (c, WaitLock1) /\ core_of s' = core_of s /\
   forall t0 c0 r, ~ In (EvRet t0 c0 r) (appended s s')).
Proof.
  intros Ef Hc Hcc. cbv zeta. simpl. unfold do_call. rewrite Ef.
  assert (Hacq : forall s1 pre, trace s1 = pre ++ trace s -> st_fsm s1 = st_fsm s -> runt s1 = runt s ->
            holder s1 = holder s -> lockq s1 = lockq s -> core_of s1 = core_of s ->
            (forall t0 c0 r, ~ In (EvRet t0 c0 r) pre) ->
     (holder s = None -> lockq s = [] ->
      (disallowed c false (st_fsm s) -> In (EvRet t c RMachineError) (appended s (acquire s1 t c false))) /\
      (~ disallowed c false (st_fsm s) ->
        accepted_effect s1 (acquire s1 t c false) t c)) /\
     (holder s <> None \/ lockq s <> [] ->
      find_task (tasks (acquire s1 t c false)) t = Some (c, WaitLock1) /\ core_of (acquire s1 t c false) = core_of s /\
      forall t0 c0 r, ~ In (EvRet t0 c0 r) (appended s (acquire s1 t c false)))).
  { intros s1 pre Et Efs Er Eh Eq Eco Hpre. unfold acquire. rewrite Eh, Eq. split.
    - intros -> ->. set (s2 := set_pc (set_holder s1 (Some t)) t c Granted1). split.
      + intros Hd. destruct (enter_cases s2 t c false) as [(_ & Ee) | (Hnd & _)].
        * rewrite Ee. apply (refuse_has_ret s s2 t c pre). exact Et.
        * exfalso. apply Hnd. simpl. rewrite Efs. exact Hd.
      + intros Hnd. assert (Ha : accepted_effect s2 (enter s2 t c false) t c).
        { apply enter_accept; auto. simpl. rewrite Efs. exact Hnd. }
        unfold accepted_effect in *. destruct c; exact Ha.
    - intros Hb.
      assert (Eb : (match holder s with Some _ => set_pc (set_lockq s1 (lockq s ++ [t])) t c WaitLock1
                    | None => match lockq s with [] => enter (set_pc (set_holder s1 (Some t)) t c Granted1) t c false
                              | _ :: _ => set_pc (set_lockq s1 (lockq s ++ [t])) t c WaitLock1 end end)
                   = set_pc (set_lockq s1 (lockq s ++ [t])) t c WaitLock1).
      { destruct (holder s); auto. destruct (lockq s); auto. destruct Hb; congruence. }
      match type of Eb with ?L = _ => change (match holder s with
              | Some _ => set_pc (set_lockq s1 (lockq s ++ [t])) t c WaitLock1
              | None => match lockq s with
                        | [] => enter (set_pc (set_holder s1 (Some t)) t c Granted1) t c false
                        | _ :: _ => set_pc (set_lockq s1 (lockq s ++ [t])) t c WaitLock1
                        end
              end) with L end.
      rewrite Eb. simpl. rewrite find_put_eq. split; auto. split; [exact Eco|].
      intros t0 c0 r Hin. rewrite (appended_ext _ _ pre) in Hin by exact Et. apply in_rev in Hin. eapply Hpre; eauto. }
  assert (Hp1 : forall t0 c0 r, ~ In (EvRet t0 c0 r) [EvCall t c]) by (intros t0 c0 r [E | []]; discriminate).
  assert (Hp2 : forall t0 c0 r, ~ In (EvRet t0 c0 r) [EvPub (PCont true); EvCall t c])
    by (intros t0 c0 r [E | [E | []]]; discriminate).
  assert (Hfin : forall s1,
     ((holder s = None -> lockq s = [] ->
      (disallowed c false (st_fsm s) -> In (EvRet t c RMachineError) (appended s (acquire s1 t c false))) /\
      (~ disallowed c false (st_fsm s) -> accepted_effect s1 (acquire s1 t c false) t c)) /\
     (holder s <> None \/ lockq s <> [] ->
      find_task (tasks (acquire s1 t c false)) t = Some (c, WaitLock1) /\ core_of (acquire s1 t c false) = core_of s /\
      forall t0 c0 r, ~ In (EvRet t0 c0 r) (appended s (acquire s1 t c false)))) ->
     st_fsm s1 = st_fsm s -> runt s1 = runt s ->
     (holder s = None -> lockq s = [] ->
      (disallowed c false (st_fsm s) -> In (EvRet t c RMachineError) (appended s (acquire s1 t c false))) /\
      (~ disallowed c false (st_fsm s) ->
       match c with
       | CReset o => st_fsm (acquire s1 t c false) = st_fsm s /\ runt (acquire s1 t c false) = runt s /\
                     exists p, (p = Z_G1 \/ p = Z_G1b) /\ find_task (tasks (acquire s1 t c false)) t = Some (c, p)
       | _ => st_fsm (acquire s1 t c false) = Running /\ runt (acquire s1 t c false) = Some RT_New /\
              run_finished (acquire s1 t c false) = Some false /\ run_owner (acquire s1 t c false) = t /\
              find_task (tasks (acquire s1 t c false)) t = Some (c, R_WaitStarted)
       end)) /\
     (holder s <> None \/ lockq s <> [] ->
      find_task (tasks (acquire s1 t c false)) t = Some (c, WaitLock1) /\ core_of (acquire s1 t c false) = core_of s /\
      forall t0 c0 r, ~ In (EvRet t0 c0 r) (appended s (acquire s1 t c false)))).
  { intros s1 (H1 & H2) E1 E2. split; [|exact H2]. intros Hh Hq. destruct (H1 Hh Hq) as (Ha & Hb).
    split; [exact Ha|]. intros Hnd. specialize (Hb Hnd). unfold accepted_effect in Hb.
    destruct c; try tauto. rewrite <- E1, <- E2. exact Hb. }
  destruct c; try (destruct Hc as [Hc | (o' & Hc)]; discriminate);
    cbn [nl_started nl_closed cont_closed running_process send_command set_trace].
  - apply Hfin; auto. apply (Hacq _ [EvCall t CRun]); auto.
  - apply Hfin; auto. apply (Hacq _ [EvCall t (CReset o)]); auto.
  - rewrite (Hcc eq_refl). apply Hfin; auto. apply (Hacq _ [EvPub (PCont true); EvCall t CRunCont]); auto.
  - rewrite (Hcc eq_refl). apply Hfin; auto. apply (Hacq _ [EvPub (PCont true); EvCall t CRunContWait]); auto.
  - apply Hfin; auto. apply (Hacq _ [EvCall t CRunSession]); auto.
Qed.

(** ---- A3: while a run task exists every run request that reaches its turn is refused ---- *)
Lemma runlike_disallowed c f : runlike c = true -> (disallowed c false f <-> f <> Initialized).
Proof. destruct c; simpl; try discriminate; tauto. Qed.

Theorem second_run_refused s t c :
  LkS s -> FI s -> runt s <> None -> runlike c = true ->
  find_task (tasks s) t = Some (c, Granted1) ->
  In (EvRet t c RMachineError) (appended s (step s (Step t))).
Proof.
  intros HL HF Hr Hc Ef. destruct (granted_outcome s t c HL Ef (or_introl Hc)) as (_ & Hiff & _).
  apply Hiff. apply runlike_disallowed; auto. destruct HF as [_ HS]. intros Hf.
  apply Hr. eapply Scal_idle; [exact HS | |]; rewrite Hf; discriminate.
Qed.

Theorem second_run_refused_call s t c :
  FI s -> runt s <> None -> runlike c = true -> find_task (tasks s) t = None ->
  (is_cont c = true -> cont_closed s = false) -> holder s = None -> lockq s = [] ->
  In (EvRet t c RMachineError) (appended s (step s (Call t c))).
Proof.
  intros HF Hr Hc Ef Hcc Hh Hq. destruct (direct_outcome s t c Ef (or_introl Hc) Hcc) as (H & _).
  destruct (H Hh Hq) as (H1 & _). apply H1. apply runlike_disallowed; auto. destruct HF as [_ HS]. intros Hf.
  apply Hr. eapply Scal_idle; [exact HS | |]; rewrite Hf; discriminate.
Qed.

(** a reset is refused while the state is 'running' ... *)
Theorem reset_refused_while_running s t o :
  LkS s -> st_fsm s = Running -> find_task (tasks s) t = Some (CReset o, Granted1) ->
  In (EvRet t (CReset o) RMachineError) (appended s (step s (Step t))).
Proof.
  intros HL Hf Ef. destruct (granted_outcome s t (CReset o) HL Ef) as (_ & Hiff & _); [right; eauto|].
  apply Hiff. simpl. rewrite Hf. split; discriminate.
Qed.

(** ... but NOT while the run task is finishing (state 'finished', run task not yet ended):
    it is accepted and then waits for the run task before it re-initialises *)
Theorem reset_waits_for_run_task s t c p :
  LkS s -> FI s -> runt s <> None -> find_task (tasks s) t = Some (c, p) -> p = Z_G1b \/ p = Z_WaitRunTask ->
  core_of (step s (Step t)) = core_of s /\ find_task (tasks (step s (Step t))) t = Some (c, Z_WaitRunTask).
Proof.
  intros HL HF Hr Ef Hp. pose proof HF as [HP HS]. pose proof (HP _ _ _ Ef) as Hok.
  simpl. unfold do_step. rewrite Ef. destruct (runt s) as [x|] eqn:Er; [|congruence].
  destruct Hp as [-> | ->]; simpl in Hok.
  - destruct (st_fsm s) eqn:Efs; try discriminate.
    + exfalso. assert (E0 : Some x = None) by (eapply Scal_idle; [exact HS | discriminate | discriminate]). discriminate.
    + split; [reflexivity|]. simpl. apply find_put_eq.
  - split; [reflexivity | exact Ef].
Qed.

Definition finishing_labels : list label :=
  [Call 0%nat CStart; Step 0%nat; Step 0%nat; Step 0%nat;
   Call 1%nat CRun; StepRun; StepRun; StepRun; Step 1%nat; Step 1%nat; ChildExit OReturn; StepRun; StepRun].

Lemma reset_while_finishing_witness :
  let s := run_labels (init_state 7 1 false false) finishing_labels in
  let c := CReset (mkOpts None None None None) in
  runt s = Some RT_G_fin /\ st_fsm s = Finished /\
  find_task (tasks (step s (Call 2%nat c))) 2%nat = Some (c, Z_G1b) /\
  appended s (step s (Call 2%nat c))
  = [EvCall 2%nat c; EvHook (mkHook HReset Finished None None None)].
Proof. vm_compute. repeat split; reflexivity. Qed.

(** ---- an accepted run request found the object idle ---- *)
Definition runpc (p : pc) : bool :=
  match p with R_WaitStarted | R_G | P_WaitRunFinished => true | _ => false end.

Lemma runpc_granted p0 p : runpc p = true -> (p = p0 \/ p = granted_pc p0) -> p = p0.
Proof. intros H [-> | ->]; auto. destruct p0; simpl in *; auto; discriminate. Qed.

Ltac of_tac :=
  fsimpl;
  first [ apply of_refl | apply of_put | apply of_remove
        | eapply of_trans; [apply of_rel | apply of_remove]
        | eapply of_trans; [apply of_rel | apply of_put] ].

Lemma of_refuse s t c : others_from (tasks s) (tasks (refuse s t c)) t.
Proof. destruct (refuse_rest s t c) as (_ & _ & _ & _ & ->). eapply of_trans; [apply of_rel | apply of_remove]. Qed.

Lemma of_close_trigger s t : others_from (tasks s) (tasks (close_trigger s t)) t.
Proof.
  unfold close_trigger, close_enter_closed. destruct (st_fsm s); try of_tac. destruct (runt s); of_tac.
Qed.

Lemma of_enter s t c b : others_from (tasks s) (tasks (enter s t c b)) t.
Proof.
  unfold enter, enter_start, enter_run, enter_reset, enter_close.
  destruct c; try (destruct (st_fsm s); try apply of_refuse; of_tac); try apply of_refl.
  - destruct (st_fsm s); try apply of_refuse; destruct (o_stmt o); of_tac.
  - destruct b.
    + simpl. destruct (st_fsm s); try apply (of_close_trigger (publish s PEndAll) t).
      destruct (run_finished s) as [[|]|]; try apply (of_close_trigger (publish s PEndAll) t); of_tac.
    + destruct (st_fsm s); try apply of_refuse; of_tac.
Qed.

Lemma of_acquire s t c b : others_from (tasks s) (tasks (acquire s t c b)) t.
Proof.
  unfold acquire. destruct (holder s); [of_tac|]. destruct (lockq s); [|of_tac].
  eapply of_trans; [|apply of_enter]. of_tac.
Qed.

Lemma of_do_call s t c : others_from (tasks s) (tasks (do_call s t c)) t.
Proof.
  unfold do_call. destruct (find_task (tasks s) t); [apply of_refl|].
  destruct c; cbn [nl_started nl_closed cont_closed running_process send_command set_trace];
    try (match goal with |- others_from _ (tasks (acquire ?s1 _ _ _)) _ => exact (of_acquire s1 _ _ _) end).
  - destruct (nl_started s); [of_tac|]. match goal with |- others_from _ (tasks (acquire ?s1 _ _ _)) _ => exact (of_acquire s1 _ _ _) end.
  - destruct (nl_closed s); [of_tac|]. simpl.
    destruct (nl_started s); match goal with |- others_from _ (tasks (acquire ?s1 _ _ _)) _ => exact (of_acquire s1 _ _ _) end.
  - destruct (cont_closed s); [of_tac|]. match goal with |- others_from _ (tasks (acquire ?s1 _ _ _)) _ => exact (of_acquire s1 _ _ _) end.
  - destruct (cont_closed s); [of_tac|]. match goal with |- others_from _ (tasks (acquire ?s1 _ _ _)) _ => exact (of_acquire s1 _ _ _) end.
  - destruct (running_process s); of_tac.
  - destruct (send_command s); of_tac.
Qed.

Lemma of_do_step s t : others_from (tasks s) (tasks (do_step s t)) t.
Proof.
  unfold do_step. destruct (find_task (tasks s) t) as [[c p]|]; [|apply of_refl].
  destruct p; try of_tac; try apply of_enter.
  - destruct c; try of_tac. eapply of_trans; [apply of_rel|]. rewrite <- release_tasks. apply of_acquire.
  - destruct (started_ev s); of_tac.
  - destruct c; of_tac.
  - destruct c; of_tac.
  - unfold reset_reinit. destruct (st_fsm s); try of_tac. destruct (runt s); of_tac.
  - unfold reset_reinit. destruct (runt s); of_tac.
  - destruct (run_finished s) as [[|]|]; try of_tac. apply of_close_trigger.
  - unfold close_enter_closed. destruct (runt s); of_tac.
  - destruct (run_finished s) as [[|]|]; of_tac.
Qed.

Lemma find_refuse s t c : find_task (tasks (refuse s t c)) t = None.
Proof. destruct (refuse_rest s t c) as (_ & _ & _ & _ & ->). apply find_remove_eq. Qed.

Ltac own_tac :=
  fsimpl; rewrite ?find_refuse, ?find_put_eq, ?find_remove_eq;
  let H := fresh in let Hp := fresh in
  intros H Hp; try discriminate H; inversion H; subst; simpl in Hp; try discriminate Hp.

Lemma close_trigger_own s t c' p' :
  find_task (tasks (close_trigger s t)) t = Some (c', p') -> runpc p' = true -> False.
Proof.
  unfold close_trigger, close_enter_closed. destruct (st_fsm s); try (own_tac; fail).
  destruct (runt s); own_tac.
Qed.

Lemma enter_own s t c b c' p' :
  find_task (tasks (enter s t c b)) t = Some (c', p') -> runpc p' = true ->
  find_task (tasks s) t = Some (c', p') \/
  (c' = c /\ p' = R_WaitStarted /\ runlike c = true /\ st_fsm s = Initialized /\ st_fsm (enter s t c b) = Running).
Proof.
  unfold enter, enter_start, enter_run, enter_reset, enter_close.
  destruct c; try (destruct (st_fsm s) eqn:Efs; own_tac; right; auto 10; fail); auto.
  - destruct (st_fsm s); try (own_tac; fail); destruct (o_stmt o); own_tac.
  - destruct b.
    + simpl. intros H Hp. exfalso.
      destruct (st_fsm s); try (apply (close_trigger_own (publish s PEndAll) t _ _ H Hp)).
      destruct (run_finished s) as [[|]|]; try (apply (close_trigger_own (publish s PEndAll) t _ _ H Hp));
        revert H Hp; own_tac.
    + destruct (st_fsm s); own_tac.
Qed.

Lemma acquire_own s t c b c' p' :
  find_task (tasks (acquire s t c b)) t = Some (c', p') -> runpc p' = true ->
  c' = c /\ p' = R_WaitStarted /\ runlike c = true /\ st_fsm s = Initialized /\ st_fsm (acquire s t c b) = Running.
Proof.
  unfold acquire. destruct (holder s); [destruct b; own_tac|]. destruct (lockq s); [|destruct b; own_tac].
  intros H Hp. destruct (enter_own _ _ _ _ _ _ H Hp) as [H0 | H0]; [|exact H0].
  exfalso. simpl in H0. rewrite find_put_eq in H0. inversion H0; subst. destruct b; discriminate.
Qed.

Lemma do_call_own s t c c' p' :
  find_task (tasks s) t = None ->
  find_task (tasks (do_call s t c)) t = Some (c', p') -> runpc p' = true ->
  c' = c /\ p' = R_WaitStarted /\ runlike c = true /\ st_fsm s = Initialized /\ st_fsm (do_call s t c) = Running.
Proof.
  intros Ef. unfold do_call. rewrite Ef.
  destruct c; cbn [nl_started nl_closed cont_closed running_process send_command set_trace];
    try (match goal with |- find_task (tasks (acquire ?s1 _ _ _)) _ = _ -> _ => exact (acquire_own s1 _ _ _ _ _) end).
  - destruct (nl_started s); [own_tac|].
    match goal with |- find_task (tasks (acquire ?s1 _ _ _)) _ = _ -> _ => exact (acquire_own s1 _ _ _ _ _) end.
  - destruct (nl_closed s); [own_tac|]. simpl.
    destruct (nl_started s);
      match goal with |- find_task (tasks (acquire ?s1 _ _ _)) _ = _ -> _ => exact (acquire_own s1 _ _ _ _ _) end.
  - destruct (cont_closed s); [own_tac|].
    match goal with |- find_task (tasks (acquire ?s1 _ _ _)) _ = _ -> _ => exact (acquire_own s1 _ _ _ _ _) end.
  - destruct (cont_closed s); [own_tac|].
    match goal with |- find_task (tasks (acquire ?s1 _ _ _)) _ = _ -> _ => exact (acquire_own s1 _ _ _ _ _) end.
  - destruct (running_process s); own_tac.
  - destruct (send_command s); own_tac.
Qed.

Lemma do_step_own s t c0 p0 c p :
  LkS s -> find_task (tasks s) t = Some (c0, p0) ->
  find_task (tasks (do_step s t)) t = Some (c, p) -> runpc p = true ->
  c = c0 /\ (runpc p0 = true \/
             (p0 = Granted1 /\ p = R_WaitStarted /\ runlike c = true /\ st_fsm s = Initialized /\
              st_fsm (do_step s t) = Running)).
Proof.
  intros HL Ef. pose proof (lk_compat _ _ _ HL _ _ _ Ef) as Hc. unfold do_step. rewrite Ef.
  destruct p0; try (rewrite Ef; own_tac; auto; fail); try (own_tac; auto; fail).
  - intros H Hp. destruct (enter_own _ _ _ _ _ _ H Hp) as [H0 | (-> & H0)].
    + rewrite Ef in H0. inversion H0; subst. discriminate.
    + split; auto; right; tauto.
  - destruct c0; simpl in Hc; try discriminate. intros H Hp.
    destruct (enter_own _ _ _ _ _ _ H Hp) as [H0 | (_ & _ & H0 & _)]; [|discriminate].
    rewrite Ef in H0. inversion H0; subst. discriminate.
  - destruct c0; simpl in Hc; try discriminate; [own_tac|]. intros H Hp.
    destruct (acquire_own _ _ _ _ _ _ H Hp) as (_ & _ & H0 & _). discriminate.
  - destruct (started_ev s); [own_tac; auto | rewrite Ef; own_tac; auto].
  - destruct c0; own_tac; auto.
  - destruct c0; try (rewrite Ef; own_tac; fail). own_tac.
  - unfold reset_reinit. destruct (st_fsm s); try (own_tac; fail). destruct (runt s); own_tac.
  - unfold reset_reinit. destruct (runt s); [rewrite Ef|]; own_tac.
  - destruct (run_finished s) as [[|]|]; try (rewrite Ef; own_tac; fail).
    intros H Hp. exfalso. eapply close_trigger_own; eauto.
  - unfold close_enter_closed. destruct (runt s); [rewrite Ef|]; own_tac.
  - destruct (run_finished s) as [[|]|]; try (rewrite Ef; own_tac; auto; fail). own_tac.
Qed.

Lemma task_back s l t c p :
  LkS s -> find_task (tasks (step s l)) t = Some (c, p) -> runpc p = true ->
  (exists p0, find_task (tasks s) t = Some (c, p0) /\ runpc p0 = true) \/
  ((l = Step t \/ l = Call t c) /\ p = R_WaitStarted /\ runlike c = true /\ st_fsm s = Initialized /\
   st_fsm (step s l) = Running).
Proof.
  intros HL H Hp.
  assert (Hother : forall t', t <> t' -> others_from (tasks s) (tasks (step s l)) t' ->
            exists p0, find_task (tasks s) t = Some (c, p0) /\ runpc p0 = true).
  { intros t' Hn Ho. destruct (Ho _ _ _ Hn H) as (p0 & Hf0 & Hp0).
    assert (E : p = p0) by (apply runpc_granted; auto). subst p0. eauto. }
  destruct l as [t' c' | t' | | o]; simpl in *.
  - destruct (Nat.eq_dec t t') as [<- | Hn]; [|left; apply (Hother t' Hn); apply of_do_call].
    destruct (find_task (tasks s) t) as [x|] eqn:Ef.
    + left. unfold do_call in H. rewrite Ef in H. rewrite Ef in H. inversion H; subst. eauto.
    + right. destruct (do_call_own s t c' c p Ef H Hp) as (-> & H1 & H2 & H3 & H4). auto 10.
  - destruct (Nat.eq_dec t t') as [<- | Hn]; [|left; apply (Hother t' Hn); apply of_do_step].
    destruct (find_task (tasks s) t) as [[c0 p0]|] eqn:Ef.
    + destruct (do_step_own s t c0 p0 c p HL Ef H Hp) as (-> & [H0 | (_ & H1 & H2 & H3 & H4)]); [left; eauto | right; auto 10].
    + left. unfold do_step in H. rewrite Ef in H. rewrite Ef in H. discriminate.
  - left. destruct (slk_step_run s) as (_ & _ & E). rewrite E in H. eauto.
  - left. unfold do_child_exit in H. destruct (alive s); simpl in H; eauto.
Qed.

(** the moment a run request was accepted: a prefix [ls1] of the label sequence and the
    label [l1] (the request's own [Step], or its [Call] when the lock was free) *)
Definition accepted_at (init : state) (ls1 : list label) (l1 : label) (t : nat) (c : call) : Prop :=
  let s1 := run_labels init ls1 in
  st_fsm s1 = Initialized /\ runt s1 = None /\ alive s1 = 0%nat /\ pending_exit s1 = None /\
  (l1 = Step t \/ l1 = Call t c) /\ runlike c = true /\
  st_fsm (step s1 l1) = Running /\ find_task (tasks (step s1 l1)) t = Some (c, R_WaitStarted).

Definition nook (new : list event) : Prop := forall t c, ~ In (EvRet t c ROk) new.

Lemma g_enter_run s t c : grows nook s (enter_run s t c).
Proof.
  unfold enter_run.
  assert (Hr : grows nook s (refuse s t c)).
  { destruct (refuse_new s t c) as (new & En & Hnew). exists new. split; auto.
    intros t' c' Hin. destruct Hnew as [(-> & _) | (_ & _ & b & ->)]; simpl in Hin;
      repeat (destruct Hin as [Hin | Hin]; try discriminate Hin; try contradiction). }
  destruct (st_fsm s); auto. exists []. split; [reflexivity | intros t' c' []].
Qed.

Lemma nook_app a b : nook a -> nook b -> nook (a ++ b).
Proof. intros Ha Hb t c Hin. apply in_app_or in Hin. destruct Hin; [eapply Ha | eapply Hb]; eauto. Qed.

Lemma enter_runlike s t c b : runlike c = true -> enter s t c b = enter_run s t c.
Proof. destruct c; simpl; try discriminate; reflexivity. Qed.

Lemma g_acquire_run s0 s1 t c pre :
  runlike c = true -> trace s1 = pre ++ trace s0 -> nook pre -> grows nook s0 (acquire s1 t c false).
Proof.
  intros Hc E Hp. unfold acquire.
  assert (Hq : forall x, trace x = trace s1 -> grows nook s0 x) by (intros x Ex; exists pre; rewrite Ex; auto).
  destruct (holder s1); [apply Hq; reflexivity|]. destruct (lockq s1); [|apply Hq; reflexivity].
  rewrite enter_runlike by assumption.
  destruct (g_enter_run (set_pc (set_holder s1 (Some t)) t c Granted1) t c) as (n & En & Hn).
  exists (n ++ pre). split; [rewrite En; simpl; rewrite E, app_assoc; reflexivity | apply nook_app; auto].
Qed.

Lemma nook_not_in s s' t c : grows nook s s' -> ~ In (EvRet t c ROk) (appended s s').
Proof.
  intros (new & E & H) Hin. rewrite (appended_ext _ _ _ E) in Hin. apply in_rev in Hin. eapply H; eauto.
Qed.

Lemma call_runlike_no_ok s t c t0 c0 :
  runlike c = true -> find_task (tasks s) t = None -> ~ In (EvRet t0 c0 ROk) (appended s (do_call s t c)).
Proof.
  intros Hc Ef. apply nook_not_in. unfold do_call. rewrite Ef.
  assert (H1 : nook [EvCall t c]) by (intros t' c' [E | []]; discriminate).
  assert (H2 : nook [EvPub (PCont true); EvCall t c]) by (intros t' c' [E | [E | []]]; discriminate).
  destruct c; simpl in Hc; try discriminate;
    cbn [nl_started nl_closed cont_closed running_process send_command set_trace].
  - apply (g_acquire_run s _ t CRun [EvCall t CRun]); auto.
  - destruct (cont_closed s).
    + eexists [_; _]. split; [reflexivity|]. intros t' c' [E | [E | []]]; discriminate.
    + apply (g_acquire_run s _ t CRunCont [EvPub (PCont true); EvCall t CRunCont]); auto.
  - destruct (cont_closed s).
    + eexists [_; _]. split; [reflexivity|]. intros t' c' [E | [E | []]]; discriminate.
    + apply (g_acquire_run s _ t CRunContWait [EvPub (PCont true); EvCall t CRunContWait]); auto.
  - apply (g_acquire_run s _ t CRunSession [EvCall t CRunSession]); auto.
Qed.

Lemma ok_ret_pc s t c p t0 c0 :
  find_task (tasks s) t = Some (c, p) -> runlike c = true -> compat c p = true ->
  In (EvRet t0 c0 ROk) (appended s (do_step s t)) -> runpc p = true.
Proof.
  intros Ef Hc Hcp Hin. destruct (runpc p) eqn:Hp; auto. exfalso.
  eapply nook_not_in; [|exact Hin]. unfold do_step. rewrite Ef.
  destruct p; simpl in Hp; try discriminate; destruct c; simpl in Hc, Hcp; try discriminate;
    try (exists []; split; [reflexivity | intros ? ? []]);
    rewrite enter_runlike by reflexivity; apply g_enter_run.
Qed.

Lemma StepOK_own s s' t0 c0 t c r :
  StepOK s s' t0 c0 -> In (EvRet t c r) (appended s s') -> t = t0 /\ c = c0.
Proof.
  intros [HQ | [(Hc & HR) | (Hc & r0 & new & E & Hn)]] Hin.
  - exfalso. eapply Quiet_no_ret; eauto.
  - destruct HR as (new & E & Hn & Hrest).
    change (EvRet t0 CClose ROk :: new ++ trace s) with ((EvRet t0 CClose ROk :: new) ++ trace s) in E.
    rewrite (appended_ext _ _ _ E) in Hin. apply in_rev in Hin.
    destruct Hin as [Heq | Hin]; [inversion Heq; subst; auto | exfalso; eapply Hn; eauto].
  - change (EvRet t0 c0 r0 :: new ++ trace s) with ((EvRet t0 c0 r0 :: new) ++ trace s) in E.
    rewrite (appended_ext _ _ _ E) in Hin. apply in_rev in Hin.
    destruct Hin as [Heq | Hin]; [inversion Heq; subst; auto | exfalso; eapply Hn; eauto].
Qed.

(** a return belongs to the task and the call whose label it is *)
Lemma ret_own s l t c r :
  LkS s -> FI s -> CI s -> In (EvRet t c r) (appended s (step s l)) ->
  (l = Call t c /\ find_task (tasks s) t = None) \/ (exists p, l = Step t /\ find_task (tasks s) t = Some (c, p)).
Proof.
  intros HL HF HC Hin. destruct l as [t' c' | t' | | o]; simpl in *.
  - destruct (find_task (tasks s) t') eqn:Ef.
    + unfold do_call in Hin. rewrite Ef in Hin. rewrite appended_same in Hin by reflexivity. destruct Hin.
    + destruct (SO_do_call s t' c' HF HC Ef) as [(-> & _ & E) | (_ & H)].
      * rewrite E in Hin. rewrite (appended_ext _ _ [EvRet t' CClose ROk; EvCall t' CClose]) in Hin by reflexivity.
        simpl in Hin. destruct Hin as [E1 | [E1 | []]]; [discriminate|]. inversion E1; subst. auto.
      * destruct (StepOK_own _ _ _ _ _ _ _ H Hin) as (-> & ->). auto.
  - destruct (find_task (tasks s) t') as [[c' p]|] eqn:Ef.
    + destruct (StepOK_own _ _ _ _ _ _ _ (SO_do_step s t' c' p HL HF HC Ef) Hin) as (-> & ->). eauto.
    + unfold do_step in Hin. rewrite Ef in Hin. rewrite appended_same in Hin by reflexivity. destruct Hin.
  - exfalso. eapply Quiet_no_ret; [apply Quiet_step_run | exact Hin].
  - exfalso. eapply Quiet_no_ret; [apply Quiet_child_exit | exact Hin].
Qed.

Section Accepted.
  Variables (stmt start : Z) (th md : bool).
  Let init := init_state stmt start th md.

  Lemma acc_inv ls : forall t c p,
    find_task (tasks (run_labels init ls)) t = Some (c, p) -> runpc p = true ->
    exists ls1 l1 ls2, ls = ls1 ++ l1 :: ls2 /\ accepted_at init ls1 l1 t c.
  Proof.
    induction ls as [|l ls IH] using rev_ind; intros t c p Hf Hp; [discriminate|].
    rewrite run_labels_app in Hf. simpl in Hf.
    destruct (Close.all_inv stmt start th md ls) as (HL & HF & _). fold init in HL, HF.
    destruct (task_back _ _ _ _ _ HL Hf Hp) as [(p0 & Hf0 & Hp0) | (Hl & -> & Hc & Hi & Hr)].
    - destruct (IH _ _ _ Hf0 Hp0) as (ls1 & l1 & ls2 & -> & Ha).
      exists ls1, l1, (ls2 ++ [l]). split; auto. rewrite <- app_assoc. reflexivity.
    - exists ls, l, []. split; auto. unfold accepted_at. cbv zeta.
      destruct HF as [_ HS].
      assert (Hrn : runt (run_labels init ls) = None) by (eapply Scal_idle; [exact HS | |]; rewrite Hi; discriminate).
      pose proof (sc_child _ _ _ _ _ _ HS) as Hch. rewrite Hrn in Hch. destruct Hch as (Ha & Hpe).
      repeat split; auto.
  Qed.

  Theorem accepted_run_implies_idle ls l t c :
    let s := run_labels init ls in
    runlike c = true -> In (EvRet t c ROk) (appended s (step s l)) ->
    exists ls1 l1 ls2, ls = ls1 ++ l1 :: ls2 /\ accepted_at init ls1 l1 t c.
  Proof.
    intros s Hc Hin. destruct (Close.all_inv stmt start th md ls) as (HL & HF & HC). fold init in HL, HF, HC. fold s in HL, HF, HC.
    destruct (ret_own s l t c ROk HL HF HC Hin) as [(-> & Ef) | (p & -> & Ef)].
    - exfalso. simpl in Hin. eapply call_runlike_no_ok; eauto.
    - simpl in Hin. pose proof (lk_compat _ _ _ HL _ _ _ Ef) as Hcp.
      pose proof (ok_ret_pc s t c p t c Ef Hc Hcp Hin) as Hp.
      apply (acc_inv ls t c p Ef Hp).
  Qed.
End Accepted.

(** ---- the statements, for every label sequence ---- *)
Lemma refused_fields s s' l t c : refused_step s s' l t c ->
  st_fsm s' = st_fsm s /\ runt s' = runt s /\ run_finished s' = run_finished s /\ alive s' = alive s /\
  pending_exit s' = pending_exit s /\ run_arg s' = run_arg s /\ exited_proc s' = exited_proc s /\
  started_ev s' = started_ev s /\
  c_stmt s' = c_stmt s /\ c_next s' = c_next s /\ c_threads s' = c_threads s /\ c_modules s' = c_modules s /\
  nl_started s' = nl_started s /\ nl_closed s' = nl_closed s /\ run_owner s' = run_owner s /\
  run_cont s' = run_cont s /\ running_process s' = running_process s /\ send_command s' = send_command s /\
  cont_closed s' = cont_closed s.
Proof.
  intros (_ & _ & Hc & Hr & _).
  destruct (core_fields _ _ Hc) as (E1 & E2 & E3 & E4 & E5 & E6 & E7 & E8 & _).
  unfold rest_of in Hr. inversion Hr. repeat split; auto.
Qed.

Section ReachRefusal.
  Variables (stmt start : Z) (th md : bool) (ls : list label).
  Let s := run_labels (init_state stmt start th md) ls.

  Lemma rr_inv : LkS s /\ FI s /\ CI s.
  Proof. apply Close.all_inv. Qed.

  Lemma all_refused_on_history l t c :
    let s' := step s l in
    let r := EvRet t c RMachineError in
    In r (appended s s') ->
    ((l = Step t /\ holder s = Some t /\ find_task (tasks s) t = Some (c, Granted1) /\
      (appended s s' = [r] \/ (is_cont c = true /\ exists b, appended s s' = [EvPub (PCont b); r])) /\
      holder s' = rel_holder (lockq s) /\ lockq s' = tl (lockq s) /\
      tasks s' = remove_task (rel_tasks (lockq s) (tasks s)) t)
     \/
     (l = Call t c /\ holder s = None /\ lockq s = [] /\ find_task (tasks s) t = None /\
      ((is_cont c = false /\ appended s s' = [EvCall t c; r]) \/
       (is_cont c = true /\ exists b, appended s s' = [EvCall t c; EvPub (PCont true); EvPub (PCont b); r])) /\
      holder s' = None /\ lockq s' = [] /\ tasks s' = tasks s))
    /\ disallowed c false (st_fsm s)
    /\ (st_fsm s' = st_fsm s /\ runt s' = runt s /\ run_finished s' = run_finished s /\ alive s' = alive s /\
        pending_exit s' = pending_exit s /\ run_arg s' = run_arg s /\ exited_proc s' = exited_proc s /\
        started_ev s' = started_ev s /\
        c_stmt s' = c_stmt s /\ c_next s' = c_next s /\ c_threads s' = c_threads s /\ c_modules s' = c_modules s /\
        nl_started s' = nl_started s /\ nl_closed s' = nl_closed s /\ run_owner s' = run_owner s /\
        run_cont s' = run_cont s /\ running_process s' = running_process s /\ send_command s' = send_command s /\
        cont_closed s' = cont_closed s)
    /\ cont_plugins s' = (if is_cont c then filter (unreg t) (cont_plugins s) else cont_plugins s)
    /\ hooks_of (history s') = hooks_of (history s).
  Proof.
    intros s' r Hin. destruct rr_inv as (HL & _ & HC).
    pose proof (refused_on_history s l t c HL HC Hin) as H.
    pose proof (refused_fields _ _ _ _ _ H) as Hf.
    destruct H as (H1 & H2 & _ & _ & H5 & H6). auto.
  Qed.

  Lemma all_run_error_iff t c :
    runlike c = true -> find_task (tasks s) t = Some (c, Granted1) ->
    let s' := step s (Step t) in
    holder s = Some t /\
    (In (EvRet t c RMachineError) (appended s s') <-> st_fsm s <> Initialized) /\
    (st_fsm s = Initialized ->
     st_fsm s' = Running /\ runt s' = Some RT_New /\ run_finished s' = Some false /\ run_owner s' = t /\
     find_task (tasks s') t = Some (c, R_WaitStarted) /\ trace s' = trace s).
  Proof.
    intros Hc Ef s'. destruct rr_inv as (HL & _ & _).
    destruct (granted_outcome s t c HL Ef (or_introl Hc)) as (Hh & Hiff & Hacc).
    split; auto. split.
    - rewrite <- (runlike_disallowed c (st_fsm s) Hc). exact Hiff.
    - intros Hi. assert (Hnd : ~ disallowed c false (st_fsm s)) by (rewrite (runlike_disallowed c _ Hc); tauto).
      specialize (Hacc Hnd). unfold accepted_effect in Hacc. destruct c; simpl in Hc; try discriminate; exact Hacc.
  Qed.

  Lemma all_reset_error_iff t o :
    find_task (tasks s) t = Some (CReset o, Granted1) ->
    let s' := step s (Step t) in
    holder s = Some t /\
    (In (EvRet t (CReset o) RMachineError) (appended s s') <-> (st_fsm s <> Initialized /\ st_fsm s <> Finished)) /\
    (st_fsm s = Initialized \/ st_fsm s = Finished ->
     st_fsm s' = st_fsm s /\ runt s' = runt s /\
     exists p, (p = Z_G1 \/ p = Z_G1b) /\ find_task (tasks s') t = Some (CReset o, p)).
  Proof.
    intros Ef s'. destruct rr_inv as (HL & _ & _).
    destruct (granted_outcome s t (CReset o) HL Ef) as (Hh & Hiff & Hacc); [right; eauto|].
    split; auto. split; [exact Hiff|]. intros Hi. apply Hacc. simpl. tauto.
  Qed.

  Lemma all_direct_error_iff t c :
    find_task (tasks s) t = None -> (runlike c = true \/ exists o, c = CReset o) ->
    (is_cont c = true -> cont_closed s = false) ->
    let s' := step s (Call t c) in
    (holder s = None -> lockq s = [] ->
     (In (EvRet t c RMachineError) (appended s s') <-> disallowed c false (st_fsm s)) /\
     (~ disallowed c false (st_fsm s) ->
      match c with
      | CReset o => st_fsm s' = st_fsm s /\ runt s' = runt s /\
                    exists p, (p = Z_G1 \/ p = Z_G1b) /\ find_task (tasks s') t = Some (c, p)
      | _ => st_fsm s' = Running /\ runt s' = Some RT_New /\ run_finished s' = Some false /\ run_owner s' = t /\
             find_task (tasks s') t = Some (c, R_WaitStarted)
      end)) /\
    (holder s <> None \/ lockq s <> [] ->
     find_task (tasks s') t = Some (c, WaitLock1) /\
     forall t0 c0 r, ~ In (EvRet t0 c0 r) (appended s s')).
  Proof.
    intros Ef Hc Hcc s'. destruct rr_inv as (HL & _ & HC).
    destruct (direct_outcome s t c Ef Hc Hcc) as (H1 & H2). split.
    - intros Hh Hq. destruct (H1 Hh Hq) as (Ha & Hb). split; auto. split; auto.
      intros Hin. apply (refused_on_history s (Call t c) t c HL HC Hin).
    - intros Hb. destruct (H2 Hb) as (A & _ & B). auto.
  Qed.

  Lemma all_second_run_refused t c :
    runt s <> None -> runlike c = true ->
    (find_task (tasks s) t = Some (c, Granted1) ->
     In (EvRet t c RMachineError) (appended s (step s (Step t)))) /\
    (find_task (tasks s) t = None -> holder s = None -> lockq s = [] ->
     (is_cont c = true -> cont_closed s = false) ->
     In (EvRet t c RMachineError) (appended s (step s (Call t c)))).
  Proof.
    intros Hr Hc. destruct rr_inv as (HL & HF & _). split.
    - apply second_run_refused; auto.
    - intros Ef Hh Hq Hcc. apply second_run_refused_call; auto.
  Qed.

  Lemma all_reset_refused_while_running t o :
    st_fsm s = Running -> find_task (tasks s) t = Some (CReset o, Granted1) ->
    In (EvRet t (CReset o) RMachineError) (appended s (step s (Step t))).
  Proof. destruct rr_inv as (HL & _ & _). apply reset_refused_while_running; auto. Qed.

  Lemma all_reset_waits t c p :
    runt s <> None -> find_task (tasks s) t = Some (c, p) -> p = Z_G1b \/ p = Z_WaitRunTask ->
    let s' := step s (Step t) in
    st_fsm s' = st_fsm s /\ run_arg s' = run_arg s /\ c_next s' = c_next s /\ runt s' = runt s /\
    hooks_of (history s') = hooks_of (history s) /\ pubs_of (history s') = pubs_of (history s) /\
    find_task (tasks s') t = Some (c, Z_WaitRunTask).
  Proof.
    intros Hr Ef Hp s'. destruct rr_inv as (HL & HF & _). pose proof HF as [HP HS]. pose proof (HP _ _ _ Ef) as Hok.
    unfold s'. simpl. unfold do_step. rewrite Ef. destruct (runt s) as [x|] eqn:Er; [|congruence].
    destruct Hp as [-> | ->]; simpl in Hok.
    - destruct (st_fsm s) eqn:Efs; try discriminate.
      + exfalso. assert (E0 : Some x = None) by (eapply Scal_idle; [exact HS | discriminate | discriminate]). discriminate.
      + simpl. rewrite find_put_eq. repeat split; auto.
    - repeat split; auto.
  Qed.
End ReachRefusal.

Lemma all_accepted_run_implies_idle : forall stmt start th md ls l t c,
  let init := init_state stmt start th md in
  let s := run_labels init ls in
  runlike c = true -> In (EvRet t c ROk) (appended s (step s l)) ->
  exists ls1 l1 ls2, ls = ls1 ++ l1 :: ls2 /\
    let s1 := run_labels init ls1 in
    st_fsm s1 = Initialized /\ runt s1 = None /\ alive s1 = 0%nat /\ pending_exit s1 = None /\
    (l1 = Step t \/ l1 = Call t c) /\ runlike c = true /\
    st_fsm (step s1 l1) = Running /\ find_task (tasks (step s1 l1)) t = Some (c, R_WaitStarted).
Proof. intros stmt start th md ls l t c. exact (accepted_run_implies_idle stmt start th md ls l t c). Qed.

(** a history with a refused request in the middle and an accepted one *)
Definition refusal_labels : list label :=
  [Call 0%nat CStart; Step 0%nat; Step 0%nat; Step 0%nat;
   Call 1%nat CRun; StepRun; StepRun;
   Call 2%nat CRunCont;                      (* queues behind the run() call *)
   StepRun; Step 1%nat; Step 1%nat].         (* run() returns ROk and hands the lock to task 2 *)
Definition refusal_state : state := run_labels (init_state 7 1 false false) refusal_labels.
