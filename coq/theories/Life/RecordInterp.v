(** Interpreter of the terms of Life/RecordSyntax.v (the record-keeping code of a run,
    regenerated from /repo into Gen/RunRecord.v at every check).  Definitions only.

    Values are Python values as far as this code can tell them apart.  What the code never
    looks into (the script's return value, an exception object, a time, a process) is opaque
    or symbolic.  A statement can RAISE: an attribute of None ([XAttr]), a missing key under
    `d[k]` ([XKey]; `d.get(k)` gives None instead), a failed assert ([XAssert]), a constructor
    or `dataclasses.replace` with an unknown / missing field ([XType]), unpacking something
    that is not a tuple of the right length ([XUnpack]), an unbound name ([XName]). *)
From Coq Require Import List String ZArith Bool Arith.
From NL Require Import Life.RecordSyntax.
Import ListNotations.
Local Open Scope string_scope.

Inductive val :=
| VNone
| VBool (b : bool)
| VInt (z : Z)
| VStr (s : string)
| VOpaque (n : nat)              (* an object nothing here looks into; truthy *)
| VJson (v : val)                (* json.dumps(v): a non-empty string *)
| VTb (v : val)                  (* the formatted traceback of the exception v: a non-empty string *)
| VText                          (* a non-empty string nothing depends on (f-string with a constant part, strftime) *)
| VTime (aware : bool)           (* a datetime: aware (UTC: the only zone this code creates) or naive *)
| VTuple (l : list val)
| VObj (cls : string) (fs : list (string * val)).

Inductive xkind := XAttr | XKey | XAssert | XType | XUnpack | XName | XValue | XFuel.

Inductive res (A : Type) := Ok (a : A) | Exn (k : xkind).
Arguments Ok {A} a.
Arguments Exn {A} k.

Definition bind {A B : Type} (r : res A) (f : A -> res B) : res B :=
  match r with Ok a => f a | Exn k => Exn k end.
Notation "x <- a ;; b" := (bind a (fun x => b)) (at level 61, a at next level, right associativity).

Fixpoint lookup {A : Type} (l : list (string * A)) (x : string) : option A :=
  match l with
  | [] => None
  | (y, v) :: r => if String.eqb x y then Some v else lookup r x
  end.

(** replace the binding, or add it at the end *)
Fixpoint update {A : Type} (l : list (string * A)) (x : string) (v : A) : list (string * A) :=
  match l with
  | [] => [(x, v)]
  | (y, u) :: r => if String.eqb x y then (y, v) :: r else (y, u) :: update r x v
  end.

Fixpoint mem (x : string) (l : list string) : bool :=
  match l with [] => false | y :: r => String.eqb x y || mem x r end.

Definition truthy (v : val) : bool :=
  match v with
  | VNone => false
  | VBool b => b
  | VInt z => negb (Z.eqb z 0)
  | VStr s => negb (String.eqb s "")
  | VTuple [] => false
  | _ => true
  end.

Definition is_none (v : val) : bool := match v with VNone => true | _ => false end.
Definition is_str (v : val) : bool :=
  match v with VStr _ | VJson _ | VTb _ | VText => true | _ => false end.

Definition get_attr (v : val) (a : string) : res val :=
  match v with
  | VObj _ fs => match lookup fs a with Some x => Ok x | None => Exn XAttr end
  | _ => Exn XAttr
  end.

(** <v>.a1.a2...an = x *)
Fixpoint set_path (v : val) (path : list string) (x : val) : res val :=
  match path with
  | [] => Ok x
  | a :: r =>
      match v with
      | VObj cls fs =>
          match r with
          | [] => Ok (VObj cls (update fs a x))
          | _ => match lookup fs a with
                 | Some u => u' <- set_path u r x ;; Ok (VObj cls (update fs a u'))
                 | None => Exn XAttr
                 end
          end
      | _ => Exn XAttr
      end
  end.

(** what is outside the translated code *)
Record world := mkWorld {
  w_handle : val;        (* the RunningProcess that `await run_in_process(...)` returns *)
  w_look : bool;         (* the key looked up in a module-level dict is present *)
  w_hooks : bool         (* the implementations of an awaited hook get to run (false: the caller is
                            cancelled while they are only scheduled -- apluggy gathers them as tasks) *)
}.

(** a frame's names, the plugin instances, the publications so far (oldest first) *)
Record cfg := mkCfg { c_env : list (string * val); c_plug : list (string * val); c_eff : list (string * val) }.

Definition set_env (c : cfg) (e : list (string * val)) : cfg := mkCfg e (c_plug c) (c_eff c).

Inductive flow := FNormal | FReturn (v : val).

(** ---- helpers parametrised by the interpreter of one element *)
Fixpoint eval_list (ev : cfg -> exp -> res (val * cfg)) (c : cfg) (l : list exp) : res (list val * cfg) :=
  match l with
  | [] => Ok ([], c)
  | e :: r =>
      p <- ev c e ;; let '(v, c1) := p in
      q <- eval_list ev c1 r ;; let '(vs, c2) := q in
      Ok (v :: vs, c2)
  end.

Fixpoint eval_kw (ev : cfg -> exp -> res (val * cfg)) (c : cfg) (l : list (string * exp)) : res (list (string * val) * cfg) :=
  match l with
  | [] => Ok ([], c)
  | (k, e) :: r =>
      p <- ev c e ;; let '(v, c1) := p in
      q <- eval_kw ev c1 r ;; let '(vs, c2) := q in
      Ok ((k, v) :: vs, c2)
  end.

Fixpoint exec_list (ex : cfg -> stmt -> res (flow * cfg)) (c : cfg) (l : list stmt) : res (flow * cfg) :=
  match l with
  | [] => Ok (FNormal, c)
  | s :: r =>
      p <- ex c s ;; let '(f, c1) := p in
      match f with
      | FNormal => exec_list ex c1 r
      | FReturn v => Ok (FReturn v, c1)
      end
  end.

(** the value of every field: the keyword given, else the default, else TypeError *)
Fixpoint fill (ev : cfg -> exp -> res (val * cfg)) (c : cfg) (fields : list (string * option exp)) (kvs : list (string * val))
  : res (list (string * val)) :=
  match fields with
  | [] => Ok []
  | (f, d) :: r =>
      v <- match lookup kvs f with
           | Some v => Ok v
           | None => match d with
                     | Some e => p <- ev c e ;; Ok (fst p)
                     | None => Exn XType
                     end
           end ;;
      rest <- fill ev c r kvs ;;
      Ok ((f, v) :: rest)
  end.

Fixpoint binds (names : list string) (kvs : list (string * val)) : res (list val) :=
  match names with
  | [] => Ok []
  | n :: r => match lookup kvs n with
              | Some v => vs <- binds r kvs ;; Ok (v :: vs)
              | None => Exn XType
              end
  end.

Fixpoint bind_names (xs : list string) (vs : list val) (e : list (string * val)) : option (list (string * val)) :=
  match xs, vs with
  | [], [] => Some e
  | x :: xr, v :: vr => bind_names xr vr (update e x v)
  | _, _ => None
  end.

Definition has_method (P : rprogram) (cls m : string) : option method :=
  find (fun x => String.eqb (m_cls x) cls && String.eqb (m_name x) m) (p_methods P).
Definition has_class (P : rprogram) (cls : string) : option classdef :=
  find (fun x => String.eqb (c_name x) cls) (p_classes P).
Definition has_func (P : rprogram) (f : string) : option func :=
  find (fun x => String.eqb (f_name x) f) (p_funcs P).

(** call the implementation of hook [h] of every plugin that has one (pluggy: last registered
    first), arguments passed BY NAME; the plugin instance keeps what the method did to self *)
Fixpoint dispatch (P : rprogram) (call : cfg -> val -> string -> list val -> res (val * val * cfg))
                  (c : cfg) (h : string) (kvs : list (string * val)) (classes : list string) : res cfg :=
  match classes with
  | [] => Ok c
  | cls :: r =>
      match has_method P cls h, lookup (c_plug c) cls with
      | Some md, Some obj =>
          args <- binds (m_args md) kvs ;;
          p <- call c obj h args ;; let '(_, self', c1) := p in
          dispatch P call (mkCfg (c_env c1) (update (c_plug c1) cls self') (c_eff c1)) h kvs r
      | _, _ => dispatch P call c h kvs r
      end
  end.

(** a firstresult hook: the first implementation that returns something other than None (the
    value of the LAST implementation is the result whatever it is: None stands for None) *)
Fixpoint implementers (P : rprogram) (c : cfg) (h : string) (classes : list string) : list (method * val) :=
  match classes with
  | [] => []
  | cls :: r =>
      match has_method P cls h, lookup (c_plug c) cls with
      | Some md, Some obj => (md, obj) :: implementers P c h r
      | _, _ => implementers P c h r
      end
  end.

Fixpoint first_result (call : cfg -> val -> string -> list val -> res (val * val * cfg))
                      (c : cfg) (h : string) (kvs : list (string * val)) (impls : list (method * val)) : res (val * cfg) :=
  match impls with
  | [] => Ok (VNone, c)
  | (md, obj) :: r =>
      args <- binds (m_args md) kvs ;;
      p <- call c obj h args ;; let '(v, _, c1) := p in
      match r with
      | [] => Ok (v, c1)
      | _ => if is_none v then first_result call c1 h kvs r else Ok (v, c1)
      end
  end.

Section Interp.
Variable P : rprogram.
Variable W : world.

Fixpoint eval (fuel : nat) (c : cfg) (e : exp) {struct fuel} : res (val * cfg) :=
  match fuel with
  | O => Exn XFuel
  | S n =>
    match e with
    | ENone => Ok (VNone, c)
    | ETrue => Ok (VBool true, c)
    | EFalse => Ok (VBool false, c)
    | EStr s => Ok (VStr s, c)
    | EName x => match lookup (c_env c) x with Some v => Ok (v, c) | None => Exn XName end
    | EAttr e1 a =>
        p <- eval n c e1 ;; let '(v, c1) := p in
        x <- get_attr v a ;; Ok (x, c1)
    | ENew cls kw =>
        p <- eval_kw (eval n) c kw ;; let '(kvs, c1) := p in
        construct n c1 cls kvs
    | EReplace e1 kw =>
        p <- eval n c e1 ;; let '(v, c1) := p in
        q <- eval_kw (eval n) c1 kw ;; let '(kvs, c2) := q in
        match v with
        | VObj cls fs =>
            match has_method P cls "__post_init__" with
            | Some _ => Exn XType
            | None =>
                if forallb (fun kv => match lookup fs (fst kv) with Some _ => true | None => false end) kvs
                then Ok (VObj cls (fold_left (fun acc kv => update acc (fst kv) (snd kv)) kvs fs), c2)
                else Exn XType
            end
        | _ => Exn XType
        end
    | EOr a b =>
        p <- eval n c a ;; let '(v, c1) := p in
        if truthy v then Ok (v, c1) else eval n c1 b
    | EAnd a b =>
        p <- eval n c a ;; let '(v, c1) := p in
        if truthy v then eval n c1 b else Ok (v, c1)
    | ENot e1 => p <- eval n c e1 ;; let '(v, c1) := p in Ok (VBool (negb (truthy v)), c1)
    | EIsNone e1 => p <- eval n c e1 ;; let '(v, c1) := p in Ok (VBool (is_none v), c1)
    | EIsNotNone e1 => p <- eval n c e1 ;; let '(v, c1) := p in Ok (VBool (negb (is_none v)), c1)
    | EIsStr e1 => p <- eval n c e1 ;; let '(v, c1) := p in Ok (VBool (is_str v), c1)
    | EWalrus x e1 =>
        p <- eval n c e1 ;; let '(v, c1) := p in
        Ok (v, set_env c1 (update (c_env c1) x v))
    | EJsonDumps e1 => p <- eval n c e1 ;; let '(v, c1) := p in Ok (VJson v, c1)
    | EFormatTb e1 => p <- eval n c e1 ;; let '(v, c1) := p in Ok (VTb v, c1)
    | EFmt parts => p <- eval_list (eval n) c parts ;; Ok (VText, snd p)
    | ETotal _ args => p <- eval_list (eval n) c args ;; Ok (VText, snd p)
    | ENowUtc => Ok (VTime true, c)
    | ENaive e1 =>
        p <- eval n c e1 ;; let '(v, c1) := p in
        match v with VTime _ => Ok (VTime false, c1) | _ => Exn XAttr end
    | EIsUtc e1 =>
        p <- eval n c e1 ;; let '(v, c1) := p in
        match v with VTime a => Ok (VBool a, c1) | _ => Exn XAttr end
    | EIsAware e1 =>
        p <- eval n c e1 ;; let '(v, c1) := p in
        match v with VTime a => Ok (VBool a, c1) | _ => Exn XAttr end
    | ECallFn f args =>
        p <- eval_list (eval n) c args ;; let '(vs, c1) := p in
        match has_func P f with
        | Some fd =>
            match bind_names (f_args fd) vs [] with
            | Some e0 =>
                q <- exec_list (exec n) (set_env c1 e0) (f_body fd) ;; let '(fl, c2) := q in
                Ok (match fl with FReturn v => v | FNormal => VNone end, set_env c2 (c_env c1))
            | None => Exn XType
            end
        | None => Exn XName
        end
    | EDictGet d k =>
        p <- eval n c k ;; let '(_, c1) := p in
        if w_look W then (if mem d (p_dict_values_truthy P) then Ok (VText, c1) else Exn XType)
        else Ok (VNone, c1)
    | EDictIndex d k =>
        p <- eval n c k ;; let '(_, c1) := p in
        if w_look W then (if mem d (p_dict_values_truthy P) then Ok (VText, c1) else Exn XType)
        else Exn XKey
    | EMethod e1 m args =>
        p <- eval n c e1 ;; let '(obj, c1) := p in
        q <- eval_list (eval n) c1 args ;; let '(vs, c2) := q in
        r <- call_method n c2 obj m vs ;; let '(v, self', c3) := r in
        match e1 with
        | EName x => Ok (v, set_env c3 (update (c_env c3) x self'))
        | _ => Ok (v, c3)
        end
    | EYieldFromTask e1 => eval n c e1
    | EAwaitHandle e1 =>
        p <- eval n c e1 ;; let '(obj, c1) := p in
        r <- call_method n c1 obj "__await__" [] ;; let '(v, _, c2) := r in
        Ok (v, c2)
    | ESpawn => Ok (w_handle W, c)
    | EHookFirst h =>
        p <- eval n c (EAttr (EName "self") "_context") ;; let '(ctx, c1) := p in
        first_result (call_method n) c1 h [("context", ctx)] (implementers P c1 h (rev (p_plugins P)))
    | EImp m =>
        p <- eval n c (EAttr (EName "self") "_imp") ;; let '(obj, c1) := p in
        r <- call_method n c1 obj m [] ;; let '(v, _, c2) := r in
        Ok (v, c2)
    end
  end

with exec (fuel : nat) (c : cfg) (s : stmt) {struct fuel} : res (flow * cfg) :=
  match fuel with
  | O => Exn XFuel
  | S n =>
    match s with
    | SAssign target e =>
        p <- eval n c e ;; let '(v, c1) := p in
        match target with
        | [] => Exn XType
        | [x] => Ok (FNormal, set_env c1 (update (c_env c1) x v))
        | x :: path =>
            match lookup (c_env c1) x with
            | Some base => b' <- set_path base path v ;; Ok (FNormal, set_env c1 (update (c_env c1) x b'))
            | None => Exn XName
            end
        end
    | SUnpack xs e =>
        p <- eval n c e ;; let '(v, c1) := p in
        match v with
        | VTuple vs => match bind_names xs vs (c_env c1) with
                       | Some e' => Ok (FNormal, set_env c1 e')
                       | None => Exn XUnpack
                       end
        | _ => Exn XUnpack
        end
    | SExpr e => p <- eval n c e ;; Ok (FNormal, snd p)
    | SAssert e => p <- eval n c e ;; let '(v, c1) := p in if truthy v then Ok (FNormal, c1) else Exn XAssert
    | SIf t a b =>
        p <- eval n c t ;; let '(v, c1) := p in
        exec_list (exec n) c1 (if truthy v then a else b)
    | SReturn e => p <- eval n c e ;; let '(v, c1) := p in Ok (FReturn v, c1)
    | SRaise => Exn XValue
    | SPublish topic e =>
        p <- eval n c e ;; let '(v, c1) := p in
        Ok (FNormal, mkCfg (c_env c1) (c_plug c1) (c_eff c1 ++ [(topic, v)]))
    | SAwaitHook h kw =>
        p <- eval_kw (eval n) c kw ;; let '(kvs, c1) := p in
        if w_hooks W then
          c2 <- dispatch P (call_method n) c1 h kvs (rev (p_plugins P)) ;;
          Ok (FNormal, set_env c2 (c_env c1))
        else Ok (FNormal, c1)
    | SCall f args =>
        p <- eval_list (eval n) c args ;; let '(vs, c1) := p in
        match has_func P f with
        | Some fd =>
            match bind_names (f_args fd) vs [] with
            | Some e0 =>
                q <- exec_list (exec n) (set_env c1 e0) (f_body fd) ;;
                Ok (FNormal, set_env (snd q) (c_env c1))
            | None => Exn XType
            end
        | None => Exn XName
        end
    end
  end

(** obj.m(args) -> (value returned, self afterwards, configuration with the caller's names) *)
with call_method (fuel : nat) (c : cfg) (obj : val) (m : string) (args : list val) {struct fuel} : res (val * val * cfg) :=
  match fuel with
  | O => Exn XFuel
  | S n =>
    match obj with
    | VObj cls _ =>
        match has_method P cls m with
        | Some md =>
            match bind_names (m_args md) args [("self", obj)] with
            | Some e0 =>
                q <- exec_list (exec n) (set_env c e0) (m_body md) ;; let '(f, c1) := q in
                let self' := match lookup (c_env c1) "self" with Some x => x | None => obj end in
                Ok (match f with FReturn v => v | FNormal => VNone end, self', set_env c1 (c_env c))
            | None => Exn XType
            end
        | None => Exn XAttr
        end
    | _ => Exn XAttr
    end
  end

(** <cls>(k=v, ...) *)
with construct (fuel : nat) (c : cfg) (cls : string) (kvs : list (string * val)) {struct fuel} : res (val * cfg) :=
  match fuel with
  | O => Exn XFuel
  | S n =>
    match has_class P cls with
    | Some cd =>
        if forallb (fun kv => mem (fst kv) (map fst (c_fields cd) ++ map fst (c_initvars cd))) kvs then
          fs <- fill (eval n) c (c_fields cd) kvs ;;
          ns <- fill (eval n) c (map (fun x => (fst x, Some (snd x))) (c_noinit cd)) [] ;;
          let obj := VObj cls (fs ++ ns) in
          match has_method P cls "__post_init__" with
          | Some _ =>
              iv <- fill (eval n) c (c_initvars cd) kvs ;;
              r <- call_method n c obj "__post_init__" (map snd iv) ;; let '(_, self', c1) := r in
              Ok (self', c1)
          | None => Ok (obj, c)
          end
        else Exn XType
    | None =>
        (* a plain class: __init__(self, <args by keyword>) *)
        match has_method P cls "__init__" with
        | Some md =>
            if forallb (fun kv => mem (fst kv) (m_args md)) kvs then
              args <- binds (m_args md) kvs ;;
              r <- call_method n c (VObj cls []) "__init__" args ;; let '(_, self', c1) := r in Ok (self', c1)
            else Exn XType
        | None => match kvs with [] => Ok (VObj cls [], c) | _ => Exn XType end
        end
    end
  end.

End Interp.

Definition FUEL : nat := 40.
