(** Observation encoding and the co-simulation driver of the lifecycle model
    (used only by the correspondence check; no theorem depends on it). *)
From NL Require Import Life.Model.
Open Scope Z_scope.

Definition enc_fsm (f : fsm) : Z :=
  match f with Created => 0 | Initialized => 1 | Running => 2 | Finished => 3 | Closed => 4 end.
Definition enc_hook (h : hook) : Z :=
  match h with
  | HStart => 0 | HChangeScript => 1 | HInitRun => 2 | HChangeState => 3 | HStartRun => 4 | HEndRun => 5
  | HFinished => 6 | HReset => 7 | HClose => 8 | HSignal => 9 | HSend => 10
  end.
Definition enc_opt (o : option Z) : Z := match o with Some n => n | None => -1 end.
Definition enc_out (o : option outcome) : Z :=
  match o with Some ORaise => 1 | Some OSysExit => 2 | Some OInterrupt => 3 | _ => 0 end.
Definition enc_phase (p : rphase) : Z := match p with RInitialized => 0 | RRunning => 1 | RFinished => 2 end.
Definition enc_call (c : call) : Z :=
  match c with
  | CStart => 0 | CRun => 1 | CReset _ => 2 | CClose => 3 | CRunCont => 4 | CRunContWait => 5
  | CRunSession => 6 | CSignal => 7 | CSend => 8
  end.
Definition enc_res (r : result) : Z :=
  match r with ROk => 0 | RMachineError => 1 | RAssertionError => 2 | RAttributeError => 3 | RRuntimeError => 4 end.

Definition enc_hookrec (r : hookrec) : list Z :=
  [1; enc_hook (h_hook r); enc_fsm (h_fsm r); enc_opt (h_runno r);
   match h_hook r with HReset => -1 | _ => enc_opt (h_stmt r) end].
Definition enc_pub (p : pub) : list Z :=
  match p with
  | PState s => [2; 0; enc_fsm s]
  | PRunInfo no ph st res => [2; 1; no; enc_phase ph; st; enc_out res]
  | PRunNo n => [2; 2; n]
  | PStatement s => [2; 3; s]
  | PCont b => [2; 4; if b then 1 else 0]
  | PEndAll => [2; 5]
  | PEndCont => [2; 6]
  end.
Definition enc_event (e : event) : list Z :=
  match e with
  | EvCall t c => [0; Z.of_nat t; enc_call c]
  | EvHook h => enc_hookrec h
  | EvPub p => enc_pub p
  | EvRet t c r => [3; Z.of_nat t; enc_call c; enc_res r]
  end.

Definition newest {A} (new old : list A) : list A := rev (firstn (length new - length old) new).

(** the tracing options frozen into the run arguments, reported with every initialise-run hook *)
Definition is_init_run (e : event) : bool :=
  match e with EvHook h => match h_hook h with HInitRun => true | _ => false end | _ => false end.
Definition enc_flags (s s' : state) : list (list Z) :=
  if existsb is_init_run (newest (trace s') (trace s)) then
    match run_arg s' with
    | Some ra => [[4; if ra_threads ra then 1 else 0; if ra_modules ra then 1 else 0]]
    | None => [[4; -1; -1]]
    end
  else [].

Definition delta (s s' : state) : list (list Z) := map enc_event (newest (trace s') (trace s)) ++ enc_flags s s'.

Definition gate_pc (p : pc) : bool :=
  match p with
  | S_G1 | S_G2 | S_G3 | R_G | Z_G1 | Z_G1b | Z_G3 | Z_G4 | C_G3 | C_G4 => true
  | _ => false
  end.
Definition gate_rpc (r : rpc) : bool :=
  match r with RT_G_start | RT_G_end | RT_G_fin | RT_G_cs => true | _ => false end.

(** labels the harness can actually perform in this state *)
Definition controllable (s : state) (l : label) : bool :=
  match l with
  | Call t _ => match find_task (tasks s) t with None => true | Some _ => false end
  | Step t => match find_task (tasks s) t with Some (_, p) => gate_pc p | None => false end
  | StepRun => match runt s with Some r => gate_rpc r | None => false end
  | ChildExit _ => match alive s, pending_exit s with S _, None => true | _, _ => false end
  end.

(** where task t / the run task is waiting (a code for the harness: which gate to release) *)
Definition enc_pc (p : pc) : Z :=
  match p with
  | WaitLock1 => 0 | Granted1 => 1 | WaitLock2 => 2 | Granted2 => 3 | S_G1 => 4 | S_G2 => 5 | S_G3 => 6
  | R_WaitStarted => 7 | R_G => 8 | Z_G1 => 9 | Z_G1b => 10 | Z_WaitRunTask => 11 | Z_G3 => 12 | Z_G4 => 13
  | C_WaitRunFinished => 14 | C_WaitRunTask => 15 | C_G3 => 16 | C_G4 => 17 | P_WaitRunFinished => 18 | Sig_G => 19
  end.
Definition enc_rpc (r : option rpc) : Z :=
  match r with
  | None => -1 | Some RT_New => 0 | Some RT_Created => 1 | Some RT_G_start => 2 | Some RT_WaitChild => 3
  | Some RT_G_end => 4 | Some RT_G_fin => 5 | Some RT_G_cs => 6
  end.

Definition where_ (s : state) (l : label) : Z :=
  match l with
  | Step t => match find_task (tasks s) t with Some (_, p) => enc_pc p | None => -1 end
  | StepRun => enc_rpc (runt s)
  | _ => -1
  end.

(** the harness's `kill` really kills: an accepted signal is followed at once by the
    death of the child *)
Definition costep (s : state) (l : label) : state :=
  let s1 := step s l in
  let s2 := match l with
            | Call _ CSignal => if running_process s then do_child_exit s1 ODied else s1
            | _ => s1
            end in
  settle 30 s2.

Fixpoint cosim (s : state) (ls : list label) : list (bool * Z * list (list Z)) :=
  match ls with
  | [] => []
  | l :: r =>
    if controllable s l then
      let s' := costep s l in
      (true, where_ s l, delta s s') :: cosim s' r
    else (false, -1, []) :: cosim s r
  end.

(** summary of the final state, for the end-of-scenario comparison *)
Definition final_of (s : state) (ls : list label) : state :=
  fold_left (fun st l => if controllable st l then costep st l else st) ls s.

Definition summary (s : state) : list Z :=
  [enc_fsm (st_fsm s); Z.of_nat (alive s); Z.of_nat (length (tasks s)); enc_rpc (runt s)].
