(** Abstract syntax of the fragments of /repo that keep the RECORD of a run (C02):
    which RunInfo is published in which state and from which attributes of the exited process its
    result / exception are copied, what `result()` / `format_exception()` read afterwards, what
    awaiting the process handle executes, and which event the waiters of a run wait for.

    Hand-written; the TERMS of these types are regenerated from the source at every check by
    translate/run_record.py into Gen/RunRecord.v, and Life/RecordTie.v interprets them.

    Sources: nextline/plugin/plugins/registrars/run_info.py (RunInfoRegistrar),
    nextline/plugin/plugins/session/session.py (RunSession.run, _on_start_run, _on_end_run,
    Result), nextline/utils/run.py (RunningProcess.__await__, _log_exited, _format_time,
    ExitedProcess), nextline/spawned/types.py (RunResult, RunArg), nextline/types.py (RunInfo),
    nextline/events.py (OnStartRun, OnEndRun), nextline/imp.py, nextline/main.py (result(),
    format_exception()), nextline/fsm/callback.py (Callback).
    Logging, typing and docstrings have no constructor: the translator drops them (an ignored
    position contains no call, walrus, await or yield). *)
From Coq Require Import List String ZArith.
Import ListNotations.

(** ---- expressions *)
Inductive exp :=
| ENone | ETrue | EFalse
| EStr (s : string)                    (* a string literal *)
| EName (x : string)                   (* a local name / an argument / self / context *)
| EAttr (e : exp) (a : string)         (* <e>.<a>        raises AttributeError on None *)
| ENew (cls : string) (kw : list (string * exp))    (* <cls>(k=v, ...): a dataclass / a plain class with __init__ *)
| EReplace (e : exp) (kw : list (string * exp))     (* dataclasses.replace(<e>, k=v, ...) *)
| EOr (a b : exp)                      (* <a> or <b>     (the VALUE of the first truthy operand) *)
| EAnd (a b : exp)                     (* <a> and <b> *)
| ENot (e : exp)
| EIsNone (e : exp)                    (* <e> is None *)
| EIsNotNone (e : exp)                 (* <e> is not None *)
| EIsStr (e : exp)                     (* isinstance(<e>, str) *)
| EWalrus (x : string) (e : exp)       (* (x := <e>) *)
| EJsonDumps (e : exp)                 (* json.dumps(<e>) *)
| EFormatTb (e : exp)                  (* ''.join(traceback.format_exception(type(<e>), <e>, <e>.__traceback__)) *)
| EFmt (parts : list exp)              (* an f-string with these interpolated expressions *)
| ETotal (f : string) (args : list exp)     (* a call that cannot raise and whose value nothing depends on:
                                               <dt>.strftime('<literal>') *)
| ENowUtc                              (* datetime.now(timezone.utc): an aware time *)
| ENaive (e : exp)                     (* <e>.replace(tzinfo=None): the naive time *)
| EIsUtc (e : exp)                     (* <e>.tzinfo is timezone.utc *)
| EIsAware (e : exp)                   (* is_timezone_aware(<e>)  (nextline/utils/utc.py) *)
| ECallFn (f : string) (args : list exp)    (* <f>(args): a translated module-level plain function *)
| EDictGet (d : string) (k : exp)      (* <module-level dict>.get(<k>)     None when the key is missing *)
| EDictIndex (d : string) (k : exp)    (* <module-level dict>[<k>]         KeyError when the key is missing *)
| EMethod (e : exp) (m : string) (args : list exp)   (* <e>.<m>(args): a method of a translated class *)
| EYieldFromTask (e : exp)             (* yield from <e>.__await__(): the result of the asyncio task of run_in_process *)
| EAwaitHandle (e : exp)               (* await <e>, <e> a RunningProcess: runs RunningProcess.__await__ *)
| ESpawn                               (* await run_in_process(func=partial(spawned.main, context.run_arg), ...) *)
| EHookFirst (h : string)              (* self._hook.hook.<h>(context=self._context), a firstresult hook *)
| EImp (m : string).                   (* self._imp.<m>() *)

(** ---- statements *)
Inductive stmt :=
| SAssign (target : list string) (e : exp)     (* x = <e>  /  x.a.b = <e>   (target = x :: attributes) *)
| SUnpack (xs : list string) (e : exp)         (* a, b = <e> *)
| SExpr (e : exp)                              (* an expression statement *)
| SAssert (e : exp)
| SIf (c : exp) (a b : list stmt)
| SReturn (e : exp)
| SRaise                                       (* raise <an exception built without a call on tracked data> *)
| SPublish (topic : string) (e : exp)          (* await context.pubsub.publish('<topic>', <e>) *)
| SAwaitHook (h : string) (kw : list (string * exp))   (* await context.hook.ahook.<h>(k=v, ...) *)
| SCall (f : string) (args : list exp).        (* await <f>(args): a translated module-level coroutine function *)

(** ---- classes (dataclass fields in definition order; [None] = no default: required) *)
Record classdef := mkClass {
  c_name : string;
  c_fields : list (string * option exp);     (* fields set by the generated __init__ *)
  c_initvars : list (string * option exp);   (* InitVar pseudo-fields: handed to __post_init__ *)
  c_noinit : list (string * exp)             (* field(init=False, default=...) *)
}.

Record method := mkMethod { m_cls : string; m_name : string; m_args : list string; m_body : list stmt }.
Record func := mkFunc { f_name : string; f_args : list string; f_body : list stmt }.

(** ---- RunSession.run: the data statements of each atomic segment, keyed by the control point of
    the segment (the control flow itself is Gen/CallbackSkeleton.v) *)
Inductive pos := PInitSession | PSpawn | PStartRunHook | PAwaitProcess | PSetExited | PEndRunHook.
Inductive when :=
| Reached       (* executed when the control point is reached *)
| Returned.     (* the continuation of an await: executed only if the await returned *)

Record rprogram := mkProgram {
  p_classes : list classdef;
  p_methods : list method;
  p_funcs : list func;
  p_session : list (pos * when * list stmt);
  p_plugins : list string;                   (* the built-in plugin classes translated here, in registration order *)
  p_dict_values_truthy : list string         (* module-level dicts all of whose values are non-empty f-strings *)
}.

(** ---- nextline/fsm/callback.py: Callback *)
Inductive cstmt :=
| CbNewEvent (target : list string)               (* <target> = asyncio.Event() *)
| CbSetEvent (target : list string)               (* <target>.set() *)
| CbWaitEvent (target : list string)              (* await <target>.wait() *)
| CbCreateTask (attr coro : string)               (* self.<attr> = asyncio.create_task(self.<coro>(...)) *)
| CbAwaitTask (attr : string)                     (* await self.<attr> *)
| CbSetNone (target : list string)                (* <target> = None *)
| CbAssignHook (target : list string) (h : string)   (* <target> = self._hook.hook.<h>(context=self._context) *)
| CbAwaitHook (h : string)                        (* await self._hook.ahook.<h>(context=self._context, ...) *)
| CbWithHook (h : string) (body : list cstmt)     (* async with self._hook.awith.<h>(context=self._context): body *)
| CbAwaitTrigger (t : string)                     (* await self._machine.<t>() *)
| CbCallSelf (m : string)                         (* await self.<m>() *)
| CbTryFinally (a b : list cstmt)
| CbTryExceptAll (a : list cstmt).                (* try: a   except BaseException: <logging only> *)
