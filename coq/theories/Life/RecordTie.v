(** C02: the RECORD of a run, on the code REGENERATED from /repo at every check: THEOREMS.
    Definitions and proof method: Life/RecordRun.v (read its header first); syntax:
    Life/RecordSyntax.v; interpreter: Life/RecordInterp.v; terms: Gen/RunRecord.v
    (translate/run_record.py), Gen/CallbackSkeleton.v (translate/callback_skeleton.py),
    Gen/RunSkeleton.v (translate/run_skeleton.py).

    (0) [every_run_good]: for every world and every oracle, no data statement raises by itself,
        the publications are [expected_pubs], result()/format_exception() are [expected_api].
    (1) [finish_skeleton_sets], [run_finished_set_once_last], [run_finished_event]:
        `_run_finished.set()` on every path out of `_finish`; it is the event the waiters wait for.
    (2) [run_info_exact], [run_info_prefix], [run_info_once]: initialized, running, finished.
    (3) [result_matches], [result_empty_when_died], [result_none_when_not_awaited].
    (4) [await_never_raises], [await_in_run_never_raises], [task_of_run_in_process].
    Ties between the translators: [callback_translations_agree], [session_positions_agree];
    to Life/Model.v: [model_initialized], [model_running], [model_finished], [model_simulation]. *)
From Coq Require Import List String ZArith Bool Arith Lia.
From NL Require Import Life.RecordSyntax Life.RecordInterp Gen.RunRecord.
From NL Require Export Life.RecordRun.
From NL Require Import Life.RecordRunA Life.RecordRunB Life.RecordRunC Life.RecordRunD.
From NL Require Life.FailStartProofs Proc.Model Proc.Proofs.
Import ListNotations.
Local Open Scope string_scope.

(** THE theorem about the data: for EVERY world (every outcome of the child, every exit code,
    in the dict or not, every run number and script) and EVERY oracle (any await raising):
    no data statement raises by itself, the publications are exactly [expected_pubs], and
    result()/format_exception() afterwards are exactly [expected_api] *)
Theorem every_run_good : forall w o, good_run w (FS.trace o).
Proof.
  intros [ch code look no script prev ran] o. destruct ch as [ret [e|] | e | ].
  - apply good_B.
  - apply good_A.
  - apply good_C.
  - apply good_D.
Qed.

(** ---- consequences, first for an ARBITRARY trace [t] with [good_run w t] (so that nothing
    has to be computed about a trace), then for the traces of the program *)
Lemma good_run_elim : forall w t, good_run w t ->
  exists d, data_run w t = Ok d /\ d_raised d = None /\ d_eff d = expected_pubs w t /\
    (FS.called CS.InitSession t = true ->
     api d "result" = Ok (fst (expected_api w t)) /\ api d "format_exception" = Ok (snd (expected_api w t))).
Proof.
  intros w t H. unfold good_run in H. destruct (data_run w t) as [d | k]; [ | contradiction ].
  destruct H as (H1 & H2 & H3). exists d. split; [reflexivity | ]. split; [exact H1 | ]. split; [exact H2 | ].
  intros Hi. rewrite Hi in H3. exact H3.
Qed.

Definition full_record (w : run_world) : list (string * val) :=
  [rec_initialized w; rec_running w; rec_finished w (spec_result (rw_child w)) (spec_exception (rw_child w))].

Lemma prefix_gen : forall w t d, d_eff d = expected_pubs w t ->
  (hook_ran (rw_ran w) CS.EndRunHook t = true -> hook_ran (rw_ran w) CS.StartRunHook t = true) ->
  d_eff d = firstn (1 + (if hook_ran (rw_ran w) CS.StartRunHook t then 1 else 0)
                      + (if hook_ran (rw_ran w) CS.EndRunHook t then 1 else 0)) (full_record w).
Proof.
  intros w t d H E. rewrite H. unfold expected_pubs, full_record.
  destruct (hook_ran (rw_ran w) CS.EndRunHook t); destruct (hook_ran (rw_ran w) CS.StartRunHook t); try reflexivity.
  specialize (E eq_refl). discriminate.
Qed.

Lemma api_gen : forall w t, good_run w t ->
  FS.called CS.InitSession t = true -> FS.returned CS.AwaitProcess t = true ->
  exists d, data_run w t = Ok d /\
    api d "result" = Ok (spec_value (rw_child w)) /\ api d "format_exception" = Ok (spec_exception (rw_child w)).
Proof.
  intros w t G Hi Ha. destruct (good_run_elim w t G) as (d & H1 & _ & _ & H3). exists d.
  specialize (H3 Hi). unfold expected_api in H3. rewrite Ha in H3. cbn [fst snd] in H3. auto.
Qed.

Lemma matches_gen : forall w t, good_run w t ->
  hook_ran (rw_ran w) CS.EndRunHook t = true -> FS.called CS.InitSession t = true -> FS.returned CS.AwaitProcess t = true ->
  exists d, data_run w t = Ok d /\
    In (rec_finished w (spec_result (rw_child w)) (spec_exception (rw_child w))) (d_eff d) /\
    api d "result" = Ok (spec_value (rw_child w)) /\
    api d "format_exception" = Ok (spec_exception (rw_child w)) /\
    spec_result (rw_child w) = VJson (spec_value (rw_child w)).
Proof.
  intros w t G He Hi Ha. destruct (good_run_elim w t G) as (d & H1 & _ & H2 & H3). exists d.
  specialize (H3 Hi). unfold expected_api in H3. rewrite Ha in H3. cbn [fst snd] in H3.
  split; [exact H1 | ]. split.
  - rewrite H2. unfold expected_pubs. rewrite He. apply in_or_app. right. apply in_or_app. right. left. reflexivity.
  - split; [exact (proj1 H3) | split; [exact (proj2 H3) | destruct (rw_child w); reflexivity]].
Qed.

Lemma none_gen : forall w t, good_run w t ->
  FS.called CS.InitSession t = true -> FS.returned CS.AwaitProcess t = false ->
  exists d, data_run w t = Ok d /\ api d "result" = Ok VNone /\ api d "format_exception" = Ok VNone.
Proof.
  intros w t G Hi Ha. destruct (good_run_elim w t G) as (d & H1 & _ & _ & H3). exists d.
  specialize (H3 Hi). unfold expected_api in H3. rewrite Ha in H3. cbn [fst snd] in H3. auto.
Qed.

(** control alone (Life/FailStart.v on the regenerated skeleton): on_end_run is reached only
    after the session was entered, on_start_run RETURNED and the await of the process RETURNED;
    the await of the process is reached only after on_start_run returned; returned => reached *)
Lemma control_all : forall o,
  (negb (FS.called CS.EndRunHook (FS.trace o))
   || (FS.returned CS.StartRunHook (FS.trace o) && FS.called CS.InitSession (FS.trace o) && FS.returned CS.AwaitProcess (FS.trace o)))
  && (negb (FS.returned CS.EndRunHook (FS.trace o)) || FS.called CS.EndRunHook (FS.trace o))
  && (negb (FS.returned CS.StartRunHook (FS.trace o)) || FS.called CS.StartRunHook (FS.trace o))
  && (negb (FS.called CS.AwaitProcess (FS.trace o))
      || (FS.returned CS.StartRunHook (FS.trace o) && FS.called CS.InitSession (FS.trace o))) = true.
Proof.
  intros o.
  apply (FS.forall_oracles (fun t =>
    (negb (FS.called CS.EndRunHook t) || (FS.returned CS.StartRunHook t && FS.called CS.InitSession t && FS.returned CS.AwaitProcess t))
    && (negb (FS.returned CS.EndRunHook t) || FS.called CS.EndRunHook t)
    && (negb (FS.returned CS.StartRunHook t) || FS.called CS.StartRunHook t)
    && (negb (FS.called CS.AwaitProcess t) || (FS.returned CS.StartRunHook t && FS.called CS.InitSession t)))).
  vm_compute. reflexivity.
Qed.

Lemma bool_facts : forall cE rE cS rS cI rA cA : bool,
  (negb cE || (rS && cI && rA)) && (negb rE || cE) && (negb rS || cS) && (negb cA || (rS && cI)) = true ->
  (forall ran : bool, (if ran then cE else rE) = true -> (if ran then cS else rS) = true /\ cI = true /\ rA = true) /\
  (cA = true -> rS = true /\ cS = true /\ cI = true) /\
  (cE = true -> rS = true).
Proof.
  intros [|] [|] [|] [|] [|] [|] [|]; simpl; intros H; try discriminate H;
    (split; [intros [|] X; try discriminate X; repeat split | split; intros X; try discriminate X; repeat split]).
Qed.

Lemma control_facts : forall o,
  (forall ran : bool, hook_ran ran CS.EndRunHook (FS.trace o) = true ->
     hook_ran ran CS.StartRunHook (FS.trace o) = true /\ FS.called CS.InitSession (FS.trace o) = true /\
     FS.returned CS.AwaitProcess (FS.trace o) = true) /\
  (FS.called CS.AwaitProcess (FS.trace o) = true ->
     FS.returned CS.StartRunHook (FS.trace o) = true /\ FS.called CS.StartRunHook (FS.trace o) = true /\
     FS.called CS.InitSession (FS.trace o) = true) /\
  (FS.called CS.EndRunHook (FS.trace o) = true -> FS.returned CS.StartRunHook (FS.trace o) = true).
Proof. intros o. exact (bool_facts _ _ _ _ _ _ _ (control_all o)). Qed.

Lemma quiet_trace_calls :
  FS.returned CS.StartRunHook (FS.trace []) = true /\ FS.returned CS.EndRunHook (FS.trace []) = true /\
  FS.called CS.StartRunHook (FS.trace []) = true /\ FS.called CS.EndRunHook (FS.trace []) = true /\
  FS.called CS.InitSession (FS.trace []) = true /\ FS.returned CS.AwaitProcess (FS.trace []) = true.
Proof. vm_compute. repeat split. Qed.

(** ---- (2) the run_info publications of one run *)

(** any await may raise or be cancelled, any outcome: no data statement raises by itself and the
    publications are exactly [expected_pubs] *)
Theorem run_info_exact : forall w o,
  exists d, data_run w (FS.trace o) = Ok d /\ d_raised d = None /\ d_eff d = expected_pubs w (FS.trace o).
Proof.
  intros w o. destruct (good_run_elim w _ (every_run_good w o)) as (d & H1 & H2 & H3 & _). exists d. auto.
Qed.

(** ... that is: a prefix of the three; `running` is there iff the implementations of on_start_run
    ran, `finished` iff those of on_end_run ran; never anything twice; one run number and script *)
Theorem run_info_prefix : forall w o,
  exists d, data_run w (FS.trace o) = Ok d /\
    d_eff d = firstn (1 + (if hook_ran (rw_ran w) CS.StartRunHook (FS.trace o) then 1 else 0)
                        + (if hook_ran (rw_ran w) CS.EndRunHook (FS.trace o) then 1 else 0)) (full_record w).
Proof.
  intros w o. destruct (run_info_exact w o) as (d & H1 & _ & H3). exists d. split; [exact H1 | ].
  apply (prefix_gen w _ d H3). intros He. exact (proj1 (proj1 (control_facts o) (rw_ran w) He)).
Qed.

(** no await raises: initialized, running, finished -- each once, under one run number and
    script -- for EVERY outcome of the child and EVERY exit code *)
Theorem run_info_once : forall w,
  exists d, data_run w (FS.trace []) = Ok d /\ d_raised d = None /\ d_eff d = full_record w.
Proof.
  intros w. destruct (run_info_exact w []) as (d & H1 & H2 & H3). exists d. split; [exact H1 | split; [exact H2 | ]].
  rewrite H3. unfold expected_pubs, full_record, hook_ran.
  destruct quiet_trace_calls as (E1 & E2 & E3 & E4 & _). rewrite E1, E2, E3, E4. destruct (rw_ran w); reflexivity.
Qed.

(** ---- (3) the finished record carries the outcome of THIS run, and result() /
    format_exception() report the same afterwards *)
Theorem result_matches : forall w o,
  hook_ran (rw_ran w) CS.EndRunHook (FS.trace o) = true ->
  exists d, data_run w (FS.trace o) = Ok d /\
    In (rec_finished w (spec_result (rw_child w)) (spec_exception (rw_child w))) (d_eff d) /\
    api d "result" = Ok (spec_value (rw_child w)) /\
    api d "format_exception" = Ok (spec_exception (rw_child w)) /\
    spec_result (rw_child w) = VJson (spec_value (rw_child w)).
Proof.
  intros w o He. destruct (proj1 (control_facts o) (rw_ran w) He) as (_ & Hi & Ha).
  exact (matches_gen w _ (every_run_good w o) He Hi Ha).
Qed.

(** empty when the process died (any exit code), or when spawned.main itself raised *)
Theorem result_empty_when_died : forall w o,
  rw_child w = ChDied \/ (exists e, rw_child w = ChRaised e) ->
  hook_ran (rw_ran w) CS.EndRunHook (FS.trace o) = true ->
  exists d, data_run w (FS.trace o) = Ok d /\
    In (rec_finished w (VJson VNone) (VStr "")) (d_eff d) /\
    api d "result" = Ok VNone /\ api d "format_exception" = Ok (VStr "").
Proof.
  intros w o Hd He. destruct (result_matches w o He) as (d & H1 & H2 & H3 & H4 & _). exists d.
  destruct Hd as [Hd | (e & Hd)]; rewrite Hd in *; auto.
Qed.

(** the run never got as far as an awaited process: nothing is reported for it *)
Theorem result_none_when_not_awaited : forall w o,
  FS.called CS.InitSession (FS.trace o) = true -> FS.returned CS.AwaitProcess (FS.trace o) = false ->
  exists d, data_run w (FS.trace o) = Ok d /\ api d "result" = Ok VNone /\ api d "format_exception" = Ok VNone.
Proof. intros w o Hi Ha. exact (none_gen w _ (every_run_good w o) Hi Ha). Qed.

(** ---- (3') CANCELLATION / an exception at the two awaits that end a run.  In both cases
    Callback._run still runs `_finish` ([run_finished_set_once_last]): the state becomes
    `finished` and the waiters return -- but the RECORD of the run is never closed.

    (i) at `await context.running_process` (the await raises -- a CancelledError delivered to the
    run task, or, before seed C02-4 was excluded by [await_never_raises], its own code): the
    record stops at `running`; result() / format_exception() report None *)
Theorem cancelled_at_process_wait : forall w o,
  FS.called CS.AwaitProcess (FS.trace o) = true -> FS.returned CS.AwaitProcess (FS.trace o) = false ->
  exists d, data_run w (FS.trace o) = Ok d /\ d_eff d = [rec_initialized w; rec_running w] /\
    api d "result" = Ok VNone /\ api d "format_exception" = Ok VNone /\
    FS.called CS.EndRunHook (FS.trace o) = false.
Proof.
  intros w o Hc Hr. destruct (proj1 (proj2 (control_facts o)) Hc) as (Hs & Hs' & Hi).
  destruct (none_gen w _ (every_run_good w o) Hi Hr) as (d & H1 & A1 & A2).
  destruct (run_info_exact w o) as (d' & H1' & _ & H3). rewrite H1 in H1'. inversion H1'; subst d'.
  assert (He : FS.called CS.EndRunHook (FS.trace o) = false).
  { destruct (FS.called CS.EndRunHook (FS.trace o)) eqn:E; [ | reflexivity].
    destruct (proj1 (control_facts o) true E) as (_ & _ & X). rewrite Hr in X. discriminate X. }
  assert (Hre : FS.returned CS.EndRunHook (FS.trace o) = false).
  { destruct (FS.returned CS.EndRunHook (FS.trace o)) eqn:E; [ | reflexivity].
    destruct (proj1 (control_facts o) false E) as (_ & _ & X). rewrite Hr in X. discriminate X. }
  exists d. split; [exact H1 | ]. split; [ | auto].
  rewrite H3. unfold expected_pubs, hook_ran. rewrite Hs, Hs', He, Hre. destruct (rw_ran w); reflexivity.
Qed.

(** (ii) inside `_on_end_run`, at `await context.hook.ahook.on_end_run(...)`: when the
    implementations had not had their first step ([rw_ran w = false]: cancellation), the record
    stops at `running` although result() / format_exception() already report the outcome; when
    they had run (a user plugin raised afterwards), the record is closed ([result_matches]) *)
Theorem cancelled_in_on_end_run : forall w o,
  FS.called CS.EndRunHook (FS.trace o) = true -> FS.returned CS.EndRunHook (FS.trace o) = false -> rw_ran w = false ->
  exists d, data_run w (FS.trace o) = Ok d /\ d_eff d = [rec_initialized w; rec_running w] /\
    api d "result" = Ok (spec_value (rw_child w)) /\ api d "format_exception" = Ok (spec_exception (rw_child w)).
Proof.
  intros w o Hc Hr Hran. destruct (proj1 (control_facts o) true Hc) as (_ & Hi & Ha).
  pose proof (proj2 (proj2 (control_facts o)) Hc) as Hs.
  destruct (api_gen w _ (every_run_good w o) Hi Ha) as (d & H1 & A1 & A2).
  destruct (run_info_exact w o) as (d' & H1' & _ & H3). rewrite H1 in H1'. inversion H1'; subst d'.
  exists d. split; [exact H1 | ]. split; [ | auto].
  rewrite H3. unfold expected_pubs, hook_ran. rewrite Hran, Hs, Hr. reflexivity.
Qed.

(** ---- (4) awaiting the process handle: RunningProcess.__await__ with _log_exited, for
    EVERY result (a, b) of the task, EVERY exit code, in the dict or not: it does not raise and
    yields ExitedProcess(returned=a, raised=b)  (Proc/Model.v: [Yields (mkExited a b ..)]) *)
Definition await_handle (a b : val) (code : Z) (look : bool) : res val :=
  h <- handle_of (VTuple [a; b]) code ;;
  p <- eval prog (mkWorld h look true) FUEL (mkCfg [("h", h)] [] []) (EAwaitHandle (EName "h")) ;; Ok (fst p).

Theorem await_never_raises : forall a b code look,
  await_handle a b code look =
  Ok (VObj "ExitedProcess" [("returned", a); ("raised", b); ("process", process_of code);
                            ("process_created_at", VTime true); ("process_exited_at", VTime true)]).
Proof.
  intros a b code look. destruct code as [|p|p]; [ | destruct look | destruct look ]; vm_compute; reflexivity.
Qed.

(** the same fact inside a run: the data of `context.exited_process = await context.running_process`
    never raises by itself ([d_raised] in [every_run_good]); spelled out for the control point *)
Theorem await_in_run_never_raises : forall w o,
  exists d, data_run w (FS.trace o) = Ok d /\ d_raised d = None.
Proof. intros w o. destruct (run_info_exact w o) as (d & H1 & H2 & _). eauto. Qed.

(** what [task_result] rests on (Proc/Model.v, C17: run_in_process._run and the worker's wrapper
    `_call`, regenerated into Gen/RunSkeleton.v): the asyncio task awaited by __await__ never
    raises -- whatever the function raised travels as data -- and when it completes it returns a
    pair that has one of the three shapes of [child]: (value, None), (None, exception), (None, None) *)
Module PM := NL.Proc.Model.
Module PP := NL.Proc.Proofs.
Module RS := NL.Gen.RunSkeleton.

Definition task_shape (ch : child) : bool * bool :=
  match ch with ChReturned _ _ => (true, false) | ChRaised _ => (false, true) | ChDied => (false, false) end.

Definition is_some {A : Type} (x : option A) : bool := match x with Some _ => true | None => false end.

Theorem task_of_run_in_process : forall w,
  PM.run_prog = RS.run_skeleton /\ PM.call_prog = RS.call_skeleton /\ PM.await_prog = RS.await_skeleton /\
  (forall e, PM.run_task w <> PM.TRaised e) /\ PM.run_task w <> PM.TNoReturn /\
  (forall r e, PM.run_task w = PM.TDone r e ->
     exists ch, (is_some r, is_some e) = task_shape ch /\ (PM.process_died w = true -> ch = ChDied)).
Proof.
  intros w. split; [exact PP.tie_run | ]. split; [exact PP.tie_call | ]. split; [exact PP.tie_await | ].
  rewrite PP.run_task_exact. destruct (PP.stuck w); (split; [intros e; discriminate | split; [discriminate | ]]).
  - intros r e H. discriminate H.
  - intros r e H. inversion H; subst; clear H. unfold PM.process_died.
    destruct (PM.ans w) as [v | x | x]; [ | | destruct x].
    + exists (ChReturned VNone None). split; [reflexivity | discriminate].
    + exists (ChRaised 0). split; [reflexivity | discriminate].
    + exists ChDied. split; reflexivity.
    + exists (ChRaised 0). split; [reflexivity | discriminate].
    + exists (ChRaised 0). split; [reflexivity | discriminate].
    + exists (ChRaised 0). split; [reflexivity | discriminate].
    + exists (ChRaised 0). split; [reflexivity | discriminate].
Qed.

(** what the interpreter tells apart: the same method with `d[k]` in place of `d.get(k)` raises
    KeyError for an exit code that is not a key of the dict (seed C02-4) *)
Definition log_exited_indexing : method :=
  mkMethod "RunningProcess" "_log_exited" ["exited_at"]
    [SAssign ["exitcode"] (EAttr (EAttr (EName "self") "process") "exitcode");
     SAssign ["exit_fmt"] (EFmt [EName "exitcode"]);
     SIf (EName "exitcode") [SAssign ["exit_fmt"] (EFmt [EName "exitcode"; EDictIndex "_exitcode_to_name" (EName "exitcode")])] []].

Definition prog_indexing : rprogram :=
  mkProgram classes
            (map (fun m => if String.eqb (m_cls m) "RunningProcess" && String.eqb (m_name m) "_log_exited"
                           then log_exited_indexing else m) methods)
            funcs session (p_plugins prog) (p_dict_values_truthy prog).

Example indexing_would_raise :
  (h <- handle_of (VTuple [VNone; VNone]) 3 ;;
   eval prog_indexing (mkWorld h false true) FUEL (mkCfg [("h", h)] [] []) (EAwaitHandle (EName "h"))) = Exn XKey
  /\ await_handle VNone VNone 3 false <> Exn XKey.
Proof. split; [vm_compute; reflexivity | vm_compute; discriminate]. Qed.

(** ---- the two translators agree on where the data statements sit: the control points of
    Gen/RunRecord.session are, in this order, the ones of Gen/CallbackSkeleton.session_skeleton,
    and a continuation ([Returned]) is attached to an await.
    LABEL: an agreement between two regenerated artefacts (both sides change with the source); the
    MEANING of a control point ([pos_of], [stmts_at] in Life/RecordRun.v: which data statements
    run at which act, what `SetRunArgNone` and `Finish` stand for) is hand-written. *)
Fixpoint acts_of (s : CS.stmt) : list (CS.act * bool) :=
  match s with
  | CS.Seq a b | CS.TryFinally a b => acts_of a ++ acts_of b
  | CS.Act a => [(a, false)]
  | CS.AwaitAct a => [(a, true)]
  | CS.WithCtx _ b => acts_of b
  | _ => []
  end.

Definition skeleton_positions : list (pos * bool) :=
  flat_map (fun x => match pos_of (fst x) with Some p => [(p, snd x)] | None => [] end) (acts_of CS.session_skeleton).

Theorem session_positions_agree :
  map (fun x => fst (fst x)) session = map fst skeleton_positions /\
  forallb (fun x => match x with
                    | (p, Returned, _) => existsb (fun y => pos_eqb p (fst y) && snd y) skeleton_positions
                    | _ => true
                    end) session = true.
Proof. vm_compute. split; reflexivity. Qed.

(** ---- (1) Callback: `_run_finished.set()` on every path out of `_finish` *)
Fixpoint strs_eqb (a b : list string) : bool :=
  match a, b with
  | [], [] => true
  | x :: a', y :: b' => String.eqb x y && strs_eqb a' b'
  | _, _ => false
  end.

Definition take (o : list bool) : bool * list bool := match o with [] => (false, []) | b :: r => (b, r) end.

(** events that are set; every await may raise (oracle, consumed in execution order; `async with`
    consumes one answer at entry and one at exit); (raised, events set, rest of the oracle) *)
Fixpoint cexec (fuel : nat) (l : list cstmt) (set : list (list string)) (o : list bool) {struct fuel}
  : bool * list (list string) * list bool :=
  match fuel with
  | O => (false, set, o)
  | S n =>
    match l with
    | [] => (false, set, o)
    | s :: rest =>
        let '(r, set1, o1) :=
          match s with
          | CbNewEvent t => (false, filter (fun x => negb (strs_eqb t x)) set, o)
          | CbSetEvent t => (false, t :: set, o)
          | CbWaitEvent _ | CbAwaitTask _ | CbAwaitHook _ | CbAwaitTrigger _ => let '(b, o') := take o in (b, set, o')
          | CbCreateTask _ _ | CbSetNone _ | CbAssignHook _ _ => (false, set, o)
          | CbCallSelf m => cexec n (cb_method m) set o
          | CbWithHook _ body =>
              let '(b, o') := take o in
              if b then (true, set, o')
              else let '(r1, s1, o1) := cexec n body set o' in
                   let '(b2, o2) := take o1 in (r1 || b2, s1, o2)
          | CbTryFinally a b =>
              let '(r1, s1, o1) := cexec n a set o in
              let '(r2, s2, o2) := cexec n b s1 o1 in (r1 || r2, s2, o2)
          | CbTryExceptAll a => let '(_, s1, o1) := cexec n a set o in (false, s1, o1)
          end in
        if r then (true, set1, o1) else cexec n rest set1 o1
    end
  end.

Definition is_set (t : list string) (x : bool * list (list string) * list bool) : bool :=
  existsb (strs_eqb t) (snd (fst x)).

Fixpoint sets (fuel : nat) (t : list string) (l : list cstmt) {struct fuel} : bool :=
  match fuel with
  | O => true
  | S n =>
      existsb (fun s => match s with
                        | CbSetEvent u => strs_eqb t u
                        | CbWithHook _ b | CbTryExceptAll b => sets n t b
                        | CbTryFinally a b => sets n t a || sets n t b
                        | _ => false
                        end) l
  end.

(** the event `wait_for_run_finish` (Imp.wait, close) waits for: created by start_run before the
    run task exists, set on EVERY path out of `_finish` and of `_run` whatever raises, set nowhere
    else; awaiting the run task in on_exit_finished never raises *)
Theorem run_finished_event :
  exists t, cb_method "wait_for_run_finish" = [CbWaitEvent t] /\
    (exists rest, cb_method "start_run" = CbNewEvent t :: rest) /\
    (forall o set, is_set t (cexec 20 (cb_method "_finish") set o) = true) /\
    (forall o set, is_set t (cexec 20 (cb_method "_run") set o) = true) /\
    forallb (fun m => String.eqb (fst m) "_finish" || negb (sets 20 t (snd m))) callback = true /\
    (forall o set, fst (fst (cexec 20 (cb_method "on_exit_finished") set o)) = false).
Proof.
  eexists. split; [reflexivity | ]. split; [eexists; reflexivity | ]. split; [ | split; [ | split]].
  - intros o set. destruct o as [|[|] r]; vm_compute; reflexivity.
  - intros o set. destruct o as [|[|] [|[|] [|[|] r]]]; vm_compute; reflexivity.
  - vm_compute. reflexivity.
  - intros o set. destruct o as [|[|] r]; vm_compute; reflexivity.
Qed.

(** this translation of Callback and translate/callback_skeleton.py agree.
    LABEL: agreement of two regenerated artefacts through the hand-written dictionary [erase1]
    (attribute names -> acts of the skeleton); callback_skeleton itself is a pin of leaf statements. *)
Definition erase1 (er : list cstmt -> option CS.stmt) (s : cstmt) : option CS.stmt :=
  match s with
  | CbNewEvent t => if strs_eqb t ["self"; "_run_finished"] then Some (CS.Act CS.NewRunFinished)
                    else if strs_eqb t ["started"] then Some (CS.Act CS.NewStarted) else None
  | CbCreateTask a c => if String.eqb a "_task_run" && String.eqb c "_run" then Some (CS.Act CS.CreateTaskRun) else None
  | CbWaitEvent t => if strs_eqb t ["started"] then Some (CS.AwaitAct CS.AwaitStarted) else None
  | CbSetEvent t => if strs_eqb t ["started"] then Some (CS.Act CS.SetStarted)
                    else if strs_eqb t ["self"; "_run_finished"] then Some (CS.Act CS.SetRunFinished) else None
  | CbCallSelf m => if String.eqb m "_finish" then Some CS.CallFinish else None
  | CbSetNone t => if strs_eqb t ["self"; "_context"; "run_arg"] then Some (CS.Act CS.SetRunArgNone) else None
  | CbAwaitTrigger t => if String.eqb t "finish" then Some (CS.AwaitAct CS.Finish) else None
  | CbWithHook h b => if String.eqb h "run" then option_map (CS.WithCtx CS.HookRun) (er b) else None
  | CbTryFinally a b => match er a, er b with Some x, Some y => Some (CS.TryFinally x y) | _, _ => None end
  | _ => None
  end.

Fixpoint erase (fuel : nat) (l : list cstmt) {struct fuel} : option CS.stmt :=
  match fuel with
  | O => None
  | S n =>
      match l with
      | [] => Some CS.Skip
      | [s] => erase1 (erase n) s
      | s :: r => match erase1 (erase n) s, erase n r with Some x, Some y => Some (CS.Seq x y) | _, _ => None end
      end
  end.

Theorem callback_translations_agree :
  erase 20 (cb_method "start_run") = Some CS.start_run_skeleton /\
  erase 20 (cb_method "_run") = Some CS.run_skeleton /\
  erase 20 (cb_method "_finish") = Some CS.finish_skeleton.
Proof. vm_compute. repeat split; reflexivity. Qed.

(** on the skeleton the lifecycle proofs use: every path out of `_finish` (the trigger raising or
    not) ends with the event set, and in the whole of `_run` it is set exactly once, last *)
Theorem finish_skeleton_sets : forall o,
  FS.acts (snd (fst (FS.exec CS.finish_skeleton o))) = [CS.SetRunArgNone; CS.Finish; CS.SetRunFinished].
Proof. intros o. destruct o as [|[|] r]; reflexivity. Qed.

Theorem run_finished_set_once_last : forall o,
  FS.run_arg_withdrawn_before_finished (FS.trace o) = true /\ FS.nothing_after_finished (FS.trace o) = true.
Proof. intros o. split; [apply FailStartProofs.run_arg_withdrawn | apply FailStartProofs.no_hook_after_finished]. Qed.

(** ---- tie to Life/Model.v: how the model publishes run_info and stores the result.
    LABEL: [model_initialized/running/finished] are facts about the hand-written model (by
    computation); [abs_pub] is a hand-written abstraction; [model_simulation] is a simulation of
    ONE quiet run (the three publishing steps), not an induction over label lists: the model has
    no label for a raising / cancelled await -- those runs are covered on the code side only
    ([every_run_good], [cancelled_at_process_wait], [cancelled_in_on_end_run]). *)
Definition ri_of (l : list M.event) : list M.pub :=
  flat_map (fun e => match e with M.EvPub (M.PRunInfo n ph st r) => [M.PRunInfo n ph st r] | _ => [] end) l.

Lemma model_initialized : forall s,
  ri_of (M.trace (M.initialize_run s)) = M.PRunInfo (M.c_next s) M.RInitialized (M.c_stmt s) None :: ri_of (M.trace s).
Proof. intros s. reflexivity. Qed.

Lemma model_running : forall s ra, M.runt s = Some M.RT_Created -> M.run_arg s = Some ra ->
  ri_of (M.trace (M.do_step_run s)) = M.PRunInfo (M.ra_no ra) M.RRunning (M.ra_stmt ra) None :: ri_of (M.trace s).
Proof. intros s ra H1 H2. unfold M.do_step_run. rewrite H1. cbn. rewrite H2. reflexivity. Qed.

Lemma model_finished : forall s ra o, M.runt s = Some M.RT_WaitChild -> M.run_call_pending s = false ->
  M.pending_exit s = Some o -> M.run_arg s = Some ra ->
  ri_of (M.trace (M.do_step_run s)) = M.PRunInfo (M.ra_no ra) M.RFinished (M.ra_stmt ra) (Some o) :: ri_of (M.trace s) /\
  M.exited_proc (M.do_step_run s) = Some o.
Proof.
  intros s ra o H1 H2 H3 H4. unfold M.do_step_run. rewrite H1, H2, H3. cbn. rewrite H4. split; reflexivity.
Qed.

Definition phase_of (s : string) : option M.rphase :=
  if String.eqb s "initialized" then Some M.RInitialized
  else if String.eqb s "running" then Some M.RRunning
  else if String.eqb s "finished" then Some M.RFinished else None.

(** a published RunInfo as the model sees it: [sid] names scripts, [o] is the model's token for
    the outcome; the model's record carries a result iff the RunInfo has result / exception *)
Definition abs_pub (sid : val -> Z) (o : M.outcome) (p : string * val) : option M.pub :=
  match p with
  | (topic, VObj cls fs) =>
      if String.eqb topic "run_info" && String.eqb cls "RunInfo" then
        match lookup fs "run_no", lookup fs "state", lookup fs "script", lookup fs "result", lookup fs "exception" with
        | Some (VInt n), Some (VStr st), Some sc, Some r, Some x =>
            match phase_of st with
            | Some ph => Some (M.PRunInfo n ph (sid sc) (if is_none r && is_none x then None else Some o))
            | None => None
            end
        | _, _, _, _, _ => None
        end
      else None
  | _ => None
  end.

Definition script_val (w : run_world) : val := match rw_script w with Some s => VStr s | None => VNone end.

Lemma abs_full_record : forall w sid o,
  map (abs_pub sid o) (full_record w) =
  [Some (M.PRunInfo (rw_no w) M.RInitialized (sid (script_val w)) None);
   Some (M.PRunInfo (rw_no w) M.RRunning (sid (script_val w)) None);
   Some (M.PRunInfo (rw_no w) M.RFinished (sid (script_val w)) (Some o))].
Proof. intros w sid o. destruct w as [ch code look no script prev ran]. destruct ch as [ret [e|] | e | ]; reflexivity. Qed.

(** SIMULATION of one run: the publications of the regenerated code, seen through [abs_pub], are
    exactly the run_info publications that the model's initialize_run, its RT_Created step and
    its RT_WaitChild step add (same run number, same script, result only on the last); and where
    the model stores the outcome token in exited_proc (what result()/format_exception() read),
    the code's result()/format_exception() report what its finished record shows *)
Theorem model_simulation : forall w sid o (s1 s2 s3 : M.state) ra,
  rw_no w = M.ra_no ra -> sid (script_val w) = M.ra_stmt ra ->
  M.c_next s1 = M.ra_no ra -> M.c_stmt s1 = M.ra_stmt ra ->
  M.runt s2 = Some M.RT_Created -> M.run_arg s2 = Some ra ->
  M.runt s3 = Some M.RT_WaitChild -> M.run_call_pending s3 = false -> M.pending_exit s3 = Some o -> M.run_arg s3 = Some ra ->
  exists d, data_run w (FS.trace []) = Ok d /\
    map (abs_pub sid o) (d_eff d) =
      [hd_error (ri_of (M.trace (M.initialize_run s1)));
       hd_error (ri_of (M.trace (M.do_step_run s2)));
       hd_error (ri_of (M.trace (M.do_step_run s3)))] /\
    M.exited_proc (M.do_step_run s3) = Some o /\
    exists res exc, nth_error (d_eff d) 2 = Some (rec_finished w res exc) /\
      api d "format_exception" = Ok exc /\ (r <- api d "result" ;; Ok (VJson r)) = Ok res.
Proof.
  intros w sid o s1 s2 s3 ra Hn Hs A1 A2 B1 B2 C1 C2 C3 C4.
  destruct (run_info_once w) as (d & H1 & _ & H3).
  assert (Hq : hook_ran (rw_ran w) CS.EndRunHook (FS.trace []) = true).
  { unfold hook_ran. destruct quiet_trace_calls as (_ & E2 & _ & E4 & _). rewrite E2, E4. destruct (rw_ran w); reflexivity. }
  destruct (result_matches w [] Hq) as (d' & H1' & _ & R1 & R2 & R3).
  rewrite H1 in H1'. inversion H1'; subst d'. clear H1'.
  exists d. split; [exact H1 | ]. split; [ | split].
  - rewrite H3, abs_full_record, model_initialized, (model_running s2 ra B1 B2).
    rewrite (proj1 (model_finished s3 ra o C1 C2 C3 C4)). rewrite Hn, Hs, A1, A2. reflexivity.
  - exact (proj2 (model_finished s3 ra o C1 C2 C3 C4)).
  - exists (spec_result (rw_child w)), (spec_exception (rw_child w)). rewrite H3. split; [reflexivity | ].
    split; [exact R2 | ]. rewrite R1. cbn [bind]. rewrite R3. reflexivity.
Qed.

(** non-vacuity: a concrete world (the process died with exit code 3, os._exit(3)) *)
Example example_died_exit_3 :
  let w := mkRun ChDied 3 false 1 (Some "import os; os._exit(3)") VNone true in
  (d <- data_run w (FS.trace []) ;; r <- api d "result" ;; f <- api d "format_exception" ;; Ok (d_eff d, r, f))
  = Ok ([rec_initialized w; rec_running w; rec_finished w (VJson VNone) (VStr "")], VNone, VStr "").
Proof. vm_compute. reflexivity. Qed.

(** ... and an interrupted run whose process wait is itself cancelled (oracle: the await of the
    process raises): the record stops at `running`, nothing is reported *)
Example example_wait_cancelled :
  let w := mkRun ChDied (-2) true 1 None VNone false in
  let t := FS.trace [false; false; false; true] in
  FS.called CS.AwaitProcess t = true /\ FS.returned CS.AwaitProcess t = false /\
  (d <- data_run w t ;; f <- api d "format_exception" ;; Ok (d_eff d, f))
  = Ok ([rec_initialized w; rec_running w], VNone).
Proof. vm_compute. repeat split; reflexivity. Qed.

(** ... and a cancellation inside `_on_end_run` before the hook implementations had a step
    (oracle: the 8th await -- on_end_run -- raises; [rw_ran] false): the outcome is reported by
    result()/format_exception() but the record stays at `running` *)
Example example_cancelled_in_on_end_run :
  let w := mkRun (ChReturned (VOpaque 5) None) 0 false 1 None VNone false in
  let t := FS.trace [false; false; false; false; false; false; false; true] in
  FS.called CS.EndRunHook t = true /\ FS.returned CS.EndRunHook t = false /\
  FS.count CS.SetRunFinished (FS.acts t) = 1%nat /\
  (d <- data_run w t ;; r <- api d "result" ;; Ok (d_eff d, r))
  = Ok ([rec_initialized w; rec_running w], VOpaque 5).
Proof. vm_compute. repeat split; reflexivity. Qed.
