(** Statement AST of the API methods of nextline/imp.py (class Imp) and nextline/main.py
    (class Nextline).  The terms are GENERATED (Gen/ImpSkeleton.v, by translate/imp_skeleton.py,
    from the current source at every check); the semantics and the obligations are in
    Life/ImpTie.v.  Definitions only. *)
From Coq Require Import String List Bool.
Import ListNotations.

(** `await self._machine.<trigger>(...)` *)
Inductive trig := TRun | TReset | TAopen | TAclose | TInitialize | TFinish | TClose.

(** the object a called method belongs to *)
Inductive obj := OImp | ONextline | OContinuous.

(** `Nextline._started`, `Nextline._closed` *)
Inductive flag := FStarted | FClosed.

Inductive guard :=
| GFlag (f : flag)                (* if self._started / if self._closed *)
| GStateIs (s : string)           (* if self._machine.state == '<s>' *)
| GOther (src : string).          (* a condition that reads nothing tracked: either way *)

Inductive stmt :=
| Skip
| Seq (a b : stmt)
| WithLock (body : stmt)          (* async with self._lock: body *)
| If (g : guard) (th el : stmt)
| Return                          (* return [value]; an awaited/tracked call in the value comes first *)
| Raise
| SetFlag (f : flag) (v : bool)   (* self._started = True *)
| Trigger (t : trig)              (* await self._machine.<t>(...) *)
| PubSubClose                     (* await self.pubsub.close() *)
| WaitRunFinish                   (* await self._callback.wait_for_run_finish() *)
| Hook (async : bool) (name : string)   (* [await] self._hook.(a)hook.<name>(...) *)
| AwaitOther (src : string)       (* an await of something untracked: a suspension point that may raise *)
| Call (o : obj) (m : string)     (* [await] <o>.<m>(...) *)
| TryFinally (body fin : stmt)
| TryExcept (body handler : stmt)  (* try: body  except BaseException: handler   (`raise` in it = Raise) *)
| WaitFor (body : stmt)            (* await asyncio.wait_for(<body>, timeout=...) *)
| Yield                           (* the `yield` of an asynccontextmanager *)
| WithCall (o : obj) (m : string) (body : stmt).   (* async with <o>.<m>(...): body *)

Definition trig_eqb (a b : trig) : bool :=
  match a, b with
  | TRun, TRun | TReset, TReset | TAopen, TAopen | TAclose, TAclose
  | TInitialize, TInitialize | TFinish, TFinish | TClose, TClose => true
  | _, _ => false
  end.

Definition flag_eqb (a b : flag) : bool :=
  match a, b with FStarted, FStarted | FClosed, FClosed => true | _, _ => false end.

Fixpoint assoc {A} (k : string) (l : list (string * A)) : option A :=
  match l with
  | [] => None
  | (k', v) :: r => if String.eqb k k' then Some v else assoc k r
  end.

(** the body of an asynccontextmanager with the body of the `async with` put at its `yield`
    (an exception of the body is thrown in there) *)
Fixpoint subst_yield (g body : stmt) : stmt :=
  match g with
  | Yield => body
  | Seq a b => Seq (subst_yield a body) (subst_yield b body)
  | WithLock a => WithLock (subst_yield a body)
  | If c a b => If c (subst_yield a body) (subst_yield b body)
  | TryFinally a b => TryFinally (subst_yield a body) (subst_yield b body)
  | TryExcept a b => TryExcept (subst_yield a body) (subst_yield b body)
  | WaitFor a => WaitFor (subst_yield a body)
  | WithCall o m a => WithCall o m (subst_yield a body)
  | x => x
  end.
