(** C02: the RECORD of a run, on the code REGENERATED from /repo at every check: DEFINITIONS
    (the data of a run along a trace of control points, the specification) and the proof method;
    the theorems are in Life/RecordTie.v (the case analysis on the child is split over
    Life/RecordRun{A,B,C,D}.v so that it builds in parallel).

    Control flow: Gen/CallbackSkeleton.v (Callback._run/_finish, RunSession.run, relay_events)
    under the semantics of Life/FailStart.v: every await may raise, decided by an oracle.
    Data: Gen/RunRecord.v (the statements that keep the record: RunInfoRegistrar's hooks, the
    bookkeeping of RunSession.run, _on_start_run/_on_end_run, RunningProcess.__await__ with
    _log_exited, RunResult, Result, Imp/Nextline.result()/format_exception()) under the
    interpreter of Life/RecordInterp.v.

    A run = the trace of control points of one execution of `Callback._run` ([FS.trace o], o the
    oracle) + the data statements of each control point executed in that order ([data_run]):
    the statements of an atomic segment are keyed by its control point (Gen/RunRecord.session);
    the continuation of an await (`x = await ...`) runs only if the await returned.

    The child is abstract ([child]): spawned.main returned a RunResult built from (ret, exc) /
    spawned.main raised (the exception travels as data) / nothing came back because the process
    died -- with ANY exit code (negative: a signal; positive: os._exit(n); zero) and whether or
    not that exit code is a key of the module-level dict `_exitcode_to_name`.

    CANCELLATION.  "An await raises" covers an exception out of the awaited thing AND a
    CancelledError delivered to the run task while it is suspended there.  For an awaited HOOK the
    two differ in the data: apluggy gathers the implementations as tasks, so a cancellation that
    arrives before they had their first step means NO implementation ran (DESIGN 4.2 "hook
    window"), whereas a raising user plugin leaves the built-in implementations run.  [rw_ran]
    says which: the implementations of a hook call whose await raised had run / had not. *)
From Coq Require Import List String ZArith Bool Arith Lia.
From NL Require Import Life.RecordSyntax Life.RecordInterp Gen.RunRecord.
From NL Require Life.FailStart Life.Model.
Import ListNotations.
Local Open Scope string_scope.

Module FS := NL.Life.FailStart.
Module CS := NL.Gen.CallbackSkeleton.
Module M := NL.Life.Model.

(** ---- the world of one run *)
Inductive child :=
| ChReturned (ret : val) (exc : option nat)   (* spawned.main returned RunResult(ret=ret, exc=exc); an exception is opaque *)
| ChRaised (e : nat)                          (* spawned.main raised: (None, e) *)
| ChDied.                                     (* the process died: (None, None) *)

Record run_world := mkRun {
  rw_child : child;
  rw_code : Z;                   (* Process.exitcode *)
  rw_look : bool;                (* rw_code is a key of _exitcode_to_name *)
  rw_no : Z;                     (* the run number composed for this run *)
  rw_script : option string;     (* the statement when it is a str; None: a path, a code object, a callable *)
  rw_prev : val;                 (* Context.exited_process left by whatever happened before *)
  rw_ran : bool                  (* a hook call whose await raised: its implementations had run *)
}.

Definition W0 : world := mkWorld VNone false true.
Definition cfg0 : cfg := mkCfg [] [] [].

(** the RunResult as built in the child by the same class *)
Definition exn_val (e : nat) : val := VOpaque (S e).

Definition child_result (ret : val) (exc : option nat) : res val :=
  p <- eval prog W0 FUEL (mkCfg [("r", ret); ("x", match exc with Some e => exn_val e | None => VNone end)] [] [])
         (ENew "RunResult" [("ret", EName "r"); ("exc", EName "x")]) ;;
  Ok (fst p).

(** the result of the asyncio task of run_in_process (Proc/Model.v: [TDone ret exc]) *)
Definition task_result (ch : child) : res val :=
  match ch with
  | ChReturned ret exc => r <- child_result ret exc ;; Ok (VTuple [r; VNone])
  | ChRaised e => Ok (VTuple [VNone; exn_val e])
  | ChDied => Ok (VTuple [VNone; VNone])
  end.

Definition process_of (code : Z) : val := VObj "Process" [("exitcode", VInt code); ("pid", VInt 4242)].

(** run_in_process: `RunningProcess[_T](process=process, task=task)` (pinned by translate/run_skeleton.py),
    built by the translated __init__ *)
Definition handle_of (task : val) (code : Z) : res val :=
  p <- eval prog W0 FUEL (mkCfg [("p", process_of code); ("t", task)] [] [])
         (ENew "RunningProcess" [("process", EName "p"); ("task", EName "t")]) ;;
  Ok (fst p).

Definition world_of (w : run_world) : res world :=
  t <- task_result (rw_child w) ;; h <- handle_of t (rw_code w) ;; Ok (mkWorld h (rw_look w) true).

Definition statement_of (w : run_world) : val :=
  match rw_script w with Some s => VStr s | None => VOpaque 1 end.

(** what the hook compose_run_arg returns (RunArgComposer; Life/ArgTie.v) *)
Definition run_arg_of (w : run_world) : res val :=
  p <- eval prog W0 FUEL (mkCfg [("n", VInt (rw_no w)); ("s", statement_of w)] [] [])
         (ENew "RunArg" [("run_no", EName "n"); ("statement", EName "s")]) ;;
  Ok (fst p).

(** ---- the data state of a run *)
Record dstate := mkD {
  d_ctx : val;                         (* the Context: run_arg, running_process, exited_process *)
  d_plug : list (string * val);        (* RunInfoRegistrar, Result *)
  d_eff : list (string * val);         (* publications, oldest first *)
  d_raised : option (CS.act * xkind)   (* a data statement raised BY ITSELF at this control point *)
}.

Definition run_stmts (W : world) (d : dstate) (a : CS.act) (body : list stmt) : dstate :=
  match d_raised d with
  | Some _ => d
  | None =>
      match exec_list (exec prog W FUEL) (mkCfg [("context", d_ctx d)] (d_plug d) (d_eff d)) body with
      | Ok (_, c) =>
          mkD (match lookup (c_env c) "context" with Some x => x | None => d_ctx d end) (c_plug c) (c_eff c) None
      | Exn k => mkD (d_ctx d) (d_plug d) (d_eff d) (Some (a, k))
      end
  end.

(** the Callback statements that touch the data: `self._context.<a> = None`,
    `self._context.<a> = self._hook.hook.<h>(...)` (compose_run_arg), `await self._hook.ahook.<h>(context=...)` *)
Definition cb_data (s : cstmt) : list stmt :=
  match s with
  | CbSetNone ("self" :: "_context" :: path) => [SAssign ("context" :: path) ENone]
  | CbAssignHook ("self" :: "_context" :: path) "compose_run_arg" => [SAssign ("context" :: path) (EName "composed")]
  | CbAwaitHook h => [SAwaitHook h [("context", EName "context")]]
  | _ => []
  end.

Definition cb_method (m : string) : list cstmt :=
  match lookup callback m with Some b => b | None => [] end.

Fixpoint cb_flat1 (s : cstmt) : list cstmt :=
  match s with
  | CbTryFinally a b => flat_map cb_flat1 a ++ flat_map cb_flat1 b
  | x => [x]
  end.
Definition cb_flat (l : list cstmt) : list cstmt := flat_map cb_flat1 l.

Definition pos_of (a : CS.act) : option pos :=
  match a with
  | CS.InitSession => Some PInitSession | CS.Spawn => Some PSpawn | CS.StartRunHook => Some PStartRunHook
  | CS.AwaitProcess => Some PAwaitProcess | CS.SetExited => Some PSetExited | CS.EndRunHook => Some PEndRunHook
  | _ => None
  end.

Definition pos_eqb (a b : pos) : bool :=
  match a, b with
  | PInitSession, PInitSession | PSpawn, PSpawn | PStartRunHook, PStartRunHook | PAwaitProcess, PAwaitProcess
  | PSetExited, PSetExited | PEndRunHook, PEndRunHook => true
  | _, _ => false
  end.

Definition segment (p : pos) (ok : bool) : list stmt :=
  flat_map (fun x => match x with
                     | (p', wh, body) =>
                         if pos_eqb p p' && (match wh with Reached => true | Returned => ok end) then body else []
                     end) session.

(** the data statements of one control point of the trace *)
Definition stmts_at (e : FS.ev) : list stmt :=
  match e with
  | FS.Ev a ok =>
      match a with
      | CS.SetRunArgNone =>
          flat_map (fun s => match s with CbSetNone _ => cb_data s | _ => [] end) (cb_flat (cb_method "_finish"))
      | CS.Finish =>
          (* the trigger `finish` enters `finished`: Callback.finish (Gen/MachineCallbacks.v) *)
          flat_map cb_data (cb_method "finish")
      | _ => match pos_of a with Some p => segment p ok | None => [] end
      end
  end.

(** the hook implementations run unless the await raised and [ran] says they had not *)
Definition step_ev (W : world) (ran : bool) (d : dstate) (e : FS.ev) : dstate :=
  match e with FS.Ev a ok => run_stmts (mkWorld (w_handle W) (w_look W) (ok || ran)) d a (stmts_at e) end.

(** the plugin instances as constructed at registration *)
Definition plugins0 : res (list (string * val)) :=
  (fix go (l : list string) : res (list (string * val)) :=
     match l with
     | [] => Ok []
     | cls :: r =>
         p <- eval prog W0 FUEL cfg0 (ENew cls []) ;;
         rest <- go r ;;
         Ok ((cls, fst p) :: rest)
     end) (p_plugins prog).

(** Callback.initialize_run (start / reset): compose the run argument, on_initialize_run *)
Definition init_run (w : run_world) : res dstate :=
  W <- world_of w ;;
  pl <- plugins0 ;;
  ra <- run_arg_of w ;;
  let ctx := VObj "Context" [("run_arg", VNone); ("running_process", VNone); ("exited_process", rw_prev w)] in
  match exec_list (exec prog W FUEL) (mkCfg [("context", ctx); ("composed", ra)] pl [])
                  (flat_map cb_data (cb_method "initialize_run")) with
  | Ok (_, c) => Ok (mkD (match lookup (c_env c) "context" with Some x => x | None => ctx end) (c_plug c) (c_eff c) None)
  | Exn k => Exn k
  end.

(** the data of a whole run along a trace of control points *)
Definition data_run (w : run_world) (t : list FS.ev) : res dstate :=
  W <- world_of w ;;
  d0 <- init_run w ;;
  Ok (fold_left (step_ev W (rw_ran w)) t d0).

(** ---- afterwards: Nextline.result() / Nextline.format_exception() *)
Definition api (d : dstate) (m : string) : res val :=
  let nl := VObj "Nextline" [("_imp", VObj "Imp" [("_context", d_ctx d)])] in
  r <- call_method prog W0 FUEL (mkCfg [] (d_plug d) []) nl m [] ;;
  Ok (fst (fst r)).

(** ---- the specification, a function of the world and of the history alone *)
Definition run_info (w : run_world) (state : string) (result exception started ended : val) : string * val :=
  ("run_info", VObj "RunInfo" [("run_no", VInt (rw_no w)); ("state", VStr state);
                               ("script", match rw_script w with Some s => VStr s | None => VNone end);
                               ("result", result); ("exception", exception);
                               ("started_at", started); ("ended_at", ended)]).

Definition rec_initialized (w : run_world) := run_info w "initialized" VNone VNone VNone VNone.
Definition rec_running (w : run_world) := run_info w "running" VNone VNone (VTime false) VNone.
Definition rec_finished (w : run_world) (result exception : val) :=
  run_info w "finished" result exception (VTime false) (VTime false).

(** the implementations of the hook awaited at [a] ran: the await returned, or it raised after they had run *)
Definition hook_ran (ran : bool) (a : CS.act) (t : list FS.ev) : bool :=
  if ran then FS.called a t else FS.returned a t.

(** the outcome of the run as the child produced it; nothing when no result came back *)
Definition spec_result (ch : child) : val :=            (* the formatted result *)
  match ch with ChReturned ret _ => VJson ret | _ => VJson VNone end.
Definition spec_exception (ch : child) : val :=         (* the formatted exception *)
  match ch with ChReturned _ (Some e) => VTb (exn_val e) | _ => VStr "" end.
Definition spec_value (ch : child) : val :=             (* the value result() reports *)
  match ch with ChReturned ret _ => ret | _ => VNone end.

Definition expected_pubs (w : run_world) (t : list FS.ev) : list (string * val) :=
  [rec_initialized w]
  ++ (if hook_ran (rw_ran w) CS.StartRunHook t then [rec_running w] else [])
  ++ (if hook_ran (rw_ran w) CS.EndRunHook t then [rec_finished w (spec_result (rw_child w)) (spec_exception (rw_child w))] else []).

(** what result() / format_exception() report after the run task has ended (the session was entered) *)
Definition expected_api (w : run_world) (t : list FS.ev) : val * val :=
  if FS.returned CS.AwaitProcess t then (spec_value (rw_child w), spec_exception (rw_child w))
  else (VNone, VNone).       (* context.exited_process = None at the start of the session *)

Definition good_run (w : run_world) (t : list FS.ev) : Prop :=
  match data_run w t with
  | Ok d =>
      d_raised d = None /\
      d_eff d = expected_pubs w t /\
      (if FS.called CS.InitSession t
       then api d "result" = Ok (fst (expected_api w t)) /\ api d "format_exception" = Ok (snd (expected_api w t))
       else True)
  | Exn _ => False
  end.

(** ---- every oracle: a property of all the finitely many traces *)
Lemma forall_oracles_P : forall (Q : list FS.ev -> Prop),
  Forall (fun x => Q (snd x)) (FS.outcomes FS.program) -> forall o, Q (FS.trace o).
Proof.
  intros Q H o. rewrite Forall_forall in H. unfold FS.trace.
  apply (H (fst (FS.exec FS.program o))). apply FS.exec_in_outcomes.
Qed.

Definition all_traces : list (list FS.ev) := map snd (FS.outcomes FS.program).

Lemma forall_traces : forall (Q : list FS.ev -> Prop), Forall Q all_traces -> forall o, Q (FS.trace o).
Proof.
  intros Q H. apply forall_oracles_P. unfold all_traces in H. rewrite Forall_map in H. exact H.
Qed.

Ltac explode_traces :=
  let l := eval vm_compute in all_traces in
  replace all_traces with l by (vm_compute; reflexivity).

(* the exit code: zero (then the dict is not consulted: [look] stays symbolic), positive, negative *)
Ltac split_rest code look script ran :=
  destruct ran; destruct script as [s|]; (destruct code as [|p|p]; [ | destruct look | destruct look ]).

Ltac one_trace :=
  vm_compute; refine (conj eq_refl (conj eq_refl _)); first [ exact I | exact (conj eq_refl eq_refl) ].

Ltac all_traces_good code look script ran :=
  apply forall_traces; explode_traces;
  split_rest code look script ran; repeat (apply Forall_cons; [one_trace | ]); apply Forall_nil.

